import Driver.SborIO
/-! Line-protocol driver of the SBOR model (ops `trav dec enc …`), area c21. -/
def main : IO Unit := Radix.Proto.run Radix.SborIO.stepLine ()
