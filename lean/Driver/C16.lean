import RadixModel.Util.Proto
import RadixModel.Util.Blake2b
import RadixModel.Model.KeyMapper
open Radix Radix.Proto Radix.KeyMapper

def H : Bytes → Bytes := Radix.Blake2b.blake2b256

def u8? (s : String) : Option UInt8 :=
  if s.length = 0 ∨ s.length > 3 ∨ !s.toList.all Char.isDigit then none else
  match s.toNat? with
  | some n => if n < 256 then some (UInt8.ofNat n) else none
  | none => none

def bytesN? (n : Nat) (s : String) : Option Bytes :=
  match unhex s with
  | some b => if b.length = n then some b else none
  | none => none

def showOpt (o : Option Bytes) : String :=
  match o with
  | some b => hex b
  | none => "panic"

def skey? : List String → Option SKey
  | ["f", f] => (u8? f).map .field
  | ["m", m] => (unhex m).map .map
  | ["s", p, k] =>
    match bytesN? 2 p, unhex k with
    | some p, some k => some (.sorted p k)
    | _, _ => none
  | _ => none

def stepLine (s : Unit) (line : String) : Unit × String :=
  (s, match words line with
  | ["node", n] =>
    match bytesN? NODE_LEN n with
    | some n => showOpt (toDbNodeKey H n)
    | none => "bad-op"
  | ["unnode", b] =>
    match unhex b with
    | some b => showOpt (fromDbNodeKey b)
    | none => "bad-op"
  | ["part", p] =>
    match u8? p with
    | some p => toString (toDbPartitionNum p).toNat
    | none => "bad-op"
  | ["field", f] =>
    match u8? f with
    | some f => hex (fieldToDbSortKey f)
    | none => "bad-op"
  | ["unfield", b] =>
    match unhex b with
    | some b => (match fieldFromDbSortKey b with | some f => toString f.toNat | none => "panic")
    | none => "bad-op"
  | ["map", m] =>
    match unhex m with
    | some m => showOpt (mapToDbSortKey H m)
    | none => "bad-op"
  | ["unmap", b] =>
    match unhex b with
    | some b => showOpt (mapFromDbSortKey b)
    | none => "bad-op"
  | ["sorted", p, k] =>
    match bytesN? 2 p, unhex k with
    | some p, some k => showOpt (sortedToDbSortKey H p k)
    | _, _ => "bad-op"
  | ["unsorted", b] =>
    match unhex b with
    | some b => (match sortedFromDbSortKey b with | some (p, k) => s!"{hex p} {hex k}" | none => "panic")
    | none => "bad-op"
  | ["cmp", p, k1, q, k2] =>
    match bytesN? 2 p, unhex k1, bytesN? 2 q, unhex k2 with
    | some p, some k1, some q, some k2 =>
      (match sortedToDbSortKey H p k1, sortedToDbSortKey H q k2 with
       | some a, some b => if lexLt a b then "lt" else if lexLt b a then "gt" else "eq"
       | _, _ => "panic")
    | _, _, _, _ => "bad-op"
  | "key" :: n :: pn :: rest =>
    match bytesN? NODE_LEN n, u8? pn, skey? rest with
    | some n, some pn, some k =>
      (match toDbKey H n pn k with
       | some (nk, p, sk) => s!"{hex nk} {p.toNat} {hex sk}"
       | none => "panic")
    | _, _, _ => "bad-op"
  | _ => "bad-op")

def main : IO Unit := run stepLine ()
