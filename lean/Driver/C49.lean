import RadixModel.Util.Proto
import RadixModel.Model.Limits
open Radix Radix.Proto Radix.Limits

structure St where
  cfg : Config
  cnt : Counters
  rt : Runtime

def cfg0 : Config := ⟨0, 0, 0, 0, 0, 0, 0, 0, 0, 0, 0⟩
def st0 : St := { cfg := cfg0, cnt := .zero, rt := ⟨true, true, 0, 0⟩ }

/-- all-or-nothing parse of decimal usize arguments -/
def nats : List String → Option (List Nat)
  | [] => some []
  | x :: xs => match x.toNat?, nats xs with
    | some n, some r => if n < USIZE then some (n :: r) else none
    | _, _ => none

def optNat (s : String) : Option (Option Nat) :=
  if s = "-" then some none else
  match s.toNat? with
  | some n => if n < USIZE then some (some n) else none
  | none => none

def showErr : Err → String
  | .keySize n => s!"err keysize {n}"
  | .valueSize n => s!"err valuesize {n}"
  | .invokeSize n => s!"err invokesize {n}"
  | .callDepth => "err calldepth"
  | .track a m => s!"err track {a} {m}"
  | .heap a m => s!"err heap {a} {m}"
  | .logSize a m => s!"err logsize {a} {m}"
  | .eventSize a m => s!"err eventsize {a} {m}"
  | .panicSize a m => s!"err panicsize {a} {m}"
  | .tooManyLogs => "err toomanylogs"
  | .tooManyEvents => "err toomanyevents"

def showRes : Except Err Unit → String
  | .ok _ => "ok"
  | .error e => showErr e

def showIO : IOResult → String
  | .ok => "ok"
  | .err e => showErr e
  | .panic => "panic"

def parseKey (kind len : String) : Option SKey :=
  match len.toNat? with
  | none => none
  | some n =>
    -- the harness does not allocate keys above 2^24 bytes
    if n > 2 ^ 24 then none else
    if kind = "m" then some (.map n)
    else if kind = "s" then some (.sorted n)
    else if kind = "f" then (if n = 0 then some .field else none)
    else none

def parseBool (s : String) : Option Bool :=
  if s = "1" then some true else if s = "0" then some false else none

def stepLine (s : St) (line : String) : St × String :=
  match words line with
  | "reset" :: rest =>
    (match rest with
     | [a, b, c, d, e, f, g, h, i, j, k, lo, ro] =>
       (match nats [a, b, c, d, e, f, g, h, i, j, k], parseBool lo, parseBool ro with
        | some [a, b, c, d, e, f, g, h, i, j, k], some lo, some ro =>
          ({ cfg := ⟨a, b, c, d, e, f, g, h, i, j, k⟩, cnt := .zero, rt := ⟨lo, ro, 0, 0⟩ }, "ok")
        | _, _, _ => (s, "bad-op"))
     | _ => (s, "bad-op"))
  | "fromparams" :: rest =>
    (match nats rest with
     | some [a, b, c, d, e, f, g, h, i, j, k] =>
       let c := fromParams ⟨a, b, c, d, e, f, g, h, i, j, k⟩
       (s, s!"cfg {c.maxCallDepth} {c.maxHeap} {c.maxTrack} {c.maxKey} {c.maxValue} {c.maxInvoke} {c.maxEvent} {c.maxLog} {c.maxPanic} {c.maxLogs} {c.maxEvents}")
     | _ => (s, "bad-op"))
  | ["key", kind, len] =>
    (match parseKey kind len with
     | some k => (s, showRes (processSubstateKey s.cfg k))
     | none => (s, "bad-op"))
  | ["val", len] =>
    (match nats [len] with
     | some [n] =>
       -- a Scrypto SBOR value is at least 3 bytes long; the harness builds values up to 2^25 bytes
       if n < 3 ∨ n > 2 ^ 25 then (s, "bad-op") else (s, showRes (processSubstateValue s.cfg n))
     | _ => (s, "bad-op"))
  | ["io", "rd"] => let (c, r) := processIO s.cfg s.cnt .readFromDb; ({ s with cnt := c }, showIO r)
  | ["io", "nf"] => let (c, r) := processIO s.cfg s.cnt .readFromDbNotFound; ({ s with cnt := c }, showIO r)
  | ["io", which, id, kind, len, old, new] =>
    -- `id` only names the substate (used by the harness oracle); the module never reads it
    (match nats [id], parseKey kind len, optNat old, optNat new with
     | some _, some k, some o, some n =>
       if which = "h" then
         let (c, r) := processIO s.cfg s.cnt (.heapUpdated k.canonLen o n); ({ s with cnt := c }, showIO r)
       else if which = "t" then
         let (c, r) := processIO s.cfg s.cnt (.trackUpdated k.canonLen o n); ({ s with cnt := c }, showIO r)
       else (s, "bad-op")
     | _, _, _, _ => (s, "bad-op"))
  | ["log", len] =>
    (match nats [len] with
     | some [n] => if n > 2 ^ 22 then (s, "bad-op") else
       let (r, a) := addLog s.cfg s.rt n; ({ s with rt := r }, showRes a)
     | _ => (s, "bad-op"))
  | ["event", len] =>
    (match nats [len] with
     | some [n] => if n > 2 ^ 22 then (s, "bad-op") else
       let (r, a) := addEvent s.cfg s.rt n; ({ s with rt := r }, showRes a)
     | _ => (s, "bad-op"))
  | ["panicmsg", len] =>
    (match nats [len] with
     | some [n] => if n > 2 ^ 22 then (s, "bad-op") else (s, showRes (setPanicMessage s.cfg s.rt n))
     | _ => (s, "bad-op"))
  | _ => (s, "bad-op")

def main : IO Unit := run stepLine st0
