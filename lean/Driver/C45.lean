import RadixModel.Util.Proto
import RadixModel.Model.WasmValidate
import RadixModel.Generated.C45
open Radix Radix.Proto Radix.WasmValidate

/-! Line protocol of area `c45` (stateless, one module summary per line):

`mod v=<n> req=<names|-> wf=<ok|deser|invalid> float=<0|1> start=<0|1> imp=<m/n/k[/sig];…|->
 mem=<none|i:m,…|-> tab=<none|i,…|-> brs=<n,…|-> funcs=<sig/g+g;…|-> globals=<n>
 exp=<none|n/k/i;…|-> data=<o:l,…|-> elem=<o:l,…|-> code=<hex>`

Limits and the host-import table come from `Generated/C45.lean` (the compiled tree). -/

namespace C45Drv

def list (sep : String) (s : String) : List String := if s = "-" then [] else s.splitOn sep

def name (s : String) : String := if s = "~" then "" else s

def allSome {α} : List (Option α) → Option (List α)
  | [] => some []
  | none :: _ => none
  | some x :: r => (allSome r).map (x :: ·)

def parseList {α} (sep : String) (f : String → Option α) (s : String) : Option (List α) :=
  allSome ((list sep s).map f)

def parseImport (s : String) : Option Import :=
  match s.splitOn "/" with
  | [m, n, "f", sg] => (parseSig sg).map fun sg => ⟨name m, name n, .func sg⟩
  | [m, n, "g"] => some ⟨name m, name n, .global⟩
  | [m, n, "m"] => some ⟨name m, name n, .memory⟩
  | [m, n, "t"] => some ⟨name m, name n, .table⟩
  | [m, n, "x"] => some ⟨name m, name n, .tag⟩
  | _ => none

def parseEKind : String → Option EKind
  | "f" => some .func | "t" => some .table | "m" => some .memory | "g" => some .global | "x" => some .tag
  | _ => none

def parseExport (s : String) : Option Export :=
  match s.splitOn "/" with
  | [n, k, i] =>
    match parseEKind k, i.toNat? with
    | some k, some i => some ⟨name n, k, i⟩
    | _, _ => none
  | _ => none

def parseMem (s : String) : Option Mem :=
  match s.splitOn ":" with
  | [i, "-"] => i.toNat?.map fun i => ⟨i, none⟩
  | [i, m] =>
    match i.toNat?, m.toNat? with
    | some i, some m => some ⟨i, some m⟩
    | _, _ => none
  | _ => none

def parsePair (s : String) : Option (Nat × Nat) :=
  match s.splitOn ":" with
  | [a, b] =>
    match a.toNat?, b.toNat? with
    | some a, some b => some (a, b)
    | _, _ => none
  | _ => none

def parseFunc (s : String) : Option Func :=
  match s.splitOn "/" with
  | [sg, gs] =>
    match parseSig sg, parseList "+" (fun x => x.toNat?) gs with
    | some sg, some gs => some ⟨sg, gs⟩
    | _, _ => none
  | _ => none

def parseSection {α} (sep : String) (f : String → Option α) (s : String) : Option (Option (List α)) :=
  if s = "none" then some none else (parseList sep f s).map some

def parseWF : String → Option WF
  | "ok" => some .ok | "deser" => some .deser | "invalid" => some .invalid | _ => none

def parseBool : String → Option Bool
  | "0" => some false | "1" => some true | _ => none

def kv (key : String) (tok : String) : Option String :=
  match tok.splitOn "=" with
  | [k, v] => if k = key then some v else none
  | _ => none

def config (v : Nat) (req : List String) : Option Config :=
  some
  { version := v
    maxMemPages := Generated.C45.MAX_MEMORY_SIZE_IN_PAGES
    maxTable := Generated.C45.MAX_INITIAL_TABLE_SIZE
    maxBrTable := Generated.C45.MAX_NUMBER_OF_BR_TABLE_TARGETS
    maxFuncs := Generated.C45.MAX_NUMBER_OF_FUNCTIONS
    maxParams := Generated.C45.MAX_NUMBER_OF_FUNCTION_PARAMS
    maxLocals := Generated.C45.MAX_NUMBER_OF_FUNCTION_LOCALS
    maxGlobals := Generated.C45.MAX_NUMBER_OF_GLOBALS
    host := hostOf Generated.C45.HOST_IMPORTS
    required := req }

def showName (n : String) : String := if n = "" then "~" else n

def showErr : Err → String
  | .deserialization => "DeserializationError"
  | .validation => "ValidationError"
  | .startNotAllowed => "StartFunctionNotAllowed"
  | .importNotAllowed n => s!"InvalidImport.ImportNotAllowed {showName n}"
  | .protocolMismatch n c e => s!"InvalidImport.ProtocolVersionMismatch {showName n} {c} {e}"
  | .invalidFunctionType n => s!"InvalidImport.InvalidFunctionType {showName n}"
  | .missingMemorySection => "InvalidMemory.MissingMemorySection"
  | .noMemoryDefinition => "InvalidMemory.NoMemoryDefinition"
  | .tooManyMemoryDefinition => "InvalidMemory.TooManyMemoryDefinition"
  | .memorySizeLimitExceeded => "InvalidMemory.MemorySizeLimitExceeded"
  | .memoryNotExported => "InvalidMemory.MemoryNotExported"
  | .moreThanOneTable => "InvalidTable.MoreThanOneTable"
  | .initialTableSizeLimitExceeded => "InvalidTable.InitialTableSizeLimitExceeded"
  | .invalidExportName n => s!"InvalidExportName {showName n}"
  | .tooManyTargetsInBrTable => "TooManyTargetsInBrTable"
  | .tooManyFunctions => "TooManyFunctions"
  | .tooManyFunctionParams => "TooManyFunctionParams"
  | .tooManyFunctionLocals m a => s!"TooManyFunctionLocals {m} {a}"
  | .tooManyGlobals m c => s!"TooManyGlobals {m} {c}"
  | .noExportSection => "NoExportSection"
  | .missingExport n => s!"MissingExport {showName n}"
  | .notInstantiatable => "NotInstantiatable"
  | .overflow => "Overflow"
  | .moduleInfoError => "ModuleInfoError"

def showOut (o : Output) : String :=
  let mx := match o.mem.maximum with | some m => toString m | none => "-"
  let ex := if o.functionExports.isEmpty then "-" else ",".intercalate (o.functionExports.map showName)
  s!"ok mem={o.mem.initial}:{mx} exports={ex}"

def answer (toks : List String) : Option String :=
  match toks with
  | [v, req, wf, fl, st, imp, mem, tab, brs, funcs, globals, exp, data, elem, _code] => do
    let v ← (← kv "v" v).toNat?
    let req := (list "," (← kv "req" req)).map name
    let wf ← parseWF (← kv "wf" wf)
    let fl ← parseBool (← kv "float" fl)
    let st ← parseBool (← kv "start" st)
    let imp ← parseList ";" parseImport (← kv "imp" imp)
    let mem ← parseSection "," parseMem (← kv "mem" mem)
    let tab ← parseSection "," (fun x => x.toNat?) (← kv "tab" tab)
    let brs ← parseList "," (fun x => x.toNat?) (← kv "brs" brs)
    let funcs ← parseList ";" parseFunc (← kv "funcs" funcs)
    let globals ← (← kv "globals" globals).toNat?
    let exp ← parseSection ";" parseExport (← kv "exp" exp)
    let data ← parseList "," parsePair (← kv "data" data)
    let elem ← parseList "," parsePair (← kv "elem" elem)
    let c ← config v req
    let s : Summary := ⟨wf, fl, st, imp, mem, tab, brs, funcs, globals, exp, data, elem⟩
    match validate c s with
    | .ok o => pure (showOut o)
    | .error e => pure ("err " ++ showErr e)
  | _ => none

end C45Drv

def stepLine (_ : Unit) (line : String) : Unit × String :=
  match words line with
  | "mod" :: toks =>
    match C45Drv.answer toks with
    | some a => ((), a)
    | none => ((), "bad-op")
  | _ => ((), "bad-op")

def main : IO Unit := run stepLine ()
