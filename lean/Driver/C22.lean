import Driver.SchemaIO
/-! Line-protocol driver of the schema / payload-validation model, area c22.
ops:  reset | schema <sbor-hex (runner only)> <tokens> | val <depth> <tid-tag> <tid-n> <payload-hex> <v|u>
    | tval <depth> <tid-tag> <tid-n> <payload-hex> <rust type name (runner only)>  -/
open Radix Radix.Proto Radix.Sbor Radix.Schema
open Radix.SchemaIO

def stepLine (s : Option Schema) (line : String) : Option Schema × String :=
  match words line with
  | ["reset"] => (none, "ok")
  | "schema" :: _hex :: ws =>
    (match parseSchema ws with
     | some S => (some S, "ok")
     | none => (s, "bad-op"))
  | ["val", depth, tag, n, payload, _expect] => (s, valLine s depth tag n payload)
  | ["tval", depth, tag, n, payload, _type] => (s, valLine s depth tag n payload)
  | _ => (s, "bad-op")

def main : IO Unit := run stepLine none
