import Driver.SchemaIO
import RadixModel.Model.SborTyped
/-! Line-protocol driver of the schema / payload-validation model, area c22.
ops:  reset | schema <sbor-hex (runner only)> <tokens> | val <depth> <tid-tag> <tid-n> <payload-hex> <v|u>
    | desc <tid-tag> <tid-n> <rust type name | -> <type-expression tokens>
    | tval <depth> <tid-tag> <tid-n> <payload-hex> <rust type name (runner only)>  -/
open Radix Radix.Proto Radix.Sbor Radix.Schema
open Radix.SchemaIO

def stepLine (s : Option Schema) (line : String) : Option Schema × String :=
  match words line with
  | ["reset"] => (none, "ok")
  | "schema" :: _hex :: ws =>
    (match parseSchema ws with
     | some S => (some S, "ok")
     | none => (s, "bad-op"))
  | ["val", depth, tag, n, payload, _expect] => (s, valLine s depth tag n payload)
  | ["tval", depth, tag, n, payload, _type] => (s, valLine s depth tag n payload)
  | "desc" :: tag :: n :: _type :: ws =>
    (match s, parseTid tag n, natTokens ws with
     | some S, some tid, some toks =>
       (match pTy (toks.length + 1) toks with
        | some (ty, []) => (s, showBool (describes genEnv S tid ty))
        | _ => (s, "bad-op"))
     | _, _, _ => (s, "bad-op"))
  | _ => (s, "bad-op")

def main : IO Unit := run stepLine none
