import RadixModel.Util.Proto
import RadixModel.Model.SigValidation
open Radix Radix.Proto Radix.SigVal

/-- C33 driver.
`vs <payload-hex> <version 1|2|2p> <maxPerIntent> <maxTotal> <v1AllowNotaryDup 0|1> <nSubintents> <root> <batch>*`
  root  := t:<signatory 0|1>:<notaryKey>:<notaryVerifies 0|1>:<recovered>   | p:<signatory>:<notaryKey>:<keys>
           | s:<recovered> (root subintent of a signed partial transaction, version 2p)
  batch := s:<recovered> | q:<keys>
  recovered / keys := `-` | item(,item)*   ; item := key (hex) | `x` (signature does not verify)
The payload is ignored by the model (the harness re-derives the abstract description from it with the real
crypto and checks that it matches). Crypto is abstract: a signature *is* its recovery result.
answer: ok <total> <rootKeys> <subKeys;…>  |  err <root|sub<i>|across> <error> -/
abbrev P := Pending String (Option String) Bool Unit

def crypto : Crypto String (Option String) Bool Unit := { recover := fun _ s => s, verify := fun _ _ b => b }

def parseList (s : String) : List String := if s = "-" then [] else s.splitOn ","

def parseBit (s : String) : Option Bool := if s = "0" then some false else if s = "1" then some true else none

def okKey (k : String) : Bool := k ≠ "" && k ≠ "x" && k ≠ "-"

def parseRec (s : String) : Option (List (Option String)) :=
  (parseList s).mapM (fun i => if i = "x" then some none else if okKey i then some (some i) else none)

def parseKeys (s : String) : Option (List String) :=
  (parseList s).mapM (fun i => if okKey i then some i else none)

def parsePending (isRoot : Bool) (tok : String) : Option P :=
  match tok.splitOn ":" with
  | ["t", sg, nk, nv, l] =>
    if !isRoot then none else
    match parseBit sg, parseBit nv, parseRec l with
    | some sg, some nv, some l => if okKey nk then some (.txIntent sg nk nv () l ()) else none
    | _, _, _ => none
  | ["p", sg, nk, l] =>
    if !isRoot then none else
    match parseBit sg, parseKeys l with
    | some sg, some l => if okKey nk then some (.previewTxIntent sg nk l) else none
    | _, _ => none
  | ["s", l] => (parseRec l).map (fun l => .subintent l ())
  | ["q", l] => (parseKeys l).map .previewSubintent
  | _ => none

def showKeys (ks : List String) : String := if ks.isEmpty then "-" else ",".intercalate ks

def showErr : SErr → String
  | .tooManySignatures t l => s!"TooMany:{t}:{l}"
  | .invalidIntentSignature => "InvalidIntentSignature"
  | .invalidNotarySignature => "InvalidNotarySignature"
  | .duplicateSigner => "DuplicateSigner"
  | .notaryIsSignatorySoShouldNotAlsoBeASigner => "NotaryDup"
  | .incorrectNumberOfSubintentSignatureBatches => "BatchCount"

def showLoc : Loc → String
  | .root => "root"
  | .nonRoot i => s!"sub{i}"
  | .across => "across"

def stepLine (s : Unit) (line : String) : Unit × String :=
  match words line with
  | "vs" :: _payload :: ver :: mpi :: mt :: ad :: nsub :: root :: batches =>
    match mpi.toNat?, mt.toNat?, parseBit ad, nsub.toNat?, parsePending true root, batches.mapM (parsePending false) with
    | some mpi, some mt, some ad, some nsub, some root, some batches =>
      if ver = "1" ∨ ver = "2" ∨ ver = "2p" then
        let cfg : Cfg := { maxPerIntent := mpi, maxTotal := mt, v1AllowNotaryDup := ad }
        match validateAll crypto cfg (ver = "1") root nsub batches with
        | .error (loc, e) => (s, s!"err {showLoc loc} {showErr e}")
        | .ok r =>
          let subs := if r.nonRootKeys.isEmpty then "-" else ";".intercalate (r.nonRootKeys.map showKeys)
          (s, s!"ok {r.total} {showKeys r.rootKeys} {subs}")
      else (s, "bad-op")
    | _, _, _, _, _, _ => (s, "bad-op")
  | _ => (s, "bad-op")

def main : IO Unit := run stepLine ()
