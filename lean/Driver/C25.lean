import RadixModel.Util.Proto
import RadixModel.Model.Decimal
open Radix Radix.Proto Radix.Dec

/-- strict integer syntax: optional `-`, then one or more ASCII digits -/
def parseInt (s : String) : Option Int :=
  let cs := s.toList
  let (neg, ds) := match cs with
    | '-' :: r => (true, r)
    | r => (false, r)
  if ds.isEmpty || !ds.all (fun c => '0' ≤ c ∧ c ≤ '9') then none
  else
    let n : Nat := ds.foldl (fun acc c => acc * 10 + (c.toNat - '0'.toNat)) 0
    some (if neg then -(n : Int) else (n : Int))

def parseTy (s : String) : Option Ty :=
  if s = "d" then some .dec else if s = "p" then some .pdec else none

def parseMode (s : String) : Option Mode :=
  if s = "0" then some .toPositiveInfinity
  else if s = "1" then some .toNegativeInfinity
  else if s = "2" then some .toZero
  else if s = "3" then some .awayFromZero
  else if s = "4" then some .toNearestMidpointTowardZero
  else if s = "5" then some .toNearestMidpointAwayFromZero
  else if s = "6" then some .toNearestMidpointToEven
  else none

def showOut : Outcome → String
  | .val v => s!"ok {v}"
  | .none => "none"
  | .overflow => "err Overflow"
  | .invalidDigit => "err InvalidDigit"
  | .panic => "panic"

def parseVal (t : Ty) (s : String) : Option Int :=
  (parseInt s).bind fun v => if t.InRange v then some v else none

def inI32 (p : Int) : Bool := decide (-2147483648 ≤ p ∧ p ≤ 2147483647)

def answer (ws : List String) : String :=
  match ws with
  | [ty, "round", a, p, m] =>
    match parseTy ty, parseInt p, parseMode m with
    | some t, some p, some m =>
      match parseVal t a with
      | some a => if inI32 p then showOut (checkedRound t p m a) else "bad-op"
      | none => "bad-op"
    | _, _, _ => "bad-op"
  | [ty, "floor", a] =>
    match parseTy ty with
    | some t => match parseVal t a with
      | some a => showOut (checkedFloor t a)
      | none => "bad-op"
    | none => "bad-op"
  | [ty, "ceil", a] =>
    match parseTy ty with
    | some t => match parseVal t a with
      | some a => showOut (checkedCeiling t a)
      | none => "bad-op"
    | none => "bad-op"
  | ["d", "withdraw", a, dv, m] =>
    match parseVal .dec a, parseInt dv with
    | some a, some dv =>
      if dv < 0 ∨ dv > 255 then "bad-op"
      else if m = "x" then showOut (forWithdrawal a dv.toNat none)
      else match parseMode m with
        | some m => showOut (forWithdrawal a dv.toNat (some m))
        | none => "bad-op"
    | _, _ => "bad-op"
  | _ => "bad-op"

def stepLine (s : Unit) (line : String) : Unit × String := (s, answer (words line))

def main : IO Unit := run stepLine ()
