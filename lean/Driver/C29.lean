import RadixModel.Util.Proto
import RadixModel.Model.UtcDateTime
open Radix Radix.Proto Radix.Utc

namespace C29Drv

/-- canonical decimal natural: digits only, no leading zero (except "0") -/
def natStrict (s : String) : Option Nat :=
  let cs := s.toList
  if cs.isEmpty then none
  else if !(cs.all (fun c => '0' ≤ c ∧ c ≤ '9')) then none
  else if cs.length > 1 ∧ cs.head? = some '0' then none
  else some (cs.foldl (fun acc c => acc * 10 + (c.toNat - '0'.toNat)) 0)

/-- canonical decimal i64 -/
def i64Strict (s : String) : Option Int :=
  match s.toList with
  | '-' :: rest =>
    match natStrict (String.ofList rest) with
    | some 0 => none
    | some n => if (n : Int) ≤ 9223372036854775808 then some (-(n : Int)) else none
    | none => none
  | _ =>
    match natStrict s with
    | some n => if (n : Int) ≤ 9223372036854775807 then some (n : Int) else none
    | none => none

def fields6 (ws : List String) : Option (Nat × Nat × Nat × Nat × Nat × Nat) :=
  match ws.map natStrict with
  | [some y, some mo, some d, some h, some mi, some s] =>
    if y ≤ 4294967295 ∧ mo ≤ 255 ∧ d ≤ 255 ∧ h ≤ 255 ∧ mi ≤ 255 ∧ s ≤ 255 then some (y, mo, d, h, mi, s) else none
  | _ => none

def errName : Err → String
  | .invalidYear => "InvalidYear"
  | .invalidMonth => "InvalidMonth"
  | .invalidDayOfMonth => "InvalidDayOfMonth"
  | .invalidHour => "InvalidHour"
  | .invalidMinute => "InvalidMinute"
  | .invalidSecond => "InvalidSecond"
  | .instantIsOutOfRange => "InstantIsOutOfRange"
  | .panic => "panic"

def showErr (e : Err) : String :=
  match e with
  | .panic => "panic"
  | e => "err " ++ errName e

def showDT (dt : DT) : String :=
  s!"{dt.year} {dt.month} {dt.day} {dt.hour} {dt.minute} {dt.second}"

def mk (f : Nat × Nat × Nat × Nat × Nat × Nat) : Except Err DT :=
  let (y, mo, d, h, mi, s) := f
  new y mo d h mi s

def answer (line : String) : String :=
  match words line with
  | "new" :: rest =>
    match fields6 rest with
    | none => "bad-op"
    | some f => match mk f with
      | .ok _ => "ok"
      | .error e => showErr e
  | ["from", t] =>
    match i64Strict t with
    | none => "bad-op"
    | some t => match fromInstant t with
      | .ok dt => "ok " ++ showDT dt
      | .error e => showErr e
  | "to" :: rest =>
    match fields6 rest with
    | none => "bad-op"
    | some f => match mk f with
      | .error _ => "invalid"
      | .ok dt => match toInstant dt with
        | .ok t => s!"ok {t}"
        | .error e => showErr e
  | "toraw" :: rest =>
    match fields6 rest with
    | none => "bad-op"
    | some (y, mo, d, h, mi, s) => match toInstant ⟨y, mo, d, h, mi, s⟩ with
      | .ok t => s!"ok {t}"
      | .error e => showErr e
  | "show" :: rest =>
    match fields6 rest with
    | none => "bad-op"
    | some f => match mk f with
      | .error _ => "invalid"
      | .ok dt => "ok " ++ hex ((display dt).map UInt8.ofNat)
  | ["parse", h] =>
    match unhex h with
    | none => "bad-op"
    | some bs => match fromStr (bs.map UInt8.toNat) with
      | .ok dt => "ok " ++ showDT dt
      | .error .invalidFormat => "err InvalidFormat"
      | .error (.dateTime e) => showErr e
      | .error .panic => "panic"
      | .error .notUtf8 => "bad-op"
  | "add" :: u :: rest =>
    let k : Option Int := if u = "d" then some 86400 else if u = "h" then some 3600
      else if u = "m" then some 60 else if u = "s" then some 1 else none
    match k, rest with
    | some k, [y, mo, d, h, mi, s, n] =>
      match fields6 [y, mo, d, h, mi, s], i64Strict n with
      | some f, some n => match mk f with
        | .error _ => "invalid"
        | .ok dt => match addUnits k dt n with
          | .ok (some dt') => "some " ++ showDT dt'
          | .ok none => "none"
          | .error e => showErr e
      | _, _ => "bad-op"
    | _, _ => "bad-op"
  | "cmp" :: rest =>
    if rest.length = 12 then
      match fields6 (rest.take 6), fields6 (rest.drop 6) with
      | some a, some b => match mk a, mk b with
        | .ok x, .ok y => match cmpDT x y with
          | .lt => "lt" | .eq => "eq" | .gt => "gt"
        | _, _ => "invalid"
      | _, _ => "bad-op"
    else "bad-op"
  | _ => "bad-op"

end C29Drv

def stepLine (s : Unit) (line : String) : Unit × String := (s, C29Drv.answer line)

def main : IO Unit := run stepLine ()
