import RadixModel.Util.Proto
import RadixModel.Model.Manifest
import RadixModel.Model.ManifestParser
import RadixModel.Model.ManifestValue
import RadixModel.Generated.C30
open Radix Radix.Proto Radix.Manifest

namespace C30Drv

def textOfHex (h : String) : Option (List Char) :=
  match unhex h with
  | none => none
  | some bs =>
    match String.fromUTF8? (ByteArray.mk bs.toArray) with
    | some s => some s.toList
    | none => none

def hx (cs : List Char) : String := hex (String.ofList cs).toUTF8.data.toList

/-- the Unicode table of the compiled tree (`rust_1_81_should_unicode_escape_in_debug_str`) -/
def shouldEscape (c : Char) : Bool :=
  Radix.Generated.C30.escapeRanges.any (fun (lo, hi) => lo ≤ c.toNat ∧ c.toNat ≤ hi)

def readUntil (d : Char) : List Char → Option (List Char × List Char)
  | [] => none
  | c :: r => if c = d then some ([], r) else (readUntil d r).map (fun (a, b) => (c :: a, b))

def natOf (cs : List Char) : Option Nat :=
  if cs.isEmpty ∨ !(cs.all isAsciiDigit) then none else some (digitsVal cs)

def intOf (cs : List Char) : Option Int :=
  match cs with
  | '-' :: r => (natOf r).map (fun n => -(n : Int))
  | _ => (natOf cs).map (fun n => (n : Int))

def tyOf (cs : List Char) : Option IntTy :=
  [IntTy.i8, .i16, .i32, .i64, .i128, .u8, .u16, .u32, .u64, .u128].find? (fun t => t.name = cs)

def kindOf (n : Nat) : Option MKind := MKind.all[n]?

def wrapOf (cs : List Char) : Option Wrap :=
  [Wrap.address, .namedAddress, .bucket, .proof, .addressReservation, .expression, .blob, .decimal,
   .preciseDecimal, .nonFungibleLocalId].find? (fun w => (wrapName w).toList = cs)

mutual
/-- parser of the model form written by the harness (`model_form` in harness/src/bin/c30.rs) -/
def readValue : Nat → List Char → Option (MValue × Bool × List Char)
  | 0, _ => none
  | fuel + 1, cs =>
    match cs with
    | 'b' :: '0' :: r => some (.bool false, true, r)
    | 'b' :: '1' :: r => some (.bool true, true, r)
    | 'n' :: r =>
      match readUntil ':' r with
      | some (ty, r1) =>
        match readUntil ';' r1, tyOf ty with
        | some (v, r2), some t => (intOf v).map (fun n => (.int t n, true, r2))
        | _, _ => none
      | none => none
    | 's' :: r =>
      match readUntil ';' r with
      | some (h, r1) => (textOfHex (String.ofList h)).map (fun s => (.str s, true, r1))
      | none => none
    | 'e' :: r =>
      match readUntil ':' r with
      | some (d, r1) =>
        match readUntil ':' r1 with
        | some (n, r2) =>
          match natOf d, natOf n with
          | some d, some n => (readValues fuel n r2).map (fun (xs, ok, r3) => (.enum d xs, ok, r3))
          | _, _ => none
        | none => none
      | none => none
    | 'a' :: r =>
      match readUntil ':' r with
      | some (k, r1) =>
        match readUntil ':' r1 with
        | some (n, r2) =>
          match (natOf k).bind kindOf, natOf n with
          | some k, some n => (readValues fuel n r2).map (fun (xs, ok, r3) => (.array k xs, ok, r3))
          | _, _ => none
        | none => none
      | none => none
    | 't' :: r =>
      match readUntil ':' r with
      | some (n, r1) =>
        match natOf n with
        | some n => (readValues fuel n r1).map (fun (xs, ok, r2) => (.tuple xs, ok, r2))
        | none => none
      | none => none
    | 'm' :: r =>
      match readUntil ':' r with
      | some (k, r1) =>
        match readUntil ':' r1 with
        | some (v, r2) =>
          match readUntil ':' r2 with
          | some (n, r3) =>
            match (natOf k).bind kindOf, (natOf v).bind kindOf, natOf n with
            | some k, some v, some n => (readEntries fuel n r3).map (fun (es, ok, r4) => (.map k v es, ok, r4))
            | _, _, _ => none
          | none => none
        | none => none
      | none => none
    | 'c' :: r =>
      match readUntil ':' r with
      | some (w, r1) =>
        match readUntil ':' r1 with
        | some (flag, r2) =>
          match readUntil ';' r2 with
          | some (h, r3) =>
            match wrapOf w, textOfHex (String.ofList h) with
            | some w, some t =>
              -- the harness' `ResourceAddress::try_from` verdict must agree with the HRP test of the model
              let isRes := w = .address ∧ isResourceText t
              some (.custom w t, (flag = ['1']) = isRes, r3)
            | _, _ => none
          | none => none
        | none => none
      | none => none
    | _ => none
def readValues : Nat → Nat → List Char → Option (MValues × Bool × List Char)
  | 0, _, _ => none
  | _ + 1, 0, cs => some (.nil, true, cs)
  | fuel + 1, n + 1, cs =>
    match readValue fuel cs with
    | some (v, ok, r) => (readValues fuel n r).map (fun (vs, ok2, r2) => (.cons v vs, ok && ok2, r2))
    | none => none
def readEntries : Nat → Nat → List Char → Option (MEntries × Bool × List Char)
  | 0, _, _ => none
  | _ + 1, 0, cs => some (.nil, true, cs)
  | fuel + 1, n + 1, cs =>
    match readValue fuel cs with
    | some (k, ok, r) =>
      match readValue fuel r with
      | some (v, ok1, r1) => (readEntries fuel n r1).map (fun (es, ok2, r2) => (.cons k v es, ok && ok1 && ok2, r2))
      | none => none
    | none => none
end

def answer (line : String) : String :=
  match words line with
  | ["val", _, form] =>
    let cs := form.toList
    match readValue (cs.length + 1) cs with
    | some (v, true, []) =>
      match printValue shouldEscape v true 0 with
      | none => "print-err"
      | some text =>
        let rt := match compileValue text with
          | .lexErr => "lex"
          | .parseErr => "parse"
          | .genErr => "gen"
          | .ok v2 => if v.beq v2 then "ok" else "neq"
        s!"{hx text} rt={rt}"
    | some (_, false, _) => "resource-prefix-mismatch"
    | _ => "bad-op"
  | _ => "bad-op"

end C30Drv

def main : IO Unit := run (fun (_ : Unit) line => ((), C30Drv.answer line)) ()
