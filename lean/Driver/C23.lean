import Driver.SchemaIO
import RadixModel.Model.SchemaCompare
/-! Line-protocol driver of the schema comparison model, area c23.
ops:  reset | base <sbor-hex (runner only)> <tokens> | new <sbor-hex> <tokens>
    | cmp <9 settings> <nroots> (<btag> <bn> <ctag> <cn>)^nroots
    | cmpn <9 settings> <nb> (<name> <tag> <n>)^nb <nc> (<name> <tag> <n>)^nc
    | both <depth> <base tid> <new tid> <payload-hex>      (outcome under base | outcome under new)  -/
open Radix Radix.Proto Radix.Sbor Radix.Schema Radix.SchemaIO

structure St where
  base : Option Schema
  new : Option Schema

def boolOf : Nat → Option Bool
  | 0 => some false | 1 => some true | _ => none

def ruleOf : Nat → Option NameRule
  | 0 => some .disallowAllChanges | 1 => some .allowAddingNames | 2 => some .allowAllChanges | _ => none

def pSettings : P Settings
  | a :: b :: c :: d :: e :: f :: g :: h :: i :: r =>
    match boolOf a, boolOf b, boolOf c, boolOf d, boolOf e, ruleOf f, ruleOf g, ruleOf h, boolOf i with
    | some a, some b, some c, some d, some e, some f, some g, some h, some i =>
      some (⟨a, b, c, d, e, f, g, h, i⟩, r)
    | _, _, _, _, _, _, _, _, _ => none
  | _ => none

def pPair : P Pair := fun r =>
  match pTid r with
  | none => none
  | some (b, r') => (pTid r').map (fun (c, r'') => ((b, c), r''))

def pNamed : P (Nat × TypeId)
  | n :: r => (pTid r).map (fun (t, r') => ((n, t), r'))
  | [] => none

def showOut : Outcome Bool → String
  | .done b => showBool b
  | .panic => "panic"
  | .outOfFuel => "fuel"

def cmpLine (s : St) (ws : List String) : String :=
  match s.base, s.new, natTokens ws with
  | some B, some C, some toks =>
    (match pSettings toks with
     | none => "bad-op"
     | some (st, r) =>
       match pCounted pPair r with
       | some (roots, []) => showOut (compareFixedRoots genEnv B C st roots)
       | _ => "bad-op")
  | _, _, _ => "bad-op"

def cmpnLine (s : St) (ws : List String) : String :=
  match s.base, s.new, natTokens ws with
  | some B, some C, some toks =>
    (match pSettings toks with
     | none => "bad-op"
     | some (st, r) =>
       match pCounted pNamed r with
       | none => "bad-op"
       | some (br, r') =>
         match pCounted pNamed r' with
         | some (cr, []) => showOut (compareNamedRoots genEnv B C st br cr)
         | _ => "bad-op")
  | _, _, _ => "bad-op"

def stepLine (s : St) (line : String) : St × String :=
  match words line with
  | ["reset"] => (⟨none, none⟩, "ok")
  | "base" :: _hex :: ws =>
    (match parseSchema ws with
     | some S => ({ s with base := some S }, "ok")
     | none => (s, "bad-op"))
  | "new" :: _hex :: ws =>
    (match parseSchema ws with
     | some S => ({ s with new := some S }, "ok")
     | none => (s, "bad-op"))
  | "cmp" :: ws => (s, cmpLine s ws)
  | "cmpn" :: ws => (s, cmpnLine s ws)
  | ["both", depth, bt, bn, ct, cn, payload] =>
    let a := valLine s.base depth bt bn payload
    let b := valLine s.new depth ct cn payload
    (s, if a = "bad-op" ∨ b = "bad-op" then "bad-op" else a ++ " | " ++ b)
  | _ => (s, "bad-op")

def main : IO Unit := run stepLine ⟨none, none⟩
