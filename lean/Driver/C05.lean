import RadixModel.Util.Proto
import RadixModel.Model.Ownership
open Radix Radix.Proto Radix.Own

/-- driver state: model state + "the transaction was aborted by an error" -/
structure DS where
  st : St
  dead : Bool

def parseList (s : String) : Option (List Nat) :=
  if s = "-" then some []
  else (s.splitOn ",").foldr (fun w acc => match w.toNat?, acc with
    | some n, some l => some (n :: l)
    | _, _ => none) (some [])

def parseVal (s : String) : Option Val :=
  match s.splitOn "/" with
  | [a, b] => match parseList a, parseList b with
    | some o, some r => some ⟨o, r⟩
    | _, _ => none
  | _ => none

def parseSub (s : String) : Option (Nat × Val) :=
  match s.splitOn ":" with
  | [k, v] => match k.toNat?, parseVal v with
    | some k, some v => some (k, v)
    | _, _ => none
  | _ => none

def parseSubs : List String → Option (List (Nat × Val))
  | [] => some []
  | w :: r => match parseSub w, parseSubs r with
    | some x, some l => some (x :: l)
    | _, _ => none

def showList (l : List Nat) : String :=
  if l.isEmpty then "-" else ",".intercalate (l.map toString)

def showVal (v : Val) : String := showList v.owns ++ "/" ++ showList v.refs

def errName : Err → String
  | .idReused => "IdReused" | .badKeys => "BadKeys"
  | .ownNotFound => "OwnNotFound" | .substateBorrowed => "SubstateBorrowed"
  | .refNotFound => "RefNotFound" | .cantDropNodeInStore => "CantDropNodeInStore"
  | .nonGlobalRefNotAllowed => "NonGlobalRefNotAllowed" | .nodeBorrowed => "NodeBorrowed"
  | .cannotPersistPinnedNode => "CannotPersistPinnedNode" | .containsNonGlobalRef => "ContainsNonGlobalRef"
  | .containsDuplicateOwns => "ContainsDuplicateOwns" | .nodeNotVisible => "NodeNotVisible"
  | .substateFault => "SubstateFault" | .substateLocked => "SubstateLocked"
  | .handleNotFound => "HandleNotFound" | .noWritePermission => "NoWritePermission"
  | .closeBorrowed => "CloseBorrowed" | .panic => "panic" | .fuel => "fuel"

def insertSorted (x : Nat) : List Nat → List Nat
  | [] => [x]
  | y :: r => if x ≤ y then x :: y :: r else y :: insertSorted x r

def sortNat (l : List Nat) : List Nat := l.foldr insertSorted []

def dumpNode (s : St) (n : Nat) : String :=
  match s.node n with
  | none => s!"{n}:-"
  | some nd =>
    let d := match nd.dev with | .heap => "H" | .store => "S"
    let subs := ";".intercalate (nd.subs.map (fun kv => s!"{kv.1}={showVal kv.2}"))
    s!"{n}:{d}[{subs}]"

def dump (s : St) : String :=
  " ".intercalate (("owned=" ++ showList (sortNat s.owned)) :: (sortNat s.created).map (dumpNode s))

def fin (d : DS) (r : Except Err St) (okMsg : String) : DS × String :=
  match r with
  | .ok s' => ({ d with st := s' }, okMsg)
  | .error e => ({ d with dead := true }, "err:" ++ errName e)

def stepLine (d : DS) (line : String) : DS × String :=
  match words line with
  | ["reset"] => ({ st := init, dead := false }, "ok")
  | "create" :: n :: subs =>
    match n.toNat?, parseSubs subs with
    | some n, some vals =>
      if d.dead then (d, "aborted")
      -- refused by the harness without calling the kernel (see Model/Ownership.lean header)
      else if n ∈ d.st.created then (d, "refused:IdReused")
      else if !keysIncreasing vals then (d, "refused:BadKeys")
      else if vals.isEmpty || vals.any (fun kv => decide (3 ≤ kv.1)) then (d, "refused:Keys")
      else fin d (create d.st n vals) "ok"
    | _, _ => (d, "bad-op")
  | ["drop", n] =>
    match n.toNat? with
    | some n => if d.dead then (d, "aborted") else fin d (drop d.st n) "ok"
    | none => (d, "bad-op")
  | ["open", n, k, m] =>
    match n.toNat?, k.toNat? with
    | some n, some k =>
      if m = "r" ∨ m = "w" then
        if d.dead then (d, "aborted") else
        if 256 ≤ k then (d, "refused:Keys") else
        match openSub d.st n k (m = "w") with
        | .ok (s', h) => ({ d with st := s' }, s!"ok {h}")
        | .error e => ({ d with dead := true }, "err:" ++ errName e)
      else (d, "bad-op")
    | _, _ => (d, "bad-op")
  | ["read", h] =>
    match h.toNat? with
    | some h =>
      if d.dead then (d, "aborted") else
      match readSub d.st h with
      | .ok v => (d, "val " ++ showVal v)
      | .error e => ({ d with dead := true }, "err:" ++ errName e)
    | none => (d, "bad-op")
  | ["write", h, v] =>
    match h.toNat?, parseVal v with
    | some h, some v => if d.dead then (d, "aborted") else fin d (writeSub d.st h v) "ok"
    | _, _ => (d, "bad-op")
  | ["close", h] =>
    match h.toNat? with
    | some h => if d.dead then (d, "aborted") else fin d (closeSub d.st h) "ok"
    | none => (d, "bad-op")
  | ["pin", n] =>
    match n.toNat? with
    | some n => if d.dead then (d, "aborted") else fin d (pin d.st n) "ok"
    | none => (d, "bad-op")
  | ["dump"] => if d.dead then (d, "aborted") else (d, dump d.st)
  | _ => (d, "bad-op")

def main : IO Unit := Radix.Proto.run stepLine { st := init, dead := false }
