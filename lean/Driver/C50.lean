import RadixModel.Util.Proto
import RadixModel.Model.Encapsulation
open Radix Radix.Proto Radix.Encap

def resName : Res → String
  | .ok => "ok"
  | .invalidChildObjectCreation => "InvalidChildObjectCreation"
  | .blueprintDoesNotExist => "BlueprintDoesNotExist"
  | .invalidDropAccess => "InvalidDropAccess"
  | .notAnObject => "NotAnObject"
  | .notAnAddressReservation => "NotAnAddressReservation"
  | .invalidGlobalizeAccess => "InvalidGlobalizeAccess"
  | .invalidBlueprintId => "InvalidBlueprintId"
  | .transientBlueprint => "GlobalizingTransientBlueprint"
  | .invalidActorStateHandle => "InvalidActorStateHandle"
  | .outerObjectDoesNotExist => "OuterObjectDoesNotExist"
  | .noreg => "noreg"
  | .refused => "refused"

def parseNats : List String → Option (List Nat)
  | [] => some []
  | w :: r => match w.toNat?, parseNats r with
    | some n, some l => if n < 256 then some (n :: l) else none
    | _, _ => none

def stepLine (u : Unit) (line : String) : Unit × String :=
  match words line with
  | "run" :: pkg :: name :: script =>
    match pkg.toNat?, name.toNat?, parseNats script with
    | some pkg, some name, some script =>
      if pkg < 2 ∧ name < 2 ∧ script.length ≤ 200 then
        let o := runScript pkg name script
        (u, (if o.fatal then "abort " else "done ") ++ ",".intercalate (o.trace.map resName))
      else (u, "bad-op")
    | _, _, _ => (u, "bad-op")
  | _ => (u, "bad-op")

def main : IO Unit := Radix.Proto.run stepLine ()
