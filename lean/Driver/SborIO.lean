/-
Text form of SBOR values / errors / traverser events for the C20 and C21 line protocols
(driver-side only; no model logic here).

value   ::= "bool" 0|1 | <intkind> <unsigned bit pattern> | "str" <hex>
          | "enum" <disc> <n> value^n | "arr" <kind> <n> value^n | "tup" <n> value^n
          | "map" <kind> <kind> <n> (value value)^n | custom
custom  ::= (scrypto)  "ref" <hex> | "own" <hex> | "dec" <hex> | "pdec" <hex> | nf
          | (manifest) "addr" "s" <hex> | "addr" "n" <u32> | "bucket" <u32> | "proof" <u32> | "expr" 0|1
                     | "blob" <hex> | "dec" <hex> | "pdec" <hex> | nf | "resv" <u32>
nf      ::= "nf" "s" <hex> | "nf" "i" <u64> | "nf" "b" <hex> | "nf" "r" <hex>
kind    ::= bool | i8 … u128 | string | enum | array | tuple | map | <custom kind name>
-/
import RadixModel.Util.Proto
import RadixModel.Model.Sbor

namespace Radix.SborIO
open Radix Radix.Proto Radix.Sbor

structure IO (X Y : Type) where
  parseKind : String → Option X
  showKind : X → String
  parseCustom : List String → Option (Y × List String)
  showCustom : Y → List String

def intKindName : IntK → String
  | .i8 => "i8" | .i16 => "i16" | .i32 => "i32" | .i64 => "i64" | .i128 => "i128"
  | .u8 => "u8" | .u16 => "u16" | .u32 => "u32" | .u64 => "u64" | .u128 => "u128"

def parseIntKind : String → Option IntK
  | "i8" => some .i8 | "i16" => some .i16 | "i32" => some .i32 | "i64" => some .i64 | "i128" => some .i128
  | "u8" => some .u8 | "u16" => some .u16 | "u32" => some .u32 | "u64" => some .u64 | "u128" => some .u128
  | _ => none

def showVK {X Y : Type} (io : IO X Y) : VK X → String
  | .bool => "bool" | .int k => intKindName k | .string => "string" | .enum => "enum"
  | .array => "array" | .tuple => "tuple" | .map => "map" | .custom x => io.showKind x

def parseVK {X Y : Type} (io : IO X Y) (s : String) : Option (VK X) :=
  match s with
  | "bool" => some .bool | "string" => some .string | "enum" => some .enum
  | "array" => some .array | "tuple" => some .tuple | "map" => some .map
  | _ =>
    match parseIntKind s with
    | some k => some (.int k)
    | none => (io.parseKind s).map VK.custom

def parseU8 (s : String) : Option UInt8 :=
  match s.toNat? with
  | some n => if n < 256 then some (UInt8.ofNat n) else none
  | none => none

def parseBounded (s : String) (bound : Nat) : Option Nat :=
  match s.toNat? with
  | some n => if n < bound then some n else none
  | none => none

mutual
partial def parseValue {X Y : Type} (io : IO X Y) : List String → Option (Value X Y × List String)
  | "bool" :: "0" :: r => some (.bool false, r)
  | "bool" :: "1" :: r => some (.bool true, r)
  | "str" :: h :: r => (unhex h).map (fun b => (.string b, r))
  | "enum" :: d :: n :: r =>
    match parseU8 d, n.toNat? with
    | some d, some n => (parseMany io n r).map (fun (fs, r') => (.enum d fs, r'))
    | _, _ => none
  | "arr" :: k :: n :: r =>
    match parseVK io k, n.toNat? with
    | some k, some n => (parseMany io n r).map (fun (fs, r') => (.array k fs, r'))
    | _, _ => none
  | "tup" :: n :: r =>
    match n.toNat? with
    | some n => (parseMany io n r).map (fun (fs, r') => (.tuple fs, r'))
    | none => none
  | "map" :: kk :: vk :: n :: r =>
    match parseVK io kk, parseVK io vk, n.toNat? with
    | some kk, some vk, some n => (parsePairs io n r).map (fun (es, r') => (.map kk vk es, r'))
    | _, _, _ => none
  | t :: v :: r =>
    match parseIntKind t with
    | some k =>
      match parseBounded v (2 ^ (8 * k.width)) with
      | some n => some (.int k (BitVec.ofNat _ n), r)
      | none => none
    | none => (io.parseCustom (t :: v :: r)).map (fun (c, r') => (.custom c, r'))
  | _ => none
partial def parseMany {X Y : Type} (io : IO X Y) : Nat → List String → Option (List (Value X Y) × List String)
  | 0, r => some ([], r)
  | n + 1, r =>
    match parseValue io r with
    | some (v, r') => (parseMany io n r').map (fun (vs, r'') => (v :: vs, r''))
    | none => none
partial def parsePairs {X Y : Type} (io : IO X Y) : Nat → List String → Option (List (Value X Y × Value X Y) × List String)
  | 0, r => some ([], r)
  | n + 1, r =>
    match parseValue io r with
    | some (k, r') =>
      match parseValue io r' with
      | some (v, r'') => (parsePairs io n r'').map (fun (es, r3) => ((k, v) :: es, r3))
      | none => none
    | none => none
end

mutual
partial def showValue {X Y : Type} (io : IO X Y) : Value X Y → List String
  | .bool b => ["bool", if b then "1" else "0"]
  | .int k v => [intKindName k, toString v.toNat]
  | .string s => ["str", hex s]
  | .enum d fs => ["enum", toString d.toNat, toString fs.length] ++ showMany io fs
  | .array k es => ["arr", showVK io k, toString es.length] ++ showMany io es
  | .tuple fs => ["tup", toString fs.length] ++ showMany io fs
  | .map kk vk es => ["map", showVK io kk, showVK io vk, toString es.length] ++ showPairs io es
  | .custom c => io.showCustom c
partial def showMany {X Y : Type} (io : IO X Y) : List (Value X Y) → List String
  | [] => []
  | v :: vs => showValue io v ++ showMany io vs
partial def showPairs {X Y : Type} (io : IO X Y) : List (Value X Y × Value X Y) → List String
  | [] => []
  | (k, v) :: es => showValue io k ++ showValue io v ++ showPairs io es
end

def join (ws : List String) : String := " ".intercalate ws

/-! ### the three flavours -/

def basicIO : IO Empty Empty where
  parseKind := fun _ => none
  showKind := fun x => x.elim
  parseCustom := fun _ => none
  showCustom := fun y => y.elim

def parseNF : List String → Option (NFId × List String)
  | "s" :: h :: r => (unhex h).map (fun b => (.string b, r))
  | "i" :: n :: r => (parseBounded n (2 ^ 64)).map (fun n => (.integer (BitVec.ofNat 64 n), r))
  | "b" :: h :: r => (unhex h).map (fun b => (.bytes b, r))
  | "r" :: h :: r => (unhex h).map (fun b => (.ruid b, r))
  | _ => none

def showNF : NFId → List String
  | .string s => ["nf", "s", hex s]
  | .integer v => ["nf", "i", toString v.toNat]
  | .bytes b => ["nf", "b", hex b]
  | .ruid b => ["nf", "r", hex b]

def scryptoIO : IO ScryptoKind ScryptoCustom where
  parseKind := fun s => match s with
    | "ref" => some .reference | "own" => some .own | "dec" => some .decimal
    | "pdec" => some .preciseDecimal | "nf" => some .nonFungibleLocalId | _ => none
  showKind := fun k => match k with
    | .reference => "ref" | .own => "own" | .decimal => "dec" | .preciseDecimal => "pdec"
    | .nonFungibleLocalId => "nf"
  parseCustom := fun ts => match ts with
    | "ref" :: h :: r => (unhex h).map (fun b => (.reference b, r))
    | "own" :: h :: r => (unhex h).map (fun b => (.own b, r))
    | "dec" :: h :: r => (unhex h).map (fun b => (.decimal b, r))
    | "pdec" :: h :: r => (unhex h).map (fun b => (.preciseDecimal b, r))
    | "nf" :: r => (parseNF r).map (fun (i, r') => (.nonFungibleLocalId i, r'))
    | _ => none
  showCustom := fun c => match c with
    | .reference b => ["ref", hex b] | .own b => ["own", hex b] | .decimal b => ["dec", hex b]
    | .preciseDecimal b => ["pdec", hex b] | .nonFungibleLocalId i => showNF i

def parseBV32 (s : String) : Option (BitVec 32) := (parseBounded s (2 ^ 32)).map (BitVec.ofNat 32)

def manifestIO : IO ManifestKind ManifestCustom where
  parseKind := fun s => match s with
    | "addr" => some .address | "bucket" => some .bucket | "proof" => some .proof
    | "expr" => some .expression | "blob" => some .blob | "dec" => some .decimal
    | "pdec" => some .preciseDecimal | "nf" => some .nonFungibleLocalId | "resv" => some .addressReservation
    | _ => none
  showKind := fun k => match k with
    | .address => "addr" | .bucket => "bucket" | .proof => "proof" | .expression => "expr"
    | .blob => "blob" | .decimal => "dec" | .preciseDecimal => "pdec" | .nonFungibleLocalId => "nf"
    | .addressReservation => "resv"
  parseCustom := fun ts => match ts with
    | "addr" :: "s" :: h :: r => (unhex h).map (fun b => (.addressStatic b, r))
    | "addr" :: "n" :: n :: r => (parseBV32 n).map (fun i => (.addressNamed i, r))
    | "bucket" :: n :: r => (parseBV32 n).map (fun i => (.bucket i, r))
    | "proof" :: n :: r => (parseBV32 n).map (fun i => (.proof i, r))
    | "expr" :: "0" :: r => some (.expression false, r)
    | "expr" :: "1" :: r => some (.expression true, r)
    | "blob" :: h :: r => (unhex h).map (fun b => (.blob b, r))
    | "dec" :: h :: r => (unhex h).map (fun b => (.decimal b, r))
    | "pdec" :: h :: r => (unhex h).map (fun b => (.preciseDecimal b, r))
    | "nf" :: r => (parseNF r).map (fun (i, r') => (.nonFungibleLocalId i, r'))
    | "resv" :: n :: r => (parseBV32 n).map (fun i => (.addressReservation i, r))
    | _ => none
  showCustom := fun c => match c with
    | .addressStatic b => ["addr", "s", hex b] | .addressNamed i => ["addr", "n", toString i.toNat]
    | .bucket i => ["bucket", toString i.toNat] | .proof i => ["proof", toString i.toNat]
    | .expression a => ["expr", if a then "1" else "0"] | .blob b => ["blob", hex b]
    | .decimal b => ["dec", hex b] | .preciseDecimal b => ["pdec", hex b]
    | .nonFungibleLocalId i => showNF i | .addressReservation i => ["resv", toString i.toNat]

/-- Shape conditions that the Rust types guarantee (fixed-length arrays); the harness never sends
anything else, a line violating them is `bad-op`. -/
def scryptoShapeOk : ScryptoCustom → Bool
  | .reference b => b.length = Generated.Sbor.NODE_ID_LENGTH
  | .own b => b.length = Generated.Sbor.NODE_ID_LENGTH
  | .decimal b => b.length = Generated.Sbor.DECIMAL_SIZE
  | .preciseDecimal b => b.length = Generated.Sbor.PRECISE_DECIMAL_SIZE
  | .nonFungibleLocalId (.ruid b) => b.length = 32
  -- `NonFungibleLocalId::string/bytes` are the only constructors: content is valid by type
  | .nonFungibleLocalId (.string s) => utf8Valid s && nfStringOk Generated.Sbor.NON_FUNGIBLE_LOCAL_ID_MAX_LENGTH s
  | .nonFungibleLocalId (.bytes b) => nfBytesOk Generated.Sbor.NON_FUNGIBLE_LOCAL_ID_MAX_LENGTH b
  | .nonFungibleLocalId (.integer _) => true

def manifestShapeOk : ManifestCustom → Bool
  | .addressStatic b => b.length = Generated.Sbor.NODE_ID_LENGTH
  | .blob b => b.length = 32
  | .decimal b => b.length = Generated.Sbor.DECIMAL_SIZE
  | .preciseDecimal b => b.length = Generated.Sbor.PRECISE_DECIMAL_SIZE
  | .nonFungibleLocalId (.ruid b) => b.length = 32
  -- `ManifestNonFungibleLocalId::String(String)`: a Rust `String`, otherwise unvalidated
  | .nonFungibleLocalId (.string s) => utf8Valid s
  | _ => true

mutual
partial def shapeOk {X Y : Type} (f : Y → Bool) : Value X Y → Bool
  | .enum _ fs => fs.all (shapeOk f)
  | .array _ es => es.all (shapeOk f)
  | .tuple fs => fs.all (shapeOk f)
  | .map _ _ es => es.all (fun e => shapeOk f e.1 && shapeOk f e.2)
  | .custom c => f c
  | .string s => utf8Valid s
  | _ => true
end

/-! ### errors -/

def showDErr : DErr → String
  | .extraTrailingBytes n => s!"ExtraTrailingBytes {n}"
  | .bufferUnderflow r m => s!"BufferUnderflow {r} {m}"
  | .unexpectedPayloadPrefix e a => s!"UnexpectedPayloadPrefix {e.toNat} {a.toNat}"
  | .unexpectedCustomValueKind a => s!"UnexpectedCustomValueKind {a.toNat}"
  | .unknownValueKind b => s!"UnknownValueKind {b.toNat}"
  | .invalidBool b => s!"InvalidBool {b.toNat}"
  | .invalidUtf8 => "InvalidUtf8"
  | .invalidSize => "InvalidSize"
  | .maxDepthExceeded m => s!"MaxDepthExceeded {m}"
  | .invalidCustomValue => "InvalidCustomValue"

def showEErr : EErr → String
  | .maxDepthExceeded m => s!"MaxDepthExceeded {m}"
  | .sizeTooLarge a m => s!"SizeTooLarge {a} {m}"
  | .mismatchingArrayElementValueKind e a => s!"MismatchingArrayElementValueKind {e.toNat} {a.toNat}"
  | .mismatchingMapKeyValueKind e a => s!"MismatchingMapKeyValueKind {e.toNat} {a.toNat}"
  | .mismatchingMapValueValueKind e a => s!"MismatchingMapValueValueKind {e.toNat} {a.toNat}"

/-! ### traverser events -/

def showHeader {X Y : Type} (io : IO X Y) : Header X → String
  | .tuple n => s!"tup {n}"
  | .enumVariant d n => s!"enum {d.toNat} {n}"
  | .array k n => s!"arr {showVK io k} {n}"
  | .map kk vk n => s!"map {showVK io kk} {showVK io vk} {n}"

def showEvent {X Y : Type} (io : IO X Y) (e : Located X Y) : String :=
  let body := match e.event with
    | .containerStart h => "CS " ++ showHeader io h
    | .containerEnd h => "CE " ++ showHeader io h
    | .terminal v => "TV " ++ join (showValue io v)
    | .batchU8 b => "TB " ++ hex b
    | .end_ => "END"
    | .decodeError er => "ERR " ++ showDErr er
  let li := match e.lastIdx with | some i => toString i | none => "-"
  s!"{body} @{e.start} {e.stop} {e.pathLen} {li}"

/-! ### op handlers, generic in the flavour -/

def doEnc {X Y : Type} [DecidableEq X] (F : Flavour X Y) (io : IO X Y) (ok : Y → Bool) (d : Nat) (toks : List String) : String :=
  match parseValue io toks with
  | some (v, []) =>
    if !shapeOk ok v then "bad-op" else
    match encodePayload F d v with
    | .ok bs => "ok " ++ hex bs
    | .error e => "err " ++ showEErr e
  | _ => "bad-op"

def doDec {X Y : Type} (F : Flavour X Y) (io : IO X Y) (d : Nat) (h : String) : String :=
  match unhex h with
  | some bs =>
    match decodePayload F d bs with
    | .ok v => "ok " ++ join (showValue io v)
    | .error e => "err " ++ showDErr e.1
  | none => "bad-op"

def doTrav {X Y : Type} (F : Flavour X Y) (io : IO X Y) (d : Nat) (exact : Bool) (mode : String) (h : String) : String :=
  match unhex h with
  | some bs =>
    let start : Option (ExpectedStart X) :=
      if mode = "p" then some (.payloadPrefix F.payloadPrefix)
      else if mode = "v" then some .value
      else if mode.startsWith "b:" then (parseVK io (mode.drop 2).toString).map ExpectedStart.valueBody
      else none
    match start with
    | some st =>
      let (evs, done) := traverse F st d exact bs
      (" | ".intercalate (evs.map (showEvent io))) ++ (if done.isSome then "" else " | OUT-OF-FUEL")
    | none => "bad-op"
  | none => "bad-op"

def stepLine (_ : Unit) (line : String) : Unit × String :=
  let ans :=
    match words line with
    | "enc" :: fl :: d :: toks =>
      match d.toNat? with
      | some d =>
        if fl = "b" then doEnc basic basicIO (fun _ => true) d toks
        else if fl = "s" then doEnc scrypto scryptoIO scryptoShapeOk d toks
        else if fl = "m" then doEnc manifest manifestIO manifestShapeOk d toks
        else "bad-op"
      | none => "bad-op"
    | ["dec", fl, d, h] =>
      match d.toNat? with
      | some d =>
        if fl = "b" then doDec basic basicIO d h
        else if fl = "s" then doDec scrypto scryptoIO d h
        else if fl = "m" then doDec manifest manifestIO d h
        else "bad-op"
      | none => "bad-op"
    | ["trav", fl, d, ex, mode, h] =>
      match d.toNat? with
      | some d =>
        if ex ≠ "0" ∧ ex ≠ "1" then "bad-op"
        else if fl = "b" then doTrav basic basicIO d (ex = "1") mode h
        else if fl = "s" then doTrav scrypto scryptoIO d (ex = "1") mode h
        else if fl = "m" then doTrav manifest manifestIO d (ex = "1") mode h
        else "bad-op"
      | none => "bad-op"
    | ["size", n] =>
      match n.toNat? with
      | some n =>
        match writeSize n with
        | .ok bs => "ok " ++ hex bs
        | .error e => "err " ++ showEErr e
      | none => "bad-op"
    | ["rsize", h] =>
      match unhex h with
      | some bs =>
        match readSize bs with
        | .ok (n, rest) => s!"ok {n} {rest.length}"
        | .error e => "err " ++ showDErr e.1
      | none => "bad-op"
    | ["utf8", h] =>
      match unhex h with
      | some bs => showBool (utf8Valid bs)
      | none => "bad-op"
    | _ => "bad-op"
  ((), ans)

end Radix.SborIO
