import RadixModel.Util.Proto
import RadixModel.Model.WasmMeter
import RadixModel.Generated.C46
open Radix Radix.Proto Radix.WasmMeter

/-! Line protocol of area `c46` (stateless):

`prog B=<budget|inf> args=<a,b,…|-> f=<params>:<locals>:<tok,tok,…> f=… `  (function 0 is invoked)

tokens in WebAssembly order: `c<v> add sub mul divu remu and or xor shl shru eq ne ltu gtu eqz ext lg<i> ls<i>
lt<i> drop sel nop br<d> brif<d> ret call<f> unr blk loop if else end`.

Answer: `blocks=<p:c+p:c/…> orig=<r> met=<r> gas=<n>` — the metered blocks (position in the flat operator
sequence, cost) of every function, the result of the original program, the result of the metered program under
the budget, and the units charged. -/

namespace C46Drv

def weights : Weights :=
  { const := Generated.C46.W_CONST
    bin := fun b => match b with
      | .add => Generated.C46.W_ADD | .sub => Generated.C46.W_SUB | .mul => Generated.C46.W_MUL
      | .divU => Generated.C46.W_DIVU | .remU => Generated.C46.W_REMU | .and => Generated.C46.W_AND
      | .or => Generated.C46.W_OR | .xor => Generated.C46.W_XOR | .shl => Generated.C46.W_SHL
      | .shrU => Generated.C46.W_SHRU
    cmp := fun c => match c with
      | .eq => Generated.C46.W_EQ | .ne => Generated.C46.W_NE | .ltU => Generated.C46.W_LTU
      | .gtU => Generated.C46.W_GTU
    eqz := Generated.C46.W_EQZ, extend := Generated.C46.W_EXTEND
    localGet := Generated.C46.W_LOCAL_GET, localSet := Generated.C46.W_LOCAL_SET
    localTee := Generated.C46.W_LOCAL_TEE, drop := Generated.C46.W_DROP, select := Generated.C46.W_SELECT
    nop := Generated.C46.W_NOP, br := Generated.C46.W_BR, brIf := Generated.C46.W_BR_IF
    ret := Generated.C46.W_RETURN, call := Generated.C46.W_CALL, unreachable := Generated.C46.W_UNREACHABLE
    block := Generated.C46.W_BLOCK, loop := Generated.C46.W_LOOP, ite := Generated.C46.W_IF
    perLocal := Generated.C46.W_PER_LOCAL }

def numSuffix (pre : String) (t : String) : Option Nat :=
  if t.startsWith pre then (t.drop pre.length).toString.toNat? else none

def parseOp (t : String) : Option Op :=
  match t with
  | "add" => some (.bin .add) | "sub" => some (.bin .sub) | "mul" => some (.bin .mul)
  | "divu" => some (.bin .divU) | "remu" => some (.bin .remU) | "and" => some (.bin .and)
  | "or" => some (.bin .or) | "xor" => some (.bin .xor) | "shl" => some (.bin .shl) | "shru" => some (.bin .shrU)
  | "eq" => some (.cmp .eq) | "ne" => some (.cmp .ne) | "ltu" => some (.cmp .ltU) | "gtu" => some (.cmp .gtU)
  | "eqz" => some .eqz | "ext" => some .extend | "drop" => some .drop | "sel" => some .select
  | "nop" => some .nop | "ret" => some .ret | "unr" => some .unreachable
  | _ =>
    if t.startsWith "brif" then (numSuffix "brif" t).map .brIf
    else if t.startsWith "br" then (numSuffix "br" t).map .br
    else if t.startsWith "call" then (numSuffix "call" t).map .call
    else if t.startsWith "lg" then (numSuffix "lg" t).map .localGet
    else if t.startsWith "ls" then (numSuffix "ls" t).map .localSet
    else if t.startsWith "lt" then (numSuffix "lt" t).map .localTee
    else if t.startsWith "c" then (numSuffix "c" t).map .const
    else none

/-- parse a sequence up to its terminator (`end`, `else`, or end of input = "") -/
def parseSeq : Nat → List String → Option (Code × List String × String)
  | 0, _ => none
  | _ + 1, [] => some (.done, [], "")
  | fuel + 1, t :: r =>
    if t = "end" ∨ t = "else" then some (.done, r, t)
    else if t = "blk" ∨ t = "loop" then
      match parseSeq fuel r with
      | some (body, r1, "end") =>
        match parseSeq fuel r1 with
        | some (k, r2, term) => some (if t = "blk" then .block 0 body k else .loop 0 body k, r2, term)
        | none => none
      | _ => none
    else if t = "if" then
      match parseSeq fuel r with
      | some (th, r1, "else") =>
        match parseSeq fuel r1 with
        | some (el, r2, "end") =>
          match parseSeq fuel r2 with
          | some (k, r3, term) => some (.ite 0 th el k, r3, term)
          | none => none
        | _ => none
      | _ => none
    else
      match parseOp t, parseSeq fuel r with
      | some o, some (k, r1, term) => some (.op 0 o k, r1, term)
      | _, _ => none

def parseFunc (s : String) : Option Func :=
  match s.splitOn ":" with
  | [p, l, toks] =>
    match p.toNat?, l.toNat? with
    | some p, some l =>
      let ts := if toks = "-" then [] else toks.splitOn ","
      match parseSeq (ts.length + 2) ts with
      | some (body, [], "end") => some ⟨p, l, body⟩   -- the function's final `end`
      | _ => none
    | _, _ => none
  | _ => none

def showRes : Res → String
  | .fall st => match st.stack with | v :: _ => s!"v{v}" | [] => "stuck"
  | .br _ _ | .ret _ => "stuck"
  | .trap .unreachable _ => "trap.unreachable"
  | .trap .divByZero _ => "trap.div"
  | .oog _ => "oog"
  | .timeout => "timeout"
  | .stuck => "stuck"

def gasOf : Res → String
  | .fall st => toString st.gas
  | .trap _ g => toString g
  | _ => "-"

def showBlocks (bs : List MBlock) : String :=
  -- sorted by position (the real code sorts the finalized blocks by start_pos)
  let sorted := bs.toArray.qsort (fun a b => a.start < b.start) |>.toList
  if sorted.isEmpty then "-" else "+".intercalate (sorted.map fun b => s!"{b.start}:{b.cost}")

def FUEL : Nat := 2000000

def answer (toks : List String) : Option String :=
  match toks with
  | b :: a :: fs => do
    let bs ← match b.splitOn "=" with | ["B", v] => some v | _ => none
    let budget ← if bs = "inf" then some none else bs.toNat?.map some
    let as ← match a.splitOn "=" with | ["args", v] => some v | _ => none
    let args ← allSome ((if as = "-" then [] else as.splitOn ",").map (·.toNat?))
    let funcs ← allSome (fs.map fun f => match f.splitOn "=" with | ["f", v] => parseFunc v | _ => none)
    let blocks := funcs.map fun f => meteredBlocks weights f.locals f.body
    let btxt := "/".intercalate (blocks.map fun b => match b with | some bs => showBlocks bs | none => "error")
    let orig := run funcs none FUEL 0 args
    match meter weights funcs with
    | none => pure s!"blocks={btxt} orig={showRes orig} met=rejected gas=-"
    | some mf =>
      let met := run mf budget FUEL 0 args
      pure s!"blocks={btxt} orig={showRes orig} met={showRes met} gas={gasOf met}"
  | _ => none

end C46Drv

def stepLine (_ : Unit) (line : String) : Unit × String :=
  match words line with
  | "prog" :: toks =>
    match C46Drv.answer toks with
    | some a => ((), a)
    | none => ((), "bad-op")
  | _ => ((), "bad-op")

def main : IO Unit := run stepLine ()
