import RadixModel.Util.Proto
import RadixModel.Model.JmtProto
open Radix Radix.Proto Radix.Jmt Radix.Jmt.Proto

/-- C17 driver: `reset <0|1>`, `commit <tokens>` → root hash, `list` → substate hashes of the current
tree, `h <hex>` → BLAKE2b-256 (area c17h). -/
def stepLine (s : DState) (line : String) : DState × String :=
  match words line with
  | ["reset", p] =>
    if p = "0" ∨ p = "1" then (⟨some { store := { prune := p = "1" } }⟩, "ok") else (s, "bad-op")
  | "commit" :: toks =>
    match parseUpdates toks [] with
    | none => (s, "bad-op")
    | some ups =>
      match s.st with
      | none => (s, "poisoned")
      | some st =>
        match putAtNextVersion H st ups with
        | .error e => (⟨none⟩, showErr e)
        | .ok (st', root, _) => (⟨some st'⟩, s!"root={hex root}")
  | ["list"] =>
    match s.st with
    | none => (s, "poisoned")
    | some st => (s, showListing st.tree)
  | ["h", m] =>
    match unhex m with
    | some bytes => (s, hex (H bytes))
    | none => (s, "bad-op")
  | _ => (s, "bad-op")

def main : IO Unit := run stepLine {}
