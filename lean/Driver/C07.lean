import RadixModel.Util.Proto
import RadixModel.Model.Tracker
open Radix Radix.Proto Radix.Tracker

/-
Line protocol (areas `c07` = unit level, `ec07` = engine level), one answer per line.
  reset <se> <sp> <rs> <re> <epp>            unit: tracker with these fields            -> ok
  pfe <epoch>                                partition_for_expiry_epoch                 -> panic | none | some <p>
  adv                                        advance                                    -> panic | ok <old> <se> <sp>
  reset <se> <sp> <rs> <re> <epp> <epoch>    engine: post-genesis ledger                -> state <se> <sp> <rs> <re> <epp> <epoch>
  tx <0|1> <s|-> <e|-> <k> {t|s <hash> <expiry>}*k                                      -> reject … | commit <se> <sp> | panic
  sys <epoch>                                committed system transaction leaving epoch -> commit <se> <sp> | panic
  round                                      real round change ending the epoch (epoch+1) -> commit <se> <sp> | panic
  jump <epoch>                               epoch substate overwritten                 -> ok
  peek <partition> <hash>                                                                -> none | success | failure | cancelled
-/

def u64? (s : String) : Option Nat := match s.toNat? with
  | some n => if n ≤ U64MAX then some n else none
  | none => none

def u8? (s : String) : Option Nat := match s.toNat? with
  | some n => if n ≤ U8MAX then some n else none
  | none => none

def parseNulls : Nat → List String → Option (List Nullif)
  | 0, [] => some []
  | 0, _ :: _ => none
  | k + 1, kd :: h :: e :: rest =>
    match (if kd = "t" then some Kind.tx else if kd = "s" then some Kind.sub else none), u64? h, u64? e, parseNulls k rest with
    | some kd, some h, some e, some ns => some ({ kind := kd, hash := h, expiry := e } :: ns)
    | _, _, _, _ => none
  | _ + 1, _ => none

def showReject : Reject → String
  | .notYetValid f c => s!"reject NotYetValid {f} {c}"
  | .noLongerValid u c => s!"reject NoLongerValid {u} {c}"
  | .prevCommitted h => s!"reject PrevCommitted {h}"
  | .prevCancelled h => s!"reject PrevCancelled {h}"

def showStep (l : Ledger) (r : StepRes) : Ledger × String :=
  match r with
  | .rejected r => (l, showReject r)
  | .committed l' => (l', s!"commit {l'.tracker.startEpoch} {l'.tracker.startPartition}")
  | .panic => (l, "panic")

def init : Ledger := { tracker := Tracker.create 0 65 255 100, store := Store.empty, epoch := 0 }

def stepLine (l : Ledger) (line : String) : Ledger × String :=
  match words line with
  | ["reset", se, sp, rs, re, epp] =>
    match u64? se, u8? sp, u8? rs, u8? re, u64? epp with
    | some se, some sp, some rs, some re, some epp =>
      ({ tracker := { startEpoch := se, startPartition := sp, rs := rs, re := re, epp := epp }, store := Store.empty, epoch := 0 }, "ok")
    | _, _, _, _, _ => (l, "bad-op")
  | ["reset", se, sp, rs, re, epp, ep] =>
    match u64? se, u8? sp, u8? rs, u8? re, u64? epp, u64? ep with
    | some se, some sp, some rs, some re, some epp, some ep =>
      ({ tracker := { startEpoch := se, startPartition := sp, rs := rs, re := re, epp := epp }, store := Store.empty, epoch := ep },
       s!"state {se} {sp} {rs} {re} {epp} {ep}")
    | _, _, _, _, _, _ => (l, "bad-op")
  | ["pfe", e] =>
    match u64? e with
    | some e => (l, match partitionForExpiry l.tracker e with
      | .panic => "panic" | .none => "none" | .some p => s!"some {p}")
    | none => (l, "bad-op")
  | ["adv"] =>
    match advance l.tracker with
    | none => (l, "panic")
    | some (t', old) => ({ l with tracker := t' }, s!"ok {old} {t'.startEpoch} {t'.startPartition}")
  | "tx" :: succ :: s :: e :: k :: rest =>
    let range : Option (Option (Nat × Nat)) :=
      if s = "-" ∧ e = "-" then some none
      else match u64? s, u64? e with
        | some s, some e => some (some (s, e))
        | _, _ => none
    match (if succ = "1" then some true else if succ = "0" then some false else none), range, k.toNat? with
    | some succ, some range, some k =>
      match parseNulls k rest with
      | some ns => showStep l (step l (.user { range := range, nulls := ns } succ))
      | none => (l, "bad-op")
    | _, _, _ => (l, "bad-op")
  | ["sys", e] =>
    match u64? e with
    | some e => showStep l (step l (.system e))
    | none => (l, "bad-op")
  | ["round"] =>
    -- a real consensus round change that ends the epoch: a committed system transaction leaving epoch + 1
    if l.epoch + 1 > U64MAX then (l, "bad-op") else showStep l (step l (.system (l.epoch + 1)))
  | ["jump", e] =>
    match u64? e with
    | some e => ({ l with epoch := e }, "ok")
    | none => (l, "bad-op")
  | ["peek", p, h] =>
    match u8? p, u64? h with
    | some p, some h => (l, match l.store p h with
      | none => "none" | some .success => "success" | some .failure => "failure" | some .cancelled => "cancelled")
    | _, _ => (l, "bad-op")
  | _ => (l, "bad-op")

def main : IO Unit := Radix.Proto.run stepLine init
