import RadixModel.Util.Proto
import RadixModel.Model.WasmMemory
open Radix Radix.Proto Radix.WasmMem

namespace C47Drv

def PAGE : Nat := 65536
def MAX_PAGES : Nat := 4
def BUF_LIMIT : Nat := 300000

def natStrict (s : String) : Option Nat :=
  let cs := s.toList
  if cs.isEmpty then none
  else if !(cs.all (fun c => '0' ≤ c ∧ c ≤ '9')) then none
  else if cs.length > 1 ∧ cs.head? = some '0' then none
  else some (cs.foldl (fun acc c => acc * 10 + (c.toNat - '0'.toNat)) 0)

def u32Strict (s : String) : Option Nat := (natStrict s).filter (· ≤ 4294967295)
def u64Strict (s : String) : Option Nat := (natStrict s).filter (· ≤ 18446744073709551615)

def i64Strict (s : String) : Option Int :=
  match s.toList with
  | '-' :: rest =>
    match natStrict (String.ofList rest) with
    | some 0 => none
    | some n => if (n : Int) ≤ 9223372036854775808 then some (-(n : Int)) else none
    | none => none
  | _ =>
    match natStrict s with
    | some n => if (n : Int) ≤ 9223372036854775807 then some (n : Int) else none
    | none => none

def ck (bs : List UInt8) : Nat := bs.foldl (fun c b => (c * 31 + b.toNat + 1) % 4294967296) 0

def patternMem (n : Nat) : Mem := (List.range n).map (fun i => UInt8.ofNat ((7 * i + 3) % 256))
def patternBuf (len : Nat) : List UInt8 := (List.range len).map (fun i => UInt8.ofNat ((13 * i + len) % 256))

def showErr : Err → String
  | .memoryAccess => "err MemoryAccess"
  | .bufferNotFound => "err BufferNotFound"
  | .panic => "panic"

def pairs : List String → Option (List (Nat × Nat))
  | [] => some []
  | p :: l :: rest =>
    match u32Strict p, u32Strict l, pairs rest with
    | some p, some l, some r => some ((p, l) :: r)
    | _, _, _ => none
  | _ => none

def arity (f : String) : Option Nat :=
  if f = "panic" ∨ f = "keccak" ∨ f = "tread" ∨ f = "kvw" ∨ f = "fw" then some 1
  else if f = "log" ∨ f = "event" then some 2
  else if f = "call" then some 3
  else if f = "bpcall" then some 4
  else none

abbrev St := Option Mem

def step (st : St) (line : String) : St × String :=
  match words line with
  | ["reset", p] =>
    match natStrict p with
    | some p => if 1 ≤ p ∧ p ≤ MAX_PAGES then (some (patternMem (p * PAGE)), "ok") else (st, "bad-op")
    | none => (st, "bad-op")
  | ["slice", p, l] =>
    match u32Strict p, u32Strict l with
    | some p, some l =>
      let s := sliceNew p l
      (st, s!"ok {s} {slicePtr s} {sliceLen s} {sliceAsI64 s}")
    | _, _ => (st, "bad-op")
  | ["unslice", i] =>
    match i64Strict i with
    | some i => let s := sliceOfI64 i; (st, s!"ok {slicePtr s} {sliceLen s}")
    | none => (st, "bad-op")
  | ws =>
    match st with
    | none => (st, "bad-op")
    | some mem =>
      match ws with
      | ["ret", x] =>
        match u64Strict x with
        | some x => match readSlice mem x with
          | .ok v => (st, s!"ok {v.length} {ck v}")
          | .error e => (st, showErr e)
        | none => (st, "bad-op")
      | "host" :: f :: rest =>
        match arity f, pairs rest with
        | some k, some ps =>
          if ps.length = k then
            match hostRead mem ps with
            | .ok vs =>
              if f = "tread" then (st, "ok")
              else (st, "ok " ++ " ".intercalate (vs.map (fun v => s!"{v.length}:{ck v}")))
            | .error e => (st, showErr e)
          else (st, "bad-op")
        | _, _ => (st, "bad-op")
      | ["consume", len, dest] =>
        match u32Strict len, u32Strict dest with
        | some len, some dest =>
          let buf := if len > BUF_LIMIT then none else some (patternBuf len)
          match consumeBuffer mem buf dest with
          | .ok m => (some m, "ok")
          | .error e => (st, showErr e)
        | _, _ => (st, "bad-op")
      | ["twrite", p, l] =>
        match u32Strict p, u32Strict l with
        | some p, some l =>
          if l > 1048577 then (st, "bad-op") else
          match writeMemory mem p (List.replicate l 0) with
          | .ok m => (some m, "ok")
          | .error e => (st, showErr e)
        | _, _ => (st, "bad-op")
      | ["grow", n] =>
        match u32Strict n with
        | some n => let m := grow mem PAGE MAX_PAGES n; (some m, s!"ok {m.length / PAGE}")
        | none => (st, "bad-op")
      | ["dump"] => (st, s!"ok {mem.length} {ck mem}")
      | _ => (st, "bad-op")

end C47Drv

def main : IO Unit := run C47Drv.step none
