import Driver.SborIO
/-! Line-protocol driver of the SBOR model (ops `enc dec size rsize utf8 trav`), area c20. -/
def main : IO Unit := Radix.Proto.run Radix.SborIO.stepLine ()
