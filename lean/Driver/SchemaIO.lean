import RadixModel.Util.Proto
import RadixModel.Model.SborSchema
/-! Text form of schemas / outcomes shared by the C22 and C23 drivers (no model logic here). -/
open Radix Radix.Proto Radix.Sbor Radix.Schema

namespace Radix.SchemaIO

def natTokens (ws : List String) : Option (List Nat) :=
  ws.foldr (fun w acc => match w.toNat?, acc with | some n, some l => some (n :: l) | _, _ => none) (some [])

def showVErr : VErr → String
  | .typeIdNotFound => "TypeIdNotFound"
  | .mismatchingType => "MismatchingType"
  | .mismatchingChildElementType => "MismatchingChildElementType"
  | .mismatchingChildKeyType => "MismatchingChildKeyType"
  | .mismatchingChildValueType => "MismatchingChildValueType"
  | .mismatchingTupleLength => "MismatchingTupleLength"
  | .mismatchingEnumVariantLength => "MismatchingEnumVariantLength"
  | .unknownEnumVariant => "UnknownEnumVariant"
  | .lengthValidation => "LengthValidationError"
  | .numericValidation => "NumericValidationError"
  | .customValidation => "CustomError"
  | .schemaInconsistency => "SchemaInconsistency"
  | .panic => "panic"

def showOutcome : POutcome → String
  | .ok => "ok"
  | .undecodable => "undecodable"
  | .invalid e => s!"invalid {showVErr e}"

def parseSchema (ws : List String) : Option Schema :=
  match natTokens ws with
  | none => none
  | some toks =>
    match pSchema toks with
    | some (S, []) => some S
    | _ => none

def parseTid (tag n : String) : Option TypeId :=
  match tag.toNat?, n.toNat? with
  | some 0, some n => some (.wk n)
  | some 1, some n => some (.loc n)
  | _, _ => none

def valLine (S : Option Schema) (depth tag n payload : String) : String :=
  match S, depth.toNat?, parseTid tag n, unhex payload with
  | some S, some d, some tid, some bs => showOutcome (validatePayload genEnv S tid d bs)
  | _, _, _, _ => "bad-op"

end Radix.SchemaIO
