import RadixModel.Util.Proto
import RadixModel.Util.Blake2b
import RadixModel.Model.Determinism
open Radix Radix.Proto Radix.C01

/-- driver state: the allocator of the current `c01a` case -/
abbrev St := Option IdAllocator

def pBool (s : String) : Option Bool :=
  if s = "0" then some false else if s = "1" then some true else none

/-- canonical decimal only (no sign, no leading zeros except "0") -/
def pNat (s : String) : Option Nat :=
  match s.toNat? with
  | some n => if toString n = s then some n else none
  | none => none

def showB (b : Bool) : String := if b then "true" else "false"
def showO (n : Nat) : String := if n = 1 then "ovr" else "base"

/-- entity type bytes accepted by `EntityType::from_repr` (dumped from the compiled tree) -/
def entityOk (e : Nat) : Bool := Radix.Generated.C01.entityTypeBytes.contains e

def resolveLine (ws : List String) : String :=
  match ws with
  | [kt, cb, et, dbg, ov, dc, dl, da, ab, co, lo, nd, ex] =>
    let etv : Option (Option Nat) :=
      if et = "n" then some none else
        match pNat et with
        | some d => if d ≤ 1000000 then some (some d) else none
        | none => none
    match pBool kt, pBool cb, etv, pBool dbg, pBool ov, pBool dc, pBool dl, pBool da, pBool ab,
          pBool co, pBool lo, pBool nd, pBool ex with
    | some kt, some cb, some et, some dbg, some ov, some dc, some dl, some da, some ab,
      some co, some lo, some nd, some ex =>
      let overrides : Option SystemOverrides :=
        if ov then some { disableCosting := dc, disableLimits := dl, disableAuth := da, abortWhenLoanRepaid := ab,
                          networkDefinition := if nd then some 1 else none,
                          costingParameters := if co then some 1 else none,
                          limitParameters := if lo then some 1 else none }
        else none
      let cfg : ExecutionConfig :=
        { enableKernelTrace := kt, enableCostBreakdown := cb, executionTrace := et,
          enableDebugInformation := dbg, systemOverrides := overrides }
      let params : SystemParameters := { networkDefinition := 0, costingModuleConfig := 0, costingParameters := 0, limitParameters := 0 }
      match resolveModules ex true (SystemSelfInit.new cfg 0 params) with
      | .error _ => "err:init-rejected"
      | .ok r =>
        s!"bits={r.enabled.toBits} abort={showB r.abortWhenLoanRepaid} cb={showB r.costBreakdown} dcb={showB r.detailedCostBreakdown} cost={showO r.costingParameters} lim={showO r.limitParameters} net={showO r.network}"
    | _, _, _, _, _, _, _, _, _, _, _, _, _ => "bad-op"
  | _ => "bad-op"

def stepLine (s : St) (line : String) : St × String :=
  match words line with
  | ["reset"] => (none, "ok")
  | ["new", h] =>
    match unhex h with
    | some b => if b.length = 32 then (some (IdAllocator.new b), "ok") else (s, "bad-op")
    | none => (s, "bad-op")
  | ["alloc", e] =>
    match pNat e with
    | some e =>
      if e < 256 && entityOk e then
        match s with
        | none => (s, "err:no-allocator")
        | some a =>
          match a.nextNodeId Blake2b.blake2b256 (UInt8.ofNat e) with
          | .ok (id, a') => (some a', hex id)
          | .error .outOfId => (s, "err:out-of-id")
          | .error .emptyHash => (s, "err:panic")
      else (s, "bad-op")
    | none => (s, "bad-op")
  | "resolve" :: rest => (s, resolveLine rest)
  | _ => (s, "bad-op")

def main : IO Unit := run stepLine none
