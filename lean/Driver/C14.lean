import Driver.KVProto
import RadixModel.Model.Overlay
open Radix Radix.Proto Radix.KV Radix.SubstateDb Radix.Overlay Radix.KVProto

/-- `started = false` while the root database is being filled by `base` lines -/
structure DS where
  started : Bool
  ov : Overlay

def ds0 : DS := { started := false, ov := Overlay.new Db.empty }

/-- `n/p/D/k=v,k=-` or `n/p/R/k=v,…` -/
def parseItem (s : String) : Option (Nat × Nat × PUpd) :=
  match s.splitOn "/" with
  | [n, p, kind, body] =>
    match n.toNat?, p.toNat? with
    | some n, some p =>
      if kind = "D" then
        match parseList (parseKU true) body with
        | some us => some (n, p, .delta us)
        | none => none
      else if kind = "R" then
        match parseList parseKV body with
        | some vs => some (n, p, .reset vs)
        | none => none
      else none
    | _, _ => none
  | _ => none

def pairsDistinct : List (Nat × Nat) → Bool
  | [] => true
  | a :: t => !t.contains a && pairsDistinct t

/-- nest the flat item list: nodes in order of first appearance (`IndexMap` of `IndexMap`s) -/
def nest (items : List (Nat × Nat × PUpd)) : DbUpdates :=
  items.foldl (fun acc it => IMap.alter acc it.1 [] (fun nu => nu ++ [(it.2.1, it.2.2)])) []

def parseUpdates (s : String) : Option DbUpdates :=
  if s = "-" then some [] else
  match allSome ((s.splitOn ";").map parseItem) with
  | some items => if pairsDistinct (items.map (fun it => (it.1, it.2.1))) then some (nest items) else none
  | none => none

def stepLine (s : DS) (line : String) : DS × String :=
  match words line with
  | ["reset"] => (ds0, "ok")
  | ["base", n, p, k, v] =>
    match n.toNat?, p.toNat?, parseKey k, v.toNat? with
    | some n, some p, some k, some v =>
      if !s.started then
        let root := s.ov.root
        ({ s with ov := Overlay.new (root.set (n, p) (SMap.insert (root (n, p)) k v)) }, "ok")
      else (s, "late-base")
    | _, _, _, _ => (s, "bad-op")
  | ["commit", u] =>
    match parseUpdates u with
    | some u => ({ started := true, ov := commit s.ov u }, "ok")
    | none => (s, "bad-op")
  | ["get", n, p, k] =>
    match n.toNat?, p.toNat?, parseKey k with
    | some n, some p, some k => ({ s with started := true }, showOpt (get s.ov (n, p) k))
    | _, _, _ => (s, "bad-op")
  | ["list", n, p, f] =>
    match n.toNat?, p.toNat? with
    | some n, some p =>
      if f = "*" then ({ s with started := true }, showEntries (list s.ov (n, p) none))
      else match parseKey f with
        | some f => ({ s with started := true }, showEntries (list s.ov (n, p) (some f)))
        | none => (s, "bad-op")
    | _, _ => (s, "bad-op")
  | ["staged", n, p] =>
    match n.toNat?, p.toNat? with
    | some n, some p =>
      ({ s with started := true },
        match databaseUpdatesOf s.ov (n, p) with
        | some pu => showPUpd pu
        | none => "none")
    | _, _ => (s, "bad-op")
  | ["merge"] => ({ started := true, ov := commitIntoRoot s.ov }, "ok")
  | _ => (s, "bad-op")

def main : IO Unit := run stepLine ds0
