import RadixModel.Util.Proto
import RadixModel.Model.JmtProto
open Radix Radix.Proto Radix.Jmt Radix.Jmt.Proto

/-- C18 driver: `reset <0|1>` (pruning off/on), `commit <tokens>` → root, the complete content of the
node store after the commit (count, digest, sorted keys) and the stale parts reported by the commit. -/
def stepLine (s : DState) (line : String) : DState × String :=
  match words line with
  | ["reset", p] =>
    if p = "0" ∨ p = "1" then (⟨some { store := { prune := p = "1" } }⟩, "ok") else (s, "bad-op")
  | "commit" :: toks =>
    match parseUpdates toks [] with
    | none => (s, "bad-op")
    | some ups =>
      match s.st with
      | none => (s, "poisoned")
      | some st =>
        match putAtNextVersion H st ups with
        | .error e => (⟨none⟩, showErr e)
        | .ok (st', root, evs) =>
          (⟨some st'⟩, s!"root={hex (root.take 4)} {showStore st'.store} stale={showStale evs}")
  | _ => (s, "bad-op")

def main : IO Unit := run stepLine {}
