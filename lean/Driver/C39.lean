import RadixModel.Util.Proto
import RadixModel.Model.AccountDeposit
open Radix Radix.Proto Radix.Account

/-
Line protocol (area c39), one real transaction per line on the implementation side:
  reset latest|babylon                 fresh (virtual) account; which code the `..._or_refund` exports run
  rule a|r|e                           set_default_deposit_rule (Accept / Reject / AllowExisting)
  pref <res> a|d|n                     set_resource_preference Allowed / Disallowed, remove_resource_preference
  dep <badge> +|-                      add / remove_authorized_depositor
  odep <buckets>                       owner `deposit_batch`
  wd <res> <amt>                       owner `withdraw`
  !rule / !pref / !dep / !odep / !wd   the same calls WITHOUT the owner's signature (must fail in the auth layer)
  try r|br|a|ba <badge|-> <mask> <buckets>   guarded deposit; mask = proofs in the caller's auth zone
buckets: `-` (empty) or `res:amt,res:amt,...`; resources 0..4 (0 = XRD), badges 0..4.
Answer: `<outcome> ev=<events> ret=<returned> st=<rule>;<prefs>;<deps>;<vaults>`.
-/

def NR : Nat := 5
def NG : Nat := 5

structure DS where
  ver : Ver
  s : Acct
  /-- a `reset` line has been seen -/
  on : Bool

/-- decimal numeral of at most 9 digits (same acceptance as the harness). -/
def nat? (w : String) : Option Nat :=
  if w.length ≥ 1 ∧ w.length ≤ 9 ∧ w.all Char.isDigit then w.toNat? else none

def MAXAMT : Nat := 1000

def parseBucket (w : String) : Option Bucket :=
  match w.splitOn ":" with
  | [r, a] =>
    match nat? r, nat? a with
    | some r, some a => if r < NR ∧ a ≤ MAXAMT then some ⟨r, a⟩ else none
    | _, _ => none
  | _ => none

def parseBuckets (w : String) : Option (List Bucket) :=
  if w = "-" then some [] else (w.splitOn ",").mapM parseBucket

def parseBadge (w : String) : Option (Option Nat) :=
  if w = "-" then some none else
  match nat? w with
  | some g => if g < NG then some (some g) else none
  | none => none

def showRule : Rule → String
  | .accept => "a" | .reject => "r" | .allowExisting => "e"

def showState (s : Acct) : String :=
  let prefs := String.join ((List.range NR).map fun r =>
    match s.pref r with | some .allowed => "a" | some .disallowed => "d" | none => "-")
  let deps := String.join ((List.range NG).map fun g => if s.dep g then "1" else "0")
  let vaults := String.intercalate "," ((List.range NR).map fun r =>
    match s.vault r with | some x => toString x | none => "-")
  s!"{showRule s.rule};{prefs};{deps};{vaults}"

def showEv : Ev → String
  | .deposit r a => s!"D{r}:{a}"
  | .rejected r a => s!"R{r}:{a}"

def showEvs (es : List Ev) : String :=
  if es.isEmpty then "-" else String.intercalate "," (es.map showEv)

/-- returned buckets, as observable from balances: number of buckets + non-zero totals per resource. -/
def showRet (bs : List Bucket) : String :=
  let tot (r : Nat) : Nat := (bs.filter (fun b => b.res == r)).foldl (fun acc b => acc + b.amt) 0
  let parts := (List.range NR).filterMap fun r => if tot r > 0 then some s!"{r}={tot r}" else none
  s!"some:{bs.length}:" ++ (if parts.isEmpty then "-" else String.intercalate "," parts)

def showErr : Err → String
  | .notAnAuthorizedDepositor _ => "err:not-depositor"
  | .badgeNotPresent => "err:badge-absent"
  | .depositIsDisallowed _ => "err:disallowed"
  | .notAllBucketsCouldBeDeposited => "err:not-all"
  | .vaultDoesNotExist _ => "err:no-vault"
  | .insufficientBalance _ => "err:insufficient"
  | .unauthorized => "err:auth"

def okLine (s : Acct) (evs : String) (ret : String) : String :=
  s!"ok ev={evs} ret={ret} st={showState s}"

def errLine (s : Acct) (e : Err) : String :=
  s!"{showErr e} ev=- ret=- st={showState s}"

def stepOn (d : DS) (ws : List String) : DS × String :=
  match ws with
  | ["rule", x] =>
    let r : Option Rule := if x = "a" then some .accept else if x = "r" then some .reject
      else if x = "e" then some .allowExisting else none
    match r with
    | some r => let s := step d.ver d.s (.setRule r); ({ d with s := s }, okLine s "-" "-")
    | none => (d, "bad-op")
  | ["pref", r, p] =>
    match nat? r with
    | some r =>
      if r < NR then
        let op : Option Op := if p = "a" then some (.setPref r .allowed) else if p = "d" then some (.setPref r .disallowed)
          else if p = "n" then some (.removePref r) else none
        match op with
        | some op => let s := step d.ver d.s op; ({ d with s := s }, okLine s "-" "-")
        | none => (d, "bad-op")
      else (d, "bad-op")
    | none => (d, "bad-op")
  | ["dep", g, x] =>
    match nat? g with
    | some g =>
      if g < NG then
        let op : Option Op := if x = "+" then some (.addDep g) else if x = "-" then some (.removeDep g) else none
        match op with
        | some op => let s := step d.ver d.s op; ({ d with s := s }, okLine s "-" "-")
        | none => (d, "bad-op")
      else (d, "bad-op")
    | none => (d, "bad-op")
  | ["odep", bs] =>
    match parseBuckets bs with
    | some bs => let s := putAll d.s bs; ({ d with s := s }, okLine s (showEvs (bs.map depEv)) "-")
    | none => (d, "bad-op")
  | ["wd", r, a] =>
    match nat? r, nat? a with
    | some r, some a =>
      if r < NR ∧ a ≤ MAXAMT then
        match withdraw d.s r a with
        | .ok s => ({ d with s := s }, okLine s "-" "-")
        | .error e => (d, errLine d.s e)
      else (d, "bad-op")
    | _, _ => (d, "bad-op")
  | ["try", v, g, m, bs] =>
    match parseBadge g, nat? m, parseBuckets bs with
    | some g, some m, some bs =>
      if m ≥ 16 then (d, "bad-op") else
      let proven : Bool := match g with | some g => badgeProven m g | none => false
      if v = "r" then
        match bs with
        | [b] =>
          match tryDepositOrRefund d.ver d.s b g proven with
          | .ok (s, ev, none) => ({ d with s := s }, okLine s (showEvs ev) "none")
          | .ok (s, ev, some b') => ({ d with s := s }, okLine s (showEvs ev) (showRet [b']))
          | .error e => (d, errLine d.s e)
        | _ => (d, "bad-op")
      else if v = "a" then
        match bs with
        | [b] =>
          match tryDepositOrAbort d.s b g proven with
          | .ok (s, ev, ()) => ({ d with s := s }, okLine s (showEvs ev) "unit")
          | .error e => (d, errLine d.s e)
        | _ => (d, "bad-op")
      else if v = "br" then
        match tryDepositBatchOrRefund d.ver d.s bs g proven with
        | .ok (s, ev, none) => ({ d with s := s }, okLine s (showEvs ev) "none")
        | .ok (s, ev, some bs') => ({ d with s := s }, okLine s (showEvs ev) (showRet bs'))
        | .error e => (d, errLine d.s e)
      else if v = "ba" then
        match tryDepositBatchOrAbort d.s bs g proven with
        | .ok (s, ev, ()) => ({ d with s := s }, okLine s (showEvs ev) "unit")
        | .error e => (d, errLine d.s e)
      else (d, "bad-op")
    | _, _, _ => (d, "bad-op")
  | _ => (d, "bad-op")

def stepLine (d : DS) (line : String) : DS × String :=
  match words line with
  | ["reset", v] =>
    if v = "latest" then (⟨.bottlenose, init, true⟩, "ok " ++ showState init)
    else if v = "babylon" then (⟨.v1, init, true⟩, "ok " ++ showState init)
    else (d, "bad-op")
  | "reset" :: _ => (d, "bad-op")
  | w :: rest =>
    if !d.on then (d, "bad-op")
    else if w = "!rule" ∨ w = "!pref" ∨ w = "!dep" ∨ w = "!odep" ∨ w = "!wd" then
      -- the same owner call made WITHOUT the owner's signature: well-formed arguments, then the auth layer refuses
      let (_, a) := stepOn d ((w.drop 1).toString :: rest)
      if a = "bad-op" then (d, "bad-op")
      else match ownerMethodByStranger d.s with
        | .error e => (d, errLine d.s e)
        | .ok s => ({ d with s := s }, okLine s "-" "-")
    else stepOn d (w :: rest)
  | [] => (d, "bad-op")

def main : IO Unit := run stepLine (⟨.bottlenose, init, false⟩ : DS)
