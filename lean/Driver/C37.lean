import RadixModel.Util.Proto
import RadixModel.Model.ResConstraint
open Radix Radix.Proto Radix.ResConstraint

/-! Line protocol of area `c37` (stateless; see harness/src/bin/c37.rs for the grammar). -/

/-- strict: non-empty, ASCII digits only -/
def natStrict (s : String) : Option Nat :=
  if s.isEmpty then none
  else if s.toList.all (fun c => '0' ≤ c ∧ c ≤ '9') then
    some (s.toList.foldl (fun acc c => acc * 10 + (c.toNat - '0'.toNat)) 0)
  else none

/-- strict: optional `-`, then digits -/
def intStrict (s : String) : Option Int :=
  if s.startsWith "-" then (natStrict (s.drop 1).toString).map (fun n => -(n : Int))
  else (natStrict s).map (fun n => (n : Int))

def parseDec (s : String) : Option Int :=
  match intStrict s with
  | some d => if DMIN ≤ d ∧ d ≤ DMAX then some d else none
  | none => none

def parseIdsAux : List String → List Nat → Option (List Nat)
  | [], acc => some acc.reverse
  | t :: rest, acc =>
    match natStrict t with
    | some n => if acc.contains n then none else parseIdsAux rest (n :: acc)
    | none => none

/-- `-` = empty; otherwise comma separated naturals, duplicates rejected. -/
def parseIds (s : String) : Option (List Nat) :=
  if s = "-" then some [] else parseIdsAux (s.splitOn ",") []

def parseLower (s : String) : Option LowerBound :=
  if s = "nz" then some .nonZero
  else if s.startsWith "i" then (parseDec (s.drop 1).toString).map .inclusive
  else none

def parseUpper (s : String) : Option UpperBound :=
  if s = "u" then some .unbounded
  else if s.startsWith "i" then (parseDec (s.drop 1).toString).map .inclusive
  else none

def parseAllowed (s : String) : Option AllowedIds :=
  if s = "any" then some .any
  else if s.startsWith "l" then (parseIds (s.drop 1).toString).map .allowlist
  else none

def parseGeneral (r l u a : String) : Option General :=
  match parseIds r, parseLower l, parseUpper u, parseAllowed a with
  | some r, some l, some u, some a => some { required := r, lower := l, upper := u, allowed := a }
  | _, _, _, _ => none

/-- Parses one constraint from the front of the token list. -/
def parseC : List String → Option (Constraint × List String)
  | "nz" :: rest => some (.nonZeroAmount, rest)
  | "ex" :: d :: rest => (parseDec d).map (fun d => (.exactAmount d, rest))
  | "al" :: d :: rest => (parseDec d).map (fun d => (.atLeastAmount d, rest))
  | "exnf" :: ids :: rest => (parseIds ids).map (fun i => (.exactNF i, rest))
  | "alnf" :: ids :: rest => (parseIds ids).map (fun i => (.atLeastNF i, rest))
  | "gen" :: r :: l :: u :: a :: rest => (parseGeneral r l u a).map (fun g => (.general g, rest))
  | _ => none

def showIds (l : List Nat) : String :=
  if l.isEmpty then "-" else ",".intercalate (l.map toString)

def showErr : Err → String
  | .nfConstraintForFungible => "nfc"
  | .expectedNonZero => "nonzero"
  | .expectedExact e a => s!"exact {e} {a}"
  | .expectedAtLeast e a => s!"atleast {e} {a}"
  | .expectedAtMost e a => s!"atmost {e} {a}"
  | .missing id => s!"missing {id}"
  | .notAllowed id => s!"notallowed {id}"

def showRes : Except Err Unit → String
  | .ok () => "ok"
  | .error e => showErr e

def showLower : LowerBound → String
  | .nonZero => "nz"
  | .inclusive d => s!"i{d}"

def showUpper : UpperBound → String
  | .unbounded => "u"
  | .inclusive d => s!"i{d}"

def showAllowed : AllowedIds → String
  | .any => "any"
  | .allowlist l => s!"l{showIds l}"

def showGeneral (g : General) : String :=
  s!"gen {showIds g.required} {showLower g.lower} {showUpper g.upper} {showAllowed g.allowed}"

def parseAddr (s : String) : Option Addr :=
  if s.startsWith "f" then (s.drop 1).toString |> natStrict |>.map (fun n => (true, n))
  else if s.startsWith "n" then (s.drop 1).toString |> natStrict |>.map (fun n => (false, n))
  else none

def showAddr (a : Addr) : String := (if a.1 then "f" else "n") ++ toString a.2

def parseSpec : Nat → List String → List (Addr × Constraint) → Option (List (Addr × Constraint) × List String)
  | 0, ts, acc => some (acc.reverse, ts)
  | k + 1, a :: ts, acc =>
    match parseAddr a, parseC ts with
    | some a, some (c, rest) => if hasKey acc a then none else parseSpec k rest ((a, c) :: acc)
    | _, _ => none
  | _ + 1, [], _ => none

def parseFung : Nat → List String → List (Addr × Int) → Option (List (Addr × Int) × List String)
  | 0, ts, acc => some (acc.reverse, ts)
  | k + 1, a :: d :: ts, acc =>
    match parseAddr a, parseDec d with
    | some a, some d => if hasKey acc a || !a.1 then none else parseFung k ts ((a, d) :: acc)
    | _, _ => none
  | _ + 1, _, _ => none

def parseNf : Nat → List String → List (Addr × List Nat) → Option (List (Addr × List Nat) × List String)
  | 0, ts, acc => some (acc.reverse, ts)
  | k + 1, a :: i :: ts, acc =>
    match parseAddr a, parseIds i with
    | some a, some i => if hasKey acc a || a.1 then none else parseNf k ts ((a, i) :: acc)
    | _, _ => none
  | _ + 1, _, _ => none

def answer (line : String) : String :=
  match words line with
  | "valid" :: rest =>
    (match parseC rest with
     | some (c, []) => s!"{showBool c.validFungible} {showBool c.validNonFungible}"
     | _ => "bad-op")
  | "vf" :: a :: rest =>
    (match parseDec a, parseC rest with
     | some a, some (c, []) =>
       let r := showRes (c.validateFungible a)
       (match c with
        | .general g => s!"{r} | {showBool g.validFungible} {showRes (g.normalize.validateFungible a)}"
        | _ => r)
     | _, _ => "bad-op")
  | "vnf" :: ids :: rest =>
    (match parseIds ids, parseC rest with
     | some ids, some (c, []) =>
       let r := showRes (c.validateNonFungible ids)
       (match c with
        | .general g => s!"{r} | {showBool g.validNonFungible} {showRes (g.normalize.validateNonFungibleIds ids)}"
        | _ => r)
     | _, _ => "bad-op")
  | ["norm", r, l, u, a] =>
    (match parseGeneral r l u a with
     | some g => showGeneral g.normalize
     | none => "bad-op")
  | "set" :: p :: k :: rest =>
    (match (if p = "0" then some false else if p = "1" then some true else none), natStrict k with
     | some p, some k =>
       (match parseSpec k rest [] with
        | some (spec, nfu :: rest) =>
          (match natStrict nfu with
           | some nfu =>
             (match parseFung nfu rest [] with
              | some (fung, nnf :: rest) =>
                (match natStrict nnf with
                 | some nnf =>
                   (match parseNf nnf rest [] with
                    | some (nf, []) =>
                      (match validateSet spec (fung.foldl (fun m kv => addFungible m kv.1 kv.2) []) (nf.foldl (fun m kv => addNonFungible m kv.1 kv.2) []) p with
                       | .ok () => "ok"
                       | .error (.unexpectedNonZeroBalance a) => s!"unexpected {showAddr a}"
                       | .error (.constraintFailed a e) => s!"failed {showAddr a} {showErr e}")
                    | _ => "bad-op")
                 | none => "bad-op")
              | _ => "bad-op")
           | none => "bad-op")
        | _ => "bad-op")
     | _, _ => "bad-op")
  | _ => "bad-op"

def stepLine (s : Unit) (line : String) : Unit × String := (s, answer line)

def main : IO Unit := run stepLine ()
