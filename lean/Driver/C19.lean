import RadixModel.Util.Proto
import RadixModel.Model.Stores
import Driver.StoresCommon
open Radix Radix.Proto Radix.Stores

namespace C19Drv

/-- commitment used by the driver: the live content itself (any injective commitment behaves alike) -/
abbrev Γ := List (Bytes × Bytes)

structure St where
  s : MStore Γ
  pruning : Bool

def initSt : St := { s := { sub := [], version := 0, root := [], nodes := [] }, pruning := true }

def consistent (s : MStore Γ) : Bool := s.root == flive s.sub

def shapeOf (w : Write Γ) : Option String :=
  let c (p : WOp Γ → Bool) := (w.filter p).length
  let sp := c (fun o => match o with | .subPut .. => true | _ => false)
  let sd := c (fun o => match o with | .subDel .. => true | _ => false)
  let sr := c (fun o => match o with | .subDelRange .. => true | _ => false)
  let mt := c (fun o => match o with | .setMeta .. => true | _ => false)
  let np := c (fun o => match o with | .nodePut .. => true | _ => false)
  let nd := c (fun o => match o with | .nodeDel .. => true | _ => false)
  if sp = 0 ∧ sd = 0 ∧ sr = 0 ∧ mt = 0 ∧ np = 0 ∧ nd > 0 then none   -- a prune step
  else some s!"w[sub={sp}/{sd}/{sr} meta={mt}]"

def dedupAdj : List String → List String
  | a :: b :: t => if a = b then dedupAdj (b :: t) else a :: dedupAdj (b :: t)
  | l => l

def stepLine (st : St) (line : String) : St × String :=
  match words line with
  | ["reset", p] =>
    if p = "0" ∨ p = "1" then ({ initSt with pruning := p = "1" }, "ok") else (st, "bad-op")
  | ["commit", u] =>
    match C15Drv.parseUpdates u with
    | some us =>
      let post := commit st.s.sub us
      let plan := commitPlan us [] [] (st.s.version + 1) (flive post)
      let s' := crashAt st.s plan plan.length
      ({ st with s := s' }, s!"v={s'.version}")
    | none => (st, "bad-op")
  | ["crash", u] =>
    match C15Drv.parseUpdates u with
    | some us =>
      let pre := st.s
      let postSub := commit pre.sub us
      let plan := commitPlan us [] [] (pre.version + 1) (flive postSub)
      let full := crashAt pre plan plan.length
      let outcomes := (List.range (plan.length + 1)).map (fun k =>
        let c := crashAt pre plan k
        if !consistent c then "bad"
        else if c.version == pre.version && flive c.sub == flive pre.sub then "pre"
        else if c.version == full.version && flive c.sub == flive full.sub then "post"
        else "bad")
      let shape := " ".intercalate (plan.filterMap shapeOf)
      ({ st with s := full }, s!"plan={shape} outcomes={",".intercalate (dedupAdj outcomes)}")
    | none => (st, "bad-op")
  | _ => (st, "bad-op")

end C19Drv

def main : IO Unit := run C19Drv.stepLine C19Drv.initSt
