import RadixModel.Model.ResTxDrv
open Radix Radix.Proto Radix.Res

def main : IO Unit := run stepLine Drv.init
