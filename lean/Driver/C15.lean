import Driver.StoresCommon
open Radix Radix.Proto Radix.Stores

def main : IO Unit := run C15Drv.stepLine ([] : Flat)
