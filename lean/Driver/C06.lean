import RadixModel.Util.Proto
import RadixModel.Model.FeeReserve
open Radix Radix.Proto Radix.Fee

/-- driver state: `none` = no live reserve (before the first `reset`, after a failed `new`, or after a panic) -/
abbrev St := Option Reserve

def pNat (s : String) (max : Nat) : Option Nat :=
  match s.toNat? with
  | some n => if n ≤ max then some n else none
  | none => none

/-- a `Decimal` given in attos -/
def pDec (s : String) : Option Int :=
  match s.toInt? with
  | some x => if inDec x then some x else none
  | none => none

def pBool (s : String) : Option Bool :=
  if s = "1" then some true else if s = "0" then some false else none

def pTip (k v : String) : Option Tip :=
  if k = "n" then (if v = "0" then some .none else none)
  else if k = "p" then (pNat v 65535).map .pct
  else if k = "b" then (pNat v U32_MAX).map .bp
  else none

def pStorage (s : String) : Option Storage :=
  if s = "s" then some .state else if s = "a" then some .archive else none

def showErr : FErr → String
  | .insufficient r b => s!"err insufficient {r} {b}"
  | .overflow => "err overflow"
  | .limitExceeded l c n => s!"err limit {l} {c} {n}"
  | .loanRepaymentFailed o => s!"err loan {o}"
  | .abort => "err abort"

def showRes : Res → String
  | .ok => "ok"
  | .err e => showErr e
  | .panic => "panic"

/-- answer of a mutating op: result, then the two public observables `fee_balance()` and `fully_repaid()` -/
def answer (x : Reserve × Res) : St × String :=
  match x with
  | (_, .panic) => (none, "panic")
  | (r, res) => (some r, s!"{showRes res} {r.balance} {showBool r.fullyRepaid}")

def showOpt : Option Int → String
  | some x => toString x
  | none => "panic"

def showLocks (l : List (Nat × Int × Bool)) : String :=
  if l.isEmpty then "-" else ",".intercalate (l.map (fun e => s!"{e.1}:{e.2.1}:{if e.2.2 then 1 else 0}"))

def showPairs (l : List (Nat × Int)) : String :=
  if l.isEmpty then "-" else ",".intercalate (l.map (fun e => s!"{e.1}:{e.2}"))

def shares (a b c d : String) : Option Shares :=
  match pNat a 255, pNat b 255, pNat c 255, pNat d 255 with
  | some a, some b, some c, some d => some ⟨a, b, c, d⟩
  | _, _, _, _ => none

def stepLine (s : St) (line : String) : St × String :=
  match words line with
  | ["reset", ep, el, eo, fp, fl, usd, sp, ap, tk, tv, free, ab] =>
    (match pDec ep, pNat el U32_MAX, pNat eo U32_MAX, pDec fp, pNat fl U32_MAX, pDec usd, pDec sp, pDec ap with
     | some ep, some el, some eo, some fp, some fl, some usd, some sp, some ap =>
       (match pTip tk tv, pDec free, pBool ab with
        | some tip, some free, some ab =>
          (match Reserve.new ⟨ep, el, eo, fp, fl, usd, sp, ap⟩ tip free ab with
           | some r => (some r, s!"ok {r.balance} {showBool r.fullyRepaid}")
           | none => (none, "panic"))
        | _, _, _ => (s, "bad-op"))
     | _, _, _, _, _, _, _, _ => (s, "bad-op"))
  | ["exec", cu] =>
    (match pNat cu U32_MAX with
     | some cu => (match s with | some r => answer (consumeExecution r cu) | none => (s, "dead"))
     | none => (s, "bad-op"))
  | ["fin", cu] =>
    (match pNat cu U32_MAX with
     | some cu => (match s with | some r => answer (consumeFinalization r cu) | none => (s, "dead"))
     | none => (s, "bad-op"))
  | ["storage", t, size] =>
    (match pStorage t, pNat size (USIZE - 1) with
     | some t, some size => (match s with | some r => answer (consumeStorage r t size) | none => (s, "dead"))
     | _, _ => (s, "bad-op"))
  | ["royalty", k, a, rcp] =>
    (match pDec a, pNat rcp 99 with
     | some a, some rcp =>
       let ra : Option Royalty := if k = "f" then some .free else if k = "x" then some (.xrd a) else if k = "u" then some (.usd a) else none
       (match ra with
        | some ra => (match s with | some r => answer (consumeRoyalty r ra rcp) | none => (s, "dead"))
        | none => (s, "bad-op"))
     | _, _ => (s, "bad-op"))
  | ["lock", v, a, c] =>
    (match pNat v 255, pDec a, pBool c with
     | some v, some a, some c => (match s with | some r => answer (lockFee r v a c) | none => (s, "dead"))
     | _, _, _ => (s, "bad-op"))
  | ["repay"] => (match s with | some r => answer (repayAll r) | none => (s, "dead"))
  | ["revert"] => (match s with | some r => answer (revertRoyalty r) | none => (s, "dead"))
  | ["dexec", cu] =>
    (match pNat cu U32_MAX with
     | some cu => (match s with | some r => answer (deferExecution r cu) | none => (s, "dead"))
     | none => (s, "bad-op"))
  | ["dfin", cu] =>
    (match pNat cu U32_MAX with
     | some cu => (match s with | some r => answer (deferFinalization r cu) | none => (s, "dead"))
     | none => (s, "bad-op"))
  | ["dstorage", t, size] =>
    (match pStorage t, pNat size (USIZE - 1) with
     | some t, some size => (match s with | some r => answer (deferStorage r t size) | none => (s, "dead"))
     | _, _ => (s, "bad-op"))
  | ["finalize", a, b, c, d] =>
    -- `finalize()` of a clone of the reserve, then the public summary methods with the share percentages
    (match shares a b c d with
     | none => (s, "bad-op")
     | some sh =>
       match s with
       | none => (s, "dead")
       | some r =>
         match finalize r with
         | none => (s, "panic")
         | some sm =>
           (s, s!"sum {sm.execUnits} {sm.finUnits} {sm.execCost} {sm.finCost} {sm.tipCost} {sm.storageCost} {sm.royaltyCost} {sm.badDebt} {showLocks sm.locked} {showPairs sm.royaltyBreakdown} total {showOpt sm.totalCost} nf {showOpt sm.networkFees} split {showOpt (sm.toProposer sh)} {showOpt (sm.toValidators sh)} {showOpt (sm.toBurn sh)}"))
  | _ => (s, "bad-op")

def main : IO Unit := run stepLine none
