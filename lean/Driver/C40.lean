import RadixModel.Util.Proto
import RadixModel.Model.AccessController
open Radix Radix.Proto Radix.AC

/-! Line protocol of area `c40`:
    reset <baseMinute> <delay|n> <P>,<R>,<C>      new controller, clock at baseMinute
    time <secs>                                    clock := baseMinute*60 + secs (never backwards)
    call <mask> <method> [<P>,<R>,<C> <delay|n>]   call by a holder of the badges in `mask` (bit i = badge i)
  rule tokens: A | D | R<i> | Y<digits> (any of) | L<digits> (all of), badges 0..3 -/

def nBadges : Nat := 4

def parseDigits (cs : List Char) : Option (List Nat) :=
  cs.foldr (fun c acc =>
    match acc with
    | none => none
    | some l => if '0' ≤ c ∧ c.toNat < '0'.toNat + nBadges then some ((c.toNat - '0'.toNat) :: l) else none) (some [])

def parseRule (s : String) : Option Rule :=
  match s.toList with
  | ['A'] => some .allowAll
  | ['D'] => some .denyAll
  | ['R', c] => match parseDigits [c] with
    | some [b] => some (.require b)
    | _ => none
  | 'Y' :: cs => (parseDigits cs).map .anyOf
  | 'L' :: cs => (parseDigits cs).map .allOf
  | _ => none

def parseRuleSet (s : String) : Option RuleSet :=
  match s.splitOn "," with
  | [a, b, c] =>
    match parseRule a, parseRule b, parseRule c with
    | some a, some b, some c => some ⟨a, b, c⟩
    | _, _, _ => none
  | _ => none

def parseDelay (s : String) : Option (Option Nat) :=
  if s = "n" then some none else
  match s.toNat? with
  | some d => if d ≤ 4294967295 then some (some d) else none
  | none => none

def parseProposal (rs d : String) : Option Proposal :=
  match parseRuleSet rs, parseDelay d with
  | some rs, some d => some ⟨rs, d⟩
  | _, _ => none

def parseMethod (name : String) (args : List String) : Option Method :=
  match name, args with
  | "create_proof", [] => some .createProof
  | "initiate_recovery_as_primary", [rs, d] => (parseProposal rs d).map .initRecPrimary
  | "initiate_recovery_as_recovery", [rs, d] => (parseProposal rs d).map .initRecRecovery
  | "initiate_badge_withdraw_attempt_as_primary", [] => some .initWdPrimary
  | "initiate_badge_withdraw_attempt_as_recovery", [] => some .initWdRecovery
  | "quick_confirm_primary_role_recovery_proposal", [rs, d] => (parseProposal rs d).map .qcPrimaryRec
  | "quick_confirm_recovery_role_recovery_proposal", [rs, d] => (parseProposal rs d).map .qcRecoveryRec
  | "quick_confirm_primary_role_badge_withdraw_attempt", [] => some .qcPrimaryWd
  | "quick_confirm_recovery_role_badge_withdraw_attempt", [] => some .qcRecoveryWd
  | "timed_confirm_recovery", [rs, d] => (parseProposal rs d).map .timedConfirm
  | "cancel_primary_role_recovery_proposal", [] => some .cancelPrimaryRec
  | "cancel_recovery_role_recovery_proposal", [] => some .cancelRecoveryRec
  | "cancel_primary_role_badge_withdraw_attempt", [] => some .cancelPrimaryWd
  | "cancel_recovery_role_badge_withdraw_attempt", [] => some .cancelRecoveryWd
  | "lock_primary_role", [] => some .lockPrimary
  | "unlock_primary_role", [] => some .unlockPrimary
  | "stop_timed_recovery", [rs, d] => (parseProposal rs d).map .stopTimed
  | "mint_recovery_badges", [] => some .mintRecoveryBadges
  | "lock_recovery_fee", [] => some .lockRecoveryFee
  | "withdraw_recovery_fee", [] => some .withdrawRecoveryFee
  | "contribute_recovery_fee", [] => some .contributeRecoveryFee
  | _, _ => none

def digitsStr (bs : List Nat) : String := String.join (bs.map toString)

def showRule : Rule → String
  | .allowAll => "A"
  | .denyAll => "D"
  | .require b => s!"R{b}"
  | .anyOf bs => "Y" ++ digitsStr bs
  | .allOf bs => "L" ++ digitsStr bs

def showRuleSet (rs : RuleSet) : String :=
  s!"{showRule rs.primary},{showRule rs.recovery},{showRule rs.confirmation}"

def showDelay : Option Nat → String
  | none => "n"
  | some d => toString d

def showProposal (p : Proposal) : String := s!"{showRuleSet p.ruleSet}/{showDelay p.delay}"

def showBit (b : Bool) : String := if b then "1" else "0"

def showCtl (c : Ctl) : String :=
  let pr := match c.st.primRec with | none => "-" | some p => showProposal p
  let rr := match c.st.recRec with
    | .none => "-"
    | .untimed p => "U:" ++ showProposal p
    | .timed p t => "T:" ++ showProposal p ++ "@" ++ toString t
  s!"st={if c.st.locked then "L" else "U"};{pr};{showBit c.st.primWd};{rr};{showBit c.st.recWd} delay={showDelay c.delay} roles={showRuleSet c.roles} asset={showBit c.hasAsset} fee={showBit c.feeVault}"

def showRole : Role → String
  | .primary => "P" | .recovery => "R" | .confirmation => "C"

def showErr : Err → String
  | .unauthorized => "unauthorized"
  | .missingAuthEntry => "err:MissingAuthEntry"
  | .requiresUnlocked => "err:OperationRequiresUnlockedPrimaryRole"
  | .timeOverflow => "err:TimeOverflow"
  | .recAlreadyExists r => "err:RecoveryAlreadyExistsForProposer:" ++ showRole r
  | .noRecExists r => "err:NoRecoveryExistsForProposer:" ++ showRole r
  | .wdAlreadyExists r => "err:BadgeWithdrawAttemptAlreadyExistsForProposer:" ++ showRole r
  | .noWdExists r => "err:NoBadgeWithdrawAttemptExistsForProposer:" ++ showRole r
  | .noTimedFound => "err:NoTimedRecoveriesFound"
  | .delayNotElapsed => "err:TimedRecoveryDelayHasNotElapsed"
  | .mismatch => "err:RecoveryProposalMismatch"
  | .noXrdFeeVault => "err:NoXrdFeeVault"
  | .emptyVault => "err:EmptyVault"

def showEffect : Effect → String
  | .none => "none"
  | .ruleSetReplaced rs => "replaced:" ++ showRuleSet rs
  | .assetWithdrawn => "withdrawn"
  | .proofCreated => "proof"
  | .feeOp => "fee"

def heldOfMask (mask : Nat) : List Nat :=
  (List.range nBadges).filter (fun i => (mask / 2 ^ i) % 2 = 1)

structure DS where
  ctl : Option Ctl
  base : Nat
  secs : Nat

def DS.init : DS := ⟨none, 0, 0⟩

def stepLine (s : DS) (line : String) : DS × String :=
  match words line with
  | ["reset", base, d, rs] =>
    match base.toNat?, parseDelay d, parseRuleSet rs with
    | some base, some d, some rs =>
      let c := create rs d
      (⟨some c, base, 0⟩, "ok " ++ showCtl c)
    | _, _, _ => (s, "bad-op")
  | ["time", t] =>
    match s.ctl, t.toNat? with
    | some _, some t => if t < s.secs then (s, "stale") else ({ s with secs := t }, "ok")
    | _, _ => (s, "bad-op")
  | "call" :: mask :: name :: args =>
    match s.ctl, mask.toNat?, parseMethod name args with
    | some c, some mask, some m =>
      if mask < 2 ^ nBadges then
        let nowMin : Int := Int.ofNat (s.base + s.secs / 60)
        match step c (heldOfMask mask) nowMin m with
        | .ok (c', eff) => ({ s with ctl := some c' }, s!"ok {showEffect eff} {showCtl c'}")
        | .error e => (s, s!"{showErr e} none {showCtl c}")
      else (s, "bad-op")
    | _, _, _ => (s, "bad-op")
  | _ => (s, "bad-op")

def main : IO Unit := run stepLine DS.init
