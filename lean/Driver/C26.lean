import RadixModel.Util.Proto
import RadixModel.Model.DecimalPow
open Radix Radix.Proto Radix.Dec Radix.DecimalPow

namespace C26Drv

/-- strict decimal integer: `-?[0-9]+`, no leading zeros (except "0"), no "-0" -/
def intStrict (s : String) : Option Int :=
  let nat (cs : List Char) : Option Nat :=
    if cs.isEmpty then none
    else if !(cs.all (fun c => '0' ≤ c ∧ c ≤ '9')) then none
    else if cs.length > 1 ∧ cs.head? = some '0' then none
    else some (cs.foldl (fun acc c => acc * 10 + (c.toNat - '0'.toNat)) 0)
  match s.toList with
  | '-' :: rest =>
    match nat rest with
    | some 0 => none
    | some n => some (-(n : Int))
    | none => none
  | cs => (nat cs).map (fun n => (n : Int))

def tyOf (t : String) : Option Ty :=
  if t = "d" then some .dec else if t = "p" then some .pdec else none

def showOut : Outcome → String
  | .val v => s!"val {v}"
  | .none => "none"
  | .panic => "panic"
  | .overflow => "overflow"
  | .invalidDigit => "invalidDigit"

/-- a value of the type: strict integer in range -/
def valOf (t : Ty) (s : String) : Option Int :=
  match intStrict s with
  | some v => if t.InRange v then some v else none
  | none => none

def answer (line : String) : String :=
  match words line with
  | ["powi", t, x, e] =>
    match tyOf t with
    | some t =>
      match valOf t x, intStrict e with
      | some x, some e =>
        if -(2 : Int) ^ 63 ≤ e ∧ e < (2 : Int) ^ 63 then showOut (checkedPowi t x e) else "bad-op"
      | _, _ => "bad-op"
    | none => "bad-op"
  | ["sqrt", t, x] =>
    match tyOf t with
    | some t => match valOf t x with
      | some x => showOut (checkedSqrt t x)
      | none => "bad-op"
    | none => "bad-op"
  | ["cbrt", t, x] =>
    match tyOf t with
    | some t => match valOf t x with
      | some x => showOut (checkedCbrt t x)
      | none => "bad-op"
    | none => "bad-op"
  | ["nroot", t, x, n] =>
    match tyOf t with
    | some t =>
      match valOf t x, intStrict n with
      | some x, some n =>
        -- degrees above 5000 are outside the protocol (the code materialises 10^(scale·(n-1)))
        if 0 ≤ n ∧ n ≤ 5000 then showOut (checkedNthRoot t x n.toNat) else "bad-op"
      | _, _ => "bad-op"
    | none => "bad-op"
  | _ => "bad-op"

end C26Drv

def main : IO Unit := run (fun (_ : Unit) line => ((), C26Drv.answer line)) ()
