import RadixModel.Util.Proto
import RadixModel.Model.NfResource
open Radix Radix.Proto Radix.Nf

/-! Line protocol of area `c43` (one line = one real transaction on the ledger simulator):

    reset <idtype s|i|b|r> <mutset 0..3> <flags: subset of "mbut" or "-"> <entries|->
    mint <entries>            entries = id:v0,v1,v2;id:…       id = <s|i|b|r><decimal>
    mintruid <v0,v1,v2;…>     ids are drawn by the engine; numbered r0, r1, … in order of successful creation
    burn <ids>   |  vburn <ids>      ids = id;id;…
    update <id> <field a|b|c|z> <v> [bad]
    get <id>

  answer: `ok|err:<kind>` ` sup=<n|->` then ` <id>=<v0,v1,v2|none>/<L|U>` for every id of the line. -/

structure DSt where
  r : Option Res
  nextRuid : Nat
  /-- the test account has a vault of the resource (something was deposited before): without one
      `Account::burn_non_fungibles` fails with `VaultDoesNotExist` before the vault's auth check -/
  hasVault : Bool

def initD : DSt := ⟨none, 0, false⟩

def typeCode (c : Char) : Option Nat :=
  if c = 's' then some 0 else if c = 'i' then some 1 else if c = 'b' then some 2 else if c = 'r' then some 3 else none

def typeChar (n : Nat) : String :=
  if n = 0 then "s" else if n = 1 then "i" else if n = 2 then "b" else "r"

def parseNat (s : String) : Option Nat :=
  if s.isEmpty || s.length > 18 || !(s.toList.all Char.isDigit) then none else s.toNat?

def parseId (s : String) : Option Id :=
  match s.toList with
  | c :: rest => match typeCode c, parseNat (String.ofList rest) with
    | some t, some n => some (t, n)
    | _, _ => none
  | [] => none

def showId (id : Id) : String := typeChar id.1 ++ toString id.2

def parseVals (s : String) : Option (List Nat) :=
  (s.splitOn ",").mapM parseNat

def parseEntry (s : String) : Option (Id × List Nat) :=
  match s.splitOn ":" with
  | [i, v] => match parseId i, parseVals v with
    | some i, some v => some (i, v)
    | _, _ => none
  | _ => none

def parseEntries (s : String) : Option (List (Id × List Nat)) :=
  if s = "-" then some [] else (s.splitOn ";").mapM parseEntry

def parseIds (s : String) : Option (List Id) :=
  if s = "-" then some [] else (s.splitOn ";").mapM parseId

def parseValLists (s : String) : Option (List (List Nat)) :=
  if s = "-" then some [] else (s.splitOn ";").mapM parseVals

def mutSet (k : Nat) : Option (List (Nat × Nat)) :=
  match k with
  | 0 => some []
  | 1 => some [(1, 1)]
  | 2 => some [(1, 1), (2, 2)]
  | 3 => some [(0, 0), (1, 1), (2, 2)]
  | _ => none

def fieldCode (s : String) : Option Nat :=
  if s = "a" then some 0 else if s = "b" then some 1 else if s = "c" then some 2 else if s = "z" then some 9 else none

def parseFlags (s : String) : Option (Bool × Bool × Bool × Bool) :=
  if s = "-" then some (false, false, false, false)
  else if s.toList.all (fun c => c = 'm' ∨ c = 'b' ∨ c = 'u' ∨ c = 't') && nodupIds (s.toList.map (fun c => (c.toNat, 0))) then
    some (s.toList.contains 'm', s.toList.contains 'b', s.toList.contains 'u', s.toList.contains 't')
  else none

def showErr : Err → String
  | .denied => "denied"
  | .localIdForRuid => "localIdForRuid"
  | .invalidIdType => "invalidIdType"
  | .idTypeMismatch => "idTypeMismatch"
  | .entryLocked => "entryLocked"
  | .alreadyExists => "alreadyExists"
  | .payload => "payload"
  | .unknownField => "unknownField"
  | .notFound => "notFound"
  | .fieldIndexPanic => "panic"
  | .supplyOverflow => "supplyOverflow"
  | .notHeld => "notHeld"

def showCell (c : Cell) : String :=
  (match c.value with
   | none => "none"
   | some vs => ",".intercalate (vs.map toString)) ++ "/" ++ (if c.locked then "L" else "U")

def showSupply (r : Res) : String := if r.track then toString r.supply else "-"

def showCells (r : Res) (ids : List Id) : String :=
  String.join (ids.map (fun id => " " ++ showId id ++ "=" ++ showCell (r.data id)))

def answer (r : Res) (e : Option Err) (ids : List Id) : String :=
  (match e with | none => "ok" | some e => "err:" ++ showErr e) ++ " sup=" ++ showSupply r ++ showCells r ids

def doOp (s : DSt) (r : Res) (op : Op) (ids : List Id) : DSt × String :=
  let (r', e) := step r op
  let dep := match op, e with
    | .mint _, none => true
    | _, _ => false
  ({ s with r := some r', hasVault := s.hasVault || dep }, answer r' e ids)

def stepLine (s : DSt) (line : String) : DSt × String :=
  match words line with
  | ["reset", t, m, f, es] =>
    match t.toList, parseNat m, parseFlags f, parseEntries es with
    | [c], some m, some (mi, bu, up, tr), some es =>
      match typeCode c, mutSet m with
      | some t, some mx =>
        if !(nodupIds (es.map (·.1))) then (s, "bad-op") else
        match create (fresh t 3 mx mi bu up tr) es with
        | .ok r => (⟨some r, 0, !es.isEmpty⟩, answer r none (es.map (·.1)))
        | .error e => (⟨none, 0, false⟩, "err:" ++ showErr e)
      | _, _ => (s, "bad-op")
    | _, _, _, _ => (s, "bad-op")
  | ["mint", es] =>
    match s.r, parseEntries es with
    | some r, some es =>
      if es.isEmpty || !(nodupIds (es.map (·.1))) then (s, "bad-op") else doOp s r (.mint es) (es.map (·.1))
    | _, _ => (s, "bad-op")
  | ["mintruid", vs] =>
    match s.r, parseValLists vs with
    | some r, some vs =>
      if vs.isEmpty then (s, "bad-op") else
      let es := (List.range vs.length).zip vs |>.map (fun (k, v) => ((ruidType, s.nextRuid + k), v))
      let (r', e) := step r (.mintRuid es)
      match e with
      | none => (⟨some r', s.nextRuid + vs.length, true⟩, answer r' none (es.map (·.1)))
      | some e => (⟨some r', s.nextRuid, s.hasVault⟩, answer r' (some e) [])
    | _, _ => (s, "bad-op")
  | [b, ids] =>
    if b = "burn" ∨ b = "vburn" then
      match s.r, parseIds ids with
      | some r, some ids =>
        if ids.isEmpty || !(nodupIds ids) then (s, "bad-op")
        else if b = "vburn" ∧ !s.hasVault then (s, answer r (some .notHeld) ids)
        else doOp s r (.burn ids (b = "vburn")) ids
      | _, _ => (s, "bad-op")
    else if b = "get" then
      match s.r, parseId ids with
      | some r, some id => (s, "ok sup=" ++ showSupply r ++ showCells r [id])
      | _, _ => (s, "bad-op")
    else (s, "bad-op")
  | "update" :: i :: f :: v :: rest =>
    match s.r, parseId i, fieldCode f, parseNat v with
    | some r, some id, some f, some v =>
      if rest = [] then doOp s r (.update id f v true) [id]
      else if rest = ["bad"] then doOp s r (.update id f v false) [id]
      else (s, "bad-op")
    | _, _, _, _ => (s, "bad-op")
  | _ => (s, "bad-op")

def main : IO Unit := run stepLine initD
