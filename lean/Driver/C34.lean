import RadixModel.Util.Proto
import RadixModel.Model.TxValidation
open Radix Radix.Proto Radix.TxValidation

/-
Line protocol of area `c34` (stateless; `<cfg>` = `b` | `c` | `x:<16 comma separated numbers>`):
  h1 <cfg> <req|-> <net> <start> <end> <tip>                     validate_header_v1
  th2 <cfg> <bps>                                                validate_transaction_header_v2
  hs2 <cfg> <req|-> <k> {net start end minTs|- maxTs|-}*k        validate_intent_header_v2 folded over a fresh aggregation, then finalize
  refs <cfg> <k> {count}*k                                       record_reference_count folded, then finalize
  msg <1|2> <cfg> none | pt <s|b> <mime> <len> | enc <len> <m> {key val count}*m
  ins <1|2> <cfg> <n>                                            instruction-count check
  tx2 <cfg> <req|-> <bps> <k> {net start end minTs maxTs msgLen refs pad sigs}*k     whole V2 transaction (limit checks)
-/

def u64? (s : String) : Option Nat := match s.toNat? with
  | some n => if n ≤ U64MAX then some n else none
  | none => none

def bounded? (hi : Nat) (s : String) : Option Nat := match s.toNat? with
  | some n => if n ≤ hi then some n else none
  | none => none

def i64? (s : String) : Option Int := match s.toInt? with
  | some n => if -9223372036854775808 ≤ n ∧ n ≤ 9223372036854775807 then some n else none
  | none => none

def optTs? (s : String) : Option (Option Int) :=
  if s = "-" then some none else (i64? s).map some

def req? (s : String) : Option (Option Nat) :=
  if s = "-" then some none else (bounded? 255 s).map some

def allSome {α : Type} : List (Option α) → Option (List α)
  | [] => some []
  | none :: _ => none
  | some x :: xs => (allSome xs).map (x :: ·)

def cfg? (s : String) : Option Config :=
  if s = "b" then some babylon
  else if s = "c" then some cuttlefish
  else if s.startsWith "x:" then
    match allSome (((s.drop 2).toString.splitOn ",").map u64?) with
    | some [f0, f1, f2, f3, f4, f5, f6, f7, f8, f9, f10, f11, f12, f13, f14, f15] =>
      if f2 > 65535 ∨ f3 > 65535 ∨ f10 > 1 ∨ f11 > 4294967295 ∨ f12 > 4294967295 then none
      else some
        { maxSignerSigsPerIntent := f0, maxRefsPerIntent := f1, minTipPct := f2, maxTipPct := f3,
          maxEpochRange := f4, maxInstructions := f5,
          msg := { maxPlaintext := f6, maxEncrypted := f7, maxMime := f8, maxDecryptors := f9 },
          v2Allowed := f10 == 1, minTipBps := f11, maxTipBps := f12, maxSubintentDepth := f13,
          maxTotalSigValidations := f14, maxTotalRefs := f15 }
    | _ => none
  else none

def showHErr : HeaderErr → String
  | .invalidEpochRange => "InvalidEpochRange"
  | .invalidTimestampRange => "InvalidTimestampRange"
  | .invalidNetwork => "InvalidNetwork"
  | .invalidTip => "InvalidTip"
  | .noValidEpochRangeAcrossAllIntents => "NoValidEpochRangeAcrossAllIntents"
  | .noValidTimestampRangeAcrossAllIntents => "NoValidTimestampRangeAcrossAllIntents"

def showCurve : Curve → String
  | .ed25519 => "0"
  | .secp256k1 => "1"

def showMErr : MsgErr → String
  | .plaintextTooLong a p => s!"err PlaintextMessageTooLong {a} {p}"
  | .mimeTooLong a p => s!"err MimeTypeTooLong {a} {p}"
  | .encryptedTooLong a p => s!"err EncryptedMessageTooLong {a} {p}"
  | .noDecryptors => "err NoDecryptors"
  | .mismatchingCurves a e => s!"err MismatchingDecryptorCurves {showCurve a} {showCurve e}"
  | .tooManyDecryptors a p => s!"err TooManyDecryptors {a} {p}"
  | .noDecryptorsForCurve c => s!"err NoDecryptorsForCurveType {showCurve c}"

def showTs : Option Int → String
  | none => "-"
  | some t => toString t

def parseHeaders : Nat → List String → Option (List IntentHeaderV2)
  | 0, [] => some []
  | 0, _ :: _ => none
  | k + 1, net :: s :: e :: a :: b :: rest =>
    match bounded? 255 net, u64? s, u64? e, optTs? a, optTs? b, parseHeaders k rest with
    | some net, some s, some e, some a, some b, some hs =>
      some ({ net := net, startEpoch := s, endEpoch := e, minTs := a, maxTs := b } :: hs)
    | _, _, _, _, _, _ => none
  | _ + 1, _ => none

def curve? (s : String) : Option Curve :=
  if s = "0" then some .ed25519 else if s = "1" then some .secp256k1 else none

def parseDecs : Nat → List String → Option (List DecEntry)
  | 0, [] => some []
  | 0, _ :: _ => none
  | k + 1, key :: val :: cnt :: rest =>
    match curve? key, curve? val, bounded? 10000 cnt, parseDecs k rest with
    | some key, some val, some cnt, some ds => some ({ key := key, val := val, count := cnt } :: ds)
    | _, _, _, _ => none
  | _ + 1, _ => none

def parseMsg : List String → Option Message
  | ["none"] => some .none
  | ["pt", kind, mime, len] =>
    if kind = "s" ∨ kind = "b" then
      match bounded? 100000 mime, bounded? 100000 len with
      | some mime, some len => some (.plaintext mime len)
      | _, _ => none
    else none
  | "enc" :: len :: m :: rest =>
    match bounded? 100000 len, bounded? 2 m with
    | some len, some m =>
      match parseDecs m rest with
      | some ds =>
        -- an `IndexMap` cannot hold the same key twice
        if (match ds with | [a, b] => decide (a.key = b.key) | _ => false) then none else some (.encrypted len ds)
      | none => none
    | _, _ => none
  | _ => none

/-- `{net start end minTs maxTs msgLen refs pad sigs}`; intent `idx` of `total` intents (0 = root). The
harness builds each manifest as: root = one `YIELD_TO_CHILD` per child, subintent = a final
`YIELD_TO_PARENT`, plus one `CALL_METHOD` per reference and `pad` reference-free instructions. -/
def parseIntents (total : Nat) : Nat → Nat → List String → Option (List IntentShape)
  | _, 0, [] => some []
  | _, 0, _ :: _ => none
  | idx, k + 1, net :: s :: e :: a :: b :: ml :: refs :: pad :: sigs :: rest =>
    match bounded? 255 net, u64? s, u64? e, optTs? a, optTs? b, parseIntents total (idx + 1) k rest with
    | some net, some s, some e, some a, some b, some xs =>
      match (if ml = "-" then some Message.none else (bounded? 100000 ml).map (fun l => Message.plaintext 10 l)),
            bounded? 100000 refs, bounded? 100000 pad, bounded? 1000 sigs with
      | some m, some refs, some pad, some sigs =>
        some ({ header := { net := net, startEpoch := s, endEpoch := e, minTs := a, maxTs := b },
                message := m, refs := refs,
                instructions := refs + pad + (if idx = 0 then total - 1 else 1), sigs := sigs } :: xs)
      | _, _, _, _ => none
    | _, _, _, _, _, _ => none
  | _, _ + 1, _ => none

def showSigLoc : SigLoc → String
  | .root => "root"
  | .nonRoot i => s!"sub{i}"
  | .across => "across"

def showTxErr : TxErr → String
  | .versionNotPermitted => "err VersionNotPermitted"
  | .sig e => s!"err TooManySignatures {showSigLoc e.loc} {e.total} {e.limit}"
  | .header i e => s!"err Header {i} {showHErr e}"
  | .message i e => s!"err Message {i} {(showMErr e).drop 4}"
  | .refs i e => s!"err TooManyReferences {i} {e.total} {e.limit}"
  | .tooManyInstructions i => s!"err TooManyInstructions {i}"
  | .totalRefs e => s!"err TooManyReferences across {e.total} {e.limit}"

def stepLine (_ : Unit) (line : String) : Unit × String :=
  ((), match words line with
  | ["h1", cfg, req, net, s, e, tip] =>
    match cfg? cfg, req? req, bounded? 255 net, u64? s, u64? e, bounded? 65535 tip with
    | some c, some req, some net, some s, some e, some tip =>
      match validateHeaderV1 c req { net := net, startEpoch := s, endEpoch := e, tipPct := tip } with
      | .ok () => "ok"
      | .error e => s!"err {showHErr e}"
    | _, _, _, _, _, _ => "bad-op"
  | ["th2", cfg, bps] =>
    match cfg? cfg, bounded? 4294967295 bps with
    | some c, some bps =>
      match validateTxHeaderV2 c bps with
      | .ok () => "ok"
      | .error e => s!"err {showHErr e}"
    | _, _ => "bad-op"
  | "hs2" :: cfg :: req :: k :: rest =>
    match cfg? cfg, req? req, k.toNat? with
    | some c, some req, some k =>
      match parseHeaders k rest with
      | some hs =>
        match foldHeaders c req 0 Agg.start hs with
        | .error (i, e) => s!"err {i} {showHErr e}"
        | .ok a =>
          match a.finalize c with
          | .ok o => s!"ok {o.startEpoch} {o.endEpoch} {showTs o.startTs} {showTs o.endTs}"
          | .error _ => "finalize-error"
      | none => "bad-op"
    | _, _, _ => "bad-op"
  | "refs" :: cfg :: k :: rest =>
    match cfg? cfg, k.toNat? with
    | some c, some k =>
      if rest.length ≠ k then "bad-op" else
      match allSome (rest.map u64?) with
      | some cs =>
        match foldRefs c 0 Agg.start cs with
        | .error (i, e) => s!"err {i} {e.total} {e.limit}"
        | .ok a =>
          match a.finalize c with
          | .ok _ => "ok"
          | .error e => s!"errfinal {e.total} {e.limit}"
      | none => "bad-op"
    | _, _ => "bad-op"
  | "msg" :: ver :: cfg :: rest =>
    if ver ≠ "1" ∧ ver ≠ "2" then "bad-op" else
    match cfg? cfg, parseMsg rest with
    | some c, some m =>
      match validateMessage c.msg m with
      | .ok () => "ok"
      | .error e => showMErr e
    | _, _ => "bad-op"
  | ["ins", ver, cfg, n] =>
    if ver ≠ "1" ∧ ver ≠ "2" then "bad-op" else
    match cfg? cfg, bounded? 100000 n with
    | some c, some n => if tooManyInstructions c n then "TooManyInstructions" else "ok"
    | _, _ => "bad-op"
  | "tx2" :: cfg :: req :: bps :: k :: rest =>
    match cfg? cfg, req? req, bounded? 4294967295 bps, k.toNat? with
    | some c, some req, some bps, some k =>
      match (if k > 8 then none else parseIntents k 0 k rest) with
      | some (root :: subs) =>
        match validateTxV2 c req bps root subs with
        | .ok (o, t) => s!"ok {o.startEpoch} {o.endEpoch} {showTs o.startTs} {showTs o.endTs} {t}"
        | .error e => showTxErr e
      | _ => "bad-op"
    | _, _, _, _ => "bad-op"
  | _ => "bad-op")

def main : IO Unit := Radix.Proto.run stepLine ()
