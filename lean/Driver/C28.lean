import RadixModel.Util.Proto
import RadixModel.Model.AddrText
open Radix Radix.Proto Radix.AddrText
open Radix.Bech32 (Str Bytes)

def B : Codec := bech32Codec

/-- hex of UTF-8 bytes → chars; `none` when not hex or not UTF-8 -/
def str? (s : String) : Option Str :=
  match unhex s with
  | some b => (String.fromUTF8? (ByteArray.mk b.toArray)).map String.toList
  | none => none

def hexStr (cs : Str) : String := hex (String.ofList cs).toUTF8.toList

def showId : LocalId → String
  | .str cs => s!"s:{hexStr cs}"
  | .int n => s!"i:{n}"
  | .bytes b => s!"b:{hex b}"
  | .ruid b => s!"r:{hex b}"

def showContent : ContentErr → String
  | .empty => "content:empty"
  | .long => "content:long"
  | .badChar => "content:char"

def showParseErr : ParseErr → String
  | .unknown => "unknown"
  | .int => "int"
  | .bytes => "bytes"
  | .ruid => "ruid"
  | .content e => showContent e

/-- `none` = bad-op; `some (error e)` = constructor rejected the content -/
def id? (s : String) : Option (Except ContentErr LocalId) :=
  match s.splitOn ":" with
  | ["s", v] => (str? v).map mkString
  | ["i", v] =>
    let cs := v.toList
    if cs.isEmpty || !cs.all Char.isDigit || (cs.length > 1 && cs.head? == some '0') then none
    else
      match v.toNat? with
      | some n => if n < 2 ^ 64 then some (.ok (.int n)) else none
      | none => none
  | ["b", v] => (unhex v).map mkBytes
  | ["r", v] =>
    match unhex v with
    | some b => if b.length = 32 then some (.ok (.ruid b)) else none
    | none => none
  | _ => none

def cls? : String → Option (List Nat)
  | "package" => some Radix.Generated.C28.PACKAGE_BYTES
  | "resource" => some Radix.Generated.C28.RESOURCE_BYTES
  | "component" => some Radix.Generated.C28.COMPONENT_BYTES
  | "global" => some Radix.Generated.C28.GLOBAL_BYTES
  | "internal" => some Radix.Generated.C28.INTERNAL_BYTES
  | _ => none

def stepLine (s : Unit) (line : String) : Unit × String :=
  (s, match words line with
  | ["enc", sfx, data] =>
    match str? sfx, unhex data with
    | some sfx, some data =>
      (match encodeAddr B sfx data with
       | .ok t => s!"ok {hexStr t}"
       | .error .missing => "err missing"
       | .error (.entity b) => s!"err entity:{b.toNat}"
       | .error .bech32 => "err bech32"
       | .error .fmt => "err fmt")
    | _, _ => "bad-op"
  | ["dec", sfx, text] =>
    match str? sfx, str? text with
    | some sfx, some text =>
      (match decodeAddr B sfx text with
       | .ok (b, data) => s!"ok {b.toNat} {hex data}"
       | .error .bech32 => "err bech32"
       | .error .variant => "err variant"
       | .error .missing => "err missing"
       | .error (.entity b) => s!"err entity:{b.toNat}"
       | .error .hrp => "err hrp")
    | _, _ => "bad-op"
  | ["typed", kind, sfx, text] =>
    match cls? kind, str? sfx, str? text with
    | some cls, some sfx, some text =>
      (match typedFromBech32 cls B sfx text with
       | some d => s!"some {hex d}"
       | none => "none")
    | _, _, _ => "bad-op"
  | ["nfparse", text] =>
    match str? text with
    | some text =>
      (match parseLocalId text with
       | .ok id => s!"ok {showId id}"
       | .err e => s!"err {showParseErr e}"
       | .panic => "panic")
    | none => "bad-op"
  | ["nfprint", id] =>
    match id? id with
    | some (.ok id) => s!"ok {hexStr (printLocalId id)}"
    | some (.error e) => s!"err {showContent e}"
    | none => "bad-op"
  | ["nfenc", id] =>
    match id? id with
    | some (.ok id) => (match encodeBody id with | some b => s!"ok {hex b}" | none => "panic")
    | some (.error e) => s!"err {showContent e}"
    | none => "bad-op"
  | ["nfdec", b] =>
    match unhex b with
    | some b =>
      (match decodeBody b with
       | .ok (id, rest) => s!"ok {showId id} {rest.length}"
       | .error .underflow => "err underflow"
       | .error .size => "err size"
       | .error .custom => "err custom")
    | none => "bad-op"
  | ["gidprint", sfx, node, id] =>
    match str? sfx, unhex node, id? id with
    | some sfx, some node, some idr =>
      if node.length ≠ NODE_LEN then "bad-op"
      else
        (match typedFromBytes Radix.Generated.C28.RESOURCE_BYTES node with
         | none => "err notresource"
         | some node =>
           match idr with
           | .error e => s!"err {showContent e}"
           | .ok id =>
             match printGlobalId B sfx node id with
             | some t => s!"ok {hexStr t}"
             | none => "panic")
    | _, _, _ => "bad-op"
  | ["gidparse", sfx, text] =>
    match str? sfx, str? text with
    | some sfx, some text =>
      (match parseGlobalId B sfx text with
       | .ok node id => s!"ok {hex node} {showId id}"
       | .err .parts => "err parts"
       | .err .addr => "err addr"
       | .err (.id e) => s!"err id:{showParseErr e}"
       | .panic => "panic")
    | _, _ => "bad-op"
  | _ => "bad-op")

def main : IO Unit := run stepLine ()
