import RadixModel.Util.Proto
import RadixModel.Model.Stores
open Radix Radix.Proto Radix.Stores

namespace C15Drv

def toBytes (s : String) : Option Bytes := (unhex s).map (fun l => l.map (·.toNat))
def ofBytes (b : Bytes) : String := hex (b.map UInt8.ofNat)

def parseKVs (s : String) : Option (List (Bytes × Option Bytes)) :=
  if s = "-" then some [] else
  (s.splitOn ",").foldr (fun kv acc =>
    match acc, kv.splitOn "=" with
    | some l, [k, v] =>
      match toBytes k with
      | some kb => if v = "~" then some ((kb, none) :: l) else
          match toBytes v with
          | some vb => some ((kb, some vb) :: l)
          | none => none
      | none => none
    | _, _ => none) (some [])

def parsePart (s : String) : Option (Bytes × Nat × PartUpd) :=
  match s.splitOn ":" with
  | [n, p, kind, body] =>
    match toBytes n, p.toNat?, parseKVs body with
    | some nb, some pn, some kvs =>
      if pn ≥ 256 then none else
      if kind = "D" then some (nb, pn, .delta kvs)
      else if kind = "R" then
        (kvs.foldr (fun e acc => match acc, e.2 with
          | some l, some v => some ((e.1, v) :: l)
          | _, _ => none) (some [])).map (fun vals => (nb, pn, .reset vals))
      else none
    | _, _, _ => none
  | _ => none

/-- `IndexMap` semantics of the harness parser: a repeated (node, partition) replaces the earlier
partition entry in place; the generator never repeats one, so the list is taken as is. -/
def parseUpdates (s : String) : Option Updates :=
  if s = "-" then some [] else
  (s.splitOn ";").foldr (fun p acc => match acc, parsePart p with
    | some l, some e => some (e :: l)
    | _, _ => none) (some [])

def showList (l : List (Bytes × Bytes)) : String :=
  if l.isEmpty then "[]" else ",".intercalate (l.map (fun e => ofBytes e.1 ++ "=" ++ ofBytes e.2))

def lePart (a b : Bytes × Nat) : Bool := ltB a.1 b.1 || (a.1 == b.1 && a.2 ≤ b.2)

def stepLine (m : Flat) (line : String) : Flat × String :=
  match words line with
  | ["reset"] => ([], "ok")
  | ["reset", "plain"] => ([], "ok")
  | ["commit", u] =>
    match parseUpdates u with
    | some us => (commit m us, "ok")
    | none => (m, "bad-op")
  | ["get", n, p, k] =>
    match toBytes n, p.toNat?, toBytes k with
    | some nb, some pn, some kb =>
      (m, match get m nb pn kb with | some v => "some " ++ ofBytes v | none => "none")
    | _, _, _ => (m, "bad-op")
  | ["list", n, p, f] =>
    match toBytes n, p.toNat? with
    | some nb, some pn =>
      if f = "none" then (m, showList (list m nb pn none)) else
      match toBytes f with
      | some fb => (m, showList (list m nb pn (some fb)))
      | none => (m, "bad-op")
    | _, _ => (m, "bad-op")
  | ["partitions"] =>
    let ps := (partitions m).mergeSort lePart
    (m, if ps.isEmpty then "[]" else ",".intercalate (ps.map (fun e => ofBytes e.1 ++ ":" ++ toString e.2)))
  | _ => (m, "bad-op")

end C15Drv

