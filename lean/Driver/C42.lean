import RadixModel.Util.Proto
import RadixModel.Model.Staking
open Radix Radix.Proto Radix.Staking

def parseInt (s : String) : Option Int :=
  match s.toList with
  | '-' :: rest => if rest.isEmpty then none else (String.ofList rest).toNat?.map (fun n => -(Int.ofNat n))
  | _ => s.toNat?.map Int.ofNat

def splitOnChar (s : String) (c : Char) : List String := (s.splitOn (String.singleton c)).filter (· ≠ "")

def parseNats (s : String) : Option (List Nat) :=
  if s = "-" then some [] else (splitOnChar s ',').mapM (·.toNat?)

def parseOrd (s : String) : Option (List Nat) :=
  if s.startsWith "ord=" then (splitOnChar (s.drop 4).toString ',').mapM (·.toNat?) else none

/-- `stake:fee:registered` -/
def parseVal (s : String) : Option Val :=
  match s.splitOn ":" with
  | [st, fee, reg] =>
    match parseInt st, parseInt fee with
    | some st, some fee =>
      if st < 0 ∨ fee < 0 ∨ fee > ONE ∨ (reg ≠ "1" ∧ reg ≠ "0") then none
      else some { registered := reg = "1", T := st, S := st, P := 0, L := 0, fee := fee, claims := [] }
    | _, _ => none
  | _ => none

def showVal (v : Val) : String := s!"{v.T}/{v.S}/{v.P}/{v.L}"
def showVals (vs : List Val) : String := ";".intercalate (vs.map showVal)
def showPairs (l : List (Nat × Int)) : String :=
  if l.isEmpty then "-" else ";".intercalate (l.map (fun x => s!"{x.1}:{x.2}"))

def errName : SysErr → String
  | .val .decimal => "err ValidatorError:UnexpectedDecimalComputationError"
  | .val .mintCap => "err FungibleResourceManagerError:MaxMintAmountExceeded"
  | .val .insufficient => "err VaultError:ResourceError:InsufficientBalance"
  | .val .notYet => "err ValidatorError:EpochUnlockHasNotOccurredYet"
  | .val .noSuchClaim => "skip"
  | .badIndex => "err ConsensusManagerError:InvalidValidatorIndex"
  | .decimal => "err ConsensusManagerError:UnexpectedDecimalComputationError"

/-- genesis: the initial active set is the registered validators with non-zero stake, selected as usual -/
def genesis (cfg : Cfg) (vals : List Val) : Sys :=
  let sel := selectSet cfg.maxV (indexOf vals vals.length)
  { cfg := cfg, epoch := 0, vals := vals, held := vals.map (·.S),
    set := sel.map (fun e => { label := e.label, stake := e.stake, made := 0, missed := 0 }) }

def showSet (l : List Member) : String :=
  if l.isEmpty then "-" else ";".intercalate (l.map (fun m => s!"{m.label}:{m.stake}"))

def stepLine (st : Option Sys) (line : String) : Option Sys × String :=
  match words line, st with
  | ["reset"], _ => (none, "ok")
  | "genesis" :: e :: mr :: mx :: ue :: ord :: vs, none =>
    match parseInt e, parseInt mr, mx.toNat?, ue.toNat?, vs.mapM parseVal, parseOrd ord with
    | some e, some mr, some mx, some ue, some specs, some ord =>
      if e < 0 ∨ mr < 0 ∨ mr > ONE ∨ mx = 0 ∨ mx > 100 ∨ specs.isEmpty ∨ specs.length > 8
          ∨ ord.length ≠ specs.length ∨ !(List.range specs.length).all (fun i => ord.contains i) then (st, "bad-op")
      else
        -- validators by label: label k is the spec `ord[k]`
        match ord.mapM (fun i => specs[i]?) with
        | none => (st, "bad-op")
        | some vals =>
          let s := genesis { E := e, minRel := mr, maxV := mx, unstakeEpochs := ue } vals
          (some s, s!"ok set={showSet s.set}")
    | _, _, _, _, _, _ => (st, "bad-op")
  | ["stake", i, x], some s =>
    match i.toNat?, parseInt x with
    | some i, some x =>
      if i ≥ s.vals.length then (st, "bad-op")
      else if x ≤ 0 ∨ x > 2 ^ 90 then (st, "skip")
      else match s.stake i x with
        | .error e => (st, errName e)
        | .ok (s', u) => (some s', s!"ok {u} {showVals s'.vals}")
    | _, _ => (st, "bad-op")
  | ["unstake", i, u], some s =>
    match i.toNat?, parseInt u with
    | some i, some u =>
      if i ≥ s.vals.length then (st, "bad-op")
      else if u ≤ 0 ∨ u > (s.held[i]?).getD 0 then (st, "skip")
      else match s.unstake i u with
        | .error e => (st, errName e)
        | .ok (s', y) => (some s', s!"ok {y} {showVals s'.vals}")
    | _, _ => (st, "bad-op")
  | ["unstakef", i, n, d], some s =>
    match i.toNat?, n.toNat?, d.toNat? with
    | some i, some n, some d =>
      if i ≥ s.vals.length ∨ d = 0 ∨ n > d then (st, "bad-op")
      else
        let u := (s.held[i]?).getD 0 * n / d
        if u ≤ 0 then (st, "skip")
        else match s.unstake i u with
          | .error e => (st, errName e)
          | .ok (s', y) => (some s', s!"ok {y} {showVals s'.vals}")
    | _, _, _ => (st, "bad-op")
  | ["claim", i, j], some s =>
    match i.toNat?, j.toNat? with
    | some i, some j =>
      if i ≥ s.vals.length then (st, "bad-op")
      else match s.claim i j with
        | .error e => (st, errName e)
        | .ok (s', y) => (some s', s!"ok {y} {showVals s'.vals}")
    | _, _ => (st, "bad-op")
  | ["register", i], some s =>
    match i.toNat? with
    | some i => if i ≥ s.vals.length then (st, "bad-op") else
      match s.setRegistered i true with
      | .error e => (st, errName e)
      | .ok s' => (some s', "ok")
    | none => (st, "bad-op")
  | ["unregister", i], some s =>
    match i.toNat? with
    | some i => if i ≥ s.vals.length then (st, "bad-op") else
      match s.setRegistered i false with
      | .error e => (st, errName e)
      | .ok s' => (some s', "ok")
    | none => (st, "bad-op")
  | ["round", l, g], some s =>
    match l.toNat?, parseNats g with
    | some l, some gs =>
      if l ≥ 256 ∨ gs.any (· ≥ 256) then (st, "bad-op") else
      match s.round l gs with
      | .error e => (st, errName e)
      | .ok s' => (some s', "ok")
    | _, _ => (st, "bad-op")
  | ["epoch", l, g], some s =>
    match l.toNat?, parseNats g with
    | some l, some gs =>
      if l ≥ 256 ∨ gs.any (· ≥ 256) then (st, "bad-op") else
      match s.epochChange l gs with
      | .error e => (st, errName e)
      | .ok (s', ems) => (some s', s!"ok set={showSet s'.set} em={showPairs ems} st={showVals s'.vals}")
    | _, _ => (st, "bad-op")
  | _, _ => (st, "bad-op")

def main : IO Unit := run stepLine (none : Option Sys)
