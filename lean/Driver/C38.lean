import RadixModel.Util.Proto
import RadixModel.Model.ResConstraint
import RadixModel.Model.ResBounds
open Radix Radix.Proto Radix.ResConstraint Radix.ResBounds

/-! Line protocol of area `c38` (stateless; grammar in harness/src/bin/c38.rs).
Constraint syntax is the one of area `c37`. -/

def natStrict (s : String) : Option Nat :=
  if s.isEmpty then none
  else if s.toList.all (fun c => '0' ≤ c ∧ c ≤ '9') then
    some (s.toList.foldl (fun acc c => acc * 10 + (c.toNat - '0'.toNat)) 0)
  else none

def dropStr (s : String) (n : Nat) : String := String.ofList (s.toList.drop n)

def intStrict (s : String) : Option Int :=
  if s.startsWith "-" then (natStrict (dropStr s 1)).map (fun n => -(n : Int))
  else (natStrict s).map (fun n => (n : Int))

def parseDec (s : String) : Option Int :=
  match intStrict s with
  | some d => if DMIN ≤ d ∧ d ≤ DMAX then some d else none
  | none => none

def parseIdsAux : List String → List Nat → Option (List Nat)
  | [], acc => some acc.reverse
  | t :: rest, acc =>
    match natStrict t with
    | some n => if acc.contains n then none else parseIdsAux rest (n :: acc)
    | none => none

def parseIds (s : String) : Option (List Nat) :=
  if s = "-" then some [] else parseIdsAux (s.splitOn ",") []

def parseLower (s : String) : Option LowerBound :=
  if s = "nz" then some .nonZero
  else if s.startsWith "i" then (parseDec (dropStr s 1)).map .inclusive
  else none

def parseUpper (s : String) : Option UpperBound :=
  if s = "u" then some .unbounded
  else if s.startsWith "i" then (parseDec (dropStr s 1)).map .inclusive
  else none

def parseAllowed (s : String) : Option AllowedIds :=
  if s = "any" then some .any
  else if s.startsWith "l" then (parseIds (dropStr s 1)).map .allowlist
  else none

def parseGeneral (r l u a : String) : Option General :=
  match parseIds r, parseLower l, parseUpper u, parseAllowed a with
  | some r, some l, some u, some a => some { required := r, lower := l, upper := u, allowed := a }
  | _, _, _, _ => none

def parseC : List String → Option (Constraint × List String)
  | "nz" :: rest => some (.nonZeroAmount, rest)
  | "ex" :: d :: rest => (parseDec d).map (fun d => (.exactAmount d, rest))
  | "al" :: d :: rest => (parseDec d).map (fun d => (.atLeastAmount d, rest))
  | "exnf" :: ids :: rest => (parseIds ids).map (fun i => (.exactNF i, rest))
  | "alnf" :: ids :: rest => (parseIds ids).map (fun i => (.atLeastNF i, rest))
  | "gen" :: r :: l :: u :: a :: rest => (parseGeneral r l u a).map (fun g => (.general g, rest))
  | _ => none

/-- insertion sort (ids are printed sorted on both sides) -/
def insSorted (x : Nat) : List Nat → List Nat
  | [] => [x]
  | y :: ys => if x ≤ y then x :: y :: ys else y :: insSorted x ys

def sortIds (l : List Nat) : List Nat := l.foldr insSorted []

def showIds (l : List Nat) : String :=
  if l.isEmpty then "-" else ",".intercalate ((sortIds l).map toString)

def showLower : LowerBound → String
  | .nonZero => "nz"
  | .inclusive d => s!"i{d}"

def showUpper : UpperBound → String
  | .unbounded => "u"
  | .inclusive d => s!"i{d}"

def showAllowed : AllowedIds → String
  | .any => "any"
  | .allowlist l => s!"l{showIds l}"

def showGeneral (g : General) : String :=
  s!"gen {showIds g.required} {showLower g.lower} {showUpper g.upper} {showAllowed g.allowed}"

def showBErr : BErr → String
  | .decimalAmountIsNegative => "DecimalAmountIsNegative"
  | .boundsInvalidForResourceKind => "BoundsInvalidForResourceKind"
  | .constraintBoundsInvalid => "ConstraintBoundsInvalid"
  | .assertionCannotBeSatisfied => "AssertionCannotBeSatisfied"
  | .takeCannotBeSatisfied => "TakeCannotBeSatisfied"
  | .decimalOverflow => "DecimalOverflow"
  | .duplicateNonFungibleId => "DuplicateNonFungibleId"

def okB {ε α : Type} : Except ε α → Bool
  | .ok _ => true
  | .error _ => false

/-- concrete balance of the one resource: an amount (fungible) or an id list (non-fungible);
`none` = the concrete execution already failed (or made a choice the model does not follow) -/
inductive Conc where
  | f (a : Int)
  | n (ids : List Nat)
  deriving Repr

def member (b : Bounds) : Option Conc → String
  | none => "m-"
  | some (.f a) => if okB (b.validateFungible a) then "m1" else "m0"
  | some (.n ids) => if okB (b.validateNonFungibleIds ids) then "m1" else "m0"

inductive Op where
  | add (g : General) (c : Conc)
  | takeAmt (d : Int)
  | takeIds (ids : List Nat)
  | takeAll
  | assert (c : Constraint)

def parseConc (fungible : Bool) (s : String) : Option Conc :=
  if fungible then
    (match parseDec s with
     | some d => if d < 0 ∨ d ≥ 1267650600228229401496703205376 then none else some (.f d)
     | none => none)
  else (parseIds s).map .n

def parseOps (fungible : Bool) : Nat → List String → List Op → Option (List Op)
  | _, [], acc => some acc.reverse
  | 0, _ :: _, _ => none
  | fuel + 1, t :: ts, acc =>
    match t, ts with
    | "add", r :: l :: u :: a :: c :: rest =>
      (match parseGeneral r l u a, parseConc fungible c with
       | some g, some c => parseOps fungible fuel rest (.add g c :: acc)
       | _, _ => none)
    | "tka", d :: rest =>
      (match parseDec d with | some d => parseOps fungible fuel rest (.takeAmt d :: acc) | none => none)
    | "tki", ids :: rest =>
      (match parseIds ids with | some i => parseOps fungible fuel rest (.takeIds i :: acc) | none => none)
    | "tkall", rest => parseOps fungible fuel rest (.takeAll :: acc)
    | "as", rest =>
      (match parseC rest with
       | some (c, rest') => parseOps fungible fuel rest' (.assert c :: acc)
       | none => none)
    | _, _ => none

def disjoint (a b : List Nat) : Bool := a.all (fun x => !b.contains x)

/-- concrete effect of an op; returns (new balance, taken part) -/
def concAdd : Option Conc → Conc → Option Conc
  | some (.f a), .f c => some (.f (a + c))
  | some (.n ids), .n c => if disjoint ids c then some (.n (ids ++ c)) else none
  | _, _ => none

def concTakeAmt : Option Conc → Int → Option Conc × Option Conc
  | some (.f a), d => if 0 ≤ d ∧ d ≤ a then (some (.f (a - d)), some (.f d)) else (none, none)
  | some (.n ids), d =>
    if 0 ≤ d ∧ Int.tmod d ONE = 0 ∧ (Int.tdiv d ONE).toNat ≤ ids.length then
      let k := (Int.tdiv d ONE).toNat
      (some (.n (ids.drop k)), some (.n (ids.take k)))
    else (none, none)
  | none, _ => (none, none)

def concTakeIds : Option Conc → List Nat → Option Conc × Option Conc
  | some (.n ids), t =>
    if t.all (fun x => ids.contains x) then (some (.n (ids.filter (fun x => !t.contains x))), some (.n t))
    else (none, none)
  | _, _ => (none, none)

def concTakeAll : Option Conc → Option Conc × Option Conc
  | some (.f a) => (some (.f 0), some (.f a))
  | some (.n ids) => (some (.n []), some (.n ids))
  | none => (none, none)

def concAssert (c : Constraint) : Option Conc → Option Conc
  | some (.f a) => if okB (c.validateFungible a) then some (.f a) else none
  | some (.n ids) => if okB (c.validateNonFungible ids) then some (.n ids) else none
  | none => none

def runOps (fungible : Bool) : List Op → Bounds → Option Conc → List String → List String
  | [], _, _, acc => acc.reverse
  | op :: rest, b, c, acc =>
    match op with
    | .add g cc =>
      (match ofConstraint (.general g) with
       | .error e => (s!"err {showBErr e}" :: acc).reverse
       | .ok amt =>
         match addResource fungible b amt with
         | .error e => (s!"err {showBErr e}" :: acc).reverse
         | .ok b' =>
           -- the addend must itself be described by the added bounds
           let c' := if member amt (some cc) = "m1" then concAdd c cc else none
           runOps fungible rest b' c' (s!"{showGeneral b'} {member b' c'}" :: acc))
    | .takeAmt d =>
      (match takeResource fungible b (.amount d) with
       | .error e => (s!"err {showBErr e}" :: acc).reverse
       | .ok (rem, taken) =>
         let (c', t') := concTakeAmt c d
         runOps fungible rest rem c' (s!"{showGeneral rem} {member rem c'} | {showGeneral taken} {member taken t'}" :: acc))
    | .takeIds ids =>
      (match takeResource fungible b (.ids ids) with
       | .error e => (s!"err {showBErr e}" :: acc).reverse
       | .ok (rem, taken) =>
         let (c', t') := concTakeIds c ids
         runOps fungible rest rem c' (s!"{showGeneral rem} {member rem c'} | {showGeneral taken} {member taken t'}" :: acc))
    | .takeAll =>
      (match takeResource fungible b .all with
       | .error e => (s!"err {showBErr e}" :: acc).reverse
       | .ok (rem, taken) =>
         let (c', t') := concTakeAll c
         runOps fungible rest rem c' (s!"{showGeneral rem} {member rem c'} | {showGeneral taken} {member taken t'}" :: acc))
    | .assert cst =>
      (match ofConstraint cst with
       | .error e => (s!"err {showBErr e}" :: acc).reverse
       | .ok a =>
         match assertResource fungible b a with
         | .error e => (s!"err {showBErr e}" :: acc).reverse
         | .ok b' =>
           let c' := concAssert cst c
           runOps fungible rest b' c' (s!"{showGeneral b'} {member b' c'}" :: acc))

def answer (line : String) : String :=
  match words line with
  | "ch" :: kind :: start :: c0 :: ops =>
    (match (if kind = "f" then some true else if kind = "n" then some false else none) with
     | some fungible =>
       (match (if start = "z" then some ResBounds.zero else if start = "u" then some zeroOrMore else none),
              parseConc fungible c0, parseOps fungible (ops.length + 1) ops [] with
        | some b0, some c0, some ops =>
          -- a `z` start is the empty worktop: the concrete balance must be empty too
          let okStart : Bool := start = "u" || (match c0 with | .f a => a == 0 | .n ids => ids.isEmpty)
          if !okStart then "bad-op"
          else " ; ".intercalate (runOps fungible ops b0 (some c0) [s!"{showGeneral b0} {member b0 (some c0)}"])
        | _, _, _ => "bad-op")
     | none => "bad-op")
  | _ => "bad-op"

def stepLine (s : Unit) (line : String) : Unit × String := (s, answer line)

def main : IO Unit := run stepLine ()
