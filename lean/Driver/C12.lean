import Driver.KVProto
import RadixModel.Model.Track
open Radix Radix.Proto Radix.KV Radix.SubstateDb Radix.Track Radix.KVProto

/-- phase of a case: `0` building the base database, `1` track in use, `2` poisoned by a panic,
`3` finalized -/
structure DS where
  phase : Nat
  db : Db
  track : Track

def ds0 : DS := { phase := 0, db := Db.empty, track := Track.new Db.empty }

def parsePartSpec (s : String) : Option (Nat × List (Nat × Nat)) :=
  match s.splitOn ":" with
  | [p, kvs] =>
    match p.toNat?, parseList parseKV kvs with
    | some p, some kvs => if distinct (kvs.map (·.1)) then some (p, kvs) else none
    | _, _ => none
  | _ => none

def parseSubs (s : String) : Option NodeSubstates :=
  if s = "-" then some [] else
  match allSome ((s.splitOn ";").map parsePartSpec) with
  | some l => if distinct (l.map (·.1)) then some l else none
  | none => none

def showNodeUpd (nu : NodeUpd) : String :=
  ";".intercalate (nu.map (fun pu => s!"{pu.1}:{showPUpd pu.2}"))

def showSU (su : DbUpdates) : String :=
  "[" ++ ";".intercalate (su.map (fun nn => s!"{nn.1}" ++ "{" ++ showNodeUpd nn.2 ++ "}")) ++ "]"

def showRes : Res → String
  | .unit => "ok"
  | .val v => showOpt v
  | .keys ks => showKeys ks
  | .entries es => showEntries es
  | .panic => "panic"

def parseOp (ws : List String) : Option Op :=
  match ws with
  | ["get", n, p, k] =>
    match n.toNat?, p.toNat?, parseKey k with
    | some n, some p, some k => some (.get n p k)
    | _, _, _ => none
  | ["set", n, p, k, v] =>
    match n.toNat?, p.toNat?, parseKey k, v.toNat? with
    | some n, some p, some k, some v => some (.set n p k v)
    | _, _, _, _ => none
  | ["remove", n, p, k] =>
    match n.toNat?, p.toNat?, parseKey k with
    | some n, some p, some k => some (.remove n p k)
    | _, _, _ => none
  | ["create", n, subs] =>
    match n.toNat?, parseSubs subs with
    | some n, some subs => some (.create n subs)
    | _, _ => none
  | ["scankeys", n, p, l] =>
    match n.toNat?, p.toNat?, l.toNat? with
    | some n, some p, some l => some (.scanKeys n p l)
    | _, _, _ => none
  | ["drain", n, p, l] =>
    match n.toNat?, p.toNat?, l.toNat? with
    | some n, some p, some l => some (.drain n p l)
    | _, _, _ => none
  | ["scansorted", n, p, l] =>
    match n.toNat?, p.toNat?, l.toNat? with
    | some n, some p, some l => some (.scanSorted n p l)
    | _, _, _ => none
  | ["fw", n, p, k] =>
    match n.toNat?, p.toNat?, parseKey k with
    | some n, some p, some k => some (.forceWrite n p k)
    | _, _, _ => none
  | ["delpart", n, p] =>
    match n.toNat?, p.toNat? with
    | some n, some p => some (.deletePartition n p)
    | _, _ => none
  | ["revert"] => some .revert
  | _ => none

def stepLine (s : DS) (line : String) : DS × String :=
  match words line with
  | ["reset"] => (ds0, "ok")
  | ["base", n, p, k, v] =>
    match n.toNat?, p.toNat?, parseKey k, v.toNat? with
    | some n, some p, some k, some v =>
      if s.phase = 0 then
        ({ s with db := s.db.set (n, p) (SMap.insert (s.db (n, p)) k v) }, "ok")
      else (s, "late-base")
    | _, _, _, _ => (s, "bad-op")
  | ["finalize"] =>
    if s.phase = 2 then (s, "poisoned")
    else if s.phase = 3 then (s, "finalized")
    else
      let t := if s.phase = 0 then Track.new s.db else s.track
      let (nn, su) := toStateUpdates t
      ({ s with phase := 3 }, "new=[" ++ ",".intercalate (nn.map toString) ++ "] su=" ++ showSU su)
  | ws =>
    match parseOp ws with
    | none => (s, "bad-op")
    | some op =>
      if s.phase = 2 then (s, "poisoned")
      else if s.phase = 3 then (s, "finalized")
      else
        let t := if s.phase = 0 then Track.new s.db else s.track
        let (t', r) := step t op
        let ph := if r = Res.panic then 2 else 1
        ({ s with phase := ph, track := t' }, showRes r)

def main : IO Unit := run stepLine ds0
