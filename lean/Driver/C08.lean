import RadixModel.Util.Proto
import RadixModel.Model.Auth
import RadixModel.Generated.C08
open Radix Radix.Proto Radix.Auth

/-! Line protocol of area `c08` (see harness/src/bin/c08.rs for the full description):
    chk <path> <rule> nf <k> <res>:<id>*k sim <k> <res>*k ops <k> <op>*k   -> ok | unauthorized | error | rule-rejected
    lim <rule>                                                             -> ok | too-deep | too-many
  The driver builds the auth zones of the scenario with the model's `createAuthZone` and evaluates
  the model's `checkPermission` / `checkAccessRule`. -/

def unitAttos : Int := 1000000000000000000
def fRes : List Nat := [10, 11, 12]
def nRes : List Nat := [20, 21]
def allRes : List Nat := [0, 1, 2, 3, 10, 11, 12, 20, 21]
def nfIds : Nat := 6

def allDigits (cs : List Char) : Bool := cs.all (fun c => '0' ≤ c ∧ c ≤ '9')

def natOfDigits (cs : List Char) : Nat := cs.foldl (fun a c => a * 10 + (c.toNat - '0'.toNat)) 0

/-- 1..=18 decimal digits -/
def pNatC (cs : List Char) : Option Nat :=
  if cs.isEmpty || cs.length > 18 || !allDigits cs then none else some (natOfDigits cs)

def pNat (s : String) : Option Nat := pNatC s.toList

/-- optional '-' then 1..=30 digits -/
def pIntC (cs : List Char) : Option Int :=
  let (neg, d) := match cs with | '-' :: d => (true, d) | d => (false, d)
  if d.isEmpty || d.length > 30 || !allDigits d then none
  else some (if neg then - (Int.ofNat (natOfDigits d)) else Int.ofNat (natOfDigits d))

def validRes (r : Nat) : Bool := allRes.contains r

def validNf (r i : Nat) : Bool :=
  if r = 0 then i ≤ 5 else if r = 1 then i ≤ 6 else if r = 2 ∨ r = 3 then i ≤ 3 else validRes r

/-- split at the first ':' -/
def splitColon (cs : List Char) : Option (List Char × List Char) :=
  let a := cs.takeWhile (· ≠ ':')
  match cs.dropWhile (· ≠ ':') with
  | ':' :: b => some (a, b)
  | _ => none

def pPairC (cs : List Char) : Option (Nat × Nat) :=
  match splitColon cs with
  | some (a, b) =>
    match pNatC a, pNatC b with
    | some r, some i => if validNf r i then some (r, i) else none
    | _, _ => none
  | none => none

def pRon (s : String) : Option RoN :=
  match s.toList with
  | 'R' :: t => match pNatC t with
    | some r => if validRes r then some (.res r) else none
    | none => none
  | 'N' :: t => (pPairC t).map (fun (r, i) => .nf ⟨r, i⟩)
  | _ => none

/-- `k` tokens, each parsed by `f` -/
def pMany {α : Type} (f : String → Option α) : Nat → List String → Option (List α × List String)
  | 0, ts => some ([], ts)
  | k + 1, t :: ts =>
    match f t with
    | some x => (pMany f k ts).map (fun (xs, rest) => (x :: xs, rest))
    | none => none
  | _ + 1, [] => none

def pRons (ts : List String) : Option (List RoN × List String) :=
  match ts with
  | k :: ts => match pNat k with
    | some k => if k > 300 then none else pMany pRon k ts
    | none => none
  | [] => none

def pBasic (ts : List String) : Option (Basic × List String) :=
  match ts with
  | "req" :: x :: ts => (pRon x).map (fun x => (.require x, ts))
  | "amt" :: a :: r :: ts =>
    match pIntC a.toList, pNat r with
    | some a, some r => if validRes r then some (.amountOf a r, ts) else none
    | _, _ => none
  | "cnt" :: n :: ts =>
    match pNat n with
    | some n => if n > 255 then none else (pRons ts).map (fun (xs, rest) => (.countOf n xs, rest))
    | none => none
  | "allof" :: ts => (pRons ts).map (fun (xs, rest) => (.allOf xs, rest))
  | "anyof" :: ts => (pRons ts).map (fun (xs, rest) => (.anyOf xs, rest))
  | _ => none

mutual
/-- `fuel` bounds the recursion (one unit per token consumed is ample) -/
def pComp (fuel : Nat) (depth : Nat) (ts : List String) : Option (Comp × List String) :=
  match fuel with
  | 0 => none
  | fuel + 1 =>
    if depth > 40 then none else
    match ts with
    | "b" :: ts => (pBasic ts).map (fun (b, rest) => (.basic b, rest))
    | "any" :: n :: ts =>
      match pNat n with
      | some n => if n > 300 then none else (pComps fuel (depth + 1) n ts).map (fun (cs, rest) => (.anyOf cs, rest))
      | none => none
    | "all" :: n :: ts =>
      match pNat n with
      | some n => if n > 300 then none else (pComps fuel (depth + 1) n ts).map (fun (cs, rest) => (.allOf cs, rest))
      | none => none
    | _ => none
def pComps (fuel : Nat) (depth : Nat) (n : Nat) (ts : List String) : Option (List Comp × List String) :=
  match fuel with
  | 0 => none
  | fuel + 1 =>
    match n with
    | 0 => some ([], ts)
    | n + 1 =>
      match pComp fuel depth ts with
      | some (c, rest) => (pComps fuel depth n rest).map (fun (cs, rest') => (c :: cs, rest'))
      | none => none
end

def pRule (ts : List String) : Option (Rule × List String) :=
  match ts with
  | "A" :: ts => some (.allowAll, ts)
  | "D" :: ts => some (.denyAll, ts)
  | "P" :: ts => (pComp (2 * ts.length + 2) 0 ts).map (fun (c, rest) => (.prot c, rest))
  | _ => none

inductive Op where
  | push (p : Proof)
  | pop
  | dropSig
  | dropReg
  | dropAll

def pIds : List String → Option (List Nat)
  | [] => some []
  | x :: xs =>
    match pNat x, pIds xs with
    | some i, some is => if i < 1 ∨ i > nfIds ∨ is.contains i then none else some (i :: is)
    | _, _ => none

def pOp (s : String) : Option Op :=
  if s = "pop" then some .pop
  else if s = "dropsig" then some .dropSig
  else if s = "dropreg" then some .dropReg
  else if s = "dropall" then some .dropAll
  else match s.toList with
  | 'F' :: t =>
    match splitColon t with
    | some (a, b) =>
      match pNatC a, pIntC b with
      | some r, some amt =>
        if fRes.contains r ∧ amt > 0 ∧ amt ≤ 100 * unitAttos then some (.push ⟨r, true, amt, []⟩) else none
      | _, _ => none
    | none => none
  | 'I' :: t =>
    match splitColon t with
    | some (a, b) =>
      match pNatC a with
      | some r =>
        if nRes.contains r then
          -- ids are distinct; checked right to left exactly as left to right (set property)
          match pIds ((String.ofList b).splitOn ",") with
          | some ids => some (.push ⟨r, false, (Int.ofNat ids.length) * unitAttos, ids⟩)
          | none => none
        else none
      | none => none
    | none => none
  | _ => none

/-- validates pops against the number of live proofs, as the harness parser does -/
def opsValid : Nat → List Op → Bool
  | _, [] => true
  | live, .push _ :: os => opsValid (live + 1) os
  | live, .pop :: os => if live = 0 then false else opsValid (live - 1) os
  | _, .dropReg :: os => opsValid 0 os
  | _, .dropAll :: os => opsValid 0 os
  | live, .dropSig :: os => opsValid live os

def applyOp (z : Zone) : Op → Option Zone
  | .push p => some (z.push p)
  | .pop => z.pop
  | .dropSig => some z.removeSignatureProofs
  | .dropReg => some z.removeRegularProofs
  | .dropAll => some z.removeSignatureProofs.removeRegularProofs

def applyOps : Zone → List Op → Option Zone
  | z, [] => some z
  | z, o :: os => match applyOp z o with | some z' => applyOps z' os | none => none

mutual
def compDepth : Comp → Nat
  | .basic _ => 0
  | .anyOf rs => compsDepth rs + 1
  | .allOf rs => compsDepth rs + 1
def compsDepth : List Comp → Nat
  | [] => 0
  | r :: rs => max (compDepth r) (compsDepth rs)
end

def ruleDepth : Rule → Nat
  | .prot c => compDepth c
  | _ => 0

structure Case where
  path : String
  rule : Rule
  nf : List NfId
  sim : List Nat
  ops : List Op

def pSection (kw : String) {α : Type} (f : String → Option α) (ts : List String) : Option (List α × List String) :=
  match ts with
  | k :: n :: ts =>
    if k = kw then
      match pNat n with
      | some n => if n > 40 then none else pMany f n ts
      | none => none
    else none
  | _ => none

def paths : List String := ["mint", "owner", "vp", "assert", "vault", "self", "acct", "pool", "poolmint"]

def pCase (ts : List String) : Option Case :=
  match ts with
  | path :: ts =>
    if !paths.contains path then none else
    match pRule ts with
    | some (rule, ts) =>
      match pSection "nf" (fun s => (pPairC s.toList).map (fun (r, i) => NfId.mk r i)) ts with
      | some (nf, ts) =>
        match pSection "sim" (fun s => match pNat s with | some r => if validRes r then some r else none | none => none) ts with
        | some (sim, ts) =>
          match pSection "ops" pOp ts with
          | some (ops, []) =>
            if !opsValid 0 ops then none
            else if (path = "self" ∨ path = "poolmint") ∧ !(match rule with | .allowAll => true | _ => false) then none
            else some ⟨path, rule, nf, sim, ops⟩
          | _ => none
        | none => none
      | none => none
    | none => none
  | [] => none

def MAXD : Nat := Radix.Generated.C08.MAX_ACCESS_RULE_DEPTH
def MAXN : Nat := Radix.Generated.C08.MAX_COMPOSITE_REQUIREMENTS

def showOutcome : Outcome → String
  | .authorized => "ok"
  | .unauthorized => "unauthorized"
  | .error _ => "error"

def outcomeOf : Except Err Bool → Outcome
  | .ok true => .authorized
  | .ok false => .unauthorized
  | .error e => .error e

/-- role keys of the scenarios -/
def MINTER : RoleKey := .named 0
def METADATA_SETTER : RoleKey := .named 1
def WITHDRAWER : RoleKey := .named 2
def SECURIFY : RoleKey := .named 3
def POOL_MANAGER : RoleKey := .named 4

/-- role assignment of a pool whose manager rule is `rule` -/
def poolRoles (rule : Rule) : RoleAssignment :=
  { roles := fun k => if k = POOL_MANAGER then some rule else none, owner := .denyAll }

/-- role assignment of the pool-unit resource of pool `pool`: minter = require(global_caller(pool)) -/
def unitRoles (pool : Nat) : RoleAssignment :=
  { roles := fun k => if k = MINTER then some (.prot (.basic (.require (.nf ⟨GC_BADGE, pool⟩)))) else none,
    owner := .denyAll }

/-- role assignment of the rule's target resource: minter = withdrawer = rule, owner = rule,
    no entry for the metadata roles -/
def targetRoles (rule : Rule) : RoleAssignment :=
  { roles := fun k => if k = MINTER ∨ k = WITHDRAWER then some rule else none, owner := rule }

/-- role assignment of an account whose owner role is `rule` (securify: explicit entry = owner rule) -/
def accountRoles (rule : Rule) : RoleAssignment :=
  { roles := fun k => if k = SECURIFY then some rule else none, owner := rule }

def runCase (c : Case) : String :=
  let targetPath := c.path = "mint" ∨ c.path = "owner" ∨ c.path = "vault" ∨ c.path = "acct" ∨ c.path = "pool"
  -- what a manifest can carry (SBOR depth of the encoded instruction)
  if (targetPath ∧ ruleDepth c.rule > 5) ∨ ruleDepth c.rule > 7 then "bad-op"
  else if targetPath ∧ !ruleWithinLimits MAXD MAXN c.rule then "rule-rejected"
  else
  -- the intent processor's zone: created for Actor::Root, then the manifest's instructions
  match applyOps (createAuthZone .root true c.sim c.nf) c.ops with
  | none => "bad-op"
  | some txZone =>
    -- the transaction processor: package 0, blueprint (global caller) 1
    let tp : Caller := .function 0 1 txZone
    -- zone of a call from the manifest to a global object
    let z := createAuthZone tp true [] []
    if c.path = "mint" then
      showOutcome (checkPermission z (.roleList (targetRoles c.rule) 90 [MINTER]))
    else if c.path = "owner" then
      showOutcome (checkPermission z (.roleList (targetRoles c.rule) 90 [METADATA_SETTER]))
    else if c.path = "acct" then
      showOutcome (checkPermission z (.roleList (accountRoles c.rule) 91 [.owner]))
    else if c.path = "self" then
      showOutcome (checkPermission z (.roleList (accountRoles .allowAll) 5 [.self]))
    else if c.path = "assert" then
      -- the method itself is public; inside, `assert_access_rule` checks the frame's own zone `z`
      showOutcome (outcomeOf (checkAccessRule z c.rule))
    else if c.path = "vp" then
      showOutcome (outcomeOf (checkAccessRule (verifyParentZone 1 txZone) c.rule))
    else if c.path = "poolmint" then
      showOutcome (checkPermission z (.roleList (unitRoles 6) 93 [MINTER]))
    else if c.path = "pool" then
      -- pool.contribute (pool_manager = rule) …
      match checkPermission z (.roleList (poolRoles c.rule) 92 [POOL_MANAGER]) with
      | .authorized =>
        -- … then the pool (package 5, a global component: index 92) calls `mint` on its unit
        -- resource: a global context change with the pool as global caller
        let zm := createAuthZone (.method 5 (.global 92) z) true [] []
        showOutcome (checkPermission zm (.roleList (unitRoles 92) 94 [MINTER]))
      | o => showOutcome o
    else if c.path = "vault" then
      -- account.withdraw (owner role AllowAll) …
      match checkPermission z (.roleList (accountRoles .allowAll) 2 [.owner]) with
      | .authorized =>
        -- … then vault.take: receiver is an owned object (no global context change);
        -- the caller is the account method (package 1, global ancestor = account 2)
        let zv := createAuthZone (.method 1 (.global 2) z) false [] []
        showOutcome (checkPermission zv (.roleList (targetRoles c.rule) 90 [WITHDRAWER]))
      | o => showOutcome o
    else "bad-op"

def stepLine (_ : Unit) (line : String) : Unit × String :=
  match words line with
  | "chk" :: ts =>
    match pCase ts with
    | some c => ((), runCase c)
    | none => ((), "bad-op")
  | "lim" :: ts =>
    match pRule ts with
    | some (rule, []) =>
      ((), match verifyAccessRule MAXD MAXN rule with
        | .ok _ => "ok" | .error .depth => "too-deep" | .error .nodes => "too-many")
    | _ => ((), "bad-op")
  | _ => ((), "bad-op")

def main : IO Unit := run stepLine ()
