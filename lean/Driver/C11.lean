import RadixModel.Util.Proto
import RadixModel.Model.EngineResult
open Radix Radix.Proto Radix.C11

def pFee (s : String) : Option FeeReserveError :=
  if s = "insufficient" then some .insufficientBalance
  else if s = "overflow" then some .overflow
  else if s = "limit" then some .limitExceeded
  else if s = "loan" then some .loanRepaymentFailed
  else if s = "abort" then some .abort
  else none

def pErr (s : String) : Option RuntimeError :=
  match s.splitOn ":" with
  | ["kernel"] => some .kernelError
  | ["vm", "native", "code"] => some (.vmError (.native .invalidCodeId))
  | ["vm", "native", "trap"] => some (.vmError (.native .trap))
  | ["vm", "wasm", "fee", f] => (pFee f).map (fun e => .vmError (.wasm (.feeReserveError e)))
  | ["vm", "wasm", "other"] => some (.vmError (.wasm .other))
  | ["vm", "ver"] => some (.vmError .scryptoVmVersion)
  | ["sys"] => some (.systemError false)
  | ["sys", "panic"] => some (.systemError true)
  | ["upstream"] => some .systemUpstreamError
  | ["mod", "auth"] => some (.systemModuleError .authError)
  | ["mod", "costing", f] => (pFee f).map (fun e => .systemModuleError (.costingError e))
  | ["mod", "limits"] => some (.systemModuleError .transactionLimitsError)
  | ["mod", "event"] => some (.systemModuleError .eventError)
  | ["app"] => some .applicationError
  | ["fin", f] => (pFee f).map (fun _ => .finalizationCostingError)
  | _ => none

def showResult : ReceiptOutcome → String
  | .hostPanic => "host-panic"
  | .receipt .commitSuccess => "commit-success"
  | .receipt (.commitFailure _) => "commit-failure"
  | .receipt (.reject .successButFeeLoanNotRepaid) => "reject:success-but-fee-loan-not-repaid"
  | .receipt (.reject .bootloadingError) => "reject:bootloading"
  | .receipt (.reject (.errorBeforeLoanAndDeferredCostsRepaid _)) => "reject:error-before-loan-repaid"
  | .receipt .abort => "abort"

def stepLine (s : Unit) (line : String) : Unit × String :=
  match words line with
  | ["abortion", e] =>
    match pErr e with
    | some err => (s, match err.abortion with | some () => "some" | none => "none")
    | none => (s, "bad-op")
  | ["classify", i, fee, ab] =>
    let interp : Option (Except TransactionExecutionError Unit) :=
      if i = "ok" then some (.ok ())
      else if i = "boot" then some (.error .bootloadingError)
      else (pErr i).map (fun e => .error (.runtimeError e))
    let locked : Option Bool := if fee = "locked" then some true else if fee = "none" then some false else none
    let abort : Option Bool := if ab = "0" then some false else if ab = "1" then some true else none
    match interp, locked, abort with
    | some interp, some locked, some abort =>
      let (repay, repaid) := repayAllTail locked abort
      (s, showResult (createReceipt interp repay repaid))
    | _, _, _ => (s, "bad-op")
  | _ => (s, "bad-op")

def main : IO Unit := run stepLine ()
