import Driver.KVProto
import RadixModel.Model.FailureCommit
open Radix Radix.Proto Radix.KV Radix.SubstateDb Radix.Track Radix.KVProto Radix.FailureCommit

/-- phase: `0` building the base database, `1` executing, `2` finalizing, `3` done, `9` poisoned -/
structure DS where
  phase : Nat
  db : Db
  tx : Tx
  success : Bool
  finEvents : List Event

def ds0 : DS := { phase := 0, db := Db.empty, tx := Tx.new Db.empty, success := true, finEvents := [] }

/-- the harness' "system" node (harness/src/bin/c02.rs: SYS, CM_PART, ..): keys are the sort keys of
`SubstateKey::Field(i)`, i.e. the one-byte string `[i]` -/
def fieldKey (i : Nat) : Nat := (encKey [UInt8.ofNat i]).getD 0

def sys : Sys :=
  { cmNode := 4, cmPart := 0, cmStateKey := fieldKey 0, cmRewardsKey := fieldKey 1
    rewardsVault := (4, 0, fieldKey 2), trNode := 4, trPart := 3, trFieldKey := fieldKey 0 }

def parsePartSpec (s : String) : Option (Nat × List (Nat × Nat)) :=
  match s.splitOn ":" with
  | [p, kvs] =>
    match p.toNat?, parseList parseKV kvs with
    | some p, some kvs => if distinct (kvs.map (·.1)) then some (p, kvs) else none
    | _, _ => none
  | _ => none

def parseSubs (s : String) : Option NodeSubstates :=
  if s = "-" then some [] else
  match allSome ((s.splitOn ";").map parsePartSpec) with
  | some l => if distinct (l.map (·.1)) then some l else none
  | none => none

/-- numbers of the protocol: at most 15 decimal digits -/
def num (s : String) : Option Nat :=
  if s.length = 0 ∨ s.length > 15 then none
  else if s.toList.all (fun c => '0' ≤ c ∧ c ≤ '9') then s.toNat? else none

def flag (s : String) : Option Bool :=
  if s = "0" then some false else if s = "1" then some true else none

def showNodeUpd (nu : NodeUpd) : String :=
  ";".intercalate (nu.map (fun pu => s!"{pu.1}:{showPUpd pu.2}"))

def showSU (su : DbUpdates) : String :=
  "[" ++ ";".intercalate (su.map (fun nn => s!"{nn.1}" ++ "{" ++ showNodeUpd nn.2 ++ "}")) ++ "]"

def showEvents (evs : List Event) : String :=
  "[" ++ ",".intercalate (evs.map (fun e => s!"{e.emitter}:{e.name}:{e.payload}")) ++ "]"

def showRes : Track.Res → String
  | .unit => "ok"
  | .val v => showOpt v
  | .keys ks => showKeys ks
  | .entries es => showEntries es
  | .panic => "panic"

def showLock : LockRes → String
  | .ok nb => s!"ok {nb}"
  | .newSubstate => "err-new"
  | .updatedSubstate => "err-updated"
  | .fault => "err-fault"
  | .insufficient b => s!"err-insufficient {b}"

def parseFwd (ws : List String) : Option TxOp :=
  match ws with
  | ["get", n, p, k] =>
    match num n, num p, parseKey k with
    | some n, some p, some k => some (.store (.get n p k))
    | _, _, _ => none
  | ["set", n, p, k, v] =>
    match num n, num p, parseKey k, num v with
    | some n, some p, some k, some v => some (.store (.set n p k v))
    | _, _, _, _ => none
  | ["remove", n, p, k] =>
    match num n, num p, parseKey k with
    | some n, some p, some k => some (.store (.remove n p k))
    | _, _, _ => none
  | ["create", n, subs] =>
    match num n, parseSubs subs with
    | some n, some subs => some (.store (.create n subs))
    | _, _ => none
  | ["scankeys", n, p, l] =>
    match num n, num p, num l with
    | some n, some p, some l => some (.store (.scanKeys n p l))
    | _, _, _ => none
  | ["drain", n, p, l] =>
    match num n, num p, num l with
    | some n, some p, some l => some (.store (.drain n p l))
    | _, _, _ => none
  | ["scansorted", n, p, l] =>
    match num n, num p, num l with
    | some n, some p, some l => some (.store (.scanSorted n p l))
    | _, _, _ => none
  | ["lockfee", n, p, k, a] =>
    match num n, num p, parseKey k, num a with
    | some n, some p, some k, some a => some (.lockFee n p k a)
    | _, _, _, _ => none
  | ["emit", f, e, nm, pl] =>
    match flag f, num e, num nm, num pl with
    -- the unit-level stream has no actors: the emitter passes the blueprint guard
    | some f, some e, some nm, some pl => some (.emit f true e nm pl)
    | _, _, _, _ => none
  | _ => none

def parseFin (ws : List String) : Option FinOp :=
  match ws with
  | ["finread", n, p, k] =>
    match num n, num p, parseKey k with
    | some n, some p, some k => some (.read n p k)
    | _, _, _ => none
  | ["fincredit", n, p, k, a] =>
    match num n, num p, parseKey k, num a with
    | some n, some p, some k, some a => some (.credit n p k a)
    | _, _, _, _ => none
  | ["finput", n, p, k, v] =>
    match num n, num p, parseKey k, num v with
    | some n, some p, some k, some v => some (.put n p k v)
    | _, _, _, _ => none
  | ["findel", n, p] =>
    match num n, num p with
    | some n, some p => some (.delPart n p)
    | _, _ => none
  | _ => none

def parseNullif (s : String) : Option (Nat × Nat) :=
  match s.splitOn ":" with
  | [p, k] =>
    match num p, parseKey k with
    | some p, some k => some (p, k)
    | _, _ => none
  | _ => none

def parseCommit (ws : List String) : Option (Bool × FinInput) :=
  match ws with
  | ["commit", s, pays, tp, tv, burn, nr, nulls, status, adv, nt, he] =>
    let pays? : Option (List Nat) := if pays = "-" then some [] else allSome ((pays.splitOn ",").map num)
    let nulls? : Option (List (Nat × Nat)) := if nulls = "-" then some [] else allSome ((nulls.splitOn ";").map parseNullif)
    let adv? : Option (Option Nat) := if adv = "-" then some none else (num adv).map some
    match flag s, pays?, num tp, num tv, num burn, num nr, nulls?, num status, adv?, num nt, flag he with
    | some s, some pays, some tp, some tv, some burn, some nr, some nulls, some status, some adv, some nt, some he =>
      some (s, { payments := pays, toProposer := tp, toValidatorSet := tv, toBurn := burn, newRewards := nr
                 nullifications := nulls, statusValue := status, advance := adv, newTracker := nt, hasEpoch := he })
    | _, _, _, _, _, _, _, _, _, _, _ => none
  | _ => none

def showReceipt (success : Bool) (nn : List Nat) (su : DbUpdates) (evs : List Event) : String :=
  (if success then "success" else "failure") ++ " new=[" ++ ",".intercalate (nn.map toString) ++ "] su=" ++ showSU su
    ++ " ev=" ++ showEvents evs

/-- the transaction state with the track initialised on the base database when still building -/
def txOf (s : DS) : Tx := if s.phase = 0 then Tx.new s.db else s.tx

def stepLine (s : DS) (line : String) : DS × String :=
  let ws := words line
  match ws with
  | ["reset"] => (ds0, "ok")
  | ["base", n, p, k, v] =>
    match num n, num p, parseKey k, num v with
    | some n, some p, some k, some v =>
      if s.phase = 0 then
        ({ s with db := s.db.set (n, p) (SMap.insert (s.db (n, p)) k v) }, "ok")
      else (s, "wrong-phase")
    | _, _, _, _ => (s, "bad-op")
  | _ =>
    let fwd := parseFwd ws
    let fin := parseFin ws
    let finev : Option Event :=
      match ws with
      | ["finevent", e, nm, pl] =>
        match num e, num nm, num pl with
        | some e, some nm, some pl => some { force := false, emitter := e, name := nm, payload := pl }
        | _, _, _ => none
      | _ => none
    let com := parseCommit ws
    let simple := ws = ["fail"] ∨ ws = ["succeed"] ∨ ws = ["receipt"]
    if fwd.isNone ∧ fin.isNone ∧ finev.isNone ∧ com.isNone ∧ ¬ simple then (s, "bad-op")
    else if s.phase = 9 then (s, "poisoned")
    else if s.phase = 3 then (s, "done")
    else
      let executing := s.phase = 0 ∨ s.phase = 1
      match fwd, fin, finev, com with
      | some op, _, _, _ =>
        if ¬ executing then (s, "wrong-phase") else
        let (tx', r) := txStep (txOf s) op
        match r with
        | .store .panic => ({ s with phase := 9, tx := tx' }, "panic")
        | .panic => ({ s with phase := 9, tx := tx' }, "panic")
        | .store r => ({ s with phase := 1, tx := tx' }, showRes r)
        | .lock r => ({ s with phase := 1, tx := tx' }, showLock r)
        | .emitted => ({ s with phase := 1, tx := tx' }, "ok")
        | .forceFlagRefused => ({ s with phase := 1, tx := tx' }, "err-flags")
      | none, some op, _, _ =>
        if s.phase ≠ 2 then (s, "wrong-phase") else
        match finStep s.tx.track op with
        | some t' => ({ s with tx := { s.tx with track := t' } }, "ok")
        | none => ({ s with phase := 9 }, "panic")
      | none, none, some e, _ =>
        if s.phase ≠ 2 then (s, "wrong-phase") else ({ s with finEvents := s.finEvents ++ [e] }, "ok")
      | none, none, none, some (succ, fi) =>
        if ¬ executing then (s, "wrong-phase") else
        -- the payment list of the line is cycled over the fee locks (`-` = no payments at all)
        let nl := (txOf s).locked.length
        let pays := if fi.payments.isEmpty then [] else (List.range nl).map (fun i => fi.payments.getD (i % fi.payments.length) 0)
        let fi := { fi with payments := pays }
        match commitReceipt succ (txOf s) sys fi with
        | .commit sc nn su evs => ({ s with phase := 3 }, showReceipt sc nn su evs)
        | _ => ({ s with phase := 9 }, "panic")
      | none, none, none, none =>
        if ws = ["fail"] ∨ ws = ["succeed"] then
          if ¬ executing then (s, "wrong-phase") else
          let tx := txOf s
          if ws = ["succeed"] then ({ s with phase := 2, tx := tx, success := true }, "ok")
          else match revert tx.track with
            | some t' => ({ s with phase := 2, tx := { tx with track := t' }, success := false }, "ok")
            | none => ({ s with phase := 9, tx := tx }, "panic")
        else -- receipt
          if s.phase ≠ 2 then (s, "wrong-phase") else
          let su := toStateUpdates s.tx.track
          ({ s with phase := 3 }, showReceipt s.success su.1 su.2 (filterEvents s.success s.tx.events ++ s.finEvents))

def main : IO Unit := run stepLine ds0
