import RadixModel.Util.Proto
import RadixModel.Model.IntentTree
open Radix Radix.Proto Radix.IntentTree

/-! Line protocol of area `c35` (stateless; grammar in harness/src/bin/c35.rs). -/

namespace C35

def natStrict (s : String) : Option Nat :=
  if s.isEmpty then none
  else if s.toList.all (fun c => '0' ≤ c ∧ c ≤ '9') then
    some (s.toList.foldl (fun acc c => acc * 10 + (c.toNat - '0'.toNat)) 0)
  else none

def parseListAux : List String → List Nat → Option (List Nat)
  | [], acc => some acc.reverse
  | t :: rest, acc =>
    match natStrict t with
    | some n => parseListAux rest (n :: acc)
    | none => none

/-- `-` = empty; comma separated naturals (duplicates allowed) -/
def parseList (s : String) : Option (List Nat) :=
  if s = "-" then some [] else parseListAux (s.splitOn ",") []

def parsePairsAux : List String → List (Nat × Nat) → Option (List (Nat × Nat))
  | [], acc => some acc.reverse
  | t :: rest, acc =>
    match t.splitOn "=" with
    | [a, b] =>
      (match natStrict a, natStrict b with
       | some a, some b => parsePairsAux rest ((a, b) :: acc)
       | _, _ => none)
    | _ => none

/-- `e` = validate_intent failed; `<parent_yields>:<h=c,…|->` -/
def parseYields (s : String) : Option (Option Yields) :=
  if s = "e" then some none
  else match s.splitOn ":" with
    | [p, cy] =>
      (match natStrict p, (if cy = "-" then some [] else parsePairsAux (cy.splitOn ",") []) with
       | some p, some cy => some (some { parentYields := p, childYields := cy })
       | _, _ => none)
    | _ => none

def parseRoot (s : String) : Option IHash :=
  if s.startsWith "t" then (natStrict (s.drop 1).toString).map (fun n => (false, n))
  else if s.startsWith "s" then (natStrict (s.drop 1).toString).map (fun n => (true, n))
  else none

def parseSubs : Nat → List String → List (Sub × Option Yields) → Option (List (Sub × Option Yields))
  | 0, [], acc => some acc.reverse
  | 0, _ :: _, _ => none
  | k + 1, h :: cs :: y :: rest, acc =>
    (match natStrict h, parseList cs, parseYields y with
     | some h, some cs, some y => parseSubs k rest (({ hash := h, children := cs }, y) :: acc)
     | _, _, _ => none)
  | _ + 1, _, _ => none

def showList (l : List Nat) : String :=
  if l.isEmpty then "-" else ",".intercalate (l.map toString)

def showDetails (d : Details) : String :=
  s!"{if d.parent.1 then "s" else "t"}{d.parent.2}/{d.depth}/{showList d.children}"

def showErr : Err → String
  | .duplicateSubintent i h => s!"dup {i} {h}"
  | .childNotIncluded h => s!"notincl {h}"
  | .multipleParents i h => s!"multi {i} {h}"
  | .exceedsMaxDepth i h => s!"depth {i} {h}"
  | .notReachable i h => s!"unreach {i} {h}"
  | .yieldMismatch i h => s!"yield {i} {h}"
  | .intentError none => "interr root"
  | .intentError (some i) => s!"interr {i}"
  | .panic => "panic"
  | .outOfFuel => "fuel"

def answer (line : String) : String :=
  match words line with
  | "tree" :: md :: root :: rcs :: ry :: k :: rest =>
    (match natStrict md, parseRoot root, parseList rcs, parseYields ry, natStrict k with
     | some md, some root, some rcs, some ry, some k =>
       (match parseSubs k rest [] with
        | some subs =>
          let t : Tree := { root := root, rootChildren := rcs, subs := subs.map (·.1) }
          (match validate t md ry (subs.map (·.2)) with
           | .ok (rootCs, m) =>
             s!"ok r={showList rootCs} s={if m.isEmpty then "-" else ";".intercalate (m.map showDetails)}"
           | .error e => showErr e)
        | none => "bad-op")
     | _, _, _, _, _ => "bad-op")
  | _ => "bad-op"

end C35

def stepLine (s : Unit) (line : String) : Unit × String := (s, C35.answer line)

def main : IO Unit := run stepLine ()
