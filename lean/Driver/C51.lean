import RadixModel.Util.Proto
import RadixModel.Model.LockCells
import RadixModel.Generated.C51
open Radix Radix.Proto Radix.LockCells

/-! Line protocol of area `c51` (one line = one real transaction on the ledger simulator):

    reset <N|F<r>|U<r>> <LUL…(3 field lock flags)> <kv init> <md init> <roy init>     init = `k=v/L;k=(dash)/U;…` or a single dash
    script <steps>         of<i><m|r> ok<k><m|r> fr<h> fw<h>=<v> fl<h> fc<h> kg<h> ks<h>=<v> kr<h> kl<h> kc<h>
    md set <k> <v> <b> | md lock <k> <b> | md remove <k> <b>             b = 0 no badge, 1 owner badge, 2 auth disabled
    roy set <m> <v> <b> | roy lock <m> <b> | roy claim <b>
    own set <A|D|B> <b> | own lock <b>
    role set <k> <A|D|B> <b>
    get <f<i>|k<k>|m<k>|y<m>|r<k>|o>

  The native module calls are interpreted from `Generated.C51.nativeRows` (scripts regenerated from the
  package sources). -/

def nFields : Nat := 3

def parseNat (s : String) : Option Nat :=
  if s.isEmpty || s.length > 9 || !(s.toList.all Char.isDigit) then none else s.toNat?

def showAddr : Addr → String
  | .field i => s!"f{i}"
  | .kv k => s!"k{k}"
  | .md k => s!"m{k}"
  | .roy k => s!"y{k}"
  | .owner => "o"
  | .role k => s!"r{k}"
  | .acc => "acc"

def parseAddr (s : String) : Option Addr :=
  if s = "o" then some .owner else
  match s.toList with
  | c :: rest =>
    match parseNat (String.ofList rest) with
    | some n =>
      if c = 'f' then (if n < nFields then some (.field n) else none)
      else if c = 'k' then some (.kv n)
      else if c = 'm' then some (.md n)
      else if c = 'y' then some (.roy n)
      else if c = 'r' then some (.role n)
      else none
    | none => none
  | [] => none

def showCell (c : Cell) : String :=
  (match c.value with | none => "none" | some v => toString v) ++ "/" ++ (if c.locked then "L" else "U")

def showCells (s : St) (as : List Addr) : String :=
  String.join (as.map (fun a => " " ++ showAddr a ++ "=" ++ showCell (s.cells a)))

def showErr : Err → String
  | .fieldLocked => "fieldLocked"
  | .entryLocked => "entryLocked"
  | .substateLocked => "substateLocked"
  | .noHandle => "noHandle"
  | .notAFieldHandle => "notAFieldHandle"
  | .notAFieldWriteHandle => "notAFieldWriteHandle"
  | .notAKvHandle => "notAKvHandle"
  | .notAKvWriteHandle => "notAKvWriteHandle"
  | .unauthorized => "unauthorized"
  | .unknownCall => "unknownCall"

/-- `k=v/L;…`, a dash as value = no value -/
def parseInit (s : String) (needValue : Bool) : Option (List (Nat × Option Nat × Bool)) :=
  if s = "-" then some [] else
  let go (e : String) : Option (Nat × Option Nat × Bool) :=
    match e.splitOn "/" with
    | [kv, l] =>
      match kv.splitOn "=" with
      | [k, v] =>
        match parseNat k, (if v = "-" then some none else (parseNat v).map some), (if l = "L" then some true else if l = "U" then some false else none) with
        | some k, some v, some l => if needValue && v.isNone then none else some (k, v, l)
        | _, _, _ => none
      | _ => none
    | _ => none
  match (s.splitOn ";").mapM go with
  | some xs => if (xs.map (·.1)).eraseDups.length = xs.length then some xs else none
  | none => none

def ruleCode (s : String) : Option Nat :=
  if s = "A" then some 0 else if s = "D" then some 1 else if s = "B" then some 2 else none

def badgeCode (s : String) : Option Nat :=
  if s = "0" then some 0 else if s = "1" then some 1 else if s = "2" then some 2 else none

def parseStep (st : String) : Option Step :=
  let cs := st.toList
  if cs.length < 3 then none else
  let op := String.ofList (cs.take 2)
  let rest := String.ofList (cs.drop 2)
  if op = "of" ∨ op = "ok" then
    let m := String.ofList (cs.drop (cs.length - 1))
    let n := String.ofList ((cs.drop 2).take (cs.length - 3))
    match parseNat n, (if m = "m" then some true else if m = "r" then some false else none) with
    | some n, some m =>
      if op = "of" then (if n < nFields then some (.openC (.field n) m) else none) else some (.openC (.kv n) m)
    | _, _ => none
  else if op = "fw" ∨ op = "ks" then
    match rest.splitOn "=" with
    | [h, v] => match parseNat h, parseNat v with
      | some h, some v => some (if op = "fw" then .fieldWrite h v else .kvSet h v)
      | _, _ => none
    | _ => none
  else
    match parseNat rest with
    | some h =>
      if op = "fr" then some (.fieldRead h) else if op = "fl" then some (.fieldLock h)
      else if op = "fc" then some (.fieldClose h) else if op = "kg" then some (.kvGet h)
      else if op = "kr" then some (.kvRemove h) else if op = "kl" then some (.kvLock h)
      else if op = "kc" then some (.kvClose h) else none
    | none => none

def stepHandle : Step → Option Nat
  | .openC _ _ => none
  | .fieldRead h | .fieldWrite h _ | .fieldLock h | .fieldClose h
  | .kvGet h | .kvSet h _ | .kvRemove h | .kvLock h | .kvClose h => some h

/-- handle slots must have been opened by an earlier step of the script -/
def slotsOk : List Step → Nat → Bool
  | [], _ => true
  | st :: rest, opened =>
    match stepHandle st with
    | none => slotsOk rest (opened + 1)
    | some h => decide (h < opened) && slotsOk rest opened

def parseSteps (s : String) : Option (List Step) :=
  match (s.splitOn ",").mapM parseStep with
  | some steps => if slotsOk steps 0 then some steps else none
  | none => none

def touched : List Step → List Addr → List Addr
  | [], acc => acc.reverse
  | .openC a _ :: rest, acc => touched rest (if acc.contains a then acc else a :: acc)
  | _ :: rest, acc => touched rest acc

/-- run a script step by step collecting the per-call trace -/
def traceSteps : St → List Step → List String → (Option St) × List String
  | s, [], tr => (some s, tr.reverse)
  | s, st :: rest, tr =>
    match stepApi s st with
    | .error e => (none, (("err:" ++ showErr e) :: tr).reverse)
    | .ok (s', o) =>
      let t := match o with
        | none => "-"
        | some none => "vnone"
        | some (some v) => s!"v{v}"
      traceSteps s' rest (t :: tr)

structure DSt where
  s : Option St

def initD : DSt := ⟨none⟩

def emptyCells : Addr → Cell := fun a =>
  match a with
  | .acc => ⟨some 0, true⟩
  | _ => ⟨none, false⟩

def ownerVal (s : St) : Nat := ((s.cells .owner).value).getD 2

def authorized (s : St) (b : Nat) : Bool := b = 2 || ruleSat (ownerRule (ownerVal s)) (b = 1)

def native (d : DSt) (s : St) (auth : Bool) (code : Nat) (a : Addr) (v : Nat) (shown : List Addr) : DSt × String :=
  if !auth then (d, "err:unauthorized" ++ showCells s shown) else
  let (s', e) := nativeTx Radix.Generated.C51.nativeRows s code a v
  (⟨some s'⟩, (match e with | none => "ok" | some e => "err:" ++ showErr e) ++ showCells s' shown)

def stepLine (d : DSt) (line : String) : DSt × String :=
  match words line with
  | ["reset", o, fl, kv, md, roy] =>
    let owner : Option (Nat × Bool) :=
      match o.toList with
      | ['N'] => some (2, true)
      | [k, r] =>
        match ruleCode (String.ofList [r]) with
        | some r => if k = 'F' then some (r * 2, true) else if k = 'U' then some (r * 2 + 1, false) else none
        | none => none
      | _ => none
    let fls := fl.toList
    match owner, parseInit kv false, parseInit md false, parseInit roy true with
    | some (ov, ol), some kv, some md, some roy =>
      if fls.length ≠ nFields ∨ !(fls.all (fun c => c = 'L' ∨ c = 'U')) then (d, "bad-op") else
      let c0 := emptyCells
      let c1 := (List.range nFields).foldl (fun c i => setCell c (.field i) ⟨some (100 + i), fls.getD i 'U' = 'L'⟩) c0
      let c2 := kv.foldl (fun c (k, v, l) => setCell c (.kv k) ⟨v, l⟩) c1
      let c3 := md.foldl (fun c (k, v, l) => setCell c (.md k) ⟨v, l⟩) c2
      let c4 := roy.foldl (fun c (k, v, l) => setCell c (.roy k) ⟨v, l⟩) c3
      let c5 := setCell c4 .owner ⟨some ov, ol⟩
      let s : St := ⟨c5, []⟩
      let as := (List.range nFields).map Addr.field ++ kv.map (fun x => Addr.kv x.1) ++ md.map (fun x => Addr.md x.1)
        ++ roy.map (fun x => Addr.roy x.1) ++ [Addr.owner]
      (⟨some s⟩, "ok" ++ showCells s as)
    | _, _, _, _ => (d, "bad-op")
  | ["script", st] =>
    match d.s, parseSteps st with
    | some s, some steps =>
      let as := touched steps []
      let (r, tr) := traceSteps { s with handles := [] } steps []
      let s' : St := match r with
        | some x => ⟨x.cells, []⟩
        | none => s
      (⟨some s'⟩, (if r.isSome then "ok" else "fail") ++ " [" ++ ",".intercalate tr ++ "]" ++ showCells s' as)
    | _, _ => (d, "bad-op")
  | ["get", a] =>
    match d.s, parseAddr a with
    | some s, some a => (d, "ok" ++ showCells s [a])
    | _, _ => (d, "bad-op")
  | ["md", "set", k, v, b] =>
    match d.s, parseNat k, parseNat v, badgeCode b with
    | some s, some k, some v, some b => native d s (authorized s b) 0 (.md k) v [.md k]
    | _, _, _, _ => (d, "bad-op")
  | ["md", "lock", k, b] =>
    match d.s, parseNat k, badgeCode b with
    | some s, some k, some b => native d s (authorized s b) 1 (.md k) 0 [.md k]
    | _, _, _ => (d, "bad-op")
  | ["md", "remove", k, b] =>
    match d.s, parseNat k, badgeCode b with
    | some s, some k, some b => native d s (authorized s b) 2 (.md k) 0 [.md k]
    | _, _, _ => (d, "bad-op")
  | ["roy", "set", k, v, b] =>
    match d.s, parseNat k, parseNat v, badgeCode b with
    | some s, some k, some v, some b =>
      if v < 1 ∨ v > 100 then (d, "bad-op") else native d s (authorized s b) 10 (.roy k) v [.roy k]
    | _, _, _, _ => (d, "bad-op")
  | ["roy", "lock", k, b] =>
    match d.s, parseNat k, badgeCode b with
    | some s, some k, some b => native d s (authorized s b) 11 (.roy k) 0 [.roy k]
    | _, _, _ => (d, "bad-op")
  | ["roy", "claim", b] =>
    match d.s, badgeCode b with
    | some s, some b => native d s (authorized s b) 12 .acc 0 []
    | _, _ => (d, "bad-op")
  | ["own", "set", r, b] =>
    match d.s, ruleCode r, badgeCode b with
    | some s, some r, some b =>
      let o := ownerVal s
      native d s (b = 2 || (ownerUpdatable o && ruleSat (ownerRule o) (b = 1))) 20 .owner (r * 2 + o % 2) [.owner]
    | _, _, _ => (d, "bad-op")
  | ["own", "lock", b] =>
    match d.s, badgeCode b with
    | some s, some b =>
      let o := ownerVal s
      native d s (b = 2 || (ownerUpdatable o && ruleSat (ownerRule o) (b = 1))) 21 .owner (ownerRule o * 2) [.owner]
    | _, _ => (d, "bad-op")
  | ["role", "set", k, r, b] =>
    match d.s, parseNat k, ruleCode r, badgeCode b with
    | some s, some k, some r, some b => native d s (b = 2) 22 (.role k) r [.role k]
    | _, _, _, _ => (d, "bad-op")
  | _ => (d, "bad-op")

def main : IO Unit := run stepLine initD
