import RadixModel.Util.Proto
import RadixModel.Model.StaticInterp
import RadixModel.Generated.C36
open Radix Radix.Proto Radix.StaticInterp

/-! Line protocol of area `c36` (stateless; grammar in harness/src/bin/c36.rs). -/

def natStrict (s : String) : Option Nat :=
  if s.isEmpty then none
  else if s.toList.all (fun c => '0' ≤ c ∧ c ≤ '9') then
    (if s.length > 1 ∧ s.toList.head? = some '0' then none
     else some (s.toList.foldl (fun acc c => acc * 10 + (c.toNat - '0'.toNat)) 0))
  else none

def u32Strict (s : String) : Option Nat :=
  match natStrict s with
  | some n => if n < 4294967296 then some n else none
  | none => none

def u64Strict (s : String) : Option Nat :=
  match natStrict s with
  | some n => if n < 18446744073709551616 then some n else none
  | none => none

def bit (s : String) : Option Bool :=
  if s = "0" then some false else if s = "1" then some true else none

def optId (s : String) : Option (Option Nat) :=
  if s = "-" then some none else (u32Strict s).map some

def dropStr (s : String) (n : Nat) : String := String.ofList (s.toList.drop n)

def parseTarget (s : String) : Option InvKind :=
  if s = "d" then some .direct
  else if s = "yp" then some .yieldParent
  else if s.startsWith "yc" then (u32Strict (dropStr s 2)).map .yieldChild
  else if s.startsWith "mr" ∨ s.startsWith "mm" ∨ s.startsWith "ma" then (optId (dropStr s 2)).map .method
  else if s.startsWith "m" then (optId (dropStr s 1)).map .method
  else if s.startsWith "f" then (optId (dropStr s 1)).map .function
  else none

def parseArg (s : String) : Option ArgRef :=
  if s = "s" then some .static
  else if s = "e" ∨ s = "z" then some .expr
  else if s = "o" then some .other
  else if s.startsWith "b" then (u32Strict (dropStr s 1)).map .bucket
  else if s.startsWith "p" then (u32Strict (dropStr s 1)).map .proof
  else if s.startsWith "r" then (u32Strict (dropStr s 1)).map .reservation
  else if s.startsWith "a" then (u32Strict (dropStr s 1)).map .named
  else if s.startsWith "x" then (u64Strict (dropStr s 1)).map .blob
  else none

def parseArgs : Nat → List String → List ArgRef → Option (List ArgRef × List String)
  | 0, ts, acc => some (acc.reverse, ts)
  | n + 1, t :: ts, acc =>
    match parseArg t with
    | some a => parseArgs n ts (a :: acc)
    | none => none
  | _ + 1, [], _ => none

/-- fuel = number of tokens (every effect consumes at least one) -/
def parseToks : Nat → List String → List Effect → Option (List Effect)
  | _, [], acc => some acc.reverse
  | 0, _ :: _, _ => none
  | fuel + 1, t :: ts, acc =>
    match t, ts with
    | "cb", f :: how :: rest =>
      if (how = "all" ∨ how = "amt" ∨ how = "ids") then
        (if f = "f" then parseToks fuel rest (.createBucket true :: acc)
         else if f = "n" then parseToks fuel rest (.createBucket false :: acc) else none)
      else none
    | "cp", b :: how :: rest =>
      if b = "-" then
        (if how = "pop" ∨ how = "all" ∨ how = "amt" ∨ how = "ids" then parseToks fuel rest (.createProof none :: acc) else none)
      else
        (match u32Strict b with
         | some b => if how = "all" ∨ how = "amt" ∨ how = "ids" then parseToks fuel rest (.createProof (some b) :: acc) else none
         | none => none)
    | "kb", b :: how :: rest =>
      (match u32Strict b with
       | some b => if how = "ret" ∨ how = "burn" then parseToks fuel rest (.consumeBucket b :: acc) else none
       | none => none)
    | "kp", p :: how :: rest =>
      (match u32Strict p with
       | some p => if how = "drop" ∨ how = "push" then parseToks fuel rest (.consumeProof p :: acc) else none
       | none => none)
    | "cl", p :: rest =>
      (match u32Strict p with
       | some p => parseToks fuel rest (.cloneProof p :: acc)
       | none => none)
    | "dp", k :: rest =>
      if k = "named" ∨ k = "all" then parseToks fuel rest (.dropManyProofs true :: acc)
      else if k = "az" ∨ k = "azr" ∨ k = "azs" then parseToks fuel rest (.dropManyProofs false :: acc)
      else none
    | "inv", k :: d :: n :: rest =>
      (match parseTarget k, u32Strict d, u32Strict n with
       | some k, some d, some n =>
         if d = 0 ∨ d > 80 ∨ n > 64 ∨ (n > 0 ∧ d < 2) then none
         else (match parseArgs n rest [] with
           | some (args, rest') => parseToks fuel rest' (.invocation k d args :: acc)
           | none => none)
       | _, _, _ => none)
    | "ar", rest => parseToks fuel rest (.createAddressAndReservation :: acc)
    | "vf", rest => parseToks fuel rest (.verification :: acc)
    | "as", "nz" :: rest => parseToks fuel rest (.assertion .worktopNonZero :: acc)
    | "as", "al" :: b :: rest =>
      (match bit b with | some b => parseToks fuel rest (.assertion (.worktopAtLeast b) :: acc) | none => none)
    | "as", "anf" :: b :: rest =>
      (match bit b with | some b => parseToks fuel rest (.assertion (.worktopAtLeastNF b) :: acc) | none => none)
    | "as", "wo" :: b :: rest =>
      (match bit b with | some b => parseToks fuel rest (.assertion (.worktopSet b) :: acc) | none => none)
    | "as", "wi" :: b :: rest =>
      (match bit b with | some b => parseToks fuel rest (.assertion (.worktopSet b) :: acc) | none => none)
    | "as", "no" :: b :: rest =>
      (match bit b with | some b => parseToks fuel rest (.assertion (.nextCall b) :: acc) | none => none)
    | "as", "ni" :: b :: rest =>
      (match bit b with | some b => parseToks fuel rest (.assertion (.nextCall b) :: acc) | none => none)
    | "as", "bc" :: b :: vf :: vnf :: rest =>
      (match u32Strict b, bit vf, bit vnf with
       | some b, some vf, some vnf => parseToks fuel rest (.assertion (.bucketContents b vf vnf) :: acc)
       | _, _, _ => none)
    | _, _ => none

def parseRules (s : String) : Option Rules :=
  match s.toList.map (fun c => bit (String.singleton c)) with
  | [some a, some b, some c, some d, some e, some f] => some ⟨a, b, c, d, e, f⟩
  | _ => none

def parseBlobsAux : List String → List Nat → Option (List Nat)
  | [], acc => some acc.reverse
  | t :: rest, acc =>
    match u64Strict t with
    | some n => parseBlobsAux rest (n :: acc)
    | none => none

def parseBlobs (s : String) : Option (List Nat) :=
  if s = "-" then some [] else parseBlobsAux (s.splitOn ",") []

def bitsOf (cons : Nat → Bool) (n : Nat) : String :=
  String.ofList ((List.range n).map (fun i => if cons i then '1' else '0'))

def showErr : Err → String
  | .duplicateBlob h => s!"DuplicateBlob {h}"
  | .blobNotRegistered h => s!"BlobNotRegistered {h}"
  | .bucketNotYetCreated b => s!"BucketNotYetCreated {b}"
  | .bucketAlreadyUsed b => s!"BucketAlreadyUsed {b}"
  | .bucketLocked b => s!"BucketLocked {b}"
  | .proofNotYetCreated p => s!"ProofNotYetCreated {p}"
  | .proofAlreadyUsed p => s!"ProofAlreadyUsed {p}"
  | .reservationNotYetCreated r => s!"ReservationNotYetCreated {r}"
  | .reservationAlreadyUsed r => s!"ReservationAlreadyUsed {r}"
  | .namedAddressNotYetCreated a => s!"NamedAddressNotYetCreated {a}"
  | .childIntentNotRegistered i => s!"ChildIntentNotRegistered {i}"
  | .danglingBucket b => s!"DanglingBucket {b}"
  | .danglingReservation r => s!"DanglingReservation {r}"
  | .argsEncodeError => "ArgsEncodeError"
  | .notSupportedInTransactionIntent => "NotSupportedInTransactionIntent"
  | .subintentDoesNotEndWithYield => "SubintentDoesNotEndWithYield"
  | .proofCannotBePassed => "ProofCannotBePassed"
  | .invalidResourceConstraint => "InvalidResourceConstraint"
  | .followingNextCallNotInvocation => "FollowingNextCallNotInvocation"
  | .endedExpectingNextCall => "EndedExpectingNextCall"
  | .lockUnderflow => "PANIC-lock-underflow"

def showLoc : Loc → String
  | .pre => "@pre"
  | .at i => s!"@{i}"
  | .fin => "@fin"

def answer (line : String) : String :=
  match words line with
  | "m" :: sub :: rules :: nch :: npre :: blobs :: toks =>
    (match bit sub, parseRules rules, u32Strict nch, u32Strict npre, parseBlobs blobs with
     | some sub, some rules, some nch, some npre, some blobs =>
       if nch > 64 ∨ npre > 64 then "bad-op" else
       (match parseToks (toks.length + 1) toks [] with
        | some effects =>
          let c : Ctx := { isSub := sub, nChildren := nch, nPrealloc := npre, blobs := blobs,
                           maxDepth := Radix.Generated.C36.MANIFEST_SBOR_V1_MAX_DEPTH }
          (match interp rules c effects with
           | .ok s => s!"ok B{bitsOf s.bCons s.nB} P{bitsOf s.pCons s.nP} R{bitsOf s.rCons s.nR} A{s.nA}"
           | .error (e, l) => s!"err {showErr e} {showLoc l}")
        | none => "bad-op")
     | _, _, _, _, _ => "bad-op")
  | _ => "bad-op"

def stepLine (s : Unit) (line : String) : Unit × String := (s, answer line)

def main : IO Unit := run stepLine ()
