import RadixModel.Util.Proto
import RadixModel.Model.Ledger
open Radix Radix.Proto Radix.Ledger

/-
Driver of the ledger model for the areas `c03` and `c04` (see harness/src/bin/c03.rs for the line
protocol). A `tx` line carries the op summary extracted from the real receipt; the driver turns
every event-level token into operations of the model (`Radix.Ledger.Op`), using one "in flight"
bucket per resource, runs `commitTx` and prints the digest of the state change.
-/

structure D where
  s : St
  rs : List Nat          -- known resources
  begun : Bool

def D.init : D := { s := Radix.Ledger.empty, rs := [], begun := false }

def parseInt (s : String) : Option Int :=
  if s.startsWith "-" then (s.drop 1).toNat?.map (fun n => -(n : Int)) else s.toNat?.map (fun n => (n : Int))

def parseIds (s : String) : Option (List Nat) :=
  if s = "-" then some [] else (s.splitOn ".").mapM (·.toNat?)

def showIds (l : List Nat) : String :=
  if l.isEmpty then "-" else ".".intercalate ((l.mergeSort (· ≤ ·)).map toString)

def info (nf tracks : Bool) (div : Nat) : ResInfo :=
  { nf := nf, tracks := tracks, div := div, mintable := true, burnable := true, recallable := true }

/-- translation state: in-flight bucket per resource, next fresh bucket id, vault ↦ resource -/
structure Tr where
  pools : List (Nat × Nat)
  next : Nat
  vr : Nat → Option Nat
  ops : List Op          -- reversed

def Tr.pool (t : Tr) (r : Nat) : Option Nat := (t.pools.find? (·.1 == r)).map (·.2)

def Tr.push (t : Tr) (o : List Op) : Tr := { t with ops := o.reverse ++ t.ops }

/-- a new bucket `b` of resource `r` joins the in-flight bucket of `r` -/
def Tr.merge (t : Tr) (r b : Nat) : Tr :=
  match t.pool r with
  | some p => t.push [.bput p b]
  | none => { t with pools := t.pools ++ [(r, b)] }

/-- the in-flight bucket of `r` (an empty one is created when nothing is in flight) -/
def Tr.needPool (t : Tr) (r : Nat) : Tr × Nat :=
  match t.pool r with
  | some p => (t, p)
  | none =>
    let b := t.next
    ({ (t.push [.emptyBucket r b]) with pools := t.pools ++ [(r, b)], next := t.next + 1 }, b)

def bad : Nat := 4000000000   -- never a vault/resource id: makes the model op fail with noVault/noResource

def token (t : Tr) (tok : String) : Option Tr :=
  match tok.splitOn ":" with
  | ["nr", r, k, tr, d] =>
    match r.toNat?, d.toNat? with
    | some r, some d =>
      if (k = "f" ∨ k = "n") ∧ (tr = "t" ∨ tr = "u") then some (t.push [.newRes r (info (k = "n") (tr = "t") d)]) else none
    | _, _ => none
  | ["nv", v, r] =>
    match v.toNat?, r.toNat? with
    | some v, some r => some { (t.push [.newVault v r]) with vr := upd t.vr v (some r) }
    | _, _ => none
  | ["m", r, a] =>
    match r.toNat?, parseInt a with
    | some r, some a => let b := t.next; some (({ t with next := b + 1 }.push [.mint r a b]).merge r b)
    | _, _ => none
  | ["mn", r, ids] =>
    match r.toNat?, parseIds ids with
    | some r, some ids => let b := t.next; some (({ t with next := b + 1 }.push [.mintNf r ids b]).merge r b)
    | _, _ => none
  | ["w", v, a] =>
    match v.toNat?, parseInt a with
    | some v, some a => let b := t.next; some (({ t with next := b + 1 }.push [.take v a b]).merge ((t.vr v).getD bad) b)
    | _, _ => none
  | ["rc", v, a] =>
    match v.toNat?, parseInt a with
    | some v, some a => let b := t.next; some (({ t with next := b + 1 }.push [.recall v a b]).merge ((t.vr v).getD bad) b)
    | _, _ => none
  | ["wn", v, ids] =>
    match v.toNat?, parseIds ids with
    | some v, some ids => let b := t.next; some (({ t with next := b + 1 }.push [.takeNf v ids b]).merge ((t.vr v).getD bad) b)
    | _, _ => none
  | ["rcn", v, ids] =>
    match v.toNat?, parseIds ids with
    | some v, some ids => let b := t.next; some (({ t with next := b + 1 }.push [.recallNf v ids b]).merge ((t.vr v).getD bad) b)
    | _, _ => none
  | ["d", v, a] =>
    match v.toNat?, parseInt a with
    | some v, some a =>
      let (t1, p) := t.needPool ((t.vr v).getD bad)
      let b := t1.next
      some ({ t1 with next := b + 1 }.push [.btake p a b, .put v b])
    | _, _ => none
  | ["dn", v, ids] =>
    match v.toNat?, parseIds ids with
    | some v, some ids =>
      let (t1, p) := t.needPool ((t.vr v).getD bad)
      let b := t1.next
      some ({ t1 with next := b + 1 }.push [.btakeNf p ids b, .put v b])
    | _, _ => none
  | ["b", r, a] =>
    match r.toNat?, parseInt a with
    | some r, some a =>
      let (t1, p) := t.needPool r
      let b := t1.next
      some ({ t1 with next := b + 1 }.push [.btake p a b, .burn b])
    | _, _ => none
  | ["bn", r, ids] =>
    match r.toNat?, parseIds ids with
    | some r, some ids =>
      let (t1, p) := t.needPool r
      let b := t1.next
      some ({ t1 with next := b + 1 }.push [.btakeNf p ids b, .burn b])
    | _, _ => none
  | ["lf", v, a, c] =>
    match v.toNat?, parseInt a with
    | some v, some a => if c = "0" ∨ c = "1" then some (t.push [.lockFee v a (c = "1")]) else none
    | _, _ => none
  | _ => none

def tokens (t : Tr) : List String → Option Tr
  | [] => some t
  | x :: rest => match token t x with
    | some t' => tokens t' rest
    | none => none

def parseRoy : List String → Option (List (Nat × Int))
  | [] => some []
  | x :: rest =>
    match x.splitOn ":" with
    | ["roy", v, a] =>
      match v.toNat?, parseInt a, parseRoy rest with
      | some v, some a, some l => some ((v, a) :: l)
      | _, _, _ => none
    | _ => none

def parseFin (ws : List String) : Option Fin :=
  match ws with
  | [] => none
  | f :: roy =>
    match f.splitOn ":" with
    | ["fin", req, rv, tp, tv, tb] =>
      match parseInt req, rv.toNat?, parseInt tp, parseInt tv, parseInt tb, parseRoy roy with
      | some req, some rv, some tp, some tv, some tb, some roy =>
        some { required := req, royalties := roy, rewardsVault := rv, toProposer := tp, toValidators := tv, toBurn := tb }
      | _, _, _, _, _, _ => none
    | _ => none

def showEvent : Event → String
  | .deposit v a => s!"d:{v}:{a}"
  | .payFee v a => s!"pf:{v}:{a}"
  | .burn r a => s!"b:{r}:{a}"
  | .mint r a => s!"m:{r}:{a}"
  | .withdraw v a => s!"w:{v}:{a}"
  | .recall v a => s!"rc:{v}:{a}"
  | .lockFee v a => s!"lf:{v}:{a}"
  | .mintNf r ids => s!"mn:{r}:{showIds ids}"
  | .burnNf r ids => s!"bn:{r}:{showIds ids}"
  | .depositNf v ids => s!"dn:{v}:{showIds ids}"
  | .withdrawNf v ids => s!"wn:{v}:{showIds ids}"
  | .recallNf v ids => s!"rcn:{v}:{showIds ids}"

def joinOr (l : List String) : String := if l.isEmpty then "-" else ",".intercalate l

def isNf (s : St) (r : Nat) : Bool := match s.res r with | some i => i.nf | none => false

def digest (s s' : St) (rs : List Nat) (nApp : Nat) (success : Bool) : String :=
  let ev := (s'.events.drop nApp).map showEvent
  let resTok := (rs.mergeSort (· ≤ ·)).filterMap fun r =>
    let dv := vsum s' r - vsum s r
    let tracks := match s'.res r with | some i => i.tracks | none => false
    let ds : Option Int := if tracks then some (s'.supply r - (match s.res r with | some _ => s.supply r | none => 0)) else none
    let m := s'.minted r - s'.burned r
    if dv ≠ 0 ∨ (ds.getD 0) ≠ 0 ∨ m ≠ 0 then
      some s!"{r}:{dv}:{match ds with | some x => toString x | none => "-"}:{m}"
    else none
  let vTok := (s'.vaults.mergeSort (· ≤ ·)).filterMap fun v =>
    let nf := isNf s' ((s'.vres v).getD bad)
    let isNew := !(s.vaults.contains v)
    let changed := isNew || s.bal v ≠ s'.bal v || (s.idx v).mergeSort (· ≤ ·) ≠ (s'.idx v).mergeSort (· ≤ ·)
    if changed then
      some (if nf then s!"{v}:{s'.bal v}:{showIds (s'.idx v)}" else s!"{v}:{s'.bal v}")
    else none
  s!"{if success then "S" else "F"} ev={joinOr ev} res={joinOr resTok} vaults={joinOr vTok}"

/-- executable form of the committed-state invariant of C04 -/
def invB (s : St) (rs : List Nat) : Bool :=
  rs.all (fun r => match s.res r with
    | some i => !i.tracks || s.supply r == vsum s r
    | none => false)
  && s.vaults.all (fun v => decide (0 ≤ s.bal v) &&
      (match s.vres v with
       | some r => !(isNf s r) || s.bal v == ((s.idx v).length : Int)
       | none => false))
  && !(hasDup s.vaults)

def stepLine (d : D) (line : String) : D × String :=
  match line.splitOn " ; " with
  | [one] =>
    match words one with
    | ["reset"] => (D.init, "ok")
    | ["res", r, k, tr, dv, sup] =>
      if d.begun then (d, "bad-op") else
      match r.toNat?, dv.toNat?, parseInt sup with
      | some r, some dv, some sup =>
        if (k = "f" ∨ k = "n") ∧ (tr = "t" ∨ tr = "u") ∧ (d.s.res r).isNone then
          ({ d with s := { d.s with res := upd d.s.res r (some (info (k = "n") (tr = "t") dv)), supply := upd d.s.supply r sup },
                    rs := d.rs ++ [r] }, "ok")
        else (d, "bad-op")
      | _, _, _ => (d, "bad-op")
    | ["vault", v, r, a, ids] =>
      if d.begun then (d, "bad-op") else
      match v.toNat?, r.toNat?, parseInt a, parseIds ids with
      | some v, some r, some a, some ids =>
        if (d.s.res r).isSome ∧ !(d.s.vaults.contains v) then
          ({ d with s := { d.s with vaults := d.s.vaults ++ [v], vres := upd d.s.vres v (some r), bal := upd d.s.bal v a,
                                    idx := upd d.s.idx v ids } }, "ok")
        else (d, "bad-op")
      | _, _, _, _ => (d, "bad-op")
    | ["begin"] =>
      if d.begun then (d, "bad-op") else
      ({ d with begun := true }, if invB d.s d.rs then "ok inv" else "err inv")
    | _ => (d, "bad-op")
  | [spec, ops, fin] =>
    if !d.begun then (d, "bad-op") else
    match words spec, words ops, parseFin (words fin) with
    | "tx" :: _ :: _, cls :: toks, some f =>
      if cls = "R" then (if toks.isEmpty then (d, "R ev=- res=- vaults=-") else (d, "bad-op"))
      else if cls = "P" then (if toks.isEmpty then (d, "panic") else (d, "bad-op"))
      else if cls ≠ "S" ∧ cls ≠ "F" then (d, "bad-op")
      else
        match tokens { pools := [], next := 1000000, vr := d.s.vres, ops := [] } toks with
        | none => (d, "bad-op")
        | some t =>
          let closing := t.pools.map (fun p => Op.dropEmpty p.2)
          -- a failed transaction: whatever it did after the fee locks is unknown and rolled back
          let ops := t.ops.reverse ++ closing ++ (if cls = "F" then [Op.burn bad] else [])
          let tx : Tx := { ops := ops, fin := f }
          let s0 := beginTx d.s
          let (s1, e) := runOps s0 ops
          let success := e.isNone && noBuckets s1
          let pre := if success then s1 else revert s0 s1
          match commitTx d.s tx with
          | .error p => (d, s!"model-panic {repr p}")
          | .ok (s', ok) =>
            let newRs := toks.filterMap (fun x => match x.splitOn ":" with | "nr" :: r :: _ => r.toNat? | _ => none)
            let rs' := if ok then d.rs ++ newRs.filter (fun r => !(d.rs.contains r)) else d.rs
            let why := match e with | some err => s!" err={repr err}" | none => ""
            ({ d with s := s', rs := rs' },
             digest d.s s' rs' pre.events.length ok ++ (if ok = (cls = "S") then "" else s!" MODEL-OUTCOME-DIFFERS{why}"))
    | _, _, _ => (d, "bad-op")
  | _ => (d, "bad-op")

def main : IO Unit := run stepLine D.init
