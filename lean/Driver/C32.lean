import RadixModel.Util.Proto
import RadixModel.Util.Blake2b
import RadixModel.Model.TxHash
open Radix Radix.Proto Radix.TxHash

/-- C32 driver.
`prep <kind> <v2> <maxUser> <maxLedger> <maxChild> <maxSub> <maxBlobs> <payload-hex>`
  → `ok k=<kind> eff=<n> tot=<n> ids=<hash,hash,…>` | `err <class>`
`prepx … <payload-hex> <implAccepts>`: leaves are decoded untyped by the model (over-approximation of the
typed decoders), so for payloads mutated *inside* a leaf only one direction is compared: when the
implementation accepted (`1`) the model must accept with the same hashes; otherwise the answer is `rej`. -/
def H : List UInt8 → List UInt8 := Radix.Blake2b.blake2b256

def parseKind : String → Option Kind
  | "v1intent" => some .v1intent
  | "v1signed" => some .v1signed
  | "v1notarized" => some .v1notarized
  | "v2subintent" => some .v2subintent
  | "v2txintent" => some .v2txintent
  | "v2signed" => some .v2signed
  | "v2notarized" => some .v2notarized
  | "v2partial" => some .v2partial
  | "v2signedpartial" => some .v2signedpartial
  | "user" => some .user
  | _ => none

def showKind : Kind → String
  | .v1intent => "v1intent" | .v1signed => "v1signed" | .v1notarized => "v1notarized"
  | .v2subintent => "v2subintent" | .v2txintent => "v2txintent" | .v2signed => "v2signed"
  | .v2notarized => "v2notarized" | .v2partial => "v2partial" | .v2signedpartial => "v2signedpartial"
  | .user => "user"

def showVT : VT → String
  | .blob => "Blob" | .subintent => "Subintent" | .childSpec => "ChildSubintentSpecifier"
  | .sigBatches => "SubintentSignatureBatches"

def showErr : PErr → String
  | .notSupported => "err NotSupported"
  | .tooLarge => "err TooLarge"
  | .decode => "err Decode"
  | .tooMany vt a m => s!"err TooMany:{showVT vt}:{a}:{m}"
  | .lengthOverflow => "err LengthOverflow"
  | .unexpectedDisc none => "err BadDisc:none"
  | .unexpectedDisc (some d) => s!"err BadDisc:{d.toNat}"

def parseSettings (v2 a b c d e : String) : Option Settings :=
  match a.toNat?, b.toNat?, c.toNat?, d.toNat?, e.toNat? with
  | some a, some b, some c, some d, some e =>
    if v2 = "0" ∨ v2 = "1" then
      some { v2 := v2 = "1", maxUser := a, maxLedger := b, maxChild := c, maxSub := d, maxBlobs := e }
    else none
  | _, _, _, _, _ => none

def answer (S : Settings) (k : Kind) (payload : List UInt8) : String :=
  match prepare S k payload with
  | .error e => showErr e
  | .ok (k', r) =>
    let hs := (ids k' r.tree).map (fun t => hex (summary H t))
    s!"ok k={showKind k'} eff={r.eff} tot={r.total} ids={",".intercalate hs}"

def stepLine (s : Unit) (line : String) : Unit × String :=
  match words line with
  | ["prep", k, v2, a, b, c, d, e, p] =>
    match parseKind k, parseSettings v2 a b c d e, unhex p with
    | some k, some S, some payload => (s, answer S k payload)
    | _, _, _ => (s, "bad-op")
  | ["prepx", k, v2, a, b, c, d, e, p, acc] =>
    match parseKind k, parseSettings v2 a b c d e, unhex p with
    | some k, some S, some payload =>
      if acc = "1" then (s, answer S k payload)
      else if acc = "0" then (s, "rej")
      else (s, "bad-op")
    | _, _, _ => (s, "bad-op")
  | _ => (s, "bad-op")

def main : IO Unit := run stepLine ()
