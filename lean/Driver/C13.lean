import RadixModel.Util.Proto
import RadixModel.Model.Locks
open Radix Radix.Proto Radix.Locks

def stepLine (s : Locks) (line : String) : Locks × String :=
  match words line with
  | ["reset"] => (init, "ok")
  | ["lock", n, p, k, m] =>
    match n.toNat?, p.toNat?, k.toNat? with
    | some n, some p, some k =>
      if m = "r" ∨ m = "w" then
        let (s', r) := lock s (n, p, k) (m = "r")
        (s', match r with | some h => s!"some {h}" | none => "none")
      else (s, "bad-op")
    | _, _, _ => (s, "bad-op")
  | ["unlock", h] =>
    match h.toNat? with
    | some h => (match unlock s h with
      | some (s', _) => (s', "ok")
      | none => (s, "panic"))
    | none => (s, "bad-op")
  | ["islocked", n, p, k] =>
    match n.toNat?, p.toNat?, k.toNat? with
    | some n, some p, some k => (s, showBool (isLocked s (n, p, k)))
    | _, _, _ => (s, "bad-op")
  | ["nodelocked", n] =>
    match n.toNat? with
    | some n => (s, showBool (nodeIsLocked s n))
    | none => (s, "bad-op")
  | _ => (s, "bad-op")

def main : IO Unit := run stepLine init
