import RadixModel.Util.Proto
import RadixModel.Model.Manifest
import RadixModel.Model.ManifestParser
import RadixModel.Generated.C31
open Radix Radix.Proto Radix.Manifest

namespace C31Drv

/-- strings travel as hex of their UTF-8 bytes -/
def textOf (h : String) : Option (List Char) :=
  match unhex h with
  | none => none
  | some bs =>
    match String.fromUTF8? (ByteArray.mk bs.toArray) with
    | some s => some s.toList
    | none => none

def hx (cs : List Char) : String := hex (String.ofList cs).toUTF8.data.toList

def natStrict (s : String) : Option Nat :=
  let cs := s.toList
  if cs.isEmpty then none
  else if !(cs.all (fun c => '0' ≤ c ∧ c ≤ '9')) then none
  else if cs.length > 1 ∧ cs.head? = some '0' then none
  else some (cs.foldl (fun acc c => acc * 10 + (c.toNat - '0'.toNat)) 0)

def showPos (p : Pos) : String := s!"{p.full}.{p.line}.{p.col}"
def showSpan (s : Span) : String := showPos s.start ++ "-" ++ showPos s.stop

def showTok : Token → String
  | .bool b => "bool:" ++ (if b then "t" else "f")
  | .int ty v => String.ofList ty.name ++ ":" ++ toString v
  | .str s => "str:" ++ hx s
  | .ident s => "id:" ++ hx s
  | .openParen => "op" | .closeParen => "cp" | .lt => "lt" | .gt => "gt"
  | .comma => "comma" | .semi => "semi" | .fatArrow => "arrow"

def showExpected : Expected → String
  | .exact c => s!"x{c.toNat}"
  | .oneOf cs => "oneof" ++ ".".intercalate (cs.map (fun c => toString c.toNat))
  | .hexDigit => "hex"
  | .dlqp => "dlqp"

def showLexErr (e : LexErr) : String :=
  let k := match e.kind with
    | .eof => "eof"
    | .unexpectedChar c ex => s!"uchar:{c.toNat}:{showExpected ex}"
    | .invalidIntegerLiteral s => "intlit:" ++ hx s
    | .invalidIntegerType s => "inttype:" ++ hx s
    | .invalidInteger lit ty ie => "int:" ++ hx (lit ++ ty.name) ++ ":" ++
        (match ie with | .posOverflow => "pos" | .negOverflow => "neg" | .invalidDigit => "digit")
    | .invalidUnicode v => s!"unicode:{v}"
    | .missingSurrogate v => s!"surrogate:{v}"
    | .hang => "hang"
  k ++ "@" ++ showSpan e.span

def showTokenType : TokenType → String
  | .instruction => "instr" | .value => "value" | .valueKind => "vkind" | .enumDiscriminator => "disc"
  | .exact t => "exact." ++ showTok t

def showPErr (e : PErr) : String :=
  let k := match e.kind with
    | .eof => "eof"
    | .unexpectedToken ex a => s!"utok:{showTokenType ex}:{showTok a}"
    | .invalidArgument ex a => s!"invarg:{showTokenType ex}:{showTok a}"
    | .invalidNumberOfValues ex a => s!"nvalues:{ex}:{a}"
    | .invalidNumberOfTypes ex a => s!"ntypes:{ex}:{a}"
    | .unknownEnumDiscriminator a => "unkdisc:" ++ hx a
    | .maxDepthExceeded a m => s!"depth:{a}:{m}"
    | .hang => "hang"
  k ++ "@" ++ showSpan e.span

/-- `create_snippet` of the tree the harness was compiled from (old or repaired arithmetic, as
measured by the harness on the CRLF witness) followed by the renderer's range check -/
def snippet (cs : List Char) (sp : Span) : String :=
  let out := if Radix.Generated.C31.SNIPPET_FIXED = 1 then createSnippetNew cs sp else createSnippetOld cs sp
  match out with
  | .underflow => "panic"
  | .ok lineStart source range =>
    if rangeAccepted source range then
      let n := shownLines source
      s!"ok {if n = 0 then 0 else lineStart} {n}"
    else "panic"

def answer (line : String) : String :=
  match words line with
  | ["lex", h] =>
    match textOf h with
    | none => "bad-op"
    | some cs =>
      match tokenize cs with
      | .ok ts => " ".intercalate ("ok" :: ts.map (fun t => showTok t.tok ++ "@" ++ showSpan t.span))
      | .error e => "err " ++ showLexErr e
  | ["snip", h, sf, sl, ef, el] =>
    match textOf h, natStrict sf, natStrict sl, natStrict ef, natStrict el with
    | some cs, some sf, some sl, some ef, some el => snippet cs ⟨⟨sf, sl, 0⟩, ⟨ef, el, 0⟩⟩
    | _, _, _, _, _ => "bad-op"
  | ["compile", k, h] =>
    if k ≠ "v1" ∧ k ≠ "sys" ∧ k ≠ "v2" ∧ k ≠ "sub" then "bad-op" else
    match textOf h with
    | none => "bad-op"
    | some cs =>
      match tokenize cs with
      | .error e => s!"lexerr {showLexErr e} r={snippet cs e.span}"
      | .ok ts =>
        match parseManifest ts with
        | .error e => s!"parseerr {showPErr e} r={snippet cs e.span}"
        | .ok _ => "parsed"
  | _ => "bad-op"

end C31Drv

def main : IO Unit := run (fun (_ : Unit) line => ((), C31Drv.answer line)) ()
