/-
Line-protocol helpers shared by the C12 (`Track`) and C14 (overlay) drivers: sort keys travel as hex
byte strings and are mapped to the model's `Nat` keys by the order-embedding `Radix.KV.encKey`.
-/
import RadixModel.Util.Proto
import RadixModel.Model.SubstateDb
namespace Radix.KVProto
open Radix Radix.Proto Radix.KV Radix.SubstateDb

def parseKey (s : String) : Option Nat :=
  match unhex s with
  | some bs => encKey bs
  | none => none

def showKey (k : Nat) : String := hex (decKey k)

def showOpt (o : Option Nat) : String :=
  match o with
  | some v => s!"some {v}"
  | none => "none"

def showEntries (es : List (Nat × Nat)) : String :=
  "[" ++ ",".intercalate (es.map (fun kv => s!"{showKey kv.1}={kv.2}")) ++ "]"

def showKeys (ks : List Nat) : String :=
  "[" ++ ",".intercalate (ks.map showKey) ++ "]"

def showUpd (u : DbUpdate) : String :=
  match u with
  | some v => s!"{v}"
  | none => "-"

def showPUpd : PUpd → String
  | .delta us => "D[" ++ ",".intercalate (us.map (fun ku => s!"{showKey ku.1}={showUpd ku.2}")) ++ "]"
  | .reset vs => "R" ++ showEntries vs

def allSome {α : Type} : List (Option α) → Option (List α)
  | [] => some []
  | none :: _ => none
  | some a :: t => match allSome t with | some l => some (a :: l) | none => none

/-- `k=v` with `v` a number, or `k=-` (delete) when `allowDel` -/
def parseKU (allowDel : Bool) (s : String) : Option (Nat × DbUpdate) :=
  match s.splitOn "=" with
  | [k, v] =>
    match parseKey k with
    | none => none
    | some k =>
      if v = "-" then (if allowDel then some (k, none) else none)
      else match v.toNat? with
        | some v => some (k, some v)
        | none => none
  | _ => none

/-- comma separated list, `-` = empty -/
def parseList {α : Type} (f : String → Option α) (s : String) : Option (List α) :=
  if s = "-" then some [] else allSome ((s.splitOn ",").map f)

def parseKV (s : String) : Option (Nat × Nat) :=
  match parseKU false s with
  | some (k, some v) => some (k, v)
  | _ => none

def distinct (l : List Nat) : Bool :=
  match l with
  | [] => true
  | a :: t => !t.contains a && distinct t

end Radix.KVProto
