import RadixModel.Util.Proto
import RadixModel.Model.Pool
open Radix Radix.Proto Radix.Pool

/-- strict decimal integer (optional leading `-`) -/
def parseInt (s : String) : Option Int :=
  match s.toList with
  | '-' :: rest => if rest.isEmpty then none else (String.ofList rest).toNat?.map (fun n => -(Int.ofNat n))
  | _ => s.toNat?.map Int.ofNat

def parseInts (ws : List String) : Option (List Int) := ws.mapM parseInt

def parseDivs (ws : List String) : Option (List Nat) :=
  ws.mapM (fun w => match w.toNat? with
    | some d => if d ≤ 18 then some d else none
    | none => none)

def joinInts (xs : List Int) : String := ",".intercalate (xs.map toString)

def showState (p : Pool) : String :=
  s!"ok S={p.supply} R={joinInts p.reserves} A={joinInts p.account}"

def parseStrategy (s : String) : Option Strategy :=
  if s = "exact" then some .exact
  else if s = "r0" then some (.rounded .toPosInf)
  else if s = "r1" then some (.rounded .toNegInf)
  else if s = "r2" then some (.rounded .toZero)
  else if s = "r3" then some (.rounded .awayFromZero)
  else if s = "r4" then some (.rounded .midTowardZero)
  else if s = "r5" then some (.rounded .midAwayFromZero)
  else if s = "r6" then some (.rounded .midToEven)
  else none

def answer (kind : Kind) (r : Pool × Outcome) : Option Pool × String :=
  match r.2 with
  | .skip => (some r.1, "skip")
  | .badIndex => (some r.1, "bad-op")
  | .err e => (some r.1, "err " ++ e.name kind)
  | .ok => (some r.1, showState r.1)

def doValue (p : Pool) (u : Int) : Option Pool × String :=
  if !inI192 u then (some p, "skip") else
  match redemptionValue p u with
  | .error e => (some p, "err " ++ e.name p.kind)
  | .ok os => (some p, "ok " ++ joinInts os)

def stepLine (st : Option Pool) (line : String) : Option Pool × String :=
  match words line, st with
  | ["reset"], _ => (none, "ok")
  | "new1" :: ws, none =>
    match parseDivs ws with
    | some [d] => (some (newPool .one [d]), "ok")
    | _ => (st, "bad-op")
  | "new2" :: ws, none =>
    match parseDivs ws with
    | some [d1, d2] => (some (newPool .two [d1, d2]), "ok")
    | _ => (st, "bad-op")
  | "newm" :: ws, none =>
    match parseDivs ws with
    | some ds => if ds.length ≥ 1 ∧ ds.length ≤ 6 then (some (newPool .multi ds), "ok") else (st, "bad-op")
    | none => (st, "bad-op")
  | "contribute" :: ws, some p =>
    match parseInts ws with
    | none => (st, "bad-op")
    | some cs =>
      if cs.length ≠ p.divs.length then (st, "bad-op")
      else answer p.kind (step p (.contribute cs))
  | ["redeem", u], some p =>
    match parseInt u with
    | none => (st, "bad-op")
    | some u => answer p.kind (step p (.redeem u))
  | ["redeemf", n, d], some p =>
    match n.toNat?, d.toNat? with
    | some n, some d => if d = 0 ∨ n > d then (st, "bad-op") else answer p.kind (step p (.redeem (p.supply * n / d)))
    | _, _ => (st, "bad-op")
  | ["valuef", n, d], some p =>
    match n.toNat?, d.toNat? with
    | some n, some d => if d = 0 ∨ n > d then (st, "bad-op") else doValue p (p.supply * n / d)
    | _, _ => (st, "bad-op")
  | ["deposit", i, a], some p =>
    match i.toNat?, parseInt a with
    | some i, some a => answer p.kind (step p (.deposit i a))
    | _, _ => (st, "bad-op")
  | ["withdraw", i, a, s], some p =>
    match i.toNat?, parseInt a, parseStrategy s with
    | some i, some a, some strat => answer p.kind (step p (.withdraw i a strat))
    | _, _, _ => (st, "bad-op")
  | ["value", u], some p =>
    match parseInt u with
    | none => (st, "bad-op")
    | some u => doValue p u
  | _, _ => (st, "bad-op")

def main : IO Unit := run stepLine (none : Option Pool)
