import RadixModel.Util.Proto
import RadixModel.Model.DecimalText
open Radix Radix.Proto Radix.DecimalText

namespace C27Drv

/-- strict decimal integer: `-?[0-9]+`, no leading zeros (except "0"), no "-0" -/
def intStrict (s : String) : Option Int :=
  let nat (cs : List Char) : Option Nat :=
    if cs.isEmpty then none
    else if !(cs.all (fun c => '0' ≤ c ∧ c ≤ '9')) then none
    else if cs.length > 1 ∧ cs.head? = some '0' then none
    else some (cs.foldl (fun acc c => acc * 10 + (c.toNat - '0'.toNat)) 0)
  match s.toList with
  | '-' :: rest =>
    match nat rest with
    | some 0 => none
    | some n => some (-(n : Int))
    | none => none
  | cs => (nat cs).map (fun n => (n : Int))

def errName : PErr → String
  | .invalidDigit => "InvalidDigit"
  | .overflow => "Overflow"
  | .emptyIntegralPart => "EmptyIntegralPart"
  | .emptyFractionalPart => "EmptyFractionalPart"
  | .tooManyPlaces => "TooManyPlaces"
  | .moreThanOnePoint => "MoreThanOneDecimalPoint"

def showRes : Res → String
  | .ok v => s!"ok {v}"
  | .err e => "err " ++ errName e
  | .panic => "panic"

def tyOf (t : String) : Option (Nat × Nat) :=
  if t = "d" then some (DEC_BITS, DEC_SCALE)
  else if t = "p" then some (PDEC_BITS, PDEC_SCALE)
  else none

def answer (line : String) : String :=
  match words line with
  | ["parse", t, h] =>
    match tyOf t, unhex h with
    | some (bits, scale), some bs =>
      if (ByteArray.mk bs.toArray).validateUTF8 then showRes (fromStrBytes bits scale bs) else "bad-op"
    | _, _ => "bad-op"
  | ["print", t, v] =>
    match tyOf t, intStrict v with
    | some (bits, scale), some v =>
      if InRange bits v then
        "s " ++ String.ofList ((toStr scale v).map Char.ofNat)
      else "bad-op"
    | _, _ => "bad-op"
  | _ => "bad-op"

end C27Drv

def main : IO Unit := run (fun (_ : Unit) line => ((), C27Drv.answer line)) ()
