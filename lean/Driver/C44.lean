import RadixModel.Util.Proto
import RadixModel.Model.Consensus
open Radix Radix.Proto Radix.Consensus

/-- strict decimal parser (digits only, at most 30 of them) -/
def pNat (s : String) : Option Nat :=
  let cs := s.toList
  if cs.isEmpty ∨ cs.length > 30 then none
  else if cs.all (fun c => '0' ≤ c ∧ c ≤ '9') then
    some (cs.foldl (fun acc c => acc * 10 + (c.toNat - '0'.toNat)) 0)
  else none

def pInt (s : String) : Option Int :=
  match s.toList with
  | '-' :: rest => (pNat (String.ofList rest)).map (fun n => -(n : Int))
  | _ => (pNat s).map (fun n => (n : Int))

def pU64 (s : String) : Option Nat := (pNat s).bind (fun n => if n ≤ u64Max then some n else none)
def pU8 (s : String) : Option Nat := (pNat s).bind (fun n => if n ≤ 255 then some n else none)
def pI64 (s : String) : Option Int := (pInt s).bind (fun n => if inI64 n then some n else none)

def pGaps (s : String) : Option (List Nat) :=
  if s = "-" then some []
  else (s.splitOn ",").foldr (fun w acc => match pU8 w, acc with
    | some g, some l => some (g :: l)
    | _, _ => none) (some [])

def pBool (s : String) : Option Bool :=
  if s = "1" then some true else if s = "0" then some false else none

def pPrec (s : String) : Option Precision :=
  if s = "m" then some .minute else if s = "s" then some .second else none

def pCmp (s : String) : Option CmpOp :=
  if s = "eq" then some .eq else if s = "lt" then some .lt else if s = "lte" then some .lte
  else if s = "gt" then some .gt else if s = "gte" then some .gte else none

def showStats (l : List (Nat × Nat)) : String :=
  if l.isEmpty then "-" else ",".intercalate (l.map (fun p => s!"{p.1}/{p.2}"))

def showSt (s : St) : String :=
  let ld := match s.leader with | some l => s!"{l}" | none => "none"
  s!"e={s.epoch} r={s.round} ms={s.milli} min={s.minute} eff={s.effStart} act={s.actStart} ld={ld} st={showStats s.stats}"

abbrev DS := Option (Config × St)

def stepLine (d : DS) (line : String) : DS × String :=
  match words line with
  | ["reset", k, mn, mx, tg, t0, e0] =>
    match pU8 k, pU64 mn, pU64 mx, pU64 tg, pI64 t0, pU64 e0 with
    | some k, some mn, some mx, some tg, some t0, some e0 =>
      if k = 0 ∨ k > 3 then (d, "bad-op") else
      let cfg : Config := { minRound := mn, maxRound := mx, target := tg, nVal := k }
      match genesis cfg e0 t0 (some 0) with
      | .ok s => (some (cfg, s), s!"ok {showSt s}")
      | .error e => (none, s!"err {e.name}")
    | _, _, _, _, _, _ => (d, "bad-op")
  | ["next", r, ts, ld, fb, gaps] =>
    match pU64 r, pI64 ts, pU8 ld, pBool fb, pGaps gaps with
    | some r, some ts, some ld, some fb, some gaps =>
      match d with
      | none => (d, "no-state")
      | some (cfg, s) =>
        match nextRound cfg s { round := r, ts := ts, gaps := gaps, leader := ld, fallback := fb } with
        | .ok s' => (some (cfg, s'), s!"ok {showSt s'}")
        | .error e => (d, s!"err {e.name} {showSt s}")
    | _, _, _, _, _ => (d, "bad-op")
  | ["nextnoauth", r, ts] =>
    match pU64 r, pI64 ts with
    | some _, some _ =>
      match d with
      | none => (d, "no-state")
      | some (_, s) => (d, s!"err Unauthorized {showSt s}")
    | _, _ => (d, "bad-op")
  | ["setepoch", e] =>
    match pU64 e with
    | some e =>
      match d with
      | none => (d, "no-state")
      | some (cfg, s) => let s' := { s with epoch := e }; (some (cfg, s'), s!"ok {showSt s'}")
    | none => (d, "bad-op")
  | ["cmp", inst, p, op] =>
    match pI64 inst, pPrec p, pCmp op with
    | some inst, some p, some op =>
      match d with
      | none => (d, "no-state")
      | some (_, s) => (d, showBool (compareCurrentTime s inst p op))
    | _, _, _ => (d, "bad-op")
  | ["get", p] =>
    match pPrec p with
    | some p =>
      match d with
      | none => (d, "no-state")
      | some (_, s) => (d, s!"{getCurrentTime s p}")
    | none => (d, "bad-op")
  | _ => (d, "bad-op")

def main : IO Unit := run stepLine (none : DS)
