import RadixModel.Util.Proto
import RadixModel.Model.Decimal
open Radix Radix.Proto Radix.Dec

/-- strict integer syntax: optional `-`, then one or more ASCII digits -/
def parseInt (s : String) : Option Int :=
  let cs := s.toList
  let (neg, ds) := match cs with
    | '-' :: r => (true, r)
    | r => (false, r)
  if ds.isEmpty || !ds.all (fun c => '0' ≤ c ∧ c ≤ '9') then none
  else
    let n : Nat := ds.foldl (fun acc c => acc * 10 + (c.toNat - '0'.toNat)) 0
    some (if neg then -(n : Int) else (n : Int))

def parseTy (s : String) : Option Ty :=
  if s = "d" then some .dec else if s = "p" then some .pdec else none

/-- `i64`, `u128`, `i256`, … -/
def parseIntTy (s : String) : Option IntTy :=
  match s.toList with
  | 'i' :: r => (String.ofList r).toNat?.bind fun b =>
      if b ∈ [8, 16, 32, 64, 128, 192, 256, 320, 384, 448, 512] then some ⟨true, b⟩ else none
  | 'u' :: r => (String.ofList r).toNat?.bind fun b =>
      if b ∈ [8, 16, 32, 64, 128, 192, 256, 320, 384, 448, 512] then some ⟨false, b⟩ else none
  | _ => none

def parseMode (s : String) : Option Mode :=
  if s = "0" then some .toPositiveInfinity
  else if s = "1" then some .toNegativeInfinity
  else if s = "2" then some .toZero
  else if s = "3" then some .awayFromZero
  else if s = "4" then some .toNearestMidpointTowardZero
  else if s = "5" then some .toNearestMidpointAwayFromZero
  else if s = "6" then some .toNearestMidpointToEven
  else none

def showOpt : Option Int → String
  | some v => s!"some {v}"
  | none => "none"

def showOut : Outcome → String
  | .val v => s!"ok {v}"
  | .none => "none"
  | .overflow => "err Overflow"
  | .invalidDigit => "err InvalidDigit"
  | .panic => "panic"

/-- a value of type `t` given as text -/
def parseVal (t : Ty) (s : String) : Option Int :=
  (parseInt s).bind fun v => if t.InRange v then some v else none

def binop (name : String) : Option Nat :=
  if name = "add" then some 0 else if name = "sub" then some 1
  else if name = "mul" then some 2 else if name = "div" then some 3 else none

def answer (ws : List String) : String :=
  match ws with
  | ["d2p", a] =>
    match parseVal .dec a with
    | some a => showOut (decToPdec a)
    | none => "bad-op"
  | ["p2d", a] =>
    match parseVal .pdec a with
    | some a => showOut (pdecToDec a)
    | none => "bad-op"
  | ["p", "trunc", a, m] =>
    match parseVal .pdec a, parseMode m with
    | some a, some m => showOut (checkedTruncate m a)
    | _, _ => "bad-op"
  | [ty, op, a, b] =>
    match parseTy ty with
    | none => "bad-op"
    | some t =>
      if op = "from" then
        -- `from <intty> <value>`
        match parseIntTy a, parseInt b with
        | some s, some v =>
          if !s.Holds v then "bad-op"
          else if s.bits ≤ 128 then showOut (fromPrim t v)
          else if t = .dec ∧ s.bits = 384 then "bad-op"   -- no TryFrom<I384/U384> for Decimal
          else showOut (tryFromInt t s v)
        | _, _ => "bad-op"
      else if op = "to" then
        -- `to <primty> <decimal>`
        match parseIntTy a, parseVal t b with
        | some s, some x => if s.bits ≤ 128 then showOut (toPrim t s x) else "bad-op"
        | _, _ => "bad-op"
      else
        match binop op, parseVal t a, parseVal t b with
        | some 0, some a, some b => showOpt (checkedAdd t a b)
        | some 1, some a, some b => showOpt (checkedSub t a b)
        | some 2, some a, some b => showOpt (checkedMul t a b)
        | some 3, some a, some b => showOpt (checkedDiv t a b)
        | _, _, _ => "bad-op"
  | [ty, op, a] =>
    match parseTy ty, parseTy ty |>.bind (fun t => parseVal t a) with
    | some t, some a =>
      if op = "neg" then showOpt (checkedNeg t a)
      else if op = "abs" then showOpt (checkedAbs t a)
      else "bad-op"
    | _, _ => "bad-op"
  | [ty, "opint", op, a, ity, v] =>
    match parseTy ty, binop op, parseIntTy ity, parseInt v with
    | some t, some o, some s, some v =>
      match parseVal t a with
      | some a =>
        if !s.Holds v || s.bits < 192 || s.bits = 384 then "bad-op"
        else showOpt (checkedOpInt t o a s v)
      | none => "bad-op"
    | _, _, _, _ => "bad-op"
  | _ => "bad-op"

def stepLine (s : Unit) (line : String) : Unit × String := (s, answer (words line))

def main : IO Unit := run stepLine ()
