/-
C44 — consensus manager clock / round / epoch state machine.

Hand-written executable transcription (core Lean only) of

  radix-engine/src/blueprints/consensus_manager/consensus_manager.rs
      create (state part), start, next_round, check_non_decreasing_and_update_timestamps,
      update_proposal_statistics, milli_to_minute, epoch_minute_to_instant, epoch_milli_to_instant,
      get_current_time_v2, compare_current_time_v2 (the Minute branch is textually identical to v1)
  radix-engine-interface/src/blueprints/consensus_manager/invocations.rs
      EpochChangeCondition::{should_epoch_change, is_actual_duration_close_to_target, is_change_criterion_met}
  radix-common/src/types/consensus.rs      Round::calculate_progress, Epoch::next
  radix-common/src/time/instant.rs         Instant::compare
  radix-common/src/math/decimal.rs         Decimal::{from(u64), checked_sub, checked_div} (as used above)

Numbers: u64 = `Nat` (inputs are range-checked by the driver), i64/i32 = `Int` with explicit range tests
wherever the code tests or may overflow.  Rust signed `/` = `Int.tdiv`.
`epoch_change` (emissions, next validator set) is abstracted: it succeeds and the next active set has
`cfg.nVal` validators (histories without stake / registration transactions).
-/
namespace Radix.Consensus

def i64Min : Int := -9223372036854775808
def i64Max : Int := 9223372036854775807
def i32Min : Int := -2147483648
def i32Max : Int := 2147483647
def u64Max : Nat := 18446744073709551615
/-- bounds of `I192` (Decimal) and `I256` (intermediate of `checked_div`) -/
def i192Bound : Int := 3138550867693340381917894711603833208051177722232017256448
def i256Bound : Int := 57896044618658097711785492504343953926634992332820282019728792003956564819968
def decOne : Int := 1000000000000000000

def inI64 (x : Int) : Bool := decide (i64Min ≤ x ∧ x ≤ i64Max)
def inI32 (x : Int) : Bool := decide (i32Min ≤ x ∧ x ≤ i32Max)
def inI192 (x : Int) : Bool := decide (-i192Bound ≤ x ∧ x < i192Bound)
def inI256 (x : Int) : Bool := decide (-i256Bound ≤ x ∧ x < i256Bound)

/-- `ConsensusManagerConfig.epoch_change_condition` + size of the active validator set -/
structure Config where
  minRound : Nat
  maxRound : Nat
  target : Nat
  nVal : Nat
deriving Repr, DecidableEq

/-- `ConsensusManagerSubstate` (without `started`) + the two proposer timestamp substates
    + `CurrentProposalStatisticSubstate` as (made, missed) pairs -/
structure St where
  epoch : Nat
  round : Nat
  milli : Int
  minute : Int
  effStart : Int
  actStart : Int
  leader : Option Nat
  stats : List (Nat × Nat)
deriving Repr, DecidableEq

inductive Err
  | invalidProposerTimestampUpdate
  | invalidConsensusTime
  | invalidRoundUpdate
  | inconsistentGapRounds
  | invalidValidatorIndex
  | epochMathOverflow
  | panic
deriving Repr, DecidableEq

def Err.name : Err → String
  | .invalidProposerTimestampUpdate => "InvalidProposerTimestampUpdate"
  | .invalidConsensusTime => "InvalidConsensusTime"
  | .invalidRoundUpdate => "InvalidRoundUpdate"
  | .inconsistentGapRounds => "InconsistentGapRounds"
  | .invalidValidatorIndex => "InvalidValidatorIndex"
  | .epochMathOverflow => "EpochMathOverflow"
  | .panic => "Panic"

/-- `milli_to_minute`: `i32::try_from(epoch_milli / MILLIS_IN_MINUTE).ok()` -/
def milliToMinute (ms : Int) : Option Int :=
  let m := Int.tdiv ms 60000
  if inI32 m then some m else none

/-- `epoch_minute_to_instant`: `epoch_minute as i64 * SECONDS_IN_MINUTE` (no overflow for i32) -/
def minuteToInstant (m : Int) : Int := m * 60

/-- `epoch_milli_to_instant`: `epoch_milli / MILLIS_IN_SECOND` -/
def milliToInstant (ms : Int) : Int := Int.tdiv ms 1000

/-- `Round::calculate_progress(from, to)` -/
def calculateProgress (fromR toR : Nat) : Option Nat :=
  let difference : Int := (toR : Int) - (fromR : Int)
  if difference ≤ 0 then none else some difference.toNat

/-- `is_change_criterion_met` -/
def criterionMet (cfg : Config) (duration : Nat) (round : Nat) : Bool :=
  if round ≥ cfg.maxRound then true
  else if round < cfg.minRound then false
  else decide (duration ≥ cfg.target)

/-- `is_actual_duration_close_to_target`; `none` = one of the `.expect("Overflow")` panics.
    Decimal::from(actual) - target, then `checked_div(target)` = `(a * ONE) / b` in I256 truncated,
    then narrowed to I192, then `<= dec!("0.1")`. -/
def closeToTarget (cfg : Config) (actual : Nat) : Option Bool :=
  if ¬ (actual ≥ 1000 ∧ cfg.target ≥ 1000) then some false
  else
    let a : Int := decOne * (actual : Int)
    let t : Int := decOne * (cfg.target : Int)
    if ¬ (inI192 a ∧ inI192 t) then none else
    let d := a - t
    if ¬ inI192 d then none else
    let num := decOne * d
    if ¬ inI256 num then none else
    let q := Int.tdiv num t
    if ¬ inI192 q then none else
    some (decide (q ≤ 100000000000000000))

/-- the `epoch_duration_millis` sanity computation of `should_epoch_change` -/
def epochDuration (effStart cur : Int) : Nat :=
  if cur ≥ 0 ∧ effStart ≥ 0 ∧ cur > effStart then (cur - effStart).toNat else 0

/-- `i64::saturating_add_unsigned` -/
def satAddUnsigned (x : Int) (u : Nat) : Int :=
  let r := x + (u : Int)
  if r > i64Max then i64Max else r

inductive Outcome
  | noChange
  | change (nextEffStart : Int)
deriving Repr, DecidableEq

/-- `should_epoch_change`; `none` = panic inside `is_actual_duration_close_to_target` -/
def shouldEpochChange (cfg : Config) (effStart cur : Int) (round : Nat) : Option Outcome :=
  let dur := epochDuration effStart cur
  if criterionMet cfg dur round then
    match closeToTarget cfg dur with
    | none => none
    | some true => some (.change (satAddUnsigned effStart cfg.target))
    | some false => some (.change cur)
  else some .noChange

/-- `get_mut_proposal_statistic(i)` followed by `missed += 1` / `made += 1`
    (u64 counter overflow after 2^64 rounds is out of scope) -/
def bump : List (Nat × Nat) → Nat → Bool → Option (List (Nat × Nat))
  | [], _, _ => none
  | (ma, mi) :: rest, 0, made => some ((if made then (ma + 1, mi) else (ma, mi + 1)) :: rest)
  | p :: rest, i + 1, made =>
    match bump rest i made with
    | some r => some (p :: r)
    | none => none

/-- the `for gap_round_leader in …` loop -/
def bumpGaps : List (Nat × Nat) → List Nat → Option (List (Nat × Nat))
  | st, [] => some st
  | st, g :: gs =>
    match bump st g false with
    | some st' => bumpGaps st' gs
    | none => none

/-- `update_proposal_statistics` (`progressed ≥ 1` by `calculate_progress`, so
    `len != progressed - 1` is `len + 1 != progressed`) -/
def updateStats (stats : List (Nat × Nat)) (progressed : Nat) (gaps : List Nat) (leader : Nat)
    (fallback : Bool) : Except Err (List (Nat × Nat)) :=
  if gaps.length + 1 ≠ progressed then .error .inconsistentGapRounds
  else match bumpGaps stats gaps with
    | none => .error .invalidValidatorIndex
    | some st =>
      match bump st leader (!fallback) with
      | none => .error .invalidValidatorIndex
      | some st' => .ok st'

/-- `check_non_decreasing_and_update_timestamps`: new (milli, minute) -/
def checkTimestamps (s : St) (ts : Int) : Except Err (Int × Int) :=
  if ts < s.milli then .error .invalidProposerTimestampUpdate
  else
    let milli' := if ts > s.milli then ts else s.milli
    match milliToMinute ts with
    | none => .error .invalidConsensusTime
    | some m =>
      let minute' := if m > s.minute then m else s.minute
      .ok (milli', minute')

/-- `Epoch::next` -/
def epochNext (e : Nat) : Option Nat := if e < u64Max then some (e + 1) else none

structure Op where
  round : Nat
  ts : Int
  gaps : List Nat
  leader : Nat
  fallback : Bool
deriving Repr, DecidableEq

/-- `next_round`.  An error aborts the transaction: the caller keeps the old state (C02). -/
def nextRound (cfg : Config) (s : St) (op : Op) : Except Err St :=
  match checkTimestamps s op.ts with
  | .error e => .error e
  | .ok (milli', minute') =>
    match calculateProgress s.round op.round with
    | none => .error .invalidRoundUpdate
    | some progressed =>
      match updateStats s.stats progressed op.gaps op.leader op.fallback with
      | .error e => .error e
      | .ok stats' =>
        match shouldEpochChange cfg s.effStart op.ts op.round with
        | none => .error .panic
        | some .noChange =>
          .ok { s with milli := milli', minute := minute', round := op.round,
                       leader := some op.leader, stats := stats' }
        | some (.change nextEff) =>
          match epochNext s.epoch with
          | none => .error .epochMathOverflow
          | some e' =>
            .ok { epoch := e', round := 0, milli := milli', minute := minute',
                  effStart := nextEff, actStart := op.ts, leader := some op.leader,
                  stats := List.replicate cfg.nVal (0, 0) }

/-- `create` (state part) followed by `start`: the state the first round change sees. -/
def genesis (cfg : Config) (genesisEpoch : Nat) (initialTime : Int) (initialLeader : Option Nat) :
    Except Err St :=
  match milliToMinute initialTime with
  | none => .error .invalidConsensusTime
  | some m =>
    match epochNext genesisEpoch with
    | none => .error .epochMathOverflow
    | some e =>
      .ok { epoch := e, round := 0, milli := initialTime, minute := m, effStart := initialTime,
            actStart := initialTime, leader := initialLeader,
            stats := List.replicate cfg.nVal (0, 0) }

/-- a history step: failed transactions leave the state unchanged -/
def apply (cfg : Config) (s : St) (op : Op) : St :=
  match nextRound cfg s op with
  | .ok s' => s'
  | .error _ => s

def run (cfg : Config) (s : St) (ops : List Op) : St := ops.foldl (apply cfg) s

/-! ## Clock reads -/

inductive Precision | minute | second
deriving Repr, DecidableEq

inductive CmpOp | eq | lt | lte | gt | gte
deriving Repr, DecidableEq

/-- `Instant::compare` -/
def CmpOp.eval : CmpOp → Int → Int → Bool
  | .eq, a, b => decide (a = b)
  | .lt, a, b => decide (a < b)
  | .lte, a, b => decide (a ≤ b)
  | .gt, a, b => decide (a > b)
  | .gte, a, b => decide (a ≥ b)

/-- `get_current_time_v2` (seconds since unix epoch) -/
def getCurrentTime (s : St) : Precision → Int
  | .minute => minuteToInstant s.minute
  | .second => milliToInstant s.milli

/-- the `other_epoch_minute` computation: `checked_mul(1000).and_then(milli_to_minute).unwrap_or_else(sign)` -/
def otherEpochMinute (instant : Int) : Int :=
  let ms := instant * 1000
  if inI64 ms then
    match milliToMinute ms with
    | some m => m
    | none => if instant < 0 then i32Min else i32Max
  else if instant < 0 then i32Min else i32Max

/-- `compare_current_time_v2` -/
def compareCurrentTime (s : St) (instant : Int) (p : Precision) (op : CmpOp) : Bool :=
  match p with
  | .minute => op.eval (minuteToInstant s.minute) (minuteToInstant (otherEpochMinute instant))
  | .second => op.eval (milliToInstant s.milli) instant

end Radix.Consensus
