/-
C37 — model of `radix-common/src/data/manifest/model/manifest_resource_assertion.rs`
(`ManifestResourceConstraint`, `GeneralResourceConstraint`, `LowerBound`, `UpperBound`,
`AllowedIds`, `ManifestResourceConstraints::validate`).

Transcription notes
* `Decimal` = `Int` attos; `Decimal::MAX = 2^191-1`, `Decimal::MIN = -2^191`. The driver rejects
  (`bad-op`) decimals outside that range, as `I192::from_str` does in the harness.
* `NonFungibleLocalId` = `Nat` (the harness uses integer ids); `IndexSet<_>` = `List Nat` in
  insertion order. The no-duplicates invariant of an `IndexSet` is NOT built into the type: it is
  a hypothesis (`List.Nodup`) of the theorems that need it, and the driver answers `bad-op`
  for a list with duplicates (as does the harness).
* `Decimal::from(usize)` = `n * 10^18`; it cannot overflow for a 64-bit `usize`
  (`2^64 * 10^18 < 2^191`), so there is no error outcome.
* `IndexSet::difference(other).next()` = first element (insertion order) not in `other`;
  `IndexSet::is_subset` = `len ≤ len ∧ all contained` (as indexmap implements it).
* `AllowedIds::allowlist_equivalent_length()` is `usize::MAX` for `Any`; the comparison
  `> required_ids.len()` is therefore `true` for `Any` (a set of `usize::MAX` ids cannot exist).
* `checked_floor` is transcribed from `Decimal::checked_round(0, ToNegativeInfinity)` including
  its `None` outcome (subtraction below `Decimal::MIN`).
-/
namespace Radix.ResConstraint

def ONE : Int := 1000000000000000000
def DMAX : Int := 3138550867693340381917894711603833208051177722232017256447
def DMIN : Int := -3138550867693340381917894711603833208051177722232017256448

inductive LowerBound where
  | nonZero
  | inclusive (d : Int)
  deriving DecidableEq, Repr

inductive UpperBound where
  | inclusive (d : Int)
  | unbounded
  deriving DecidableEq, Repr

inductive AllowedIds where
  | allowlist (l : List Nat)
  | any
  deriving DecidableEq, Repr

structure General where
  required : List Nat
  lower : LowerBound
  upper : UpperBound
  allowed : AllowedIds
  deriving DecidableEq, Repr

inductive Constraint where
  | nonZeroAmount
  | exactAmount (d : Int)
  | atLeastAmount (d : Int)
  | exactNF (ids : List Nat)
  | atLeastNF (ids : List Nat)
  | general (g : General)
  deriving DecidableEq, Repr

/-- `ResourceConstraintError` -/
inductive Err where
  | nfConstraintForFungible
  | expectedNonZero
  | expectedExact (expected actual : Int)
  | expectedAtLeast (expected actual : Int)
  | expectedAtMost (expected actual : Int)
  | missing (id : Nat)
  | notAllowed (id : Nat)
  deriving DecidableEq, Repr

/-- `Decimal::from(n : usize)` -/
def fromLen (n : Nat) : Int := (n : Int) * ONE

/-- `Decimal::checked_floor` = `checked_round(0, ToNegativeInfinity)`; `none` = overflow. -/
def checkedFloor (d : Int) : Option Int :=
  let r := Int.tmod d ONE
  if r = 0 then some d
  else
    let pr := if r < 0 then ONE + r else r
    let v := d - pr
    if v < DMIN then none else some v

/-- `!amount.is_negative() && amount.checked_floor() == Some(*amount)` -/
def nonNegInteger (d : Int) : Bool :=
  !(decide (d < 0)) && (checkedFloor d == some d)

/-- first element of `a` (insertion order) that is not in `b` -/
def firstNotIn (a b : List Nat) : Option Nat := a.find? (fun x => !b.contains x)

/-- `IndexSet::is_subset` -/
def isSubset (a b : List Nat) : Bool := decide (a.length ≤ b.length) && a.all (fun x => b.contains x)

namespace LowerBound

def equiv : LowerBound → Int
  | .inclusive d => d
  | .nonZero => 1

def validateAmount : LowerBound → Int → Except Err Unit
  | .nonZero, a => if a = 0 then .error .expectedNonZero else .ok ()
  | .inclusive d, a => if a < d then .error (.expectedAtLeast d a) else .ok ()

def validFungible : LowerBound → Bool
  | .nonZero => true
  | .inclusive d => !(decide (d < 0))

def validNonFungible : LowerBound → Bool
  | .nonZero => true
  | .inclusive d => nonNegInteger d

end LowerBound

namespace UpperBound

def equiv : UpperBound → Int
  | .inclusive d => d
  | .unbounded => DMAX

def validateAmount : UpperBound → Int → Except Err Unit
  | .inclusive d, a => if a > d then .error (.expectedAtMost d a) else .ok ()
  | .unbounded, _ => .ok ()

def validFungible : UpperBound → Bool
  | .inclusive d => !(decide (d < 0))
  | .unbounded => true

def validNonFungible : UpperBound → Bool
  | .inclusive d => nonNegInteger d
  | .unbounded => true

end UpperBound

namespace AllowedIds

def validateIds : AllowedIds → List Nat → Except Err Unit
  | .allowlist allowed, ids =>
    match firstNotIn ids allowed with
    | some id => .error (.notAllowed id)
    | none => .ok ()
  | .any, _ => .ok ()

def validFungible : AllowedIds → Bool
  | .allowlist l => l.isEmpty
  | .any => true

end AllowedIds

namespace General

/-- `is_valid_independent_of_resource_type` -/
def validIndependent (g : General) : Bool :=
  if g.lower.equiv > g.upper.equiv then false
  else if fromLen g.required.length > g.upper.equiv then false
  else match g.allowed with
    | .allowlist l =>
      if g.lower.equiv > fromLen l.length then false
      else if !(isSubset g.required l) then false
      else true
    | .any => true

def validFungible (g : General) : Bool :=
  g.required.isEmpty && g.lower.validFungible && g.upper.validFungible
    && g.allowed.validFungible && g.validIndependent

def validNonFungible (g : General) : Bool :=
  g.lower.validNonFungible && g.upper.validNonFungible && g.validIndependent

def validateAmount (g : General) (a : Int) : Except Err Unit :=
  match g.lower.validateAmount a with
  | .error e => .error e
  | .ok () => g.upper.validateAmount a

def validateFungible (g : General) (a : Int) : Except Err Unit := g.validateAmount a

def validateNonFungibleIds (g : General) (ids : List Nat) : Except Err Unit :=
  match g.validateAmount (fromLen ids.length) with
  | .error e => .error e
  | .ok () =>
    match firstNotIn g.required ids with
    | some id => .error (.missing id)
    | none => g.allowed.validateIds ids

/-- `GeneralResourceConstraint::normalize` (`&mut self` → returns the new value). -/
def normalize (g : General) : General :=
  let reqLen := fromLen g.required.length
  let lower := if g.lower.equiv < reqLen then LowerBound.inclusive reqLen else g.lower
  let upper := match g.allowed with
    | .allowlist l =>
      if fromLen l.length < g.upper.equiv then UpperBound.inclusive (fromLen l.length) else g.upper
    | .any => g.upper
  let g1 : General := { required := g.required, lower := lower, upper := upper, allowed := g.allowed }
  let longer : Bool := match g.allowed with
    | .allowlist l => decide (l.length > g.required.length)
    | .any => true
  if longer then
    if reqLen = upper.equiv then
      { g1 with allowed := .allowlist g.required }
    else match g.allowed with
      | .allowlist l =>
        if fromLen l.length = lower.equiv then { g1 with required := l } else g1
      | .any => g1
  else g1

end General

namespace Constraint

def validFungible : Constraint → Bool
  | .nonZeroAmount => true
  | .exactAmount d => !(decide (d < 0))
  | .atLeastAmount d => !(decide (d < 0))
  | .exactNF _ => false
  | .atLeastNF _ => false
  | .general g => g.validFungible

def validNonFungible : Constraint → Bool
  | .nonZeroAmount => true
  | .exactAmount d => nonNegInteger d
  | .atLeastAmount d => nonNegInteger d
  | .exactNF _ => true
  | .atLeastNF _ => true
  | .general g => g.validNonFungible

/-- `is_valid_for(resource_address)`; the only thing read from the address is `is_fungible()`. -/
def validFor (c : Constraint) (fungible : Bool) : Bool :=
  if fungible then c.validFungible else c.validNonFungible

def validateFungible : Constraint → Int → Except Err Unit
  | .nonZeroAmount, a => if a = 0 then .error .expectedNonZero else .ok ()
  | .exactAmount e, a => if a ≠ e then .error (.expectedExact e a) else .ok ()
  | .atLeastAmount e, a => if a < e then .error (.expectedAtLeast e a) else .ok ()
  | .exactNF _, _ => .error .nfConstraintForFungible
  | .atLeastNF _, _ => .error .nfConstraintForFungible
  | .general g, a => g.validateFungible a

def validateNonFungible : Constraint → List Nat → Except Err Unit
  | .nonZeroAmount, ids => if ids.isEmpty then .error .expectedNonZero else .ok ()
  | .exactAmount e, ids =>
    if fromLen ids.length ≠ e then .error (.expectedExact e (fromLen ids.length)) else .ok ()
  | .atLeastAmount e, ids =>
    if fromLen ids.length < e then .error (.expectedAtLeast e (fromLen ids.length)) else .ok ()
  | .exactNF exp, ids =>
    match firstNotIn exp ids with
    | some id => .error (.missing id)
    | none =>
      match firstNotIn ids exp with
      | some id => .error (.notAllowed id)
      | none => .ok ()
  | .atLeastNF exp, ids =>
    match firstNotIn exp ids with
    | some id => .error (.missing id)
    | none => .ok ()
  | .general g, ids => g.validateNonFungibleIds ids

end Constraint

/-! ### `ManifestResourceConstraints::validate` over `AggregateResourceBalances`

A resource address is `(fungible?, n)`. `specified` is the `IndexMap` of constraints in insertion
order (keys distinct: `with_unchecked` panics on a repeated key). Balances are the two
`IndexMap`s of `AggregateResourceBalances` in insertion order (keys distinct). -/

abbrev Addr := Bool × Nat

inductive SetErr where
  | unexpectedNonZeroBalance (a : Addr)
  | constraintFailed (a : Addr) (e : Err)
  deriving DecidableEq, Repr

def lookup {β : Type} (m : List (Addr × β)) (a : Addr) : Option β :=
  (m.find? (fun kv => kv.1 == a)).map (·.2)

def hasKey {β : Type} (m : List (Addr × β)) (a : Addr) : Bool := m.any (fun kv => kv.1 == a)

/-- `AggregateResourceBalances::add_fungible` for a resource not yet present (the protocol only
sends distinct addresses): entries are only created for positive amounts. -/
def addFungible (m : List (Addr × Int)) (a : Addr) (d : Int) : List (Addr × Int) :=
  if d > 0 then m ++ [(a, d)] else m

/-- `AggregateResourceBalances::add_non_fungible` for a resource not yet present. -/
def addNonFungible (m : List (Addr × List Nat)) (a : Addr) (ids : List Nat) : List (Addr × List Nat) :=
  if !ids.isEmpty then m ++ [(a, ids)] else m

def validateEach (fung : List (Addr × Int)) (nf : List (Addr × List Nat)) :
    List (Addr × Constraint) → Except SetErr Unit
  | [] => .ok ()
  | (a, c) :: rest =>
    let r : Except Err Unit :=
      if a.1 then c.validateFungible ((lookup fung a).getD 0)   -- `unwrap_or(&zero_balance)`
      else c.validateNonFungible ((lookup nf a).getD [])        -- `unwrap_or(&empty_ids)`
    match r with
    | .error e => .error (.constraintFailed a e)
    | .ok () => validateEach fung nf rest

/-- `ManifestResourceConstraints::validate(balances, prevent_unspecified_resource_balances)` -/
def validateSet (spec : List (Addr × Constraint)) (fung : List (Addr × Int))
    (nf : List (Addr × List Nat)) (preventUnspecified : Bool) : Except SetErr Unit :=
  let pre : Option Addr :=
    if preventUnspecified then
      match fung.find? (fun kv => !(hasKey spec kv.1) && decide (kv.2 > 0)) with
      | some kv => some kv.1
      | none =>
        match nf.find? (fun kv => !(hasKey spec kv.1) && !kv.2.isEmpty) with
        | some kv => some kv.1
        | none => none
    else none
  match pre with
  | some a => .error (.unexpectedNonZeroBalance a)
  | none => validateEach fung nf spec

end Radix.ResConstraint
