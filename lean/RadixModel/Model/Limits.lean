/-
C49 — model of the transaction limits enforcement:
  * `radix-engine/src/system/system_modules/limits/module.rs` (`LimitsModule`:
    `from_params`, `process_substate_key`, `process_substate_value`, `process_io_access`,
    `before_invoke`),
  * the log / event / panic-message checks of `SystemModuleMixer`
    (`module_mixer.rs`: `add_log`, `assert_can_add_event`, `add_event_unchecked`,
    `checked_add_event`, `set_panic_message`).

Transcription notes
* `usize` is 64 bit.  `+=` / `-=` on the two byte counters are *unchecked* in the source; with
  overflow checks (the harness build) they panic, without them they wrap.  The model makes both
  explicit outcomes `panic` (the state returned is the partially updated one, exactly as the four
  statements of the real code leave it) — property theorem `totals_are_sums` shows that a
  well-formed IOAccess stream never reaches them.
* The counters are updated *before* the limit comparison, and stay updated when the comparison
  fails (the real method returns `Err` after the mutation).
* Core Lean only (the driver links this file).
-/
namespace Radix.Limits

def USIZE : Nat := 2 ^ 64

/-- `LimitParameters` (radix-engine/src/transaction/transaction_executor.rs), field order of the struct. -/
structure Params where
  maxCallDepth : Nat
  maxHeapSubstateTotalBytes : Nat
  maxTrackSubstateTotalBytes : Nat
  maxSubstateKeySize : Nat
  maxSubstateValueSize : Nat
  maxInvokeInputSize : Nat
  maxEventSize : Nat
  maxLogSize : Nat
  maxPanicMessageSize : Nat
  maxNumberOfLogs : Nat
  maxNumberOfEvents : Nat
  deriving DecidableEq, Repr

/-- `TransactionLimitsConfig`, field order of the struct. -/
structure Config where
  maxCallDepth : Nat
  maxHeap : Nat
  maxTrack : Nat
  maxKey : Nat
  maxValue : Nat
  maxInvoke : Nat
  maxEvent : Nat
  maxLog : Nat
  maxPanic : Nat
  maxLogs : Nat
  maxEvents : Nat
  deriving DecidableEq, Repr

/-- `LimitsModule::from_params` -/
def fromParams (p : Params) : Config :=
  { maxCallDepth := p.maxCallDepth
    maxHeap := p.maxHeapSubstateTotalBytes
    maxTrack := p.maxTrackSubstateTotalBytes
    maxKey := p.maxSubstateKeySize
    maxValue := p.maxSubstateValueSize
    maxInvoke := p.maxInvokeInputSize
    maxLogs := p.maxNumberOfLogs
    maxEvents := p.maxNumberOfEvents
    maxEvent := p.maxEventSize
    maxLog := p.maxLogSize
    maxPanic := p.maxPanicMessageSize }

/-- `TransactionLimitsError` (payloads as in the source). -/
inductive Err where
  | keySize (n : Nat)
  | valueSize (n : Nat)
  | invokeSize (n : Nat)
  | callDepth
  | track (actual max : Nat)
  | heap (actual max : Nat)
  | logSize (actual max : Nat)
  | eventSize (actual max : Nat)
  | panicSize (actual max : Nat)
  | tooManyLogs
  | tooManyEvents
  deriving DecidableEq, Repr

/-- `SubstateKey`, abstracted to what the limits module reads: the byte length of the map key. -/
inductive SKey where
  | map (len : Nat)
  | sorted (len : Nat)
  | field
  deriving DecidableEq, Repr

/-- the `len` computed by `process_substate_key` -/
def SKey.limLen : SKey → Nat
  | .map n => n
  | .sorted n => n + 2
  | .field => 1

/-- `CanonicalSubstateKey::len` : node id (30) + partition (1) + key -/
def SKey.canonLen (k : SKey) : Nat := 30 + 1 + (match k with | .field => 1 | .map n => n | .sorted n => 2 + n)

/-- `process_substate_key` -/
def processSubstateKey (c : Config) (k : SKey) : Except Err Unit :=
  if k.limLen > c.maxKey then .error (.keySize k.limLen) else .ok ()

/-- `process_substate_value` (argument: `value.len()`) -/
def processSubstateValue (c : Config) (len : Nat) : Except Err Unit :=
  if len > c.maxValue then .error (.valueSize len) else .ok ()

/-- `before_invoke` (arguments: `current_stack_depth_uncosted()`, `invocation.len()`) -/
def beforeInvoke (c : Config) (depth inputSize : Nat) : Except Err Unit :=
  if depth = c.maxCallDepth then .error .callDepth
  else if inputSize > c.maxInvoke then .error (.invokeSize inputSize)
  else .ok ()

/-- the two private counters of `LimitsModule` -/
structure Counters where
  heap : Nat
  track : Nat
  deriving DecidableEq, Repr

def Counters.zero : Counters := ⟨0, 0⟩

/-- `IOAccess`, abstracted: canonical key length and the two optional sizes. -/
inductive IOAccess where
  | readFromDb
  | readFromDbNotFound
  | heapUpdated (klen : Nat) (old new : Option Nat)
  | trackUpdated (klen : Nat) (old new : Option Nat)
  deriving DecidableEq, Repr

/-- `x += d` on `usize`; `none` = overflow. -/
def uadd (x d : Nat) : Option Nat := if x + d < USIZE then some (x + d) else none
/-- `x -= d` on `usize`; `none` = underflow. -/
def usub (x d : Nat) : Option Nat := if d ≤ x then some (x - d) else none

/-- The four counter statements of one `…SubstateUpdated` arm.
Returns the last value the counter held and whether all four statements completed. -/
def bump (x klen : Nat) (old new : Option Nat) : Nat × Bool :=
  -- if old_size.is_none() { x += klen }
  match (if old.isNone then uadd x klen else some x) with
  | none => (x, false)
  | some x1 =>
  -- if new_size.is_none() { x -= klen }
  match (if new.isNone then usub x1 klen else some x1) with
  | none => (x1, false)
  | some x2 =>
  -- x += new_size.unwrap_or_default()
  match uadd x2 (new.getD 0) with
  | none => (x2, false)
  | some x3 =>
  -- x -= old_size.unwrap_or_default()
  match usub x3 (old.getD 0) with
  | none => (x3, false)
  | some x4 => (x4, true)

inductive IOResult where
  | ok
  | err (e : Err)
  | panic
  deriving DecidableEq, Repr

/-- the two comparisons at the end of `process_io_access` (heap first) -/
def checkTotals (c : Config) (s : Counters) : IOResult :=
  if s.heap > c.maxHeap then .err (.heap s.heap c.maxHeap)
  else if s.track > c.maxTrack then .err (.track s.track c.maxTrack)
  else .ok

/-- `process_io_access` -/
def processIO (c : Config) (s : Counters) : IOAccess → Counters × IOResult
  | .readFromDb => (s, checkTotals c s)
  | .readFromDbNotFound => (s, checkTotals c s)
  | .heapUpdated klen old new =>
    match bump s.heap klen old new with
    | (h, false) => ({ s with heap := h }, .panic)
    | (h, true) => let s' := { s with heap := h }; (s', checkTotals c s')
  | .trackUpdated klen old new =>
    match bump s.track klen old new with
    | (t, false) => ({ s with track := t }, .panic)
    | (t, true) => let s' := { s with track := t }; (s', checkTotals c s')

/-! ### log / event / panic-message checks of `SystemModuleMixer` -/

structure Runtime where
  /-- `EnabledModules::LIMITS` -/
  limitsOn : Bool
  /-- `EnabledModules::TRANSACTION_RUNTIME` -/
  runtimeOn : Bool
  logs : Nat
  events : Nat
  deriving DecidableEq, Repr

/-- `SystemModuleMixer::add_log` (argument: `message.len()`) -/
def addLog (c : Config) (r : Runtime) (len : Nat) : Runtime × Except Err Unit :=
  if r.limitsOn ∧ r.logs ≥ c.maxLogs then (r, .error .tooManyLogs)
  else if r.limitsOn ∧ len > c.maxLog then (r, .error (.logSize len c.maxLog))
  else (if r.runtimeOn then { r with logs := r.logs + 1 } else r, .ok ())

/-- `SystemModuleMixer::checked_add_event` = `assert_can_add_event` ; `add_event_unchecked`
(argument: `event.payload.len()`) -/
def addEvent (c : Config) (r : Runtime) (len : Nat) : Runtime × Except Err Unit :=
  if r.limitsOn ∧ r.events ≥ c.maxEvents then (r, .error .tooManyEvents)
  else if r.limitsOn ∧ len > c.maxEvent then (r, .error (.eventSize len c.maxEvent))
  else (if r.runtimeOn then { r with events := r.events + 1 } else r, .ok ())

/-- `SystemModuleMixer::set_panic_message` (argument: `message.len()`) -/
def setPanicMessage (c : Config) (r : Runtime) (len : Nat) : Except Err Unit :=
  if r.limitsOn ∧ len > c.maxPanic then .error (.panicSize len c.maxPanic) else .ok ()

/-! ### call depth as a state machine (kernel: depth +1 on a successful invoke, −1 on return) -/

inductive CallOp where
  | invoke (inputSize : Nat)
  | ret
  deriving DecidableEq, Repr

/-- one kernel call-stack step guarded by `before_invoke`; a failing invoke leaves the depth
unchanged (the transaction fails), `ret` at depth 0 is ignored. -/
def callStep (c : Config) (d : Nat) : CallOp → Nat
  | .invoke sz => match beforeInvoke c d sz with
    | .ok _ => d + 1
    | .error _ => d
  | .ret => d - 1

def callRun (c : Config) (ops : List CallOp) : Nat := ops.foldl (callStep c) 0

/-! ### whole-stream semantics used by the property theorems -/

/-- run a stream of IO accesses; `none` as soon as a counter statement panics. Limit errors do not
stop the run (the counters keep their meaning). -/
def runIO (c : Config) : Counters → List IOAccess → Option Counters
  | s, [] => some s
  | s, io :: rest =>
    match processIO c s io with
    | (_, .panic) => none
    | (s', _) => runIO c s' rest

end Radix.Limits
