/-
C51 — executable model of the lockable cells of the system layer
(radix-engine/src/system/system.rs + system_substates.rs):

  * a cell is a `FieldSubstate { payload, lock_status }` or a `KeyValueEntrySubstate { value, lock_status }`
  * `actor_open_field` / `actor_open_key_value_entry` / `key_value_store_open_entry`  (`Step.open`):
      kernel lock (reader/writer exclusion, C13), then — only when opened MUTABLE — the lock-status
      check: `FieldLocked` / `KeyValueEntryLocked`
  * `field_read`, `field_write` (writes `new_unlocked_field`), `field_lock`, `field_close`
  * `key_value_entry_get`, `key_value_entry_set` (writes `unlocked_entry`), `key_value_entry_remove`
    (keeps the lock status), `key_value_entry_lock`, `key_value_entry_close`
    with the handle-kind guards of each (`NotAFieldHandle`, `NotAFieldWriteHandle`,
    `NotAKeyValueEntryHandle`, `NotAKeyValueEntryWriteHandle`)
  * the native object-module exports (metadata set/lock/remove, component royalty set/lock/claim,
    role-assignment set_owner/lock_owner/set) are *scripts* over these calls; the scripts are not written
    here: they are regenerated from the package sources into `Generated/C51.lean` and interpreted by
    `scriptOf`.

A transaction is a list of steps run in one call frame; a failing step aborts the transaction and the
state is rolled back (C02); handles still open at the end are closed with the frame.

Core Lean only (no Mathlib): this file is linked into the driver executable.
-/
namespace Radix.LockCells

structure Cell where
  value : Option Nat
  locked : Bool
deriving DecidableEq, Repr

inductive Addr
  | field (i : Nat)     -- field of the main object
  | kv (k : Nat)        -- entry of the main object's key-value collection
  | md (k : Nat)        -- metadata entry
  | roy (m : Nat)       -- component royalty configuration entry
  | owner               -- owner role field of the role-assignment module
  | role (k : Nat)      -- role entry of the role-assignment module
  | acc                 -- royalty accumulator field (created immutable)
deriving DecidableEq, Repr

def Addr.isField : Addr → Bool
  | .field _ => true
  | .owner => true
  | .acc => true
  | _ => false

inductive Err
  | fieldLocked | entryLocked | substateLocked | noHandle
  | notAFieldHandle | notAFieldWriteHandle | notAKvHandle | notAKvWriteHandle
  | unauthorized | unknownCall
deriving DecidableEq, Repr

structure Handle where
  addr : Addr
  writable : Bool
  isOpen : Bool
deriving DecidableEq, Repr

structure St where
  cells : Addr → Cell
  /-- handle `k` = the k-th substate opened by the running call frame -/
  handles : List Handle

inductive Step
  | openC (a : Addr) (mutable : Bool)
  | fieldRead (h : Nat)
  | fieldWrite (h : Nat) (v : Nat)
  | fieldLock (h : Nat)
  | fieldClose (h : Nat)
  | kvGet (h : Nat)
  | kvSet (h : Nat) (v : Nat)
  | kvRemove (h : Nat)
  | kvLock (h : Nat)
  | kvClose (h : Nat)
deriving DecidableEq, Repr

def setCell (c : Addr → Cell) (a : Addr) (x : Cell) : Addr → Cell :=
  fun b => if b = a then x else c b

/-- kernel substate lock (C13): a writer excludes everybody, readers exclude writers -/
def conflicts (hs : List Handle) (a : Addr) (mutable : Bool) : Bool :=
  hs.any (fun h => h.isOpen && decide (h.addr = a) && (mutable || h.writable))

def getHandle (s : St) (h : Nat) : Except Err Handle :=
  match s.handles[h]? with
  | none => .error .noHandle
  | some hd => if hd.isOpen then .ok hd else .error .noHandle

def closeHandle (hs : List Handle) (h : Nat) : List Handle :=
  match hs[h]? with
  | none => hs
  | some hd => hs.set h { hd with isOpen := false }

/-- One system-API call.  The second component is the value read (for `field_read` / `kv_get` / `kv_remove`). -/
def stepApi (s : St) : Step → Except Err (St × Option (Option Nat))
  | .openC a m =>
    if conflicts s.handles a m then .error .substateLocked
    else if m && (s.cells a).locked then .error (if a.isField then .fieldLocked else .entryLocked)
    else .ok ({ s with handles := s.handles ++ [⟨a, m, true⟩] }, none)
  | .fieldRead h =>
    match getHandle s h with
    | .error e => .error e
    | .ok hd => if hd.addr.isField then .ok (s, some (s.cells hd.addr).value) else .error .notAFieldHandle
  | .fieldWrite h v =>
    match getHandle s h with
    | .error e => .error e
    | .ok hd =>
      if hd.addr.isField && hd.writable then
        -- `FieldSubstate::new_unlocked_field(value)`
        .ok ({ s with cells := setCell s.cells hd.addr ⟨some v, false⟩ }, none)
      else .error .notAFieldWriteHandle
  | .fieldLock h =>
    match getHandle s h with
    | .error e => .error e
    | .ok hd =>
      if hd.addr.isField && hd.writable then
        .ok ({ s with cells := setCell s.cells hd.addr ⟨(s.cells hd.addr).value, true⟩ }, none)
      else .error .notAFieldWriteHandle
  | .fieldClose h =>
    match getHandle s h with
    | .error e => .error e
    | .ok hd =>
      if hd.addr.isField then .ok ({ s with handles := closeHandle s.handles h }, none) else .error .notAFieldHandle
  | .kvGet h =>
    match getHandle s h with
    | .error e => .error e
    | .ok hd => if !hd.addr.isField then .ok (s, some (s.cells hd.addr).value) else .error .notAKvHandle
  | .kvSet h v =>
    match getHandle s h with
    | .error e => .error e
    | .ok hd =>
      if !hd.addr.isField && hd.writable then
        -- `KeyValueEntrySubstate::unlocked_entry(value)`
        .ok ({ s with cells := setCell s.cells hd.addr ⟨some v, false⟩ }, none)
      else .error .notAKvWriteHandle
  | .kvRemove h =>
    match getHandle s h with
    | .error e => .error e
    | .ok hd =>
      if !hd.addr.isField && hd.writable then
        -- `kv_entry.remove()` takes the value and keeps the lock status
        .ok ({ s with cells := setCell s.cells hd.addr ⟨none, (s.cells hd.addr).locked⟩ }, some (s.cells hd.addr).value)
      else .error .notAKvWriteHandle
  | .kvLock h =>
    match getHandle s h with
    | .error e => .error e
    | .ok hd =>
      if !hd.addr.isField && hd.writable then
        .ok ({ s with cells := setCell s.cells hd.addr ⟨(s.cells hd.addr).value, true⟩ }, none)
      else .error .notAKvWriteHandle
  | .kvClose h =>
    match getHandle s h with
    | .error e => .error e
    | .ok hd =>
      if !hd.addr.isField then .ok ({ s with handles := closeHandle s.handles h }, none) else .error .notAKvHandle

def runSteps : St → List Step → Except Err St
  | s, [] => .ok s
  | s, st :: rest =>
    match stepApi s st with
    | .error e => .error e
    | .ok (s', _) => runSteps s' rest

/-- One transaction = one call frame: all steps or nothing; no handle survives the frame. -/
def tx (s : St) (steps : List Step) : St × Option Err :=
  match runSteps { s with handles := [] } steps with
  | .ok s' => ({ cells := s'.cells, handles := [] }, none)
  | .error e => ({ s with handles := [] }, some e)

def runTxs : St → List (List Step) → St
  | s, [] => s
  | s, t :: rest => runTxs (tx s t).1 rest

/-! ### native module exports as scripts over the API (table regenerated from the sources)

API call codes (index in the harness' `API` name list):
 0 actor_open_field:MUTABLE      1 actor_open_field:read_only
 2 actor_open_key_value_entry:MUTABLE   3 actor_open_key_value_entry:read_only
 4 field_read   5 field_write   6 field_lock   7 field_close
 8 key_value_entry_get   9 key_value_entry_set   10 key_value_entry_remove   11 key_value_entry_lock
 12 key_value_entry_close   13 actor_remove_key_value_entry (= open MUTABLE; remove; close)
 14 key_value_store_open_entry:MUTABLE  15 key_value_store_open_entry:read_only  16 key_value_store_remove_entry
 50.. calls that touch no existing lockable cell (events, node ids, object creation, invocations, costing …)
 999  a call the translator does not know
-/

/-- Translate one API call of a native export into steps on handle 0 of the frame.
    `v` = the value written by a write call. `none` = unknown call. -/
def callSteps (a : Addr) (v : Nat) (code : Nat) : Option (List Step) :=
  match code with
  | 0 => some [.openC a true]
  | 1 => some [.openC a false]
  | 2 => some [.openC a true]
  | 3 => some [.openC a false]
  | 4 => some [.fieldRead 0]
  | 5 => some [.fieldWrite 0 v]
  | 6 => some [.fieldLock 0]
  | 7 => some [.fieldClose 0]
  | 8 => some [.kvGet 0]
  | 9 => some [.kvSet 0 v]
  | 10 => some [.kvRemove 0]
  | 11 => some [.kvLock 0]
  | 12 => some [.kvClose 0]
  | 13 => some [.openC a true, .kvRemove 0, .kvClose 0]
  | 14 => some [.openC a true]
  | 15 => some [.openC a false]
  | 16 => some [.openC a true, .kvRemove 0, .kvClose 0]
  | n => if 50 ≤ n ∧ n < 999 then some [] else none

def scriptOf (a : Addr) (v : Nat) : List Nat → Option (List Step)
  | [] => some []
  | c :: rest =>
    match callSteps a v c, scriptOf a v rest with
    | some x, some y => some (x ++ y)
    | _, _ => none

def lookupRow (tbl : List (Nat × List Nat)) (exportCode : Nat) : Option (List Nat) :=
  match tbl with
  | [] => none
  | (e, calls) :: rest => if e = exportCode then some calls else lookupRow rest exportCode

/-- A native export call as a transaction: export code, target cell, written value. -/
def nativeTx (tbl : List (Nat × List Nat)) (s : St) (exportCode : Nat) (a : Addr) (v : Nat) : St × Option Err :=
  match lookupRow tbl exportCode with
  | none => ({ s with handles := [] }, some .unknownCall)
  | some calls =>
    match scriptOf a v calls with
    | none => ({ s with handles := [] }, some .unknownCall)
    | some steps => tx s steps

/-! ### owner role entry and the auth decision used by the driver -/

/-- owner role payload code: `rule * 2 + (1 if updater = Owner else 0)`; rules: 0 AllowAll, 1 DenyAll, 2 require(badge) -/
def ownerRule (v : Nat) : Nat := v / 2
def ownerUpdatable (v : Nat) : Bool := v % 2 = 1

def ruleSat (rule : Nat) (badge : Bool) : Bool :=
  if rule = 0 then true else if rule = 1 then false else badge

end Radix.LockCells
