/-
C47 — model of the guest-memory access functions of `radix-engine/src/vm/wasm/wasmi.rs`
(`read_memory`, `write_memory`, `read_slice`, `consume_buffer`) and of `Slice`
(`radix-engine-interface/src/types/wasm.rs`).

Transcription notes
* Guest linear memory is a `List UInt8`; its length is `memory.data(..).len()`.
* `ptr: u32`, `len: u32` are converted with `as usize` (64 bit): `Nat` values `< 2^32`.
  `ptr + len` is a `usize` addition — with overflow checks on it panics above `usize::MAX`; that
  outcome is explicit (`Err.panic`) and proved unreachable for `u32` arguments.
* `data[ptr..ptr + len]` (slice indexing) panics when out of range: explicit `Err.panic` branch,
  proved unreachable after the bounds test.
* `Memory::write(ctx, offset, data)` of wasmi fails when `offset + data.len()` exceeds the memory
  size; the code maps that to `MemoryAccessError` — explicit branch, proved unreachable after the
  bounds test. wasmi itself (that `Memory::write` writes exactly `data` at `offset` and nothing
  else) is trusted and exercised by the correspondence.
* Every host function that takes buffers calls `read_memory` once per (ptr, len) pair, in argument
  order, propagating the first error with `?` before the runtime is called (`hostRead`).
-/
namespace Radix.WasmMem

def USIZE_MAX : Nat := 18446744073709551615
def U32_MAX : Nat := 4294967295

inductive Err where
  | memoryAccess        -- `WasmRuntimeError::MemoryAccessError`
  | bufferNotFound      -- error of `runtime.buffer_consume`, passed through unchanged
  | panic
  deriving DecidableEq, Repr

abbrev Mem := List UInt8

/-- `read_memory(store, memory, ptr, len)` -/
def readMemory (mem : Mem) (ptr len : Nat) : Except Err (List UInt8) :=
  if ptr > mem.length then .error .memoryAccess
  else if ptr + len > USIZE_MAX then .error .panic           -- `ptr + len` overflows `usize`
  else if ptr + len > mem.length then .error .memoryAccess
  else
    -- `data[ptr..ptr + len].to_vec()`
    if ptr ≤ ptr + len ∧ ptr + len ≤ mem.length then .ok ((mem.drop ptr).take len)
    else .error .panic

/-- wasmi `Memory::write(offset, data)`: `none` = out of bounds error -/
def wasmiWrite (mem : Mem) (offset : Nat) (data : List UInt8) : Option Mem :=
  if offset + data.length ≤ mem.length then
    some (mem.take offset ++ data ++ mem.drop (offset + data.length))
  else none

/-- `write_memory(store, memory, ptr, data)` -/
def writeMemory (mem : Mem) (ptr : Nat) (data : List UInt8) : Except Err Mem :=
  if ptr > mem.length then .error .memoryAccess
  else if ptr + data.length > USIZE_MAX then .error .panic
  else if ptr + data.length > mem.length then .error .memoryAccess
  else match wasmiWrite mem ptr data with
    | some m => .ok m
    | none => .error .memoryAccess

/-! ### `Slice` -/

/-- `Slice::new(ptr, len)` : `(ptr as u64) << 32 | (len as u64)` -/
def sliceNew (ptr len : Nat) : Nat := (ptr <<< 32 ||| len) % 2 ^ 64
/-- `Slice::ptr` : `(self.0 >> 32) as u32` -/
def slicePtr (s : Nat) : Nat := (s >>> 32) % 2 ^ 32
/-- `Slice::len` : `(self.0 & 0xffffffff) as u32` -/
def sliceLen (s : Nat) : Nat := (s &&& 0xffffffff) % 2 ^ 32
/-- `Slice::transmute_i64(n)` : `n as u64` -/
def sliceOfI64 (n : Int) : Nat := (n % 2 ^ 64).toNat
/-- `Slice::as_i64` : `self.0 as i64` -/
def sliceAsI64 (s : Nat) : Int := if s < 2 ^ 63 then (s : Int) else (s : Int) - 2 ^ 64

/-- `read_slice(store, memory, v)` -/
def readSlice (mem : Mem) (v : Nat) : Except Err (List UInt8) :=
  readMemory mem (slicePtr v) (sliceLen v)

/-- `consume_buffer(caller, buffer_id, destination_ptr)`; `buf` is the result of
`runtime.buffer_consume(buffer_id)` (`none` = the runtime's error). -/
def consumeBuffer (mem : Mem) (buf : Option (List UInt8)) (dest : Nat) : Except Err Mem :=
  match buf with
  | some slice => writeMemory mem dest slice
  | none => .error .bufferNotFound

/-- A host function reading several buffers: `read_memory(..)?` per pair, in order. -/
def hostRead (mem : Mem) : List (Nat × Nat) → Except Err (List (List UInt8))
  | [] => .ok []
  | (p, l) :: rest =>
    match readMemory mem p l with
    | .error e => .error e
    | .ok v =>
      match hostRead mem rest with
      | .error e => .error e
      | .ok vs => .ok (v :: vs)

/-- `memory.grow n` of a memory declared with maximum `maxPages` (WebAssembly semantics, trusted):
new pages are zero; growing beyond the maximum leaves the memory unchanged. -/
def grow (mem : Mem) (pageSize maxPages n : Nat) : Mem :=
  if mem.length / pageSize + n ≤ maxPages then mem ++ List.replicate (n * pageSize) 0 else mem

end Radix.WasmMem
