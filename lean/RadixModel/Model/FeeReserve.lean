/-
C06 — model of
  * `radix-engine/src/system/system_modules/costing/fee_reserve.rs` (`SystemLoanFeeReserve`),
  * `radix-engine/src/system/system_modules/costing/fee_summary.rs` (`FeeReserveFinalizationSummary`),
  * `TipSpecifier::{proportion, fee_multiplier}` (radix-transactions … executable_common.rs),
  * `System::determine_result_type` and the fee part of `System::finalize_fees_for_commit`
    (radix-engine/src/system/system_callback.rs).

Transcription notes
* `Decimal` = `Int` attos; the representable range is `[-2^191, 2^191)`.  `checked_mul` multiplies in
  `I256` (failing when the product leaves `[-2^255, 2^255)`), divides by 10^18 truncating toward
  zero and narrows to `I192`.  `+=`, `-=`, `.unwrap()`, `.expect()` and `assert!` failures are the
  explicit outcome `panic`.
* `u32` counters: `checked_add` → `Overflow` error; `usize` `add_assign` → panic on overflow.
* `IndexMap`s are association lists in insertion order (`royalty_cost_breakdown` by recipient id,
  `storage_cost_deferred` by storage type).
* Vault ids / royalty recipients are abstract `Nat` ids.
* Core Lean only (the driver links this file).
-/
namespace Radix.Fee

def ONE : Int := 1000000000000000000
def DEC_MIN : Int := -(2 ^ 191)
def DEC_MAX : Int := 2 ^ 191 - 1
def U32_MAX : Nat := 4294967295
def USIZE : Nat := 2 ^ 64

def inDec (x : Int) : Bool := decide (DEC_MIN ≤ x ∧ x ≤ DEC_MAX)
def in256 (x : Int) : Bool := decide (-(2 ^ 255) ≤ x ∧ x < 2 ^ 255)

/-- `Decimal::checked_add` -/
def dadd (a b : Int) : Option Int := if inDec (a + b) then some (a + b) else none
/-- `Decimal::checked_sub` -/
def dsub (a b : Int) : Option Int := if inDec (a - b) then some (a - b) else none
/-- `Decimal::checked_mul(Decimal)` -/
def dmul (a b : Int) : Option Int :=
  if in256 (a * b) then
    let c := (a * b).tdiv ONE
    if inDec c then some c else none
  else none
/-- `Decimal::checked_mul(u32 | usize)`: the integer is first converted to a `Decimal` (always fits) -/
def dmulNat (a : Int) (n : Nat) : Option Int := dmul a ((n : Int) * ONE)

/-- `CostingParameters` -/
structure Costing where
  execPrice : Int
  execLimit : Nat
  execLoan : Nat
  finPrice : Int
  finLimit : Nat
  usdPrice : Int
  statePrice : Int
  archivePrice : Int
  deriving DecidableEq, Repr

/-- `TipSpecifier` -/
inductive Tip where
  | none
  | pct (p : Nat)   -- u16
  | bp (b : Nat)    -- u32
  deriving DecidableEq, Repr

/-- `TipSpecifier::proportion` (computed in I192 space: `p * 0.01.attos()`, `b * 0.0001.attos()`) -/
def Tip.proportion : Tip → Int
  | .none => 0
  | .pct p => (p : Int) * 10000000000000000
  | .bp b => (b : Int) * 100000000000000

/-- `TipSpecifier::fee_multiplier` = `Decimal::ONE + proportion` -/
def Tip.multiplier (t : Tip) : Int := ONE + t.proportion

inductive Storage where
  | state
  | archive
  deriving DecidableEq, Repr

inductive FErr where
  | insufficient (required remaining : Int)
  | overflow
  | limitExceeded (limit committed new : Nat)
  | loanRepaymentFailed (owed : Int)
  | abort
  deriving DecidableEq, Repr

/-- outcome of a `Result<(), FeeReserveError>` method that may also panic -/
inductive Res where
  | ok
  | err (e : FErr)
  | panic
  deriving DecidableEq, Repr

/-- `SystemLoanFeeReserve` -/
structure Reserve where
  cp : Costing
  tip : Tip
  freeCredit : Int
  abortWhenRepaid : Bool
  effExec : Int
  effFin : Int
  balance : Int
  owed : Int
  execCommitted : Nat
  execDeferred : Nat
  finCommitted : Nat
  finDeferred : Nat
  royaltyCommitted : Int
  royaltyBreakdown : List (Nat × Int)
  storageCommitted : Int
  storageDeferred : List (Storage × Nat)
  /-- `locked_fees`, in push order: (vault, amount, contingent) -/
  locked : List (Nat × Int × Bool)
  deriving Repr

/-- `SystemLoanFeeReserve::new`; `none` = one of the `assert!`/`unwrap`/`expect` panics. -/
def Reserve.new (cp : Costing) (tip : Tip) (freeCredit : Int) (abortWhenRepaid : Bool) : Option Reserve :=
  if cp.execPrice < 0 ∨ cp.finPrice < 0 ∨ cp.usdPrice < 0 ∨ cp.statePrice < 0 ∨ cp.archivePrice < 0 ∨ freeCredit < 0 then none else
  match dmul cp.execPrice tip.multiplier with
  | none => none
  | some effExec =>
  match dmul cp.finPrice tip.multiplier with
  | none => none
  | some effFin =>
  match dmulNat effExec cp.execLoan with
  | none => none
  | some loan =>
  match dadd loan freeCredit with
  | none => none
  | some start =>
    some { cp := cp, tip := tip, freeCredit := freeCredit, abortWhenRepaid := abortWhenRepaid
           effExec := effExec, effFin := effFin, balance := start, owed := loan
           execCommitted := 0, execDeferred := 0, finCommitted := 0, finDeferred := 0
           royaltyCommitted := 0, royaltyBreakdown := [], storageCommitted := 0, storageDeferred := []
           locked := [] }

/-- `checked_add` on `u32` followed by the limit comparison (`check_*_cost_unit_limit`) -/
def checkLimit (committed cu limit : Nat) : Option FErr :=
  if committed + cu > U32_MAX then some .overflow
  else if committed + cu > limit then some (.limitExceeded limit committed cu)
  else none

/-- `consume_execution_internal` -/
def consumeExecInternal (r : Reserve) (cu : Nat) : Reserve × Res :=
  match checkLimit r.execCommitted cu r.cp.execLimit with
  | some e => (r, .err e)
  | none =>
  match dmulNat r.effExec cu with
  | none => (r, .err .overflow)
  | some amount =>
    if r.balance < amount then (r, .err (.insufficient amount r.balance))
    else match dsub r.balance amount with
      | none => (r, .panic)
      | some b => ({ r with balance := b, execCommitted := r.execCommitted + cu }, .ok)

/-- `consume_finalization_internal` -/
def consumeFinInternal (r : Reserve) (cu : Nat) : Reserve × Res :=
  match checkLimit r.finCommitted cu r.cp.finLimit with
  | some e => (r, .err e)
  | none =>
  match dmulNat r.effFin cu with
  | none => (r, .err .overflow)
  | some amount =>
    if r.balance < amount then (r, .err (.insufficient amount r.balance))
    else match dsub r.balance amount with
      | none => (r, .panic)
      | some b => ({ r with balance := b, finCommitted := r.finCommitted + cu }, .ok)

/-- `ExecutionFeeReserve::consume_storage` -/
def consumeStorage (r : Reserve) (t : Storage) (size : Nat) : Reserve × Res :=
  let price := match t with | .state => r.cp.statePrice | .archive => r.cp.archivePrice
  match dmulNat price size with
  | none => (r, .err .overflow)
  | some amount =>
    if r.balance < amount then (r, .err (.insufficient amount r.balance))
    else match dsub r.balance amount with
      | none => (r, .panic)
      | some b =>
        match dadd r.storageCommitted amount with
        | none => ({ r with balance := b }, .panic)
        | some sc => ({ r with balance := b, storageCommitted := sc }, .ok)

/-- the `for t in types` loop of `repay_all` over the key snapshot -/
def repayStorage (r : Reserve) : List Storage → Reserve × Res
  | [] => (r, .ok)
  | t :: ts =>
    match r.storageDeferred.lookup t with
    | none => (r, .panic)  -- `.unwrap()` of a missing key (unreachable: keys come from the map)
    | some size =>
      match consumeStorage r t size with
      | (r', .ok) => repayStorage { r' with storageDeferred := r'.storageDeferred.filter (fun e => e.1 != t) } ts
      | (r', res) => (r', res)

/-- `SystemLoanFeeReserve::repay_all` -/
def repayAll (r : Reserve) : Reserve × Res :=
  match consumeExecInternal r r.execDeferred with
  | (r1, .ok) =>
    let r1 := { r1 with execDeferred := 0 }
    match consumeFinInternal r1 r1.finDeferred with
    | (r2, .ok) =>
      let r2 := { r2 with finDeferred := 0 }
      match repayStorage r2 (r2.storageDeferred.map (·.1)) with
      | (r3, .ok) =>
        let amount := min r3.balance r3.owed
        match dsub r3.owed amount, dsub r3.balance amount with
        | some o, some b =>
          let r4 := { r3 with owed := o, balance := b }
          if o ≠ 0 then (r4, .err (.loanRepaymentFailed o))
          else if r4.abortWhenRepaid then (r4, .err .abort)
          else (r4, .ok)
        | some o, none => ({ r3 with owed := o }, .panic)
        | none, _ => (r3, .panic)
      | (r3, res) => (r3, res)
    | (r2, res) => (r2, res)
  | (r1, res) => (r1, res)

/-- `fully_repaid` -/
def Reserve.fullyRepaid (r : Reserve) : Bool := r.owed == 0

/-- `ExecutionFeeReserve::consume_execution` -/
def consumeExecution (r : Reserve) (cu : Nat) : Reserve × Res :=
  if cu = 0 then (r, .ok) else
  match consumeExecInternal r cu with
  | (r1, .ok) =>
    if !r1.fullyRepaid && decide (r1.execCommitted ≥ r1.cp.execLoan) then repayAll r1 else (r1, .ok)
  | (r1, res) => (r1, res)

/-- `ExecutionFeeReserve::consume_finalization` -/
def consumeFinalization (r : Reserve) (cu : Nat) : Reserve × Res :=
  if cu = 0 then (r, .ok) else consumeFinInternal r cu

/-- `RoyaltyAmount` -/
inductive Royalty where
  | free
  | xrd (a : Int)
  | usd (a : Int)
  deriving DecidableEq, Repr

def Royalty.isZero : Royalty → Bool
  | .free => true
  | .xrd a => a == 0
  | .usd a => a == 0

def Royalty.isNegative : Royalty → Bool
  | .free => false
  | .xrd a => decide (a < 0)
  | .usd a => decide (a < 0)

/-- `IndexMap::entry(k).or_default().add_assign(v)`; `none` = `Decimal` overflow panic -/
def bumpEntry : List (Nat × Int) → Nat → Int → Option (List (Nat × Int))
  | [], k, v => match dadd 0 v with | some s => some [(k, s)] | none => none
  | (k', x) :: rest, k, v =>
    if k' = k then (match dadd x v with | some s => some ((k', s) :: rest) | none => none)
    else (match bumpEntry rest k v with | some rest' => some ((k', x) :: rest') | none => none)

/-- `ExecutionFeeReserve::consume_royalty` (+ `consume_royalty_internal`) -/
def consumeRoyalty (r : Reserve) (ra : Royalty) (recipient : Nat) : Reserve × Res :=
  if ra.isZero then (r, .ok)
  else if ra.isNegative then (r, .panic)
  else
    let amountOpt : Option Int := match ra with
      | .xrd a => some a
      | .usd a => dmul a r.cp.usdPrice
      | .free => some 0
    match amountOpt with
    | none => (r, .err .overflow)
    | some amount =>
      if r.balance < amount then (r, .err (.insufficient amount r.balance))
      else match dsub r.balance amount with
        | none => (r, .panic)
        | some b =>
          match bumpEntry r.royaltyBreakdown recipient amount with
          | none => ({ r with balance := b }, .panic)
          | some bd =>
            match dadd r.royaltyCommitted amount with
            | none => ({ r with balance := b, royaltyBreakdown := bd }, .panic)
            | some rc => ({ r with balance := b, royaltyBreakdown := bd, royaltyCommitted := rc }, .ok)

/-- `ExecutionFeeReserve::lock_fee` (never returns an error; `panic` = the `expect`) -/
def lockFee (r : Reserve) (vault : Nat) (amount : Int) (contingent : Bool) : Reserve × Res :=
  if contingent then ({ r with locked := r.locked ++ [(vault, amount, contingent)] }, .ok)
  else match dadd r.balance amount with
    | none => (r, .panic)
    | some b => ({ r with balance := b, locked := r.locked ++ [(vault, amount, contingent)] }, .ok)

/-- `revert_royalty` -/
def revertRoyalty (r : Reserve) : Reserve × Res :=
  match dadd r.balance r.royaltyCommitted with
  | none => (r, .panic)
  | some b => ({ r with balance := b, royaltyBreakdown := [], royaltyCommitted := 0 }, .ok)

/-- `consume_deferred_execution` -/
def deferExecution (r : Reserve) (cu : Nat) : Reserve × Res :=
  if r.execDeferred + cu > U32_MAX then (r, .err .overflow) else ({ r with execDeferred := r.execDeferred + cu }, .ok)

/-- `consume_deferred_finalization` -/
def deferFinalization (r : Reserve) (cu : Nat) : Reserve × Res :=
  if r.finDeferred + cu > U32_MAX then (r, .err .overflow) else ({ r with finDeferred := r.finDeferred + cu }, .ok)

def bumpStorage : List (Storage × Nat) → Storage → Nat → Option (List (Storage × Nat))
  | [], k, v => some [(k, v)]
  | (k', x) :: rest, k, v =>
    if k' = k then (if x + v < USIZE then some ((k', x + v) :: rest) else none)
    else (match bumpStorage rest k v with | some rest' => some ((k', x) :: rest') | none => none)

/-- `consume_deferred_storage` (`usize` `add_assign`: overflow = panic) -/
def deferStorage (r : Reserve) (t : Storage) (size : Nat) : Reserve × Res :=
  match bumpStorage r.storageDeferred t size with
  | none => (r, .panic)
  | some sd => ({ r with storageDeferred := sd }, .ok)

/-- `FeeReserveFinalizationSummary` (the numeric fields) -/
structure Summary where
  execUnits : Nat
  finUnits : Nat
  execCost : Int
  finCost : Int
  tipCost : Int
  storageCost : Int
  royaltyCost : Int
  badDebt : Int
  locked : List (Nat × Int × Bool)
  royaltyBreakdown : List (Nat × Int)
  deriving DecidableEq, Repr

/-- `FinalizingFeeReserve::finalize`; `none` = an `unwrap` panics -/
def finalize (r : Reserve) : Option Summary :=
  match dmulNat r.cp.execPrice r.execCommitted, dmulNat r.cp.finPrice r.finCommitted with
  | some ec, some fc =>
    match dmul ec r.tip.proportion, dmul fc r.tip.proportion with
    | some te, some tf =>
      match dadd te tf with
      | some tc => some { execUnits := r.execCommitted, finUnits := r.finCommitted, execCost := ec, finCost := fc
                          tipCost := tc, storageCost := r.storageCommitted, royaltyCost := r.royaltyCommitted
                          badDebt := r.owed, locked := r.locked, royaltyBreakdown := r.royaltyBreakdown }
      | none => none
    | _, _ => none
  | _, _ => none

/-- left-to-right `checked_add(..).unwrap()` chain -/
def daddAll : Int → List Int → Option Int
  | acc, [] => some acc
  | acc, x :: xs => match dadd acc x with | some s => daddAll s xs | none => none

/-- `total_cost` -/
def Summary.totalCost (s : Summary) : Option Int := daddAll s.execCost [s.finCost, s.tipCost, s.storageCost, s.royaltyCost]
/-- `network_fees` -/
def Summary.networkFees (s : Summary) : Option Int := daddAll s.execCost [s.finCost, s.storageCost]

/-- the four share percentages (`radix-common/src/constants/transaction_execution.rs`) -/
structure Shares where
  tipsProposer : Nat
  tipsValidators : Nat
  feesProposer : Nat
  feesValidators : Nat
  deriving DecidableEq, Repr

/-- `tips * (0.01 * pctT) + network_fees * (0.01 * pctF)` as in `to_proposer_amount` / `to_validator_set_amount`
(every step is an `unwrap`: `Option.bind` chain, `none` = panic) -/
def shareAmount (s : Summary) (pctT pctF : Nat) : Option Int :=
  (dmulNat 10000000000000000 pctT).bind fun ft =>
  (dmulNat 10000000000000000 pctF).bind fun ff =>
  s.networkFees.bind fun nf =>
  (dmul s.tipCost ft).bind fun a =>
  (dmul nf ff).bind fun b =>
  dadd a b

def Summary.toProposer (s : Summary) (sh : Shares) : Option Int := shareAmount s sh.tipsProposer sh.feesProposer
def Summary.toValidators (s : Summary) (sh : Shares) : Option Int := shareAmount s sh.tipsValidators sh.feesValidators
/-- `to_burn_amount` -/
def Summary.toBurn (s : Summary) (sh : Shares) : Option Int :=
  s.networkFees.bind fun nf =>
  (s.toProposer sh).bind fun p =>
  (s.toValidators sh).bind fun v =>
  (dadd s.tipCost nf).bind fun t =>
  (dsub t p).bind fun u =>
  dsub u v

/-! ### `determine_result_type` -/

inductive Interp where
  | ok            -- interpretation succeeded
  | bootloadErr   -- `BootloadingError`
  | runtimeErr    -- a non-abort `RuntimeError`
  | runtimeAbort  -- a `RuntimeError` that is an abortion
  deriving DecidableEq, Repr

inductive ResultType where
  | commitSuccess
  | commitFailure
  | reject
  | abort
  | panic
  deriving DecidableEq, Repr

def determineResultType (i : Interp) (r : Reserve) : Reserve × ResultType :=
  match repayAll r with
  | (r', .panic) => (r', .panic)
  | (r', res) =>
    match i with
    | .ok => (match res with
      | .ok => (r', .commitSuccess)
      | .err .abort => (r', .abort)
      | _ => (r', .reject))
    | .bootloadErr => (r', .reject)
    | .runtimeAbort => (r', .abort)
    | .runtimeErr => if r'.fullyRepaid then (r', .commitFailure) else (r', .reject)

/-! ### fee part of `finalize_fees_for_commit` -/

/-- `min(locked, required)`; contingent locks pay only on success.  One iteration of the loop.
`none` = an `unwrap` panics (`take_by_amount` error, `checked_sub` overflow). -/
def takeOne (isSuccess : Bool) (required : Int) (lock : Nat × Int × Bool) : Option (Int × Int) :=
  let amount := if lock.2.2 then (if isSuccess then min lock.2.1 required else 0) else min lock.2.1 required
  -- `locked.take_by_amount(amount)`: `Err` (→ unwrap panic) when locked < amount or the subtraction overflows
  if lock.2.1 < amount then none else
  match dsub lock.2.1 amount, dsub required amount with
  | some _, some req' => some (amount, req')
  | _, _ => none

/-- the loop over `locked_fees.iter().rev()`: payments in iteration order and the remaining requirement -/
def takeLoop (isSuccess : Bool) : Int → List (Nat × Int × Bool) → Option (List (Nat × Int) × Int)
  | required, [] => some ([], required)
  | required, l :: ls =>
    match takeOne isSuccess required l with
    | none => none
    | some (amount, req') =>
      match takeLoop isSuccess req' ls with
      | none => none
      | some (ps, r) => some ((l.1, amount) :: ps, r)

structure Distribution where
  /-- `PayFeeEvent`s in emission order: (vault, amount) -/
  payments : List (Nat × Int)
  /-- part of the free credit used -/
  fromFreeCredit : Int
  /-- `collected_fees` before distribution -/
  collected : Int
  toProposer : Int
  toValidators : Int
  toBurn : Int
  deriving DecidableEq, Repr

inductive FinOutcome where
  | ok (d : Distribution)
  | panicBadDebt
  | panicNotCovered (required : Int)
  | panicDistributionMismatch (remaining toDistribute : Int)
  | panicArith
  deriving DecidableEq, Repr

def sumPayments : List (Nat × Int) → Int
  | [] => 0
  | p :: ps => p.2 + sumPayments ps

/-- fee part of `finalize_fees_for_commit` (royalty deposits and substate writes are not modelled;
`collected_fees.put` cannot overflow before the assertions are reached and is modelled exactly). -/
def finalizeFees (s : Summary) (sh : Shares) (freeCredit : Int) (isSuccess : Bool) : FinOutcome :=
  match s.totalCost with
  | none => .panicArith
  | some total =>
    match takeLoop isSuccess total s.locked.reverse with
    | none => .panicArith
    | some (payments, required) =>
      let fromFree := if freeCredit > 0 then min freeCredit required else 0
      match dsub required fromFree with
      | none => .panicArith
      | some required =>
        match s.toProposer sh, s.toValidators sh, s.toBurn sh with
        | some p, some v, some b =>
          if s.badDebt ≠ 0 then .panicBadDebt
          else if required ≠ 0 then .panicNotCovered required
          else
            let collected := sumPayments payments + fromFree
            match dsub collected s.royaltyCost, dadd p v with
            | some remaining, some pv =>
              (match dadd pv b with
               | some toDistribute =>
                 if remaining = toDistribute then
                   .ok { payments := payments, fromFreeCredit := fromFree, collected := collected
                         toProposer := p, toValidators := v, toBurn := b }
                 else .panicDistributionMismatch remaining toDistribute
               | none => .panicArith)
            | _, _ => .panicArith
        | _, _, _ => .panicArith

end Radix.Fee
