/-
C45 — model of `ScryptoV1WasmValidator::validate` (radix-engine/src/vm/wasm/wasm_validator.rs) and of the
`WasmModule::init / enforce_*` pipeline of radix-engine/src/vm/wasm/prepare.rs, over *module summaries*.

A `Summary` is what the pipeline reads from a module (through `ModuleInfo` of radix-wasm-instrument):
start section, import entries, memory/table sections, `br_table` arities, function signatures and local
groups, global count, export entries, active data/element segments; plus two facts supplied by the
WebAssembly parser/validator, which are external (`wasmparser`): `wf` (does the byte string deserialize;
does it validate with the feature set of `WasmModule::init`) and `usesFloat`.

Core Lean only (the driver links this file).  Every error branch of the code is an explicit outcome.
-/
namespace Radix.WasmValidate

inductive VT | i32 | i64 | f32 | f64 | other
deriving DecidableEq, Repr, Inhabited

structure Sig where
  params : List VT
  results : List VT
deriving DecidableEq, Repr, Inhabited

/-- `wasmparser::TypeRef` of an import entry (a function import is given by its resolved signature). -/
inductive IKind | func (s : Sig) | global | memory | table | tag
deriving DecidableEq, Repr

structure Import where
  modName : String
  name : String
  kind : IKind
deriving DecidableEq, Repr

inductive EKind | func | table | memory | global | tag
deriving DecidableEq, Repr

structure Export where
  name : String
  kind : EKind
  index : Nat
deriving DecidableEq, Repr

structure Mem where
  initial : Nat
  maximum : Option Nat
deriving DecidableEq, Repr

/-- a function defined in the module: signature and the counts of its local groups -/
structure Func where
  sig : Sig
  localGroups : List Nat
deriving DecidableEq, Repr

inductive WF | ok | deser | invalid
deriving DecidableEq, Repr

structure Summary where
  wf : WF
  usesFloat : Bool
  start : Bool
  imports : List Import
  memSection : Option (List Mem)
  /-- initial sizes of the tables of the table section -/
  tableSection : Option (List Nat)
  /-- number of targets (default excluded) of every `br_table`, in code order -/
  brTables : List Nat
  funcs : List Func
  /-- number of module-defined globals -/
  globals : Nat
  exportSection : Option (List Export)
  /-- active data segments: (offset, length) -/
  data : List (Nat × Nat)
  /-- active element segments: (offset, number of items) -/
  elems : List (Nat × Nat)
deriving Repr

structure HostFn where
  name : String
  sig : Sig
  minVersion : Nat
deriving DecidableEq, Repr

structure Config where
  version : Nat
  maxMemPages : Nat
  maxTable : Nat
  maxBrTable : Nat
  maxFuncs : Nat
  maxParams : Nat
  maxLocals : Nat
  maxGlobals : Nat
  host : List HostFn
  /-- export names required by the blueprint definitions, in definition order -/
  required : List String
deriving Repr

inductive Err
  | deserialization | validation | startNotAllowed
  | importNotAllowed (n : String)
  | protocolMismatch (n : String) (cur exp : Nat)
  | invalidFunctionType (n : String)
  | missingMemorySection | noMemoryDefinition | tooManyMemoryDefinition
  | memorySizeLimitExceeded | memoryNotExported
  | moreThanOneTable | initialTableSizeLimitExceeded
  | invalidExportName (n : String)
  | tooManyTargetsInBrTable | tooManyFunctions | tooManyFunctionParams
  | tooManyFunctionLocals (max actual : Nat)
  | tooManyGlobals (max cur : Nat)
  | noExportSection
  | missingExport (n : String)
  | notInstantiatable
  | overflow
  | moduleInfoError
deriving DecidableEq, Repr

/-- what `validate` returns on success, as far as the property is concerned: the memory type of the
output module and the exported function names -/
structure Output where
  mem : Mem
  functionExports : List String
deriving DecidableEq, Repr

def U32_MAX : Nat := 4294967295
def PAGE : Nat := 65536
def ENV : String := "env"
def EXPORT_MEMORY : String := "memory"

/-! ### helpers -/

def parseVT : Char → Option VT
  | 'i' => some .i32 | 'I' => some .i64 | 'f' => some .f32 | 'F' => some .f64 | 'x' => some .other
  | _ => none

def parseVTs : List Char → Option (List VT)
  | [] => some []
  | c :: r =>
    match parseVT c, parseVTs r with
    | some v, some vs => some (v :: vs)
    | _, _ => none

/-- textual signatures of the line protocol and of the generated host table: `ii.I` = (i32,i32)→i64 -/
def parseSig (s : String) : Option Sig :=
  match s.splitOn "." with
  | [p, r] =>
    match parseVTs p.toList, parseVTs r.toList with
    | some ps, some rs => some ⟨ps, rs⟩
    | _, _ => none
  | _ => none

/-- value-type codes of the generated host table -/
def vtOfCode : Nat → VT
  | 0 => .i32 | 1 => .i64 | 2 => .f32 | 3 => .f64 | _ => .other

/-- the generated table `(name, param codes, result codes, min version)` as `HostFn`s -/
def hostOf (t : List (String × List Nat × List Nat × Nat)) : List HostFn :=
  t.map fun (n, ps, rs, v) => ⟨n, ⟨ps.map vtOfCode, rs.map vtOfCode⟩, v⟩

/-- `export_section().unwrap_or(vec![])` -/
def exportsOf (s : Summary) : List Export := s.exportSection.getD []

def hasDup : List String → Bool
  | [] => false
  | x :: r => r.contains x || hasDup r

def importedMemories (s : Summary) : Nat := (s.imports.filter (fun i => i.kind = .memory)).length
def importedTables (s : Summary) : Nat := (s.imports.filter (fun i => i.kind = .table)).length
def numMemories (s : Summary) : Nat := importedMemories s + (s.memSection.getD []).length
def numTables (s : Summary) : Nat := importedTables s + (s.tableSection.getD []).length

def importSig? : Import → Option Sig
  | ⟨_, _, .func sg⟩ => some sg
  | _ => none

/-- `ModuleInfo::function_map`: imported functions first, then the module's own -/
def funcMap (s : Summary) : List Sig := s.imports.filterMap importSig? ++ s.funcs.map (·.sig)

/-! ### `WasmModule::init` -/

/-- `ModuleInfo::new` (→ `DeserializationError`; it also rejects duplicate export names), then
`ModuleInfo::validate` with MVP + mutable-global + sign-extension and **floats off** (→ `ValidationError`).
The MVP validator admits at most one memory and one table (imports included). -/
def init (s : Summary) : Except Err Unit :=
  if s.wf = .deser ∨ hasDup ((exportsOf s).map (·.name)) = true then .error .deserialization
  else if s.wf = .invalid ∨ s.usesFloat = true ∨ numMemories s > 1 ∨ numTables s > 1 then .error .validation
  else .ok ()

/-! ### `enforce_no_start_function` -/
def enforceNoStart (s : Summary) : Except Err Unit :=
  if s.start then .error .startNotAllowed else .ok ()

/-! ### `enforce_import_constraints` -/

def lookupHost (host : List HostFn) (n : String) : Option HostFn := host.find? (fun h => h.name = n)

/-- one iteration of the `for entry in import_section` loop -/
def checkImport (c : Config) (i : Import) : Except Err Unit :=
  if i.modName = ENV then
    match lookupHost c.host i.name with
    | some h =>
      if c.version < h.minVersion then .error (.protocolMismatch i.name c.version h.minVersion)
      else match i.kind with
        | .func sg => if sg = h.sig then .ok () else .error (.invalidFunctionType i.name)
        | _ => .error (.importNotAllowed i.name)
    | none => .error (.importNotAllowed i.name)
  else .error (.importNotAllowed i.name)

def enforceImports (c : Config) : List Import → Except Err Unit
  | [] => .ok ()
  | i :: r =>
    match checkImport c i with
    | .ok _ => enforceImports c r
    | .error e => .error e

/-! ### `enforce_export_names` (`syn::parse_str::<Ident>`, ASCII fragment) -/

def keywords : List String :=
  ["_", "abstract", "as", "become", "box", "break", "const", "continue", "crate", "do", "else", "enum",
   "extern", "false", "final", "fn", "for", "if", "impl", "in", "let", "loop", "macro", "match", "mod",
   "move", "mut", "override", "priv", "pub", "ref", "return", "Self", "self", "static", "struct", "super",
   "trait", "true", "type", "typeof", "unsafe", "unsized", "use", "virtual", "where", "while", "yield"]

def isIdentStart (c : Char) : Bool := c.isAlpha || c = '_'
def isIdentCont (c : Char) : Bool := c.isAlphanum || c = '_'

/-- Rust identifier (ASCII only; names with other characters are outside the modelled fragment and are
treated as invalid), not a keyword of syn 1.0's `accept_as_ident` -/
def isIdent (n : String) : Bool :=
  match n.toList with
  | [] => false
  | c :: r => isIdentStart c && r.all isIdentCont && !keywords.contains n

def minStr : List String → Option String
  | [] => none
  | x :: r =>
    match minStr r with
    | none => some x
    | some y => if x < y then some x else some y

/-- the loop runs over `export_names : BTreeSet<String>`, i.e. in increasing string order: the error
names the least invalid name -/
def enforceExportNames (s : Summary) : Except Err Unit :=
  match minStr (((exportsOf s).map (·.name)).filter (fun n => !isIdent n)) with
  | none => .ok ()
  | some n => .error (.invalidExportName n)

/-! ### `enforce_memory_limit_and_inject_max` -/

def memoryExported (s : Summary) : Bool :=
  (exportsOf s).any (fun e => e.kind = .memory && e.name = EXPORT_MEMORY)

def enforceMemory (c : Config) (s : Summary) : Except Err Mem :=
  match s.memSection with
  | none => .error .missingMemorySection
  | some [] => .error .noMemoryDefinition
  | some [m] =>
    if m.initial > c.maxMemPages then .error .memorySizeLimitExceeded
    else
      match m.maximum with
      | some mx =>
        if mx > c.maxMemPages then .error .memorySizeLimitExceeded
        else if memoryExported s then .ok m else .error .memoryNotExported
      | none =>
        if memoryExported s then .ok { m with maximum := some c.maxMemPages } else .error .memoryNotExported
  | some (_ :: _ :: _) => .error .tooManyMemoryDefinition

/-! ### `enforce_table_limit` -/
def enforceTable (c : Config) (s : Summary) : Except Err Unit :=
  match s.tableSection with
  | none => .ok ()
  | some sec =>
    if sec.length > 1 then .error .moreThanOneTable
    else match sec with
      | [] => .ok ()
      | t :: _ => if t > c.maxTable then .error .initialTableSizeLimitExceeded else .ok ()

/-! ### `enforce_br_table_limit` -/
def enforceBrTable (c : Config) : List Nat → Except Err Unit
  | [] => .ok ()
  | b :: r => if b > c.maxBrTable then .error .tooManyTargetsInBrTable else enforceBrTable c r

/-! ### `enforce_function_limit` -/

/-- `for func_idx in 0..num_local_functions() { get_type_by_func_idx(func_idx) … }` — note that
`func_idx` indexes `function_map`, whose first entries are the *imported* functions. -/
def checkParamsAt (c : Config) (fm : List Sig) : List Nat → Except Err Unit
  | [] => .ok ()
  | i :: r =>
    match fm[i]? with
    | none => .error .moduleInfoError
    | some sg => if sg.params.length > c.maxParams then .error .tooManyFunctionParams else checkParamsAt c fm r

/-- `locals_count.checked_add(&count)` on `u32` -/
def sumLocalsFrom (acc : Nat) : List Nat → Option Nat
  | [] => some acc
  | g :: r => if acc + g > U32_MAX then none else sumLocalsFrom (acc + g) r

def checkLocals (c : Config) : List Func → Except Err Unit
  | [] => .ok ()
  | f :: r =>
    match sumLocalsFrom 0 f.localGroups with
    | none => .error .overflow
    | some n => if n > c.maxLocals then .error (.tooManyFunctionLocals c.maxLocals n) else checkLocals c r

def enforceFunctions (c : Config) (s : Summary) : Except Err Unit :=
  if s.funcs.length > c.maxFuncs then .error .tooManyFunctions
  else
    match checkParamsAt c (funcMap s) (List.range s.funcs.length) with
    | .error e => .error e
    | .ok _ => checkLocals c s.funcs

/-! ### `enforce_global_limit` -/
def enforceGlobals (c : Config) (s : Summary) : Except Err Unit :=
  if s.globals > c.maxGlobals then .error (.tooManyGlobals c.maxGlobals s.globals) else .ok ()

/-! ### `enforce_export_constraints` -/

def SIG_EXPORT : Sig := ⟨[.i64], [.i64]⟩

def exportMatches (s : Summary) (n : String) (e : Export) : Bool :=
  e.name = n && (match e.kind with
    | .func => (match (funcMap s)[e.index]? with
        | some sg => sg = SIG_EXPORT
        | none => false)
    | _ => false)

def checkRequired (s : Summary) (exps : List Export) : List String → Except Err Unit
  | [] => .ok ()
  | n :: r => if exps.any (exportMatches s n) then checkRequired s exps r else .error (.missingExport n)

def enforceExportConstraints (c : Config) (s : Summary) : Except Err Unit :=
  match s.exportSection with
  | some exps => checkRequired s exps c.required
  | none => .error .noExportSection

/-! ### `ensure_instantiatable` (wasmi: active element and data segments must fit) -/

def tableInitial (s : Summary) : Nat :=
  match s.tableSection with
  | some (t :: _) => t
  | _ => 0

def instantiatable (s : Summary) (m : Mem) : Bool :=
  s.elems.all (fun (o, n) => o + n ≤ tableInitial s) && s.data.all (fun (o, n) => o + n ≤ m.initial * PAGE)

def ensureInstantiatable (s : Summary) (m : Mem) : Except Err Unit :=
  if instantiatable s m then .ok () else .error .notInstantiatable

/-! ### `to_bytes` -/
def functionExports (s : Summary) : List String :=
  ((exportsOf s).filter (fun e => e.kind = .func)).map (·.name)

/-! ### `ScryptoV1WasmValidator::validate`

The two instrumentation passes (`inject_instruction_metering`, `inject_stack_metering`) are the external
crate radix-wasm-instrument; on modules that passed the steps before they do not fail (checked by the
correspondence run), so they are not steps of the model. -/
def validate (c : Config) (s : Summary) : Except Err Output :=
  match init s with
  | .error e => .error e
  | .ok _ =>
  match enforceNoStart s with
  | .error e => .error e
  | .ok _ =>
  match enforceImports c s.imports with
  | .error e => .error e
  | .ok _ =>
  match enforceExportNames s with
  | .error e => .error e
  | .ok _ =>
  match enforceMemory c s with
  | .error e => .error e
  | .ok m =>
  match enforceTable c s with
  | .error e => .error e
  | .ok _ =>
  match enforceBrTable c s.brTables with
  | .error e => .error e
  | .ok _ =>
  match enforceFunctions c s with
  | .error e => .error e
  | .ok _ =>
  match enforceGlobals c s with
  | .error e => .error e
  | .ok _ =>
  match enforceExportConstraints c s with
  | .error e => .error e
  | .ok _ =>
  match ensureInstantiatable s m with
  | .error e => .error e
  | .ok _ => .ok ⟨m, functionExports s⟩

end Radix.WasmValidate
