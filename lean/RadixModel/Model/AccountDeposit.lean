/-
Account deposit rules (C39) — executable model.

Transcribes `radix-engine/src/blueprints/account/blueprint.rs`:
  `is_deposit_allowed`, `get_resource_preference`, `get_default_deposit_rule`, `does_vault_exist`,
  `deposit`, `deposit_batch`, `get_vault(create = true)`,
  `AccountBlueprint::try_deposit_or_refund / try_deposit_batch_or_refund`            (`Ver.v1`: code id AccountCode1)
  `AccountBlueprintBottlenoseExtension::try_deposit_or_refund / ..._batch_or_refund` (`Ver.bottlenose`: AccountCode2;
      the bottlenose protocol update re-points exactly these two exports)
  `try_deposit_or_abort / try_deposit_batch_or_abort` (these call `Self::try_deposit_*_or_refund`, i.e. ALWAYS the v1
      code, also after bottlenose), `validate_badge_is_authorized_depositor`, `validate_badge_is_present`,
  and the owner methods `set_default_deposit_rule`, `set_resource_preference`, `remove_resource_preference`,
  `add_authorized_depositor`, `remove_authorized_depositor`, `deposit_batch`, `withdraw`.

Abstractions
  * a resource address is a `Nat` (`XRD = 0`), a depositor badge (`ResourceOrNonFungible`, the KV-store key is its SBOR
    encoding, i.e. exact equality) is a `Nat`;
  * a bucket is resource + amount (a non-fungible bucket is represented by the number of its ids);
  * `proven : Bool` is the result of `Runtime::assert_access_rule(require(badge))` in the caller's auth zone
    (the auth machinery is C08's subject); it is consulted only where the code calls `validate_badge_is_present`;
  * an error aborts the whole transaction: `Except.error` carries no state (the engine reverts it, C02);
  * `vault.put` is assumed to succeed (resource not frozen, depositor role of the resource AllowAll, no Decimal overflow).

Core Lean only (no Mathlib): the driver links this file.
-/
namespace Radix.Account

inductive Rule where
  | accept | reject | allowExisting
deriving DecidableEq, Repr

inductive Pref where
  | allowed | disallowed
deriving DecidableEq, Repr

/-- Which native code the two `..._or_refund` exports point to. -/
inductive Ver where
  | v1 | bottlenose
deriving DecidableEq, Repr

def XRD : Nat := 0

structure Bucket where
  res : Nat
  amt : Nat
deriving DecidableEq, Repr

/-- Account state: default deposit rule field, the three KV collections. `vault r = some 0` is an existing empty
vault (vaults are never removed), `none` = no entry in `ResourceVaultKeyValue`. -/
structure Acct where
  rule : Rule
  pref : Nat → Option Pref
  dep : Nat → Bool
  vault : Nat → Option Nat

/-- A freshly created / virtualised account: `DefaultDepositRule::Accept`, empty collections. -/
def init : Acct := ⟨.accept, fun _ => none, fun _ => false, fun _ => none⟩

inductive Ev where
  | deposit (r a : Nat)
  | rejected (r a : Nat)
deriving DecidableEq, Repr

inductive Err where
  | notAnAuthorizedDepositor (g : Nat)
  | badgeNotPresent
  | depositIsDisallowed (r : Nat)
  | notAllBucketsCouldBeDeposited
  | vaultDoesNotExist (r : Nat)
  | insufficientBalance (r : Nat)
  | unauthorized
deriving DecidableEq, Repr

/-- `is_deposit_allowed`. -/
def isDepositAllowed (s : Acct) (r : Nat) : Bool :=
  match s.pref r with
  | some .allowed => true
  | some .disallowed => false
  | none =>
    match s.rule with
    | .accept => true
    | .reject => false
    | .allowExisting => r == XRD || (s.vault r).isSome

/-- balance of the vault after `get_vault(create = true)` + `vault.put`. -/
def vaultPut (v : Option Nat) (a : Nat) : Nat :=
  match v with
  | some x => x + a
  | none => a

/-- state effect of `deposit`. -/
def put (s : Acct) (b : Bucket) : Acct :=
  { s with vault := fun r => if r = b.res then some (vaultPut (s.vault r) b.amt) else s.vault r }

def depEv (b : Bucket) : Ev := .deposit b.res b.amt
def rejEv (b : Bucket) : Ev := .rejected b.res b.amt

/-- state effect of `deposit_batch` (`for bucket in buckets { deposit(bucket)? }`). -/
def putAll (s : Acct) : List Bucket → Acct
  | [] => s
  | b :: bs => putAll (put s b) bs

/-- the buckets `is_deposit_allowed` refuses, in input order (all decisions are taken BEFORE any deposit). -/
def offending (s : Acct) (bs : List Bucket) : List Bucket :=
  bs.filter (fun b => !isDepositAllowed s b.res)

abbrev Res (α : Type) := Except Err (Acct × List Ev × α)

/-- `try_deposit_or_refund` (both code versions). -/
def tryDepositOrRefund (ver : Ver) (s : Acct) (b : Bucket) (badge : Option Nat) (proven : Bool) :
    Res (Option Bucket) :=
  if isDepositAllowed s b.res then
    .ok (put s b, [depEv b], none)
  else
    match badge with
    | some g =>
      if s.dep g then
        -- validate_badge_is_present
        if proven then .ok (put s b, [depEv b], none)
        else .error .badgeNotPresent
      else
        match ver with
        | .v1 => .error (.notAnAuthorizedDepositor g)
        | .bottlenose => .ok (s, [rejEv b], some b)
    | none => .ok (s, [rejEv b], some b)

/-- `try_deposit_batch_or_refund` (both code versions). -/
def tryDepositBatchOrRefund (ver : Ver) (s : Acct) (bs : List Bucket) (badge : Option Nat) (proven : Bool) :
    Res (Option (List Bucket)) :=
  let off := offending s bs
  if off.isEmpty then
    .ok (putAll s bs, bs.map depEv, none)
  else
    match badge with
    | some g =>
      if s.dep g then
        if proven then .ok (putAll s bs, bs.map depEv, none)
        else .error .badgeNotPresent
      else
        match ver with
        | .v1 => .error (.notAnAuthorizedDepositor g)
        | .bottlenose => .ok (s, off.map rejEv, some bs)
    | none => .ok (s, off.map rejEv, some bs)

/-- `try_deposit_or_abort`: calls `Self::try_deposit_or_refund`, i.e. the v1 code. -/
def tryDepositOrAbort (s : Acct) (b : Bucket) (badge : Option Nat) (proven : Bool) : Res Unit :=
  match tryDepositOrRefund .v1 s b badge proven with
  | .ok (s', ev, none) => .ok (s', ev, ())
  | .ok (_, _, some b') => .error (.depositIsDisallowed b'.res)
  | .error e => .error e

/-- `try_deposit_batch_or_abort`: calls `Self::try_deposit_batch_or_refund`, i.e. the v1 code. -/
def tryDepositBatchOrAbort (s : Acct) (bs : List Bucket) (badge : Option Nat) (proven : Bool) : Res Unit :=
  match tryDepositBatchOrRefund .v1 s bs badge proven with
  | .ok (s', ev, none) => .ok (s', ev, ())
  | .ok (_, _, some _) => .error .notAllBucketsCouldBeDeposited
  | .error e => .error e

/-- `withdraw`: `get_vault(create = false)` + `vault.take`. The (possibly empty) vault stays. -/
def withdraw (s : Acct) (r a : Nat) : Except Err Acct :=
  match s.vault r with
  | none => .error (.vaultDoesNotExist r)
  | some x =>
    if a ≤ x then .ok { s with vault := fun r' => if r' = r then some (x - a) else s.vault r' }
    else .error (.insufficientBalance r)

/-- An owner-role method (`deposit`, `deposit_batch`, `withdraw`, the five configuration methods — see the
regenerated method table in `Generated/C39.lean`) called by somebody who does not hold the owner role: the auth
layer fails the call before the blueprint code runs. -/
def ownerMethodByStranger (_s : Acct) : Except Err Acct := .error .unauthorized

/-- One account call of a history. The owner methods are assumed to be called with owner auth
(without it the call fails in the auth layer and nothing changes). -/
inductive Op where
  | setRule (x : Rule)
  | setPref (r : Nat) (p : Pref)
  | removePref (r : Nat)
  | addDep (g : Nat)
  | removeDep (g : Nat)
  | ownerDeposit (bs : List Bucket)
  | withdraw (r a : Nat)
  | tryRefund (b : Bucket) (badge : Option Nat) (proven : Bool)
  | tryBatchRefund (bs : List Bucket) (badge : Option Nat) (proven : Bool)
  | tryAbort (b : Bucket) (badge : Option Nat) (proven : Bool)
  | tryBatchAbort (bs : List Bucket) (badge : Option Nat) (proven : Bool)

/-- state after a call of `Except` shape (failed transaction = state unchanged). -/
def stOf {α : Type} (s : Acct) (r : Res α) : Acct :=
  match r with
  | .ok (s', _, _) => s'
  | .error _ => s

def step (ver : Ver) (s : Acct) : Op → Acct
  | .setRule x => { s with rule := x }
  | .setPref r p => { s with pref := fun r' => if r' = r then some p else s.pref r' }
  | .removePref r => { s with pref := fun r' => if r' = r then none else s.pref r' }
  | .addDep g => { s with dep := fun g' => if g' = g then true else s.dep g' }
  | .removeDep g => { s with dep := fun g' => if g' = g then false else s.dep g' }
  | .ownerDeposit bs => putAll s bs
  | .withdraw r a => match withdraw s r a with | .ok s' => s' | .error _ => s
  | .tryRefund b g p => stOf s (tryDepositOrRefund ver s b g p)
  | .tryBatchRefund bs g p => stOf s (tryDepositBatchOrRefund ver s bs g p)
  | .tryAbort b g p => stOf s (tryDepositOrAbort s b g p)
  | .tryBatchAbort bs g p => stOf s (tryDepositBatchOrAbort s bs g p)

def run (ver : Ver) (s : Acct) : List Op → Acct
  | [] => s
  | op :: ops => run ver (step ver s op) ops

/-! ### harness-level badge universe (used by the driver only)

Badges `0..3`: `0 = Resource(Bf)`, `1 = Resource(Bnf)`, `2 = NonFungible(Bnf:#1#)`, `3 = NonFungible(Bnf:#2#)`,
`4 = NonFungible(signature of key X)`.
Proof mask bits: `1 = proof of Bf`, `2 = proof of Bnf:#1#`, `4 = proof of Bnf:#2#`, `8 = transaction signed by X`. -/
def badgeProven (mask : Nat) (g : Nat) : Bool :=
  match g with
  | 0 => mask % 2 == 1
  | 1 => (mask / 2) % 2 == 1 || (mask / 4) % 2 == 1
  | 2 => (mask / 2) % 2 == 1
  | 3 => (mask / 4) % 2 == 1
  | 4 => (mask / 8) % 2 == 1
  | _ => false

end Radix.Account
