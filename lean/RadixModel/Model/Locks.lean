/-
C13 — model of `radix-engine/src/kernel/substate_locks.rs` (`SubstateLocks<D>`).

Transcription notes
* `substate_lock_states` / `node_num_locked` are `NonIterMap`s whose entries are never
  removed and default to `Read(0)` / `0`; they are modelled as total functions with those
  defaults (an absent entry and a `Read(0)` entry are observationally the same for every
  public method as long as each open handle's key has an entry, which holds because the
  entry is inserted before the handle is created).
* The real handle table does not store whether a handle was opened read-only; the model
  keeps that bit as *ghost* data (`Handle.ro`) that no transition reads.
* `usize` decrement below zero and `unwrap` on a missing handle are modelled as the
  outcome `none` (= panic) of `unlock`.
-/
namespace Radix.Locks

/-- (node, partition, substate key) — abstract identifiers. -/
abbrev Key := Nat × Nat × Nat

inductive LState where
  | read (n : Nat)
  | write
  deriving DecidableEq, Repr

structure Handle where
  id : Nat
  key : Key
  ro : Bool
  deriving DecidableEq, Repr

structure Locks where
  handles : List Handle
  st : Key → LState
  nodeCnt : Nat → Nat
  next : Nat

def init : Locks := { handles := [], st := fun _ => .read 0, nodeCnt := fun _ => 0, next := 0 }

/-- `SubstateLockState::try_lock` -/
def LState.tryLock : LState → Bool → Option LState
  | .read n, true => some (.read (n + 1))
  | .read 0, false => some .write
  | .read (_ + 1), false => none
  | .write, _ => none

/-- `SubstateLockState::unlock`; `none` = `usize` underflow (`Read(0) -= 1`). -/
def LState.unlock : LState → Option LState
  | .read 0 => none
  | .read (n + 1) => some (.read n)
  | .write => some (.read 0)

/-- `SubstateLockState::is_locked` -/
def LState.isLocked : LState → Bool
  | .read 0 => false
  | _ => true

def upd {α β : Type} [DecidableEq α] (f : α → β) (a : α) (b : β) : α → β :=
  fun x => if x = a then b else f x

/-- `SubstateLocks::lock` -/
def lock (s : Locks) (k : Key) (ro : Bool) : Locks × Option Nat :=
  match (s.st k).tryLock ro with
  | none => (s, none)
  | some ls =>
    ({ handles := ⟨s.next, k, ro⟩ :: s.handles
       st := upd s.st k ls
       nodeCnt := upd s.nodeCnt k.1 (s.nodeCnt k.1 + 1)
       next := s.next + 1 }, some s.next)

/-- `SubstateLocks::unlock`; `none` = panic (unknown handle, or a counter underflow). -/
def unlock (s : Locks) (h : Nat) : Option (Locks × Key) :=
  match s.handles.find? (fun hd => hd.id == h) with
  | none => none
  | some hd =>
    match (s.st hd.key).unlock with
    | none => none
    | some ls =>
      if s.nodeCnt hd.key.1 = 0 then none else
      some ({ handles := s.handles.filter (fun x => x.id != h)
              st := upd s.st hd.key ls
              nodeCnt := upd s.nodeCnt hd.key.1 (s.nodeCnt hd.key.1 - 1)
              next := s.next }, hd.key)

def isLocked (s : Locks) (k : Key) : Bool := (s.st k).isLocked

def nodeIsLocked (s : Locks) (n : Nat) : Bool := decide (s.nodeCnt n > 0)

/-- Operations of the line protocol. -/
inductive Op where
  | lock (k : Key) (ro : Bool)
  | unlock (h : Nat)
  deriving Repr

/-- One step; a panicking `unlock` leaves the state unchanged (the real `unwrap` on the
handle table fails before anything is mutated). -/
def step (s : Locks) : Op → Locks
  | .lock k ro => (lock s k ro).1
  | .unlock h => match unlock s h with
    | none => s
    | some (s', _) => s'

def run (ops : List Op) : Locks := ops.foldl step init

end Radix.Locks
