/-
C32 — model of transaction preparation: the concatenated-digest hash tree and the structural
decoder that extracts it from a raw transaction payload.

Transcribed from
  radix-transactions/src/model/preparation/decoder.rs              (`TransactionDecoder`, `PreparationSettingsV1::check_len`)
  radix-transactions/src/model/preparation/summarized_composite.rs (`ConcatenatedDigest`, `prepare_tuple!`, `ArrayPreparable`)
  radix-transactions/src/model/preparation/summarized_raw.rs       (`SummarizedRaw*`, `RawHash`)
  radix-transactions/src/model/preparation/traits.rs               (`define_transaction_payload!`, `PreparedTransaction::prepare`,
                                                                    blanket `TransactionPreparableFromValue`)
  radix-transactions/src/model/v1/{intent,signed_intent,notarized_transaction_v1,blobs}.rs
  radix-transactions/src/model/v2/{intent_core_v2,subintent_v2,transaction_intent_v2,signed_transaction_intent_v2,
      notarized_transaction_v2,partial_transaction_v2,signed_partial_transaction_v2,non_root_subintents_v2,
      child_subintent_hashes_v2,intent_signatures_v2}.rs
  radix-transactions/src/model/user_transaction.rs                 (`PreparedUserTransaction::prepare_from_transaction_enum`)

Transcription notes
* The hash is a parameter `H : Bytes → Bytes` (BLAKE2b-256 in the driver).
* The Rust *type* that is prepared is the schema `Sch`; one generic pair `prepV` (= `prepare_from_value`)
  / `prepB` (= `prepare_from_value_body`) interprets it. The result is the hash tree `HTree` (raw leaf
  slices, already-hashed leaves, concatenation nodes) and the two lengths of `Summary`.
* Leaves `SummarizedRawFullValue<T>` / `SummarizedRawValueBody<T>` are decoded by the *typed* decoder of
  `T` in the code. The model decodes them with the untyped manifest-SBOR value decoder of
  `Model/Sbor.lean` (`decValue` / `decBody` with the same remaining depth): the typed decoder accepts a
  subset of what the untyped one accepts and consumes the same bytes (SBOR is self-describing).
  Hence: model rejects ⇒ code rejects; code accepts ⇒ model accepts with the same tree.
  `Vec<u8>` (blobs) and `Hash` (child subintent hashes) are transcribed exactly.
* `stack_depth`: `rem` = `max_depth - stack_depth`; `track_stack_depth_increase` is the `rem = 0` test.
* `usize::checked_add` → `cadd` (error `lengthOverflow` at 2^64).
* Errors are the variants of `PrepareError`; every `DecodeError` is the single class `decode`.
-/
import RadixModel.Model.Sbor
import RadixModel.Generated.C32

namespace Radix.TxHash
open Radix.Sbor Radix.Generated

abbrev MVK := VK ManifestKind

/-- `MANIFEST_SBOR_V1_MAX_DEPTH` -/
def D : Nat := SborDepth.MANIFEST_SBOR_V1_MAX_DEPTH

/-! ## Hash trees -/

/-- What a `Summary.hash` commits to. -/
inductive HTree where
  /-- hash = `H bs` (raw SBOR bytes of a field / raw bytes of a blob) -/
  | leaf (bs : Bytes)
  /-- `RawHash`: the value is already a hash and is used as its own summary hash -/
  | pre (h : Bytes)
  /-- concatenated digest: hash = `H (pfx ++ hash(c₁) ++ … ++ hash(cₙ))` -/
  | node (pfx : Bytes) (cs : List HTree)

mutual
/-- `Summary.hash` -/
def summary (H : Bytes → Bytes) : HTree → Bytes
  | .leaf bs => H bs
  | .pre h => h
  | .node pfx cs => H (pfx ++ summaryCat H cs)
/-- what `HashAccumulator::concat` has been fed with after the prefix -/
def summaryCat (H : Bytes → Bytes) : List HTree → Bytes
  | [] => []
  | c :: cs => summary H c ++ summaryCat H cs
end

/-! ## Settings, errors, schema -/

/-- `PreparationSettingsV1` -/
structure Settings where
  v2 : Bool
  maxUser : Nat
  maxLedger : Nat
  maxChild : Nat
  maxSub : Nat
  maxBlobs : Nat
  deriving Repr, DecidableEq

def Settings.babylon : Settings :=
  { v2 := C32.BABYLON_V2_PERMITTED = 1, maxUser := C32.BABYLON_MAX_USER_PAYLOAD_LENGTH,
    maxLedger := C32.BABYLON_MAX_LEDGER_PAYLOAD_LENGTH, maxChild := C32.BABYLON_MAX_CHILD_SUBINTENTS_PER_INTENT,
    maxSub := C32.BABYLON_MAX_SUBINTENTS_PER_TRANSACTION, maxBlobs := C32.BABYLON_MAX_BLOBS }

def Settings.cuttlefish : Settings :=
  { v2 := C32.CUTTLEFISH_V2_PERMITTED = 1, maxUser := C32.CUTTLEFISH_MAX_USER_PAYLOAD_LENGTH,
    maxLedger := C32.CUTTLEFISH_MAX_LEDGER_PAYLOAD_LENGTH, maxChild := C32.CUTTLEFISH_MAX_CHILD_SUBINTENTS_PER_INTENT,
    maxSub := C32.CUTTLEFISH_MAX_SUBINTENTS_PER_TRANSACTION, maxBlobs := C32.CUTTLEFISH_MAX_BLOBS }

/-- `ValueType` -/
inductive VT where
  | blob | subintent | childSpec | sigBatches
  deriving Repr, DecidableEq

/-- which `PreparationSettings` field bounds an array -/
inductive Lim where
  | blobs | subintents | children
  deriving Repr, DecidableEq

def Lim.get (S : Settings) : Lim → Nat
  | .blobs => S.maxBlobs
  | .subintents => S.maxSub
  | .children => S.maxChild

/-- `PrepareError` -/
inductive PErr where
  | notSupported
  | tooLarge
  | decode
  | tooMany (vt : VT) (actual max : Nat)
  | lengthOverflow
  | unexpectedDisc (actual : Option UInt8)
  deriving Repr, DecidableEq

/-- The Rust type being prepared. -/
inductive Sch where
  /-- `SummarizedRawFullValue<T>` / `SummarizedRawFullValueWithReferences<T>` (V1): hash over the whole
  SBOR value including its value-kind byte. Only ever prepared as a value. -/
  | full
  /-- `SummarizedRawValueBody<T>` / `…WithReferences<T>` with `T::value_kind() = vk` (V2): hash over the body. -/
  | body (vk : MVK)
  /-- `SummarizedRawValueBodyRawBytes` (a blob): hash over the bytes themselves. -/
  | blob
  /-- `RawHash` (child subintent specifier). -/
  | rawHash
  /-- a `define_transaction_payload!` type with discriminator `disc`, prepared as child (tuple body). -/
  | payload (disc : UInt8) (fields : List Sch)
  /-- `PreparedIntentCoreV2` -/
  | core (fields : List Sch)
  /-- `Vec<T>` through `ConcatenatedDigest::prepare_from_sbor_array_{full_value,value_body}`;
  `fullValue = true` is `PreparedBlobsV1` (implements `TransactionPreparableFromValue` directly);
  `nodup` is the duplicate test of `PreparedChildSubintentSpecifiersV2`. -/
  | arr (fullValue : Bool) (vt : VT) (lim : Lim) (elem : Sch) (nodup : Bool)

/-- `T::value_kind()` of `TransactionPreparableFromValueBody` -/
def Sch.valueKind : Sch → MVK
  | .full => .tuple
  | .body vk => vk
  | .blob => .array
  | .rawHash => .array
  | .payload _ _ => .tuple
  | .core _ => .tuple
  | .arr _ _ _ _ _ => .array

/-- `ADDITIONAL_SUMMARY_LENGTH_AS_VALUE` (0 for payload types; types implementing
`TransactionPreparableFromValue` directly add nothing) -/
def Sch.additional : Sch → Nat
  | .full => 0
  | .payload _ _ => 0
  | .arr true _ _ _ _ => 0
  | _ => 1

/-- `(value, Summary)` minus the hash, which is `summary H tree` -/
structure Prep where
  tree : HTree
  eff : Nat
  total : Nat

abbrev PR := Except PErr (Prep × Bytes)

/-- `usize::checked_add(..).ok_or(LengthOverflow)` -/
def cadd (a b : Nat) : Except PErr Nat :=
  if a + b > C32.USIZE_MAX then .error .lengthOverflow else .ok (a + b)

/-- `decoder.get_slice_with_valid_bounds(start, end)` where `bs` remained at `start` and `rest` at `end` -/
def consumed (bs rest : Bytes) : Bytes := bs.take (bs.length - rest.length)

def hashLen : Nat := C32.HASH_LENGTH

/-! ## Leaves -/

/-- `decoder.decode::<T>()` of a `SummarizedRawFullValue<T>` (untyped over-approximation of `T`). -/
def prepFull (rem : Nat) (bs : Bytes) : PR :=
  match decValue manifest D rem bs with
  | .error _ => .error .decode
  | .ok (_, rest) =>
    let sl := consumed bs rest
    .ok ({ tree := .leaf sl, eff := sl.length, total := sl.length }, rest)

/-- `SummarizedRawValueBody<T>::prepare_from_value_body` (untyped over-approximation of `T`). -/
def prepBody (rem : Nat) (vk : MVK) (bs : Bytes) : PR :=
  match decBody manifest D rem vk bs with
  | .error _ => .error .decode
  | .ok (_, rest) =>
    let sl := consumed bs rest
    .ok ({ tree := .leaf sl, eff := sl.length, total := sl.length }, rest)

/-- `decode_deeper_body_with_value_kind::<Vec<u8>>(Array)`: depth check, element kind `U8`, size, slice. -/
def decBytesBody (rem : Nat) (bs : Bytes) : Except PErr (Bytes × Bytes) :=
  match rem with
  | 0 => .error .decode
  | _ + 1 =>
    match readValueKind manifestKinds bs with
    | .error _ => .error .decode
    | .ok (ek, bs0) =>
      if ek ≠ .int .u8 then .error .decode
      else
        match readSize bs0 with
        | .error _ => .error .decode
        | .ok (n, bs1) =>
          match readSlice n bs1 with
          | .error _ => .error .decode
          | .ok (sl, rest) => .ok (sl, rest)

/-- `SummarizedRawValueBodyRawBytes::prepare_from_value_body` -/
def prepBlob (rem : Nat) (bs : Bytes) : PR :=
  match decBytesBody rem bs with
  | .error e => .error e
  | .ok (inner, rest) =>
    match cadd 2 inner.length with
    | .error e => .error e
    | .ok eff => .ok ({ tree := .leaf inner, eff := eff, total := inner.length }, rest)

/-- `decode_deeper_body_with_value_kind::<Hash>(Array)` = `[u8; 32]`: depth check, element kind `U8`,
size = 32, then 32 elements each decoded one level deeper. -/
def decHashBody (rem : Nat) (bs : Bytes) : Except PErr (Bytes × Bytes) :=
  match rem with
  | 0 => .error .decode
  | rem' + 1 =>
    match readValueKind manifestKinds bs with
    | .error _ => .error .decode
    | .ok (ek, bs0) =>
      if ek ≠ .int .u8 then .error .decode
      else
        match readSize bs0 with
        | .error _ => .error .decode
        | .ok (n, bs1) =>
          if n ≠ hashLen then .error .decode
          else if rem' = 0 ∧ hashLen ≠ 0 then .error .decode
          else
            match readSlice hashLen bs1 with
            | .error _ => .error .decode
            | .ok (sl, rest) => .ok (sl, rest)

/-- `RawHash::prepare_from_value_body` -/
def prepRawHash (rem : Nat) (bs : Bytes) : PR :=
  match decHashBody rem bs with
  | .error e => .error e
  | .ok (h, rest) =>
    .ok ({ tree := .pre h, eff := (consumed bs rest).length, total := 0 }, rest)

/-! ## Composites -/

/-- the `$( … )*` of `prepare_tuple!`: fields in order, each followed by the two `checked_add`s -/
def prepFields (pv : Sch → Bytes → PR) : List Sch → Bytes → Nat → Nat → Except PErr (List HTree × Nat × Nat × Bytes)
  | [], bs, eff, tot => .ok ([], eff, tot, bs)
  | f :: fs, bs, eff, tot =>
    match pv f bs with
    | .error e => .error e
    | .ok (p, bs') =>
      match cadd eff p.eff with
      | .error e => .error e
      | .ok eff' =>
        match cadd tot p.total with
        | .error e => .error e
        | .ok tot' =>
          match prepFields pv fs bs' eff' tot' with
          | .error e => .error e
          | .ok (ts, e, t, r) => .ok (p.tree :: ts, e, t, r)

/-- the `for _ in 0..length` of `ArrayPreparable` -/
def prepElems (pb : Bytes → PR) : Nat → Bytes → Nat → Nat → Except PErr (List HTree × Nat × Nat × Bytes)
  | 0, bs, eff, tot => .ok ([], eff, tot, bs)
  | n + 1, bs, eff, tot =>
    match pb bs with
    | .error e => .error e
    | .ok (p, bs') =>
      match cadd eff p.eff with
      | .error e => .error e
      | .ok eff' =>
        match cadd tot p.total with
        | .error e => .error e
        | .ok tot' =>
          match prepElems pb n bs' eff' tot' with
          | .error e => .error e
          | .ok (ts, e, t, r) => .ok (p.tree :: ts, e, t, r)

/-- `read_and_check_value_kind` -/
def readKindExpect (vk : MVK) (bs : Bytes) : Except PErr Bytes :=
  match readValueKind manifestKinds bs with
  | .error _ => .error .decode
  | .ok (k, rest) => if k = vk then .ok rest else .error .decode

/-- `read_and_check_size` -/
def readSizeExpect (n : Nat) (bs : Bytes) : Except PErr Bytes :=
  match readSize bs with
  | .error _ => .error .decode
  | .ok (m, rest) => if m = n then .ok rest else .error .decode

/-- blanket `TransactionPreparableFromValue::prepare_from_value` on top of a given `prepare_from_value_body`
(`pb`), plus the two direct implementations (`SummarizedRawFullValue`, `PreparedBlobsV1`). -/
def prepVWith (pb : Sch → Bytes → PR) (rem : Nat) (s : Sch) (bs : Bytes) : PR :=
  match s with
  | .full => prepFull rem bs
  | _ =>
    match readKindExpect s.valueKind bs with
    | .error e => .error e
    | .ok bs' =>
      match pb s bs' with
      | .error e => .error e
      | .ok (p, rest) =>
        match cadd p.eff s.additional with
        | .error e => .error e
        | .ok eff => .ok ({ p with eff := eff }, rest)

/-- does the list contain the same hash twice (`IndexSet::insert` returning false) -/
def hasDup : List HTree → Bool
  | [] => false
  | .pre h :: ts => ts.any (fun t => match t with | .pre h' => h' == h | _ => false) || hasDup ts
  | _ :: ts => hasDup ts

/-- the part of `prepare_tuple!` after the header: `read_and_check_size`, the fields (one level deeper),
the accumulator length. `rem` is what remains *after* the `track_stack_depth_increase` of the tuple. -/
def tupleRest (pv : Sch → Bytes → PR) (pfx : Bytes) (fields : List Sch) (bs : Bytes) : PR :=
  match readSizeExpect fields.length bs with
  | .error e => .error e
  | .ok bs1 =>
    match prepFields pv fields bs1 2 0 with
    | .error e => .error e
    | .ok (ts, eff, tot, rest) =>
      match cadd tot (pfx.length + hashLen * ts.length) with
      | .error e => .error e
      | .ok tot' => .ok ({ tree := .node pfx ts, eff := eff, total := tot' }, rest)

def payloadPrefix (disc : UInt8) : Bytes := [UInt8.ofNat C32.TRANSACTION_HASHABLE_PAYLOAD_PREFIX, disc]

/-- `prepare_from_value_body` -/
def prepB (S : Settings) : Nat → Sch → Bytes → PR
  | _, .full, _ => .error .decode          -- `SummarizedRawFullValue` has no `prepare_from_value_body`
  | rem, .body vk, bs => prepBody rem vk bs
  | rem, .blob, bs => prepBlob rem bs
  | rem, .rawHash, bs => prepRawHash rem bs
  | 0, .payload _ _, _ => .error .decode
  | rem + 1, .payload disc fields, bs =>
    -- `ConcatenatedDigest::prepare_transaction_payload(.., TupleNoValueKind)`
    tupleRest (prepVWith (prepB S rem) rem) (payloadPrefix disc) fields bs
  | rem, .core fields, bs =>
    if !S.v2 then .error .notSupported
    else
      match rem with
      | 0 => .error .decode
      | rem + 1 => tupleRest (prepVWith (prepB S rem) rem) [] fields bs
  | 0, .arr _ _ _ _ _, _ => .error .decode
  | rem + 1, .arr _ vt lim elem nodup, bs =>
    -- `read_array_header_without_value_kind(T::value_kind())`
    match readKindExpect elem.valueKind bs with
    | .error e => .error e
    | .ok bs0 =>
      match readSize bs0 with
      | .error _ => .error .decode
      | .ok (n, bs1) =>
        if n > lim.get S then .error (.tooMany vt n (lim.get S))
        else
          match prepElems (prepB S rem elem) n bs1 2 0 with
          | .error e => .error e
          | .ok (ts, eff, tot, rest) =>
            match cadd tot (hashLen * ts.length) with
            | .error e => .error e
            | .ok tot' =>
              if nodup && hasDup ts then .error .decode
              else .ok ({ tree := .node [] ts, eff := eff, total := tot' }, rest)

/-- `prepare_from_value` -/
def prepV (S : Settings) (rem : Nat) (s : Sch) (bs : Bytes) : PR := prepVWith (prepB S rem) rem s bs

/-! ## The transaction types -/

def u8 (n : Nat) : UInt8 := UInt8.ofNat n

def blobsV1 : Sch := .arr true .blob .blobs .blob false
/-- `PreparedIntentV1` -/
def intentV1 : Sch := .payload (u8 C32.V1_INTENT) [.full, .full, blobsV1, .full]
/-- `PreparedSignedIntentV1` -/
def signedIntentV1 : Sch := .payload (u8 C32.V1_SIGNED_INTENT) [intentV1, .full]
/-- `PreparedNotarizedTransactionV1` -/
def notarizedV1 : Sch := .payload (u8 C32.V1_NOTARIZED) [signedIntentV1, .full]

def childSpecifiersV2 : Sch := .arr false .childSpec .children .rawHash true
/-- `PreparedIntentCoreV2`: header, blobs, message, children, instructions -/
def intentCoreV2 : Sch := .core [.body .tuple, blobsV1, .body .enum, childSpecifiersV2, .body .array]
/-- `PreparedSubintentV2` -/
def subintentV2 : Sch := .payload (u8 C32.V2_SUBINTENT) [intentCoreV2]
def nonRootSubintentsV2 : Sch := .arr false .subintent .subintents subintentV2 false
/-- `PreparedTransactionIntentV2` -/
def transactionIntentV2 : Sch :=
  .payload (u8 C32.V2_TRANSACTION_INTENT) [.body .tuple, intentCoreV2, nonRootSubintentsV2]
def intentSignaturesV2 : Sch := .body .array
def nonRootSubintentSignaturesV2 : Sch := .arr false .sigBatches .subintents intentSignaturesV2 false
/-- `PreparedSignedTransactionIntentV2` -/
def signedTransactionIntentV2 : Sch :=
  .payload (u8 C32.V2_SIGNED_TRANSACTION_INTENT) [transactionIntentV2, intentSignaturesV2, nonRootSubintentSignaturesV2]
/-- `PreparedNotarizedTransactionV2` -/
def notarizedV2 : Sch := .payload (u8 C32.V2_NOTARIZED) [signedTransactionIntentV2, .body .enum]
/-- `PreparedPartialTransactionV2` -/
def partialTransactionV2 : Sch := .payload (u8 C32.V2_PARTIAL_TRANSACTION) [subintentV2, nonRootSubintentsV2]
/-- `PreparedSignedPartialTransactionV2` -/
def signedPartialTransactionV2 : Sch :=
  .payload (u8 C32.V2_SIGNED_PARTIAL_TRANSACTION) [partialTransactionV2, intentSignaturesV2, nonRootSubintentSignaturesV2]

/-- the raw payload types that can be prepared -/
inductive Kind where
  | v1intent | v1signed | v1notarized
  | v2subintent | v2txintent | v2signed | v2notarized | v2partial | v2signedpartial
  /-- `RawNotarizedTransaction::prepare` → `PreparedUserTransaction` (V1 or V2 by discriminator) -/
  | user
  deriving Repr, DecidableEq

def Kind.sch : Kind → Sch
  | .v1intent => intentV1
  | .v1signed => signedIntentV1
  | .v1notarized => notarizedV1
  | .v2subintent => subintentV2
  | .v2txintent => transactionIntentV2
  | .v2signed => signedTransactionIntentV2
  | .v2notarized => notarizedV2
  | .v2partial => partialTransactionV2
  | .v2signedpartial => signedPartialTransactionV2
  | .user => notarizedV1

/-- `<Raw as RawTransactionPayload>::KIND == CompleteUserTransaction` -/
def Kind.isUser : Kind → Bool
  | .v1notarized | .v2notarized | .user => true
  | _ => false

/-- `prepare_from_transaction_enum` of a `define_transaction_payload!` type:
`prepare_transaction_payload(.., EnumWithValueKind)`. -/
def prepEnum (S : Settings) (rem : Nat) (s : Sch) (bs : Bytes) : PR :=
  match s with
  | .payload disc fields =>
    match rem with
    | 0 => .error .decode
    | rem + 1 =>
      match readKindExpect .enum bs with
      | .error e => .error e
      | .ok bs0 =>
        match readByte bs0 with
        | .error _ => .error .decode
        | .ok (d, bs1) =>
          if d ≠ disc then .error .decode
          else tupleRest (prepV S rem) (payloadPrefix disc) fields bs1
  | _ => .error .decode

/-- `PreparedUserTransaction::prepare_from_transaction_enum`: the byte after the enum value kind selects
V1 or V2 (`bs` is the payload after the prefix byte); every other kind is fixed by the Rust type. -/
def resolveKind (k : Kind) (bs : Bytes) : Except PErr Kind :=
  match k with
  | .user =>
    match bs with
    | _ :: d :: _ =>
      if d = u8 C32.V1_NOTARIZED then .ok .v1notarized
      else if d = u8 C32.V2_NOTARIZED then .ok .v2notarized
      else .error (.unexpectedDisc (some d))
    | _ => .error (.unexpectedDisc none)
  | k => .ok k

/-- `PreparedTransaction::prepare(raw, settings)`: `check_len`, payload prefix, the enum, `check_complete`.
Returns the resolved kind (`user` resolves to V1 or V2). -/
def prepare (S : Settings) (k : Kind) (payload : Bytes) : Except PErr (Kind × Prep) :=
  if k.isUser && payload.length > S.maxUser then .error .tooLarge
  else
    match readByte payload with
    | .error _ => .error .decode
    | .ok (p, bs) =>
      if p ≠ manifest.payloadPrefix then .error .decode
      else
        match resolveKind k bs with
        | .error e => .error e
        | .ok k' =>
          match prepEnum S D k'.sch bs with
          | .error e => .error e
          | .ok (r, rest) =>
            if rest.length ≠ 0 then .error .decode else .ok (k', r)

/-! ## The identifiers -/

def subintentsOf : HTree → List HTree
  | .node _ [_, _, .node _ subs] => subs
  | _ => []

/-- The trees whose summary hashes are the identifiers of a prepared transaction, in the order
root, …, innermost: e.g. `[notarized, signed intent, transaction intent, subintent₁, …]`. -/
def ids : Kind → HTree → List HTree
  | .v1intent, t => [t]
  | .v1signed, t => match t with | .node _ [i, _] => [t, i] | _ => [t]
  | .v1notarized, t => match t with | .node _ [.node p [i, x], _] => [t, .node p [i, x], i] | _ => [t]
  | .user, t => [t]
  | .v2subintent, t => [t]
  | .v2txintent, t => t :: subintentsOf t
  | .v2signed, t => match t with | .node _ [ti, _, _] => t :: ti :: subintentsOf ti | _ => [t]
  | .v2notarized, t =>
    match t with
    | .node _ [.node p [ti, a, b], _] => t :: .node p [ti, a, b] :: ti :: subintentsOf ti
    | _ => [t]
  | .v2partial, t => match t with | .node _ [r, .node _ subs] => t :: r :: subs | _ => [t]
  | .v2signedpartial, t =>
    match t with
    | .node _ [.node p [r, .node q subs], _, _] => t :: .node p [r, .node q subs] :: r :: subs
    | _ => [t]

end Radix.TxHash
