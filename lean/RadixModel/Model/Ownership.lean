/-
C05 — kernel ownership model: `radix-engine/src/kernel/call_frame.rs` (`CallFrame::{create_node,
drop_node, open_substate, read_substate, write_substate, close_substate, pin_node,
process_substate_diff, apply_diff_to_open_substate, take_node_internal, get_node_visibility,
get_node_ref}`, `NonGlobalNodeRefs`), `substate_io.rs` (`SubstateIO::{create_node, drop_node,
move_node_from_heap_to_store, open_substate, write_substate, close_substate}`), `heap.rs`
(`Heap::{create_node, remove_node, get_substate, set_substate}`), with `SubstateLocks` taken from the
C13 model (`Model/Locks.lean`).

Transcription notes
* One call frame (the root frame of `Kernel::new_no_refs`).  `kernel_invoke` / `pass_message`,
  `move_partition`, `set/remove/scan/drain` and `DirectAccess` references are NOT modelled.
* Node ids are natural numbers; `isGlobal n ↔ 100 ≤ n` stands for `NodeId::is_global` (entity-type
  byte).  Heap and track both hold `NodeSubstates`; the model keeps one map `node : id → (device,
  substates)` — a node is in the heap map iff its device is `heap`, in the track iff `store`.
  Substates of a node are an association list in `BTreeMap` order (one partition; key = field index).
* A substate value is reduced to what the kernel reads from an `IndexedScryptoValue`: the list of
  owned node ids and the list of references (both in traversal order).
* Every kernel error is an explicit `Err`; every `unwrap`/`panic!`/`assert!` on the path is the outcome
  `Err.panic`.  After an error the engine aborts the transaction, so `run` stops at the first error
  (partial mutations made before the error are never observed).
* `moveLoop` is the `while let Some(node_id) = queue.pop_front()` loop of
  `move_node_from_heap_to_store`; fuel = number of node ids ever created + 1 (each iteration turns one
  heap node into a store node); running out of fuel is the explicit outcome `Err.fuel`.
* `create` refuses an id that was already used (`Err.idReused`) or a substate list whose keys are not
  strictly increasing (`Err.badKeys`): ids come from `IdAllocator` (always fresh) and substates from a
  `BTreeMap`, so neither can be expressed by a caller of the real kernel; the harness refuses the same
  lines without calling the kernel.
-/
import RadixModel.Model.Locks

namespace Radix.Own

open Radix.Locks (upd)

inductive Dev where
  | heap
  | store
  deriving DecidableEq, Repr

/-- `ReferenceOrigin` (the `GlobalAddress` payload and `DirectlyAccessed` dropped). -/
inductive Origin where
  | frameOwned
  | global
  | sub (d : Dev)
  deriving DecidableEq, Repr

def Origin.dev : Origin → Dev
  | .frameOwned => .heap
  | .global => .store
  | .sub d => d

structure Val where
  owns : List Nat
  refs : List Nat
  deriving DecidableEq, Repr

structure Node where
  dev : Dev
  subs : List (Nat × Val)

/-- `OpenedSubstate` (+ the node/key/MUTABLE flag the real code keeps in `SubstateLocks`' data). -/
structure Open where
  node : Nat
  key : Nat
  dev : Dev
  origin : Origin
  gh : Nat
  mutable : Bool
  owns : List Nat
  refs : List Nat

structure St where
  node : Nat → Option Node
  owned : List Nat
  stable : Nat → Bool
  trans : Nat → Option (Nat × Origin)
  opens : List (Nat × Open)
  nextH : Nat
  locks : Locks.Locks
  ngr : Nat → Option (Dev × Nat)
  pinned : Nat → Bool
  created : List Nat

def init : St :=
  { node := fun _ => none, owned := [], stable := fun _ => false, trans := fun _ => none, opens := [],
    nextH := 0, locks := Locks.init, ngr := fun _ => none, pinned := fun _ => false, created := [] }

inductive Err where
  | idReused | badKeys
  | ownNotFound | substateBorrowed            -- TakeNodeError
  | refNotFound                               -- ProcessSubstateError::RefNotFound
  | cantDropNodeInStore | nonGlobalRefNotAllowed
  | nodeBorrowed | cannotPersistPinnedNode | containsNonGlobalRef   -- PersistNodeError / DropNodeError
  | containsDuplicateOwns
  | nodeNotVisible | substateFault | substateLocked
  | handleNotFound | noWritePermission
  | closeBorrowed                             -- CloseSubstateError::SubstateBorrowed
  | panic | fuel
  deriving DecidableEq, Repr

def isGlobal (n : Nat) : Bool := decide (100 ≤ n)

/-- first occurrences, in order (`IndexSet` built by repeated `insert`) -/
def dedup : List Nat → List Nat
  | [] => []
  | x :: xs => x :: (dedup xs).filter (fun y => y != x)

def hasDup : List Nat → Bool
  | [] => false
  | x :: xs => xs.contains x || hasDup xs

def lookup (k : Nat) : List (Nat × Val) → Option Val
  | [] => none
  | (k', v) :: r => if k' = k then some v else lookup k r

def setVal (k : Nat) (v : Val) : List (Nat × Val) → List (Nat × Val)
  | [] => []
  | (k', v') :: r => if k' = k then (k', v) :: r else (k', v') :: setVal k v r

def keysIncreasing : List (Nat × Val) → Bool
  | [] => true
  | [_] => true
  | (a, _) :: (b, w) :: r => decide (a < b) && keysIncreasing ((b, w) :: r)

/-- `get_node_visibility(..).reference_origin(..)`: the `BTreeSet<Visibility>` is iterated in the order
`StableReference(Global) < FrameOwned < Borrowed(..)`. -/
def nodeRef (s : St) (n : Nat) : Option Origin :=
  if s.stable n then some .global
  else if n ∈ s.owned then some .frameOwned
  else match s.trans n with
    | some (_, o) => some o
    | none => none

def nodeIsLocked (s : St) (n : Nat) : Bool := Locks.nodeIsLocked s.locks n

def ngrReferenced (s : St) (n : Nat) : Bool :=
  match s.ngr n with
  | some (_, c) => decide (c > 0)
  | none => false

/-- `take_node_internal` -/
def takeNode (s : St) (n : Nat) : Except Err St :=
  if nodeIsLocked s n then .error .substateBorrowed
  else if n ∈ s.owned then .ok { s with owned := s.owned.filter (fun x => x != n) }
  else .error .ownNotFound

def takeAll : List Nat → St → Except Err St
  | [], s => .ok s
  | n :: r, s =>
    match takeNode s n with
    | .error e => .error e
    | .ok s' => takeAll r s'

def insertOwned (s : St) (n : Nat) : St :=
  if n ∈ s.owned then s else { s with owned := s.owned ++ [n] }

def checkRefs (s : St) : List Nat → Except Err Unit
  | [] => .ok ()
  | r :: rs => if (nodeRef s r).isSome then checkRefs s rs else .error .refNotFound

def stableGlobals (s : St) (rs : List Nat) : St :=
  { s with stable := fun x => s.stable x || (isGlobal x && rs.contains x) }

/-- `NonGlobalNodeRefs::increment_ref_count` for every non-global added reference (device from
`get_node_ref(..).unwrap()`) -/
def ngrIncAll : List Nat → St → Except Err St
  | [], s => .ok s
  | r :: rs, s =>
    if isGlobal r then ngrIncAll rs s
    else match nodeRef s r with
      | none => .error .panic
      | some o =>
        let e := match s.ngr r with
          | some (d, c) => (d, c + 1)
          | none => (o.dev, 1)
        ngrIncAll rs { s with ngr := upd s.ngr r (some e) }

/-- `NonGlobalNodeRefs::decrement_ref_count` (missing entry / `usize` underflow = panic) -/
def ngrDecAll : List Nat → St → Except Err St
  | [], s => .ok s
  | r :: rs, s =>
    if isGlobal r then ngrDecAll rs s
    else match s.ngr r with
      | none => .error .panic
      | some (d, c) =>
        if c = 0 then .error .panic
        else ngrDecAll rs { s with ngr := upd s.ngr r (some (d, c - 1)) }

/-- the queue loop of `SubstateIO::move_node_from_heap_to_store` -/
def moveLoop : Nat → List Nat → St → Except Err St
  | _, [], s => .ok s
  | 0, _ :: _, _ => .error .fuel
  | fuel + 1, n :: q, s =>
    if ngrReferenced s n then .error .nodeBorrowed
    else if s.pinned n then .error .cannotPersistPinnedNode
    else match s.node n with
      | some ⟨.heap, subs⟩ =>
        if subs.any (fun kv => kv.2.refs.any (fun r => !isGlobal r)) then .error .containsNonGlobalRef
        else moveLoop fuel (q ++ subs.flatMap (fun kv => kv.2.owns))
              { s with node := upd s.node n (some ⟨.store, subs⟩) }
      | _ => .error .panic

def moveToStore (s : St) (n : Nat) : Except Err St :=
  moveLoop (s.created.length + 1) [n] s

def moveAll : List Nat → St → Except Err St
  | [], s => .ok s
  | n :: r, s =>
    match moveToStore s n with
    | .error e => .error e
    | .ok s' => moveAll r s'

/-- `CallFrame::process_substate_diff` -/
def processDiff (dev : Dev) (addedOwns removedOwns addedRefs removedRefs : List Nat) (s : St) :
    Except Err St :=
  match takeAll addedOwns s with
  | .error e => .error e
  | .ok s1 =>
    let s2 := removedOwns.foldl insertOwned s1
    match checkRefs s2 addedRefs with
    | .error e => .error e
    | .ok () =>
      let s3 := stableGlobals s2 removedRefs
      match dev with
      | .heap =>
        match ngrIncAll addedRefs s3 with
        | .error e => .error e
        | .ok s4 => ngrDecAll removedRefs s4
      | .store =>
        match moveAll addedOwns s3 with
        | .error e => .error e
        | .ok s4 =>
          if !removedOwns.isEmpty then .error .cantDropNodeInStore
          else if addedRefs.any (fun r => !isGlobal r) then .error .nonGlobalRefNotAllowed
          else if removedRefs.any (fun r => !isGlobal r) then .error .panic
          else .ok s4

/-- the per-substate loop of `CallFrame::create_node` -/
def processNew (dev : Dev) : List (Nat × Val) → St → Except Err St
  | [], s => .ok s
  | (_, v) :: rest, s =>
    if hasDup v.owns then .error .containsDuplicateOwns
    else match processDiff dev v.owns [] (dedup v.refs) [] s with
      | .error e => .error e
      | .ok s' => processNew dev rest s'

/-- `CallFrame::create_node` + `SubstateIO::create_node` -/
def create (s : St) (n : Nat) (vals : List (Nat × Val)) : Except Err St :=
  if n ∈ s.created then .error .idReused
  else if !keysIncreasing vals then .error .badKeys
  else
    let dev := if isGlobal n then Dev.store else Dev.heap
    match processNew dev vals s with
    | .error e => .error e
    | .ok s1 =>
      let s2 := if isGlobal n then { s1 with stable := upd s1.stable n true } else insertOwned s1 n
      .ok { s2 with node := upd s2.node n (some ⟨dev, vals⟩), created := n :: s2.created }

/-- the per-substate loop of `CallFrame::drop_node` (`SubstateDiff::from_drop_substate`) -/
def processDropped : List (Nat × Val) → St → Except Err St
  | [], s => .ok s
  | (_, v) :: rest, s =>
    if hasDup v.owns then .error .panic
    else match processDiff .heap [] v.owns [] (dedup v.refs) s with
      | .error e => .error e
      | .ok s' => processDropped rest s'

/-- `CallFrame::drop_node` + `SubstateIO::drop_node(Heap, ..)` -/
def drop (s : St) (n : Nat) : Except Err St :=
  match takeNode s n with
  | .error e => .error e
  | .ok s1 =>
    if nodeIsLocked s1 n then .error .substateBorrowed
    else if ngrReferenced s1 n then .error .nodeBorrowed
    else match s1.node n with
      | some ⟨.heap, subs⟩ =>
        match processDropped subs { s1 with node := upd s1.node n none } with
        | .error e => .error e
        | .ok s3 => .ok { s3 with pinned := upd s3.pinned n false }
      | _ => .error .panic

def transInc (t : Nat → Option (Nat × Origin)) (n : Nat) (o : Origin) : Nat → Option (Nat × Origin) :=
  upd t n (match t n with
    | some (c, o') => some (c + 1, o')
    | none => some (1, o))

/-- `transient_references.remove(x).unwrap()`, re-inserted with `ref_count - 1` when it was `> 1` -/
def transDec (t : Nat → Option (Nat × Origin)) (n : Nat) : Option (Nat → Option (Nat × Origin)) :=
  match t n with
  | none => none
  | some (c, o) => some (upd t n (if c > 1 then some (c - 1, o) else none))

def transIncOwns (o : Origin) : List Nat → St → St
  | [], s => s
  | n :: r, s => transIncOwns o r { s with trans := transInc s.trans n o }

def transIncRefs : List Nat → St → Except Err St
  | [], s => .ok s
  | r :: rs, s =>
    if isGlobal r then transIncRefs rs s
    else match s.ngr r with
      | some (d, c) =>
        if c = 0 then .error .panic
        else transIncRefs rs { s with trans := transInc s.trans r (.sub d) }
      | none => .error .panic

def transDecOwns : List Nat → St → Except Err St
  | [], s => .ok s
  | n :: r, s =>
    match transDec s.trans n with
    | none => .error .panic
    | some t => transDecOwns r { s with trans := t }

def transDecRefs : List Nat → St → Except Err St
  | [], s => .ok s
  | r :: rs, s =>
    if isGlobal r then transDecRefs rs s
    else match transDec s.trans r with
      | none => .error .panic
      | some t => transDecRefs rs { s with trans := t }

/-- `apply_diff_to_open_substate` (effect on `transient_references`) -/
def applyDiff (origin : Origin) (addedOwns removedOwns addedRefs removedRefs : List Nat) (s : St) :
    Except Err St :=
  let s1 := transIncOwns origin addedOwns s
  match transDecOwns removedOwns s1 with
  | .error e => .error e
  | .ok s2 =>
    match transIncRefs addedRefs s2 with
    | .error e => .error e
    | .ok s3 => transDecRefs removedRefs s3

def findOpen (h : Nat) : List (Nat × Open) → Option Open
  | [] => none
  | (h', o) :: r => if h' = h then some o else findOpen h r

/-- `CallFrame::open_substate` + `SubstateIO::open_substate` (no default value, no
`UNMODIFIED_BASE`); returns the new state and the frame's substate handle -/
def openSub (s : St) (n k : Nat) (mutable : Bool) : Except Err (St × Nat) :=
  match nodeRef s n with
  | none => .error .nodeNotVisible
  | some origin =>
    let dev := origin.dev
    let val : Option Val := match s.node n with
      | some nd => if nd.dev = dev then lookup k nd.subs else none
      | none => none
    match val with
    | none => .error .substateFault
    | some v =>
      match Locks.lock s.locks (n, 0, k) (!mutable) with
      | (_, none) => .error .substateLocked
      | (l', some gh) =>
        if hasDup v.owns then .error .panic
        else
          let s1 := stableGlobals { s with locks := l' } v.refs
          let refs := dedup v.refs
          match applyDiff origin v.owns [] refs [] s1 with
          | .error e => .error e
          | .ok s2 =>
            let o : Open := { node := n, key := k, dev := dev, origin := origin, gh := gh,
                              mutable := mutable, owns := v.owns, refs := refs }
            .ok ({ s2 with opens := (s.nextH, o) :: s2.opens, nextH := s.nextH + 1 }, s.nextH)

/-- `CallFrame::read_substate` -/
def readSub (s : St) (h : Nat) : Except Err Val :=
  match findOpen h s.opens with
  | none => .error .handleNotFound
  | some o =>
    match s.node o.node with
    | some nd => match lookup o.key nd.subs with
      | some v => .ok v
      | none => .error .panic
    | none => .error .panic

/-- `CallFrame::write_substate` + `SubstateIO::write_substate` -/
def writeSub (s : St) (h : Nat) (v : Val) : Except Err St :=
  match findOpen h s.opens with
  | none => .error .handleNotFound
  | some o =>
    if !o.mutable then .error .noWritePermission
    else if hasDup v.owns then .error .containsDuplicateOwns
    else
      let addedOwns := v.owns.filter (fun x => !o.owns.contains x)
      let removedOwns := o.owns.filter (fun x => !v.owns.contains x)
      let newRefs := dedup v.refs
      let addedRefs := newRefs.filter (fun x => !o.refs.contains x)
      let removedRefs := o.refs.filter (fun x => !newRefs.contains x)
      match processDiff o.dev addedOwns removedOwns addedRefs removedRefs s with
      | .error e => .error e
      | .ok s1 =>
        match applyDiff o.origin addedOwns removedOwns addedRefs removedRefs s1 with
        | .error e => .error e
        | .ok s2 =>
          match s2.node o.node with
          | none => .error .panic
          | some nd =>
            let o' : Open := { o with owns := v.owns, refs := newRefs }
            .ok { s2 with
                  node := upd s2.node o.node (some ⟨nd.dev, setVal o.key v nd.subs⟩)
                  opens := (h, o') :: s2.opens.filter (fun p => p.1 != h) }

/-- `CallFrame::close_substate` -/
def closeSub (s : St) (h : Nat) : Except Err St :=
  match findOpen h s.opens with
  | none => .error .handleNotFound
  | some o =>
    if o.owns.any (nodeIsLocked s) then .error .closeBorrowed
    else match Locks.unlock s.locks o.gh with
      | none => .error .panic
      | some (l', _) =>
        match applyDiff o.origin [] o.owns [] o.refs { s with locks := l' } with
        | .error e => .error e
        | .ok s1 => .ok { s1 with opens := s1.opens.filter (fun p => p.1 != h) }

/-- `CallFrame::pin_node` -/
def pin (s : St) (n : Nat) : Except Err St :=
  match nodeRef s n with
  | none => .error .nodeNotVisible
  | some o =>
    match o.dev with
    | .heap => .ok { s with pinned := upd s.pinned n true }
    | .store => .ok s

inductive Op where
  | create (n : Nat) (vals : List (Nat × Val))
  | drop (n : Nat)
  | openSub (n k : Nat) (mutable : Bool)
  | read (h : Nat)
  | write (h : Nat) (v : Val)
  | close (h : Nat)
  | pin (n : Nat)

def step (s : St) : Op → Except Err St
  | .create n vals => create s n vals
  | .drop n => drop s n
  | .openSub n k m => (openSub s n k m).map (·.1)
  | .read h => (readSub s h).map (fun _ => s)
  | .write h v => writeSub s h v
  | .close h => closeSub s h
  | .pin n => pin s n

/-- run a list of kernel calls; stops at the first error (the transaction aborts) -/
def run : List Op → St → Except Err St
  | [], s => .ok s
  | op :: r, s =>
    match step s op with
    | .error e => .error e
    | .ok s' => run r s'

end Radix.Own
