/-
C46 — MiniWasm and the gas-metering transformation.

* `Code` is structured WebAssembly code (blocks of empty type) over i64 values and i32 conditions, with direct
  calls, `br`/`br_if`/`return`, `unreachable` and the trapping `div_u`/`rem_u`.  Every instruction carries a
  field `g`: the amount of the gas charge (`i64.const g; call $gas`) placed immediately before it, `0` = none.
  The un-instrumented program has `g = 0` everywhere; instrumentation only sets `g` fields
  (`WasmModule::inject_instruction_metering` = `radix_wasm_instrument::gas_metering::inject` with the host-function
  backend inserts exactly such pairs of instructions and changes nothing else in a function body).
* `exec` is a big-step semantics with fuel; `budget` is the execution budget of the host `gas` function
  (`none` = unlimited).
* `meter` transcribes `determine_metered_blocks` + `insert_metering_calls` of radix-wasm-instrument 1.0.0
  (`Counter`: control-block stack, active metered block, `lowest_forward_br_target`, merging of a `block`'s
  first metered block into the enclosing one), driven by a pre-order walk of the structured code whose cursor is
  the index of the instruction in the flat operator sequence.

Core Lean only.
-/
namespace Radix.WasmMeter

inductive Bin | add | sub | mul | divU | remU | and | or | xor | shl | shrU
deriving DecidableEq, Repr

inductive Cmp | eq | ne | ltU | gtU
deriving DecidableEq, Repr

inductive Op
  | const (v : Nat)
  | bin (b : Bin)
  | cmp (c : Cmp)
  | eqz
  | extend            -- i64.extend_i32_u
  | localGet (i : Nat) | localSet (i : Nat) | localTee (i : Nat)
  | drop | select | nop
  | br (d : Nat) | brIf (d : Nat) | ret
  | call (f : Nat)
  | unreachable
deriving DecidableEq, Repr

inductive Code
  | done
  | op (g : Nat) (o : Op) (k : Code)
  | block (g : Nat) (body k : Code)
  | loop (g : Nat) (body k : Code)
  | ite (g : Nat) (t e k : Code)
deriving Repr

structure Func where
  params : Nat
  locals : Nat
  body : Code
deriving Repr

inductive Trap | unreachable | divByZero
deriving DecidableEq, Repr

structure St where
  stack : List Nat
  locals : List Nat
  gas : Nat
deriving DecidableEq, Repr

inductive Res
  | fall (st : St)
  | br (d : Nat) (st : St)
  | ret (st : St)
  | trap (t : Trap) (gas : Nat)
  | oog (gas : Nat)
  | timeout
  | stuck           -- ill-typed program (stack underflow, bad index): never for validated code
deriving DecidableEq, Repr

def M64 : Nat := 18446744073709551616

def evalBin (b : Bin) (x y : Nat) : Option Nat :=
  match b with
  | .add => some ((x + y) % M64)
  | .sub => some ((x + M64 - y) % M64)
  | .mul => some ((x * y) % M64)
  | .divU => if y = 0 then none else some (x / y)
  | .remU => if y = 0 then none else some (x % y)
  | .and => some (Nat.land x y)
  | .or => some (Nat.lor x y)
  | .xor => some (Nat.xor x y)
  | .shl => some ((x <<< (y % 64)) % M64)
  | .shrU => some (x >>> (y % 64))

def evalCmp (c : Cmp) (x y : Nat) : Nat :=
  match c with
  | .eq => if x = y then 1 else 0
  | .ne => if x = y then 0 else 1
  | .ltU => if x < y then 1 else 0
  | .gtU => if x > y then 1 else 0

/-- the host `gas` function: charge `g` (no call at all when `g = 0`) -/
def charge (budget : Option Nat) (g : Nat) (st : St) : Option St :=
  match budget with
  | none => some { st with gas := st.gas + g }
  | some b => if st.gas + g > b then none else some { st with gas := st.gas + g }

def setNth : List Nat → Nat → Nat → Option (List Nat)
  | [], _, _ => none
  | _ :: r, 0, v => some (v :: r)
  | x :: r, i + 1, v => (setNth r i v).map (x :: ·)

/-- result of a function body → result of the `call` instruction (one i64 result) -/
def callResult (caller : St) (rest : List Nat) : Res → Res
  | .fall st | .ret st | .br _ st =>
    match st.stack with
    | v :: _ => .fall { stack := v :: rest, locals := caller.locals, gas := st.gas }
    | [] => .stuck
  | r => r

/-- sequencing: continue with `f` after a normal completion -/
def Res.andThen (r : Res) (f : St → Res) : Res :=
  match r with
  | .fall st => f st
  | r => r

/-- leaving a `block`/`if`: normal completion or a branch to its label continue after the construct with the
operand stack of the entry; outer branches lose one level -/
def Res.leave (r : Res) (outer : List Nat) (f : St → Res) : Res :=
  match r with
  | .fall st | .br 0 st => f { st with stack := outer }
  | .br (d + 1) st => .br d st
  | r => r

/-- a non-control instruction: `none` = ill-typed, `some (.inl trap)`, `some (.inr st')` -/
def stepOp (o : Op) (st : St) : Option (Trap ⊕ St) :=
  match o with
  | .const v => some (.inr { st with stack := v % M64 :: st.stack })
  | .bin b =>
    match st.stack with
    | y :: x :: r =>
      match evalBin b x y with
      | some v => some (.inr { st with stack := v :: r })
      | none => some (.inl .divByZero)
    | _ => none
  | .cmp c =>
    match st.stack with
    | y :: x :: r => some (.inr { st with stack := evalCmp c x y :: r })
    | _ => none
  | .eqz =>
    match st.stack with
    | x :: r => some (.inr { st with stack := (if x = 0 then 1 else 0) :: r })
    | _ => none
  | .extend =>
    match st.stack with
    | x :: r => some (.inr { st with stack := x :: r })
    | _ => none
  | .localGet i =>
    match st.locals[i]? with
    | some v => some (.inr { st with stack := v :: st.stack })
    | none => none
  | .localSet i =>
    match st.stack with
    | x :: r =>
      match setNth st.locals i x with
      | some ls => some (.inr { st with stack := r, locals := ls })
      | none => none
    | _ => none
  | .localTee i =>
    match st.stack with
    | x :: r =>
      match setNth st.locals i x with
      | some ls => some (.inr { st with stack := x :: r, locals := ls })
      | none => none
    | _ => none
  | .drop =>
    match st.stack with
    | _ :: r => some (.inr { st with stack := r })
    | _ => none
  | .select =>
    match st.stack with
    | c :: b :: a :: r => some (.inr { st with stack := (if c = 0 then b else a) :: r })
    | _ => none
  | .nop => some (.inr st)
  | .unreachable => some (.inl .unreachable)
  | _ => none

/-- continue after a non-control instruction -/
def stepK (r : Option (Trap ⊕ St)) (gas : Nat) (f : St → Res) : Res :=
  match r with
  | none => .stuck
  | some (.inl t) => .trap t gas
  | some (.inr st') => f st'

mutual
/-- big-step execution with fuel (every node consumes one unit) -/
def exec (funcs : List Func) (budget : Option Nat) : Nat → Code → St → Res
  | 0, _, _ => .timeout
  | _ + 1, .done, st => .fall st
  | fuel + 1, .op g o k, st0 =>
    match charge budget g st0 with
    | none => .oog st0.gas
    | some st =>
      match o with
      | .br d => .br d st
      | .brIf d =>
        match st.stack with
        | c :: r => if c = 0 then exec funcs budget fuel k { st with stack := r } else .br d { st with stack := r }
        | _ => .stuck
      | .ret => .ret st
      | .call f =>
        match funcs[f]? with
        | none => .stuck
        | some fn =>
          if st.stack.length < fn.params then .stuck
          else
            (callResult st (st.stack.drop fn.params)
                (exec funcs budget fuel fn.body
                  { stack := [], locals := (st.stack.take fn.params).reverse ++ List.replicate fn.locals 0,
                    gas := st.gas })).andThen (fun st' => exec funcs budget fuel k st')
      | o => stepK (stepOp o st) st.gas (fun st' => exec funcs budget fuel k st')
  | fuel + 1, .block g body k, st0 =>
    match charge budget g st0 with
    | none => .oog st0.gas
    | some st =>
      (exec funcs budget fuel body { st with stack := [] }).leave st.stack (fun st' => exec funcs budget fuel k st')
  | fuel + 1, .loop g body k, st0 =>
    match charge budget g st0 with
    | none => .oog st0.gas
    | some st => loopExec funcs budget fuel body k st.stack { st with stack := [] }
  | fuel + 1, .ite g t e k, st0 =>
    match charge budget g st0 with
    | none => .oog st0.gas
    | some st =>
      match st.stack with
      | c :: r =>
        (exec funcs budget fuel (if c = 0 then e else t) { st with stack := [] }).leave r
          (fun st' => exec funcs budget fuel k st')
      | _ => .stuck

/-- iterations of a loop body (a branch to the loop label re-enters the body) -/
def loopExec (funcs : List Func) (budget : Option Nat) : Nat → Code → Code → List Nat → St → Res
  | 0, _, _, _, _ => .timeout
  | fuel + 1, body, k, outer, st =>
    match exec funcs budget fuel body st with
    | .fall st' => exec funcs budget fuel k { st' with stack := outer }
    | .br 0 st' => loopExec funcs budget fuel body k outer { st' with stack := [] }
    | .br (d + 1) st' => .br d st'
    | r => r
end

/-- `invoke_export`: call function `f` with `args` from the host -/
def run (funcs : List Func) (budget : Option Nat) (fuel : Nat) (f : Nat) (args : List Nat) : Res :=
  match funcs[f]? with
  | none => .stuck
  | some fn =>
    if args.length ≠ fn.params then .stuck
    else callResult ⟨[], [], 0⟩ []
      (exec funcs budget fuel fn.body { stack := [], locals := args ++ List.replicate fn.locals 0, gas := 0 })

/-! ### Instruction costs (`Rules::instruction_cost` of `WasmValidatorConfigV1`) -/

structure Weights where
  const : Nat
  bin : Bin → Nat
  cmp : Cmp → Nat
  eqz : Nat
  extend : Nat
  localGet : Nat
  localSet : Nat
  localTee : Nat
  drop : Nat
  select : Nat
  nop : Nat
  br : Nat
  brIf : Nat
  ret : Nat
  call : Nat
  unreachable : Nat
  block : Nat
  loop : Nat
  ite : Nat
  perLocal : Nat

def opCost (w : Weights) : Op → Nat
  | .const _ => w.const | .bin b => w.bin b | .cmp c => w.cmp c | .eqz => w.eqz | .extend => w.extend
  | .localGet _ => w.localGet | .localSet _ => w.localSet | .localTee _ => w.localTee
  | .drop => w.drop | .select => w.select | .nop => w.nop
  | .br _ => w.br | .brIf _ => w.brIf | .ret => w.ret | .call _ => w.call | .unreachable => w.unreachable

/-! ### `determine_metered_blocks` -/

structure MBlock where
  start : Nat
  cost : Nat
deriving DecidableEq, Repr

structure CBlock where
  lowest : Nat            -- lowest_forward_br_target
  active : MBlock         -- active_metered_block
  isLoop : Bool
deriving Repr

structure Counter where
  stack : List CBlock     -- head = innermost control block
  finalized : List MBlock
deriving Repr

/-- `Counter::begin_control_block` -/
def Counter.begin (c : Counter) (cursor : Nat) (isLoop : Bool) : Counter :=
  { c with stack := ⟨c.stack.length, ⟨cursor, 0⟩, isLoop⟩ :: c.stack }

/-- `Counter::finalize_metered_block` (`none` = the `stack not found` error) -/
def Counter.finalizeMetered (c : Counter) (cursor : Nat) : Option Counter :=
  match c.stack with
  | [] => none
  | top :: rest =>
    let closing := top.active
    let top' := { top with active := ⟨cursor + 1, 0⟩ }
    match rest with
    | prev :: rest' =>
      if closing.start = prev.active.start then
        some { c with stack := top' :: { prev with active := { prev.active with cost := prev.active.cost + closing.cost } } :: rest' }
      else if closing.cost > 0 then some { stack := top' :: rest, finalized := closing :: c.finalized }
      else some { c with stack := top' :: rest }
    | [] =>
      if closing.cost > 0 then some { stack := [top'], finalized := closing :: c.finalized }
      else some { c with stack := [top'] }

/-- `Counter::finalize_control_block` -/
def Counter.finalizeControl (c : Counter) (cursor : Nat) : Option Counter :=
  match c.finalizeMetered cursor with
  | none => none
  | some c1 =>
    match c1.stack with
    | [] => none
    | closing :: rest =>
      let idx := rest.length
      match rest with
      | [] => some { c1 with stack := [] }
      | top :: rest' =>
        let c2 : Counter := { c1 with stack := { top with lowest := min top.lowest closing.lowest } :: rest' }
        if closing.lowest < idx then c2.finalizeMetered cursor else some c2

/-- `Counter::branch`; `indices` are stack positions counted from the bottom (0 = function block) -/
def Counter.branch (c : Counter) (cursor : Nat) (indices : List Nat) : Option Counter :=
  match c.finalizeMetered cursor with
  | none => none
  | some c1 =>
    indices.foldl (fun acc idx =>
      match acc with
      | none => none
      | some (cc : Counter) =>
        -- stack.get(index): index from the bottom
        let n := cc.stack.length
        if idx ≥ n then none
        else
          match cc.stack[n - 1 - idx]?, cc.stack with
          | some tgt, top :: rest =>
            if tgt.isLoop then some cc
            else some { cc with stack := { top with lowest := min top.lowest idx } :: rest }
          | _, _ => none) (some c1)

/-- `Counter::increment` -/
def Counter.increment (c : Counter) (v : Nat) : Option Counter :=
  match c.stack with
  | [] => none
  | top :: rest => some { c with stack := { top with active := { top.active with cost := top.active.cost + v } } :: rest }

/-- label `d` seen from the active control block → stack position from the bottom -/
def Counter.target (c : Counter) (d : Nat) : Option Nat :=
  if c.stack.length = 0 then none
  else if d > c.stack.length - 1 then none else some (c.stack.length - 1 - d)

/-- the walk: `cursor` is the index of the next operator of the flat sequence; returns the counter and the
cursor after the code (the closing `end`/`else` of the enclosing construct is handled by the caller) -/
def walk (w : Weights) : Code → Counter → Nat → Option (Counter × Nat)
  | .done, c, cur => some (c, cur)
  | .op _ o k, c, cur =>
    match c.increment (opCost w o) with
    | none => none
    | some c1 =>
      let c2 : Option Counter :=
        match o with
        | .br d | .brIf d =>
          match c1.target d with
          | none => none
          | some t => c1.branch cur [t]
        | .ret => c1.branch cur [0]
        | _ => some c1
      match c2 with
      | none => none
      | some c2 => walk w k c2 (cur + 1)
  | .block _ body k, c, cur =>
    match c.increment w.block with
    | none => none
    | some c1 =>
      match c1.stack with
      | [] => none
      | top :: _ =>
        match walk w body (c1.begin top.active.start false) (cur + 1) with
        | none => none
        | some (c2, cur2) =>
          -- `end` at cur2
          match c2.finalizeControl cur2 with
          | none => none
          | some c3 => walk w k c3 (cur2 + 1)
  | .loop _ body k, c, cur =>
    match c.increment w.loop with
    | none => none
    | some c1 =>
      match walk w body (c1.begin (cur + 1) true) (cur + 1) with
      | none => none
      | some (c2, cur2) =>
        match c2.finalizeControl cur2 with
        | none => none
        | some c3 => walk w k c3 (cur2 + 1)
  | .ite _ t e k, c, cur =>
    match c.increment w.ite with
    | none => none
    | some c1 =>
      match walk w t (c1.begin (cur + 1) false) (cur + 1) with
      | none => none
      | some (c2, cur2) =>
        -- `else` at cur2
        match c2.finalizeMetered cur2 with
        | none => none
        | some c3 =>
          match walk w e c3 (cur2 + 1) with
          | none => none
          | some (c4, cur4) =>
            match c4.finalizeControl cur4 with
            | none => none
            | some c5 => walk w k c5 (cur4 + 1)

/-- metered blocks of a function body with `locals` declared locals (position, cost), as the set the real code
sorts by position -/
def meteredBlocks (w : Weights) (locals : Nat) (body : Code) : Option (List MBlock) :=
  match (Counter.begin ⟨[], []⟩ 0 false).increment (w.perLocal * locals) with
  | none => none
  | some c0 =>
    match walk w body c0 0 with
    | none => none
    | some (c1, cur) =>
      -- the function's final `end`
      match c1.finalizeControl cur with
      | none => none
      | some c2 => some c2.finalized

def costAt (bs : List MBlock) (pos : Nat) : Nat :=
  match bs.find? (fun b => b.start = pos) with
  | some b => b.cost
  | none => 0

/-! ### `insert_metering_calls`: set the charge of the instruction at each block start -/

def annotate (bs : List MBlock) : Code → Nat → Code × Nat
  | .done, cur => (.done, cur)
  | .op _ o k, cur =>
    let (k', c') := annotate bs k (cur + 1)
    (.op (costAt bs cur) o k', c')
  | .block _ body k, cur =>
    let (b', c1) := annotate bs body (cur + 1)
    let (k', c2) := annotate bs k (c1 + 1)
    (.block (costAt bs cur) b' k', c2)
  | .loop _ body k, cur =>
    let (b', c1) := annotate bs body (cur + 1)
    let (k', c2) := annotate bs k (c1 + 1)
    (.loop (costAt bs cur) b' k', c2)
  | .ite _ t e k, cur =>
    let (t', c1) := annotate bs t (cur + 1)
    let (e', c2) := annotate bs e (c1 + 1)
    let (k', c3) := annotate bs k (c2 + 1)
    (.ite (costAt bs cur) t' e' k', c3)

/-- positions of the flat sequence at which an instruction (not `else`/`end`) sits -/
def instrPositions : Code → Nat → List Nat × Nat
  | .done, cur => ([], cur)
  | .op _ _ k, cur =>
    let (ps, c') := instrPositions k (cur + 1)
    (cur :: ps, c')
  | .block _ body k, cur | .loop _ body k, cur =>
    let (p1, c1) := instrPositions body (cur + 1)
    let (p2, c2) := instrPositions k (c1 + 1)
    (cur :: p1 ++ p2, c2)
  | .ite _ t e k, cur =>
    let (p1, c1) := instrPositions t (cur + 1)
    let (p2, c2) := instrPositions e (c1 + 1)
    let (p3, c3) := instrPositions k (c2 + 1)
    (cur :: p1 ++ p2 ++ p3, c3)

/-- `inject_counter` for one function: `none` when the real code would return an error
(`block should be consume all`: a block that does not start at an instruction) -/
def meterFunc (w : Weights) (f : Func) : Option Func :=
  match meteredBlocks w f.locals f.body with
  | none => none
  | some bs =>
    let ps := (instrPositions f.body 0).1
    if bs.all (fun b => ps.contains b.start) then some { f with body := (annotate bs f.body 0).1 } else none

def allSome {α} : List (Option α) → Option (List α)
  | [] => some []
  | none :: _ => none
  | some x :: r => (allSome r).map (x :: ·)

def meter (w : Weights) (funcs : List Func) : Option (List Func) := allSome (funcs.map (meterFunc w))

/-- remove every gas charge -/
def strip : Code → Code
  | .done => .done
  | .op _ o k => .op 0 o (strip k)
  | .block _ b k => .block 0 (strip b) (strip k)
  | .loop _ b k => .loop 0 (strip b) (strip k)
  | .ite _ t e k => .ite 0 (strip t) (strip e) (strip k)

def stripFunc (f : Func) : Func := { f with body := strip f.body }

end Radix.WasmMeter
