import RadixModel.Generated.C34
/-
C34 — model of the *limit checks* of static transaction validation.

Transcribed code (`radix-transactions/src/validation/`)
* `transaction_validator_v1.rs`   `validate_header_v1`, `validate_message_v1`, instruction-count check
                                  of `validate_instructions_v1`
* `transaction_validator_v2.rs`   `validate_transaction_header_v2`, `validate_intent_header_v2`,
                                  `validate_message_v2`, instruction-count check of `validate_manifest_v2`,
                                  `validate_transaction_tree_v2` (the `v2_transactions_allowed` gate)
* `transaction_structure_validator.rs`  `AcrossIntentAggregation::{start, update_headers,
                                  record_reference_count, finalize}`
* `signature_validator.rs`        the signature-*count* checks of `AllPendingSignatureValidations::
                                  {new_with_root, add_non_root, validate_all}` (cryptography is C33)
* `transaction_validation_configuration.rs`  the two configuration tables, via `Generated/C34.lean`

Transcription notes
* `u64` epochs / `usize` counts are `Nat`; `Epoch::after` (`checked_add`) and `saturating_add` are
  modelled with explicit bounds. `Instant` (`i64` seconds) is `Int`.
* Results are `Except`; every early `return Err(..)` keeps its place in the order of checks.
* A message is abstracted to the lengths/counts the validator reads. `decryptors_by_curve` is an
  `IndexMap`, modelled as the list of its entries in iteration order.
-/
namespace Radix.TxValidation

def U64MAX : Nat := 18446744073709551615
/-- `usize::MAX` on the 64-bit targets the node runs on -/
def USIZEMAX : Nat := 18446744073709551615

/-- `MessageValidationConfig` -/
structure MsgCfg where
  maxPlaintext : Nat
  maxEncrypted : Nat
  maxMime : Nat
  maxDecryptors : Nat
  deriving DecidableEq, Repr

/-- `TransactionValidationConfigV1` (numeric / boolean limit fields) -/
structure Config where
  maxSignerSigsPerIntent : Nat
  maxRefsPerIntent : Nat
  minTipPct : Nat
  maxTipPct : Nat
  maxEpochRange : Nat
  maxInstructions : Nat
  msg : MsgCfg
  v2Allowed : Bool
  minTipBps : Nat
  maxTipBps : Nat
  maxSubintentDepth : Nat
  maxTotalSigValidations : Nat
  maxTotalRefs : Nat
  deriving DecidableEq, Repr

open Radix.Generated.C34 in
/-- `TransactionValidationConfig::babylon()` as the compiled tree sees it -/
def babylon : Config :=
  { maxSignerSigsPerIntent := BABYLON_MAX_SIGNER_SIGNATURES_PER_INTENT
    maxRefsPerIntent := BABYLON_MAX_REFERENCES_PER_INTENT
    minTipPct := BABYLON_MIN_TIP_PERCENTAGE
    maxTipPct := BABYLON_MAX_TIP_PERCENTAGE
    maxEpochRange := BABYLON_MAX_EPOCH_RANGE
    maxInstructions := BABYLON_MAX_INSTRUCTIONS
    msg := { maxPlaintext := BABYLON_MSG_MAX_PLAINTEXT, maxEncrypted := BABYLON_MSG_MAX_ENCRYPTED,
             maxMime := BABYLON_MSG_MAX_MIME, maxDecryptors := BABYLON_MSG_MAX_DECRYPTORS }
    v2Allowed := BABYLON_V2_ALLOWED != 0
    minTipBps := BABYLON_MIN_TIP_BASIS_POINTS
    maxTipBps := BABYLON_MAX_TIP_BASIS_POINTS
    maxSubintentDepth := BABYLON_MAX_SUBINTENT_DEPTH
    maxTotalSigValidations := BABYLON_MAX_TOTAL_SIGNATURE_VALIDATIONS
    maxTotalRefs := BABYLON_MAX_TOTAL_REFERENCES }

open Radix.Generated.C34 in
/-- `TransactionValidationConfig::cuttlefish()` (= `latest()`) as the compiled tree sees it -/
def cuttlefish : Config :=
  { maxSignerSigsPerIntent := CUTTLEFISH_MAX_SIGNER_SIGNATURES_PER_INTENT
    maxRefsPerIntent := CUTTLEFISH_MAX_REFERENCES_PER_INTENT
    minTipPct := CUTTLEFISH_MIN_TIP_PERCENTAGE
    maxTipPct := CUTTLEFISH_MAX_TIP_PERCENTAGE
    maxEpochRange := CUTTLEFISH_MAX_EPOCH_RANGE
    maxInstructions := CUTTLEFISH_MAX_INSTRUCTIONS
    msg := { maxPlaintext := CUTTLEFISH_MSG_MAX_PLAINTEXT, maxEncrypted := CUTTLEFISH_MSG_MAX_ENCRYPTED,
             maxMime := CUTTLEFISH_MSG_MAX_MIME, maxDecryptors := CUTTLEFISH_MSG_MAX_DECRYPTORS }
    v2Allowed := CUTTLEFISH_V2_ALLOWED != 0
    minTipBps := CUTTLEFISH_MIN_TIP_BASIS_POINTS
    maxTipBps := CUTTLEFISH_MAX_TIP_BASIS_POINTS
    maxSubintentDepth := CUTTLEFISH_MAX_SUBINTENT_DEPTH
    maxTotalSigValidations := CUTTLEFISH_MAX_TOTAL_SIGNATURE_VALIDATIONS
    maxTotalRefs := CUTTLEFISH_MAX_TOTAL_REFERENCES }

/-- `HeaderValidationError` -/
inductive HeaderErr where
  | invalidEpochRange
  | invalidTimestampRange
  | invalidNetwork
  | invalidTip
  | noValidEpochRangeAcrossAllIntents
  | noValidTimestampRangeAcrossAllIntents
  deriving DecidableEq, Repr

/-- `TransactionHeaderV1` (fields read by validation) -/
structure HeaderV1 where
  net : Nat
  startEpoch : Nat
  endEpoch : Nat
  tipPct : Nat
  deriving DecidableEq, Repr

/-- `if let Some(required) = self.required_network_id { if header.network_id != required {..} }` -/
def netMismatch : Option Nat → Nat → Bool
  | some r, net => net != r
  | none, _ => false

/-- `if let (Some(min), Some(max)) = .. { if min >= max {..} }` -/
def tsEmpty : Option Int → Option Int → Bool
  | some x, some y => decide (x ≥ y)
  | _, _ => false

/-- the network and epoch checks shared verbatim by `validate_header_v1` and
`validate_intent_header_v2` -/
def checkNetEpoch (c : Config) (req : Option Nat) (net s e : Nat) : Except HeaderErr Unit :=
  -- network
  if netMismatch req net then .error .invalidNetwork
  -- epoch
  else if e ≤ s then .error .invalidEpochRange
  -- `start.after(max_epoch_range).ok_or(InvalidEpochRange)?`
  else if s + c.maxEpochRange > U64MAX then .error .invalidEpochRange
  else if e > s + c.maxEpochRange then .error .invalidEpochRange
  else .ok ()

/-- `TransactionValidator::validate_header_v1` -/
def validateHeaderV1 (c : Config) (req : Option Nat) (h : HeaderV1) : Except HeaderErr Unit :=
  match checkNetEpoch c req h.net h.startEpoch h.endEpoch with
  | .error e => .error e
  | .ok () =>
    if h.tipPct < c.minTipPct ∨ h.tipPct > c.maxTipPct then .error .invalidTip
    else .ok ()

/-- `TransactionValidator::validate_transaction_header_v2` -/
def validateTxHeaderV2 (c : Config) (tipBps : Nat) : Except HeaderErr Unit :=
  if tipBps < c.minTipBps ∨ tipBps > c.maxTipBps then .error .invalidTip else .ok ()

/-- `IntentHeaderV2` (fields read by validation) -/
structure IntentHeaderV2 where
  net : Nat
  startEpoch : Nat
  endEpoch : Nat
  minTs : Option Int
  maxTs : Option Int
  deriving DecidableEq, Repr

/-- `AcrossIntentAggregation` -/
structure Agg where
  totalRefs : Nat
  startEpoch : Nat
  endEpoch : Nat
  startTs : Option Int
  endTs : Option Int
  deriving DecidableEq, Repr

/-- `AcrossIntentAggregation::start` -/
def Agg.start : Agg :=
  { totalRefs := 0, startEpoch := 0, endEpoch := U64MAX, startTs := none, endTs := none }

/-- `if self.overall_start_timestamp_inclusive.is_none() || ...is_some_and(|t| new > t) { .. = Some(new) }` -/
def mergeLo (cur new : Option Int) : Option Int :=
  match new with
  | some t =>
    (match cur with
     | none => some t
     | some c => if t > c then some t else some c)
  | none => cur

/-- `if self.overall_end_timestamp_exclusive.is_none() || ...is_some_and(|t| new < t) { .. = Some(new) }` -/
def mergeHi (cur new : Option Int) : Option Int :=
  match new with
  | some t =>
    (match cur with
     | none => some t
     | some c => if t < c then some t else some c)
  | none => cur

/-- `AcrossIntentAggregation::update_headers` -/
def Agg.updateHeaders (a : Agg) (s e : Nat) (ts te : Option Int) : Except HeaderErr Agg :=
  let s' := if s > a.startEpoch then s else a.startEpoch
  let e' := if e < a.endEpoch then e else a.endEpoch
  if s' ≥ e' then .error .noValidEpochRangeAcrossAllIntents
  else if tsEmpty (mergeLo a.startTs ts) (mergeHi a.endTs te) then .error .noValidTimestampRangeAcrossAllIntents
  else .ok { a with startEpoch := s', endEpoch := e', startTs := mergeLo a.startTs ts, endTs := mergeHi a.endTs te }

/-- `TransactionValidator::validate_intent_header_v2` -/
def validateIntentHeaderV2 (c : Config) (req : Option Nat) (h : IntentHeaderV2) (a : Agg) : Except HeaderErr Agg :=
  match checkNetEpoch c req h.net h.startEpoch h.endEpoch with
  | .error e => .error e
  | .ok () =>
    if tsEmpty h.minTs h.maxTs then .error .invalidTimestampRange
    else a.updateHeaders h.startEpoch h.endEpoch h.minTs h.maxTs

/-- `TooManyReferences { total, limit }` -/
structure RefErr where
  total : Nat
  limit : Nat
  deriving DecidableEq, Repr

/-- `AcrossIntentAggregation::record_reference_count` -/
def Agg.recordReferenceCount (a : Agg) (count : Nat) (c : Config) : Except RefErr Agg :=
  if count > c.maxRefsPerIntent then .error { total := count, limit := c.maxRefsPerIntent }
  else
    -- `saturating_add`
    let t := if a.totalRefs + count > USIZEMAX then USIZEMAX else a.totalRefs + count
    .ok { a with totalRefs := t }

/-- `OverallValidityRangeV2` -/
structure Overall where
  startEpoch : Nat
  endEpoch : Nat
  startTs : Option Int
  endTs : Option Int
  deriving DecidableEq, Repr

/-- `AcrossIntentAggregation::finalize` -/
def Agg.finalize (a : Agg) (c : Config) : Except RefErr Overall :=
  if a.totalRefs > c.maxTotalRefs then .error { total := a.totalRefs, limit := c.maxTotalRefs }
  else .ok { startEpoch := a.startEpoch, endEpoch := a.endEpoch, startTs := a.startTs, endTs := a.endTs }

/-! ### Header streams: what `validate_intents_and_structure` does with the headers of the root
intent followed by the non-root subintents -/

/-- index of the failing intent + error -/
def foldHeaders (c : Config) (req : Option Nat) : Nat → Agg → List IntentHeaderV2 → Except (Nat × HeaderErr) Agg
  | _, a, [] => .ok a
  | i, a, h :: hs =>
    match validateIntentHeaderV2 c req h a with
    | .error e => .error (i, e)
    | .ok a' => foldHeaders c req (i + 1) a' hs

def foldRefs (c : Config) : Nat → Agg → List Nat → Except (Nat × RefErr) Agg
  | _, a, [] => .ok a
  | i, a, n :: ns =>
    match a.recordReferenceCount n c with
    | .error e => .error (i, e)
    | .ok a' => foldRefs c (i + 1) a' ns

/-! ### Messages -/

inductive Curve where
  | ed25519
  | secp256k1
  deriving DecidableEq, Repr

/-- one entry of `decryptors_by_curve`: map key, `decryptors.curve_type()`, `number_of_decryptors()` -/
structure DecEntry where
  key : Curve
  val : Curve
  count : Nat
  deriving DecidableEq, Repr

/-- `MessageV1` / `MessageV2` reduced to what validation reads -/
inductive Message where
  | none
  | plaintext (mimeLen msgLen : Nat)
  | encrypted (encLen : Nat) (decs : List DecEntry)
  deriving DecidableEq, Repr

/-- `InvalidMessageError` -/
inductive MsgErr where
  | plaintextTooLong (actual permitted : Nat)
  | mimeTooLong (actual permitted : Nat)
  | encryptedTooLong (actual permitted : Nat)
  | noDecryptors
  | mismatchingCurves (actual expected : Curve)
  | tooManyDecryptors (actual permitted : Nat)
  | noDecryptorsForCurve (c : Curve)
  deriving DecidableEq, Repr

/-- the `for (curve_type, decryptors) in decryptors_by_curve.iter()` loop; returns the total -/
def decLoop : Nat → List DecEntry → Except MsgErr Nat
  | total, [] => .ok total
  | total, d :: ds =>
    if d.val ≠ d.key then .error (.mismatchingCurves d.val d.key)
    else if d.count = 0 then .error (.noDecryptorsForCurve d.val)
    else decLoop (total + d.count) ds

/-- `validate_message_v1` and `validate_message_v2` (identical bodies) -/
def validateMessage (v : MsgCfg) : Message → Except MsgErr Unit
  | .none => .ok ()
  | .plaintext mime msg =>
    if mime > v.maxMime then .error (.mimeTooLong mime v.maxMime)
    else if msg > v.maxPlaintext then .error (.plaintextTooLong msg v.maxPlaintext)
    else .ok ()
  | .encrypted enc decs =>
    if enc > v.maxEncrypted then .error (.encryptedTooLong enc v.maxEncrypted)
    else if decs.isEmpty then .error .noDecryptors
    else
      match decLoop 0 decs with
      | .error e => .error e
      | .ok total =>
        if total > v.maxDecryptors then .error (.tooManyDecryptors total v.maxDecryptors)
        else .ok ()

/-! ### Counts -/

/-- the first check of `validate_instructions_v1` / `validate_manifest_v2`; `true` = `TooManyInstructions` -/
def tooManyInstructions (c : Config) (n : Nat) : Bool := decide (n > c.maxInstructions)

/-- where a signature-count error is located -/
inductive SigLoc where
  | root
  | nonRoot (index : Nat)
  | across
  deriving DecidableEq, Repr

structure SigErr where
  loc : SigLoc
  total : Nat
  limit : Nat
  deriving DecidableEq, Repr

/-- `add_non_root` over the subintents in order -/
def sigSubs (c : Config) : Nat → Nat → List Nat → Except SigErr Nat
  | _, total, [] => .ok total
  | i, total, n :: ns =>
    if n > c.maxSignerSigsPerIntent then .error { loc := .nonRoot i, total := n, limit := c.maxSignerSigsPerIntent }
    else sigSubs c (i + 1) (total + n) ns

/-- `new_with_root` + `add_non_root`* (construction of the pending validations): returns
`total_signature_validations`. `notary` = 1 for a transaction intent root, 0 for a subintent root. -/
def sigPending (c : Config) (rootSigs notary : Nat) (subs : List Nat) : Except SigErr Nat :=
  if rootSigs > c.maxSignerSigsPerIntent then .error { loc := .root, total := rootSigs, limit := c.maxSignerSigsPerIntent }
  else sigSubs c 0 (rootSigs + notary) subs

/-- the count check at the top of `validate_all` -/
def sigTotalCheck (c : Config) (total : Nat) : Except SigErr Nat :=
  if total > c.maxTotalSigValidations then .error { loc := .across, total := total, limit := c.maxTotalSigValidations }
  else .ok total

/-! ### A whole V2 transaction, reduced to the quantities the limit checks read.
Order of checks as in `validate_transaction_tree_v2` → `validate_intents_and_structure` →
`validate_v2_intent_core`; everything that is not a limit (structure, manifest interpretation,
cryptography) is outside this model and assumed to pass. -/

structure IntentShape where
  header : IntentHeaderV2
  message : Message
  refs : Nat
  instructions : Nat
  sigs : Nat
  deriving DecidableEq, Repr

inductive TxErr where
  | versionNotPermitted
  | sig (e : SigErr)
  | header (intent : Nat) (e : HeaderErr)
  | message (intent : Nat) (e : MsgErr)
  | refs (intent : Nat) (e : RefErr)
  | tooManyInstructions (intent : Nat)
  | totalRefs (e : RefErr)
  deriving DecidableEq, Repr

/-- `validate_v2_intent_core` (limit checks) -/
def validateIntentCore (c : Config) (req : Option Nat) (i : Nat) (a : Agg) (x : IntentShape) : Except TxErr Agg :=
  match validateIntentHeaderV2 c req x.header a with
  | .error e => .error (.header i e)
  | .ok a1 =>
    match validateMessage c.msg x.message with
    | .error e => .error (.message i e)
    | .ok () =>
      match a1.recordReferenceCount x.refs c with
      | .error e => .error (.refs i e)
      | .ok a2 =>
        if tooManyInstructions c x.instructions then .error (.tooManyInstructions i) else .ok a2

def foldIntents (c : Config) (req : Option Nat) : Nat → Agg → List IntentShape → Except TxErr Agg
  | _, a, [] => .ok a
  | i, a, x :: xs =>
    match validateIntentCore c req i a x with
    | .error e => .error e
    | .ok a' => foldIntents c req (i + 1) a' xs

/-- `validate_notarized_v2`, limit checks only (`intents` = root transaction intent :: non-root
subintents). The transaction header (tip) is validated as part of the root intent
(`PreparedTransactionIntentV2::validate_intent`), before the root intent core. -/
def validateTxV2 (c : Config) (req : Option Nat) (tipBps : Nat) (root : IntentShape) (subs : List IntentShape) :
    Except TxErr (Overall × Nat) :=
  if c.v2Allowed = false then .error .versionNotPermitted
  else
    match sigPending c root.sigs 1 (subs.map (·.sigs)) with
    | .error e => .error (.sig e)
    | .ok total =>
      match validateTxHeaderV2 c tipBps with
      | .error e => .error (.header 0 e)
      | .ok () =>
        match foldIntents c req 0 Agg.start (root :: subs) with
        | .error e => .error e
        | .ok a =>
          match a.finalize c with
          | .error e => .error (.totalRefs e)
          | .ok ov =>
            match sigTotalCheck c total with
            | .error e => .error (.sig e)
            | .ok t => .ok (ov, t)

end Radix.TxValidation
