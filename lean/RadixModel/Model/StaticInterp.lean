/-
C36 — model of `radix-transactions/src/manifest/static_manifest_interpreter.rs`
(`StaticManifestInterpreter`, `ValidationRuleset`, `NextInstructionRequirement`) over the
effect stream of `manifest_instruction_effects.rs`, and a reference model of the run-time id
tables of the transaction processor (`radix-engine/src/system/transaction/intent_processor.rs`,
`IntentProcessorObjects`, and the id use of each instruction in `instructions.rs`).

Transcription notes
* The interpreter's `Vec<BucketState>` etc. are modelled as a length (`nB`) plus total functions
  on indices (`bCons i` = `consumed_at.is_some()`, `bLocks i` = `proof_locks`, `bFung i` =
  `source_amount.resource_address().is_fungible()`); entries at indices `≥ nB` are never read
  (every read is guarded by the `get(i)` bounds check, which is the `i < nB` test here).
  Names, `created_at` / `consumed_at` locations and the `Debug` strings inside errors are not
  modelled (they never influence a decision).
* An `Invocation` effect carries the argument value only through what `handle_invocation` reads of
  it: its SBOR depth (for `manifest_encode`'s `MaxDepthExceeded`) and the sequence of custom
  terminal values in traversal order (`ArgRef`).  Because `manifest_encode` already failed for
  depth `> MANIFEST_SBOR_V1_MAX_DEPTH`, the traverser (same limit) cannot report `DecodeError`;
  the correspondence run exercises depths on both sides of the limit.
* Resource-constraint validity (`ManifestResourceConstraint(s)::is_valid*`, the subject of C37) is
  an input bit of the assertion effect.
* `proof_locks -= 1` on a `u32` holding 0 would panic: explicit outcome `lockUnderflow`
  (theorem `no_lock_underflow`: unreachable).  `proof_locks += 1` overflow (2^32 live proofs of one
  bucket) is outside the model.
* `ManifestLocation`: `Loc.pre` (preamble), `Loc.at i` (instruction i), `Loc.fin` (the checks after
  the last instruction; the real code still has `location = Instruction{last}` there).
-/
namespace Radix.StaticInterp

/-- `ValidationRuleset` -/
structure Rules where
  noDupBlobs : Bool
  blobRefs : Bool
  proofLock : Bool
  noDangling : Bool
  dynAddr : Bool
  resAssert : Bool
  deriving DecidableEq, Repr

def Rules.all : Rules := ⟨true, true, true, true, true, true⟩
def Rules.babylon : Rules := ⟨false, false, true, false, false, false⟩
def Rules.cuttlefish : Rules := ⟨true, true, true, true, true, true⟩

/-- what the interpreter reads from the manifest besides its instructions -/
structure Ctx where
  isSub : Bool
  nChildren : Nat
  nPrealloc : Nat
  blobs : List Nat
  maxDepth : Nat
  deriving Repr

/-- custom terminal values of an invocation's argument, in traversal order -/
inductive ArgRef where
  | bucket (n : Nat)
  | proof (n : Nat)
  | reservation (n : Nat)
  | named (n : Nat)
  | static
  | expr
  | blob (h : Nat)
  | other
  deriving DecidableEq, Repr

inductive InvKind where
  | method (named : Option Nat)
  | function (named : Option Nat)
  | direct
  | yieldParent
  | yieldChild (i : Nat)
  deriving DecidableEq, Repr

inductive Assertion where
  | worktopNonZero
  | worktopAtLeast (negative : Bool)
  | worktopAtLeastNF (resourceIsFungible : Bool)
  | worktopSet (valid : Bool)
  | nextCall (valid : Bool)
  | bucketContents (b : Nat) (validFungible validNonFungible : Bool)
  deriving DecidableEq, Repr

/-- `ManifestInstructionEffect` -/
inductive Effect where
  | createBucket (fungible : Bool)
  | createProof (src : Option Nat)
  | consumeBucket (b : Nat)
  | consumeProof (p : Nat)
  | cloneProof (p : Nat)
  | dropManyProofs (named : Bool)
  | invocation (k : InvKind) (depth : Nat) (args : List ArgRef)
  | createAddressAndReservation
  | assertion (a : Assertion)
  | verification
  deriving DecidableEq, Repr

def Effect.isInvocation : Effect → Bool
  | .invocation _ _ _ => true
  | _ => false

def Effect.isYieldToParent : Effect → Bool
  | .invocation .yieldParent _ _ => true
  | _ => false

/-- `ManifestValidationError` (+ the modelled panic) -/
inductive Err where
  | duplicateBlob (h : Nat)
  | blobNotRegistered (h : Nat)
  | bucketNotYetCreated (b : Nat)
  | bucketAlreadyUsed (b : Nat)
  | bucketLocked (b : Nat)
  | proofNotYetCreated (p : Nat)
  | proofAlreadyUsed (p : Nat)
  | reservationNotYetCreated (r : Nat)
  | reservationAlreadyUsed (r : Nat)
  | namedAddressNotYetCreated (a : Nat)
  | childIntentNotRegistered (i : Nat)
  | danglingBucket (b : Nat)
  | danglingReservation (r : Nat)
  | argsEncodeError
  | notSupportedInTransactionIntent
  | subintentDoesNotEndWithYield
  | proofCannotBePassed
  | invalidResourceConstraint
  | followingNextCallNotInvocation
  | endedExpectingNextCall
  | lockUnderflow
  deriving DecidableEq, Repr

inductive Loc where
  | pre
  | at (i : Nat)
  | fin
  deriving DecidableEq, Repr

structure St where
  nB : Nat
  bFung : Nat → Bool
  bCons : Nat → Bool
  bLocks : Nat → Nat
  nP : Nat
  pSrc : Nat → Option Nat
  pCons : Nat → Bool
  nR : Nat
  rCons : Nat → Bool
  nA : Nat
  nI : Nat
  blobs : List Nat
  pending : Bool

def St.init : St :=
  { nB := 0, bFung := fun _ => false, bCons := fun _ => false, bLocks := fun _ => 0,
    nP := 0, pSrc := fun _ => none, pCons := fun _ => false,
    nR := 0, rCons := fun _ => false, nA := 0, nI := 0, blobs := [], pending := false }

def upd {β : Type} (f : Nat → β) (a : Nat) (b : β) : Nat → β :=
  fun x => if x = a then b else f x

/-- `get_existing_bucket` -/
def getBucket (s : St) (b : Nat) : Except Err Unit :=
  if b < s.nB then (if s.bCons b then .error (.bucketAlreadyUsed b) else .ok ())
  else .error (.bucketNotYetCreated b)

/-- `get_existing_proof` -/
def getProof (s : St) (p : Nat) : Except Err Unit :=
  if p < s.nP then (if s.pCons p then .error (.proofAlreadyUsed p) else .ok ())
  else .error (.proofNotYetCreated p)

/-- `get_existing_address_reservation` -/
def getReservation (s : St) (r : Nat) : Except Err Unit :=
  if r < s.nR then (if s.rCons r then .error (.reservationAlreadyUsed r) else .ok ())
  else .error (.reservationNotYetCreated r)

/-- `get_existing_named_address` -/
def getNamed (s : St) (a : Nat) : Except Err Unit :=
  if a < s.nA then .ok () else .error (.namedAddressNotYetCreated a)

/-- `handle_new_bucket` -/
def newBucket (s : St) (fungible : Bool) : St :=
  { s with nB := s.nB + 1, bFung := upd s.bFung s.nB fungible, bCons := upd s.bCons s.nB false,
           bLocks := upd s.bLocks s.nB 0 }

/-- `consume_bucket` -/
def consumeBucket (r : Rules) (s : St) (b : Nat) : Except Err St :=
  match getBucket s b with
  | .error e => .error e
  | .ok () =>
    if r.proofLock && decide (s.bLocks b > 0) then .error (.bucketLocked b)
    else .ok { s with bCons := upd s.bCons b true }

/-- `handle_new_proof` -/
def newProof (s : St) (src : Option Nat) : Except Err St :=
  match src with
  | some b =>
    (match getBucket s b with
     | .error e => .error e
     | .ok () =>
       .ok { s with bLocks := upd s.bLocks b (s.bLocks b + 1),
                    nP := s.nP + 1, pSrc := upd s.pSrc s.nP (some b), pCons := upd s.pCons s.nP false })
  | none =>
    .ok { s with nP := s.nP + 1, pSrc := upd s.pSrc s.nP none, pCons := upd s.pCons s.nP false }

/-- `handle_cloned_proof` -/
def cloneProof (s : St) (p : Nat) : Except Err St :=
  match getProof s p with
  | .error e => .error e
  | .ok () => newProof s (s.pSrc p)

/-- `consume_proof` -/
def consumeProof (s : St) (p : Nat) : Except Err St :=
  match getProof s p with
  | .error e => .error e
  | .ok () =>
    let s1 := { s with pCons := upd s.pCons p true }
    match s.pSrc p with
    | some b =>
      (match getBucket s1 b with
       | .error e => .error e
       | .ok () =>
         if s1.bLocks b = 0 then .error .lockUnderflow
         else .ok { s1 with bLocks := upd s1.bLocks b (s1.bLocks b - 1) })
    | none => .ok s1

/-- the `for proof in proofs_to_drop` loop of `DropManyProofs { drop_all_named_proofs: true }`:
`n` proofs starting at index `i`; those already consumed are not in `proofs_to_drop`. -/
def dropRange : Nat → Nat → St → Except Err St
  | 0, _, s => .ok s
  | n + 1, i, s =>
    if s.pCons i then dropRange n (i + 1) s
    else match consumeProof s i with
      | .error e => .error e
      | .ok s' => dropRange n (i + 1) s'

/-- `handle_new_address_reservation` -/
def newReservation (s : St) : St :=
  { s with nR := s.nR + 1, rCons := upd s.rCons s.nR false }

/-- `consume_address_reservation` -/
def consumeReservation (s : St) (r : Nat) : Except Err St :=
  match getReservation s r with
  | .error e => .error e
  | .ok () => .ok { s with rCons := upd s.rCons r true }

/-- one custom terminal value of the traversal loop in `handle_invocation` -/
def handleArg (r : Rules) (yields : Bool) (s : St) : ArgRef → Except Err St
  | .named a => (match getNamed s a with | .error e => .error e | .ok () => .ok s)
  | .bucket b => consumeBucket r s b
  | .proof p => if yields then .error .proofCannotBePassed else consumeProof s p
  | .expr => .ok s
  | .blob h =>
    if r.blobRefs && !(s.blobs.contains h) then .error (.blobNotRegistered h) else .ok s
  | .reservation x => consumeReservation s x
  | .static => .ok s
  | .other => .ok s

def handleArgs (r : Rules) (yields : Bool) : St → List ArgRef → Except Err St
  | s, [] => .ok s
  | s, a :: rest =>
    match handleArg r yields s a with
    | .error e => .error e
    | .ok s' => handleArgs r yields s' rest

/-- the first `match invocation_kind` of `handle_invocation`: `Ok yields_across_intent` -/
def invTarget (r : Rules) (c : Ctx) (s : St) : InvKind → Except Err Bool
  | .method (some a) | .function (some a) =>
    if r.dynAddr then (match getNamed s a with | .error e => .error e | .ok () => .ok false)
    else .ok false
  | .method none | .function none | .direct => .ok false
  | .yieldParent => if !c.isSub then .error .notSupportedInTransactionIntent else .ok true
  | .yieldChild i => if i ≥ c.nChildren then .error (.childIntentNotRegistered i) else .ok true

/-- `handle_invocation` -/
def handleInvocation (r : Rules) (c : Ctx) (s : St) (k : InvKind) (depth : Nat) (args : List ArgRef) :
    Except Err St :=
  match invTarget r c s k with
  | .error e => .error e
  | .ok yields =>
    if depth > c.maxDepth then .error .argsEncodeError
    else handleArgs r yields s args

/-- `handle_resource_assertion` -/
def handleAssertion (r : Rules) (s : St) (a : Assertion) : Except Err St :=
  if r.resAssert then
    match a with
    | .worktopNonZero => .ok s
    | .worktopAtLeast neg => if neg then .error .invalidResourceConstraint else .ok s
    | .worktopAtLeastNF f => if f then .error .invalidResourceConstraint else .ok s
    | .worktopSet v => if !v then .error .invalidResourceConstraint else .ok s
    | .nextCall v =>
      if !v then .error .invalidResourceConstraint else .ok { s with pending := true }
    | .bucketContents b vf vnf =>
      (match getBucket s b with
       | .error e => .error e
       | .ok () =>
         if !(if s.bFung b then vf else vnf) then .error .invalidResourceConstraint else .ok s)
  else .ok s

/-- `NextInstructionRequirement::handle_next_instruction` -/
def nextReq (s : St) (e : Effect) : Except Err St :=
  if s.pending then
    (if e.isInvocation then .ok { s with pending := false }
     else .error .followingNextCallNotInvocation)
  else .ok s

/-- `handle_instruction` -/
def step (r : Rules) (c : Ctx) (s : St) (e : Effect) : Except Err St :=
  match nextReq s e with
  | .error er => .error er
  | .ok s =>
    match e with
    | .createBucket f => .ok (newBucket s f)
    | .createProof src => newProof s src
    | .consumeBucket b => consumeBucket r s b
    | .consumeProof p => consumeProof s p
    | .cloneProof p => cloneProof s p
    | .dropManyProofs named => if named then dropRange s.nP 0 s else .ok s
    | .invocation k d args => handleInvocation r c s k d args
    | .createAddressAndReservation => .ok { newReservation s with nA := s.nA + 1 }
    | .assertion a => handleAssertion r s a
    | .verification => if !c.isSub then .error .notSupportedInTransactionIntent else .ok s

/-- `handle_blobs` -/
def registerBlobs (r : Rules) : St → List Nat → Except Err St
  | s, [] => .ok s
  | s, h :: rest =>
    if s.blobs.contains h then
      (if r.noDupBlobs then .error (.duplicateBlob h) else registerBlobs r s rest)
    else registerBlobs r { s with blobs := s.blobs ++ [h] } rest

def addReservations : Nat → St → St
  | 0, s => s
  | n + 1, s => addReservations n (newReservation s)

/-- `handle_preallocated_addresses`, `handle_child_subintents`, `handle_blobs` -/
def preamble (r : Rules) (c : Ctx) : Except Err St :=
  let s := addReservations c.nPrealloc St.init
  registerBlobs r { s with nI := s.nI + c.nChildren } c.blobs

/-- the instruction loop; the index of the failing instruction is returned with the error -/
def runFrom (r : Rules) (c : Ctx) : Nat → St → List Effect → Except (Err × Loc) St
  | _, s, [] => .ok s
  | i, s, e :: rest =>
    match step r c s e with
    | .error er => .error (er, .at i)
    | .ok s' => runFrom r c (i + 1) s' rest

/-- first index `< n` (from `i`) with `cons = false` -/
def firstLive (cons : Nat → Bool) : Nat → Nat → Option Nat
  | 0, _ => none
  | n + 1, i => if cons i then firstLive cons n (i + 1) else some i

/-- `verify_final_instruction` -/
def verifyFinal (c : Ctx) (effects : List Effect) : Except Err Unit :=
  if !c.isSub then .ok ()
  else match effects.getLast? with
    | none => .error .subintentDoesNotEndWithYield
    | some e => if e.isYieldToParent then .ok () else .error .subintentDoesNotEndWithYield

/-- `handle_wrap_up` -/
def wrapUp (r : Rules) (s : St) : Except Err Unit :=
  if s.pending then .error .endedExpectingNextCall
  else if r.noDangling then
    match firstLive s.bCons s.nB 0 with
    | some b => .error (.danglingBucket b)
    | none =>
      match firstLive s.rCons s.nR 0 with
      | some x => .error (.danglingReservation x)
      | none => .ok ()
  else .ok ()

/-- `interpret_internal` with the unit visitor (= `validate`) -/
def interp (r : Rules) (c : Ctx) (effects : List Effect) : Except (Err × Loc) St :=
  match preamble r c with
  | .error e => .error (e, .pre)
  | .ok s0 =>
    match runFrom r c 0 s0 effects with
    | .error e => .error e
    | .ok s =>
      match verifyFinal c effects with
      | .error e => .error (e, .fin)
      | .ok () =>
        match wrapUp r s with
        | .error e => .error (e, .fin)
        | .ok () => .ok s

/-! ## Reference model of the run-time id tables (`IntentProcessorObjects`)

`liveB i` = `bucket_mapping.contains_key(ManifestBucket(i))` etc.; `nB`… = the counters of
`ManifestIdAllocator`. Only the id-table part of every instruction is modelled: everything else an
instruction does either succeeds or aborts the whole transaction with a different error. -/

inductive RtErr where
  | bucketNotFound (b : Nat)
  | proofNotFound (p : Nat)
  | reservationNotFound (r : Nat)
  | addressNotFound (a : Nat)
  | blobNotFound (h : Nat)
  deriving DecidableEq, Repr

structure RT where
  nB : Nat
  liveB : Nat → Bool
  nP : Nat
  liveP : Nat → Bool
  nR : Nat
  liveR : Nat → Bool
  nA : Nat
  blobs : List Nat

/-- `IntentProcessorObjects::new`: one reservation per pre-allocated address; blobs by hash -/
def RT.init (c : Ctx) : RT :=
  { nB := 0, liveB := fun _ => false, nP := 0, liveP := fun _ => false,
    nR := c.nPrealloc, liveR := fun i => decide (i < c.nPrealloc), nA := 0, blobs := c.blobs }

/-- `get_bucket` -/
def RT.getBucket (t : RT) (b : Nat) : Except RtErr Unit :=
  if t.liveB b then .ok () else .error (.bucketNotFound b)

/-- `take_bucket` -/
def RT.takeBucket (t : RT) (b : Nat) : Except RtErr RT :=
  if t.liveB b then .ok { t with liveB := upd t.liveB b false } else .error (.bucketNotFound b)

/-- `create_manifest_bucket` -/
def RT.newBucket (t : RT) : RT := { t with nB := t.nB + 1, liveB := upd t.liveB t.nB true }

/-- `create_manifest_proof` -/
def RT.newProof (t : RT) : RT := { t with nP := t.nP + 1, liveP := upd t.liveP t.nP true }

/-- `take_proof` -/
def RT.takeProof (t : RT) (p : Nat) : Except RtErr RT :=
  if t.liveP p then .ok { t with liveP := upd t.liveP p false } else .error (.proofNotFound p)

/-- `transform(args, …)`: `replace_bucket` / `replace_proof` / … on each custom value -/
def RT.arg (t : RT) : ArgRef → Except RtErr RT
  | .bucket b => t.takeBucket b
  | .proof p => t.takeProof p
  | .reservation r =>
    if t.liveR r then .ok { t with liveR := upd t.liveR r false } else .error (.reservationNotFound r)
  | .named a => if a < t.nA then .ok t else .error (.addressNotFound a)
  | .blob h => if t.blobs.contains h then .ok t else .error (.blobNotFound h)
  | .static | .expr | .other => .ok t

def RT.args : RT → List ArgRef → Except RtErr RT
  | t, [] => .ok t
  | t, a :: rest =>
    match t.arg a with
    | .error e => .error e
    | .ok t' => RT.args t' rest

/-- `resolve_global_address` / `resolve_package_address` -/
def RT.target (t : RT) : InvKind → Except RtErr Unit
  | .method (some a) | .function (some a) => if a < t.nA then .ok () else .error (.addressNotFound a)
  | _ => .ok ()

/-- id-table effect of one instruction at run time -/
def RT.step (t : RT) : Effect → Except RtErr RT
  | .createBucket _ => .ok t.newBucket
  | .createProof (some b) =>
    (match t.getBucket b with | .error e => .error e | .ok () => .ok t.newProof)
  | .createProof none => .ok t.newProof
  | .consumeBucket b => t.takeBucket b
  | .consumeProof p => t.takeProof p
  | .cloneProof p => if t.liveP p then .ok t.newProof else .error (.proofNotFound p)
  | .dropManyProofs named => if named then .ok { t with liveP := fun _ => false } else .ok t
  | .invocation k _ args =>
    (match t.target k with | .error e => .error e | .ok () => t.args args)
  | .createAddressAndReservation =>
    .ok { t with nR := t.nR + 1, liveR := upd t.liveR t.nR true, nA := t.nA + 1 }
  | .assertion (.bucketContents b _ _) =>
    (match t.getBucket b with | .error e => .error e | .ok () => .ok t)
  | .assertion _ => .ok t
  | .verification => .ok t

def RT.run : RT → List Effect → Except RtErr RT
  | t, [] => .ok t
  | t, e :: rest =>
    match t.step e with
    | .error er => .error er
    | .ok t' => RT.run t' rest

end Radix.StaticInterp
