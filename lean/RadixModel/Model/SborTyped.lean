/-
C22 — a universe of Rust type expressions, their typed codecs at the level of values, and the
specification of what their `Describe` implementation must generate.

  `Ty`            bool, the ten integer types, String, (), Option<T>, Vec<T> / [T; n] / BTreeSet<T>,
                  (A, B), BTreeMap<K, V>, Result<A, B>
  `inhabits`      the SBOR values the typed codec of the type produces = the values its typed decoder
                  accepts (sbor/src/codec/{option,result,collection,tuple,…}.rs: value kinds, element
                  kinds, tuple sizes and enum discriminators are checked; nothing else)
  `describes`     "type id `tid` of schema `S` describes `ty`": the kind at `tid` has the shape of `ty`,
                  no validation, children describe the children (independent of how the aggregator
                  orders local types)
The derive macros are not modelled: that the schemas they generate satisfy `describes` is checked on
the real `Describe` output by the correspondence op `desc`.
-/
import RadixModel.Model.SborSchema

namespace Radix.Schema
open Radix.Sbor

inductive Ty where
  | bool
  | int (k : IntK)
  | string
  | unit
  | option (t : Ty)
  | array (t : Ty)
  | pair (a b : Ty)
  | map (k v : Ty)
  | result (a b : Ty)
  deriving Repr

/-- `Categorize::value_kind()` of the Rust type -/
def Ty.vk : Ty → VK ScryptoKind
  | .bool => .bool
  | .int k => .int k
  | .string => .string
  | .unit => .tuple
  | .option _ => .enum
  | .array _ => .array
  | .pair _ _ => .tuple
  | .map _ _ => .map
  | .result _ _ => .enum

/-- Values of the typed codec (what `Encode` produces and `Decode` accepts). -/
def inhabits : Ty → SV → Bool
  | .bool, .bool _ => true
  | .int k, .int k' _ => decide (k' = k)
  | .string, .string _ => true
  | .unit, .tuple fs => fs.isEmpty
  | .option t, .enum d fs =>
    (match d.toNat, fs with
     | 0, [] => true          -- OPTION_VARIANT_NONE
     | 1, [x] => inhabits t x -- OPTION_VARIANT_SOME
     | _, _ => false)
  | .array t, .array ek es => decide (ek = t.vk) && es.all (inhabits t)
  | .pair a b, .tuple fs =>
    (match fs with
     | [x, y] => inhabits a x && inhabits b y
     | _ => false)
  | .map k v, .map kk vk es =>
    decide (kk = k.vk) && decide (vk = v.vk) && es.all (fun e => inhabits k e.1 && inhabits v e.2)
  | .result a b, .enum d fs =>
    (match d.toNat, fs with
     | 0, [x] => inhabits a x  -- RESULT_VARIANT_OK
     | 1, [y] => inhabits b y  -- RESULT_VARIANT_ERR
     | _, _ => false)
  | _, _ => false

def resolvesTo (env : Env) (S : Schema) (tid : TypeId) (k : TypeKind) : Bool :=
  decide (resolveKind env S tid = some k) && decide (resolveValidation env S tid = some .none)

/-- `tid` describes `ty` in `S`. -/
def describes (env : Env) (S : Schema) : TypeId → Ty → Bool
  | tid, .bool => resolvesTo env S tid .bool
  | tid, .int k => resolvesTo env S tid (.int k)
  | tid, .string => resolvesTo env S tid .string
  | tid, .unit => resolvesTo env S tid (.tuple [])
  | tid, .option t =>
    (match resolveKind env S tid with
     | some (.enum [(0, []), (1, [x])]) => decide (resolveValidation env S tid = some .none) && describes env S x t
     | _ => false)
  | tid, .array t =>
    (match resolveKind env S tid with
     | some (.array x) => decide (resolveValidation env S tid = some .none) && describes env S x t
     | _ => false)
  | tid, .pair a b =>
    (match resolveKind env S tid with
     | some (.tuple [x, y]) =>
       decide (resolveValidation env S tid = some .none) && describes env S x a && describes env S y b
     | _ => false)
  | tid, .map k v =>
    (match resolveKind env S tid with
     | some (.map x y) =>
       decide (resolveValidation env S tid = some .none) && describes env S x k && describes env S y v
     | _ => false)
  | tid, .result a b =>
    (match resolveKind env S tid with
     | some (.enum [(0, [x]), (1, [y])]) =>
       decide (resolveValidation env S tid = some .none) && describes env S x a && describes env S y b
     | _ => false)

/-- token form: 0 | 1 k | 2 | 3 | 4 t | 5 t | 6 a b | 7 k v | 8 a b  (fuel = number of tokens) -/
def pTy : Nat → P Ty
  | 0, _ => none
  | _ + 1, 0 :: r => some (.bool, r)
  | _ + 1, 1 :: k :: r => (intKOfNat k).map (fun k => (.int k, r))
  | _ + 1, 2 :: r => some (.string, r)
  | _ + 1, 3 :: r => some (.unit, r)
  | f + 1, 4 :: r => (pTy f r).map (fun (t, r') => (.option t, r'))
  | f + 1, 5 :: r => (pTy f r).map (fun (t, r') => (.array t, r'))
  | f + 1, 6 :: r =>
    (match pTy f r with
     | some (a, r') => (pTy f r').map (fun (b, r'') => (.pair a b, r''))
     | none => none)
  | f + 1, 7 :: r =>
    (match pTy f r with
     | some (a, r') => (pTy f r').map (fun (b, r'') => (.map a b, r''))
     | none => none)
  | f + 1, 8 :: r =>
    (match pTy f r with
     | some (a, r') => (pTy f r').map (fun (b, r'') => (.result a b, r''))
     | none => none)
  | _ + 1, _ => none

end Radix.Schema
