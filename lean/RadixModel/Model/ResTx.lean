/-
C09 / C10 — model of one transaction's resource movements:

* `radix-engine/src/blueprints/resource/worktop.rs` (`put`, `take`, `take_non_fungibles`, `take_all`,
  `assert_contains*`, `drain`, `drop`)
* `radix-engine/src/system/transaction/{instructions,intent_processor}.rs` (named bucket / proof
  tables: `create_manifest_bucket`, `take_bucket`, `get_bucket`, `take_proof`, `get_proof`,
  `handle_call_return_data` moving returned buckets onto the worktop, `worktop.drop` after the last
  instruction) and the kernel's end-of-frame behaviour (proofs auto-dropped, leftover buckets =
  `OrphanedNodes`, dropping a node a live proof references = `NodeBorrowed`)
* the account methods used by the correspondence (`withdraw*`, `burn*`, `deposit`, `deposit_batch`,
  `create_proof_of_*`, `balance`) which forward to the vault, and direct vault `recall*`
* containers: `RadixModel/Model/ResContainer.lean`

World: resources 0,1,2 fungible (divisibility `div r`), resource 3 non-fungible; one account with
one vault per resource. Every operation that can fail in the real code returns the failure; a failed
instruction aborts the transaction (`Except`).

Transcription notes
* `IndexMap<ResourceAddress, Own>` of the worktop = association list in index order with
  `swap_remove` semantics (`wtRemove`).
* "node borrowed": the kernel refuses to drop a bucket node that a live proof references. A proof
  substate holds a reference to its container exactly while the container has a lock for it, so the
  model decides it by `locked ≠ []`.
* `DropAllProofs` also clears the signature proofs of the auth zone, after which the account's
  owner-protected methods fail with `Unauthorized` (`authed`).
* burns are recorded in ghost fields (`burnedF`, `burnedN`) which no transition reads; total supply
  = initial supply − burned.
-/
import RadixModel.Model.ResContainer
namespace Radix.Res

/-- resource 3 is the non-fungible one -/
def isNf (r : Nat) : Bool := r == 3

/-- divisibility of the fungible resources of the correspondence world -/
def div (r : Nat) : Nat := if r = 0 then 18 else if r = 1 then 2 else 0

inductive Cont where
  | f (c : FCont)
  | n (c : NCont)
  deriving DecidableEq, Repr

structure Bucket where
  res : Nat
  c : Cont
  deriving DecidableEq, Repr

def Cont.amount : Cont → Int
  | .f c => c.amount
  | .n c => c.amount

def Cont.borrowed : Cont → Bool
  | .f c => !c.locked.isEmpty
  | .n c => !c.locked.isEmpty

/-- liquid part is empty (what `drop_empty_bucket` checks after the drop) -/
def Cont.liquidEmpty : Cont → Bool
  | .f c => c.liquid == 0
  | .n c => c.liquid.isEmpty

inductive Src where
  | vault (r : Nat)
  | bucket (node : Nat)
  deriving DecidableEq, Repr

/-- a live proof: its container and what it locks there -/
structure Prf where
  src : Src
  amt : Int          -- fungible proofs
  ids : List Nat     -- non-fungible proofs
  nf : Bool
  deriving DecidableEq, Repr

structure St where
  vaultF : Nat → FCont
  vaultN : NCont
  nodes : List (Nat × Bucket)      -- bucket nodes alive in the transaction
  nextNode : Nat
  worktop : List (Nat × Nat)       -- resource ↦ bucket node (index order)
  named : List (Nat × Nat)         -- manifest bucket id ↦ node
  nextB : Nat
  proofs : List (Nat × Prf)        -- manifest proof id ↦ proof
  nextP : Nat
  authed : Bool
  burnedF : Nat → Int              -- ghost
  burnedN : List Nat               -- ghost
  outs : List Int

def unitA : Int := (10 : Int) ^ 18

def startF : FCont := { liquid := 100 * unitA, locked := [] }
def startN : NCont := { liquid := [1, 2, 3, 4, 5, 6, 7, 8], locked := [] }

def init : St :=
  { vaultF := fun _ => startF, vaultN := startN, nodes := [], nextNode := 0, worktop := [], named := [],
    nextB := 0, proofs := [], nextP := 0, authed := true, burnedF := fun _ => 0, burnedN := [], outs := [] }

inductive Op where
  | withdraw (r : Nat) (a : Int)
  | withdrawNf (ids : List Nat)
  | vburn (r : Nat) (a : Int)
  | vburnNf (ids : List Nat)
  | recall (r : Nat) (a : Int)
  | recallNf (ids : List Nat)
  | vproof (r : Nat) (a : Int)
  | vproofNf (ids : List Nat)
  | balance (r : Nat)
  | take (r : Nat) (a : Int)
  | takeAll (r : Nat)
  | takeNf (ids : List Nat)
  | ret (b : Nat)
  | assertAny (r : Nat)
  | assertAmt (r : Nat) (a : Int)
  | assertNf (ids : List Nat)
  | burn (b : Nat)
  | deposit (b : Nat)
  | depositAll
  | bproof (b : Nat) (a : Int)
  | bproofNf (b : Nat) (ids : List Nat)
  | bproofAll (b : Nat)
  | clone (p : Nat)
  | drop (p : Nat)
  | dropAll
  | dropNamed
  deriving Repr

/-! ### small map helpers -/

def lookup {β : Type} (l : List (Nat × β)) (k : Nat) : Option β :=
  match l.find? (fun e => e.1 == k) with
  | some e => some e.2
  | none => none

def remove {β : Type} (l : List (Nat × β)) (k : Nat) : List (Nat × β) := l.filter (fun e => e.1 != k)

def setNode (l : List (Nat × Bucket)) (k : Nat) (b : Bucket) : List (Nat × Bucket) :=
  l.map (fun e => if e.1 == k then (k, b) else e)

/-- `IndexMap::swap_remove` on the worktop map -/
def wtRemove (l : List (Nat × Nat)) (r : Nat) : List (Nat × Nat) :=
  match l.getLast? with
  | none => []
  | some last =>
    if last.1 == r then l.dropLast
    else if l.any (fun e => e.1 == r) then l.dropLast.map (fun e => if e.1 == r then last else e)
    else l

def upd {β : Type} (f : Nat → β) (k : Nat) (v : β) : Nat → β := fun x => if x = k then v else f x

def hasDup : List Nat → Bool
  | [] => false
  | a :: t => t.contains a || hasDup t

/-! ### bucket nodes -/

def newNode (s : St) (b : Bucket) : St × Nat :=
  ({ s with nodes := s.nodes ++ [(s.nextNode, b)], nextNode := s.nextNode + 1 }, s.nextNode)

def emptyCont (r : Nat) : Cont := if isNf r then .n { liquid := [], locked := [] } else .f { liquid := 0, locked := [] }

/-- `drop_fungible_bucket` / `drop_non_fungible_bucket`: the kernel drop fails while a proof references
the node; returns the dropped bucket. -/
def dropNode (s : St) (node : Nat) : Except Err (St × Bucket) :=
  match lookup s.nodes node with
  | none => .error .dangling
  | some b => if b.c.borrowed then .error .nodeBorrowed else .ok ({ s with nodes := remove s.nodes node }, b)

/-- `Bucket::drop_empty` -/
def dropEmpty (s : St) (node : Nat) : Except Err St :=
  match dropNode s node with
  | .error e => .error e
  | .ok (s', b) => if b.c.liquidEmpty then .ok s' else .error .dropNonEmpty

/-- `Bucket::put` (fungible/non-fungible bucket `put`): drop the other bucket, add its liquid part. -/
def bucketPut (s : St) (target other : Nat) : Except Err St :=
  match dropNode s other with
  | .error e => .error e
  | .ok (s', ob) =>
    match lookup s'.nodes target with
    | none => .error .dangling
    | some tb =>
      -- "This will fail if bucket is not an inner object of the current … resource"
      if tb.res != ob.res then .error .dangling else
      match tb.c, ob.c with
      | .f t, .f o => .ok { s' with nodes := setNode s'.nodes target { tb with c := .f (t.put o.liquid) } }
      | .n t, .n o => .ok { s' with nodes := setNode s'.nodes target { tb with c := .n (t.put o.liquid) } }
      | _, _ => .error .dangling

/-- `WorktopBlueprint::put` -/
def wtPut (s : St) (node : Nat) : Except Err St :=
  match lookup s.nodes node with
  | none => .error .dangling
  | some b =>
    if b.c.amount = 0 then dropEmpty s node
    else match lookup s.worktop b.res with
      | some existing => bucketPut s existing node
      | none => .ok { s with worktop := s.worktop ++ [(b.res, node)] }

def nameBucket (s : St) (node : Nat) : St :=
  { s with named := s.named ++ [(s.nextB, node)], nextB := s.nextB + 1 }

def nameProof (s : St) (p : Prf) : St :=
  { s with proofs := s.proofs ++ [(s.nextP, p)], nextP := s.nextP + 1 }

/-- `take_bucket` -/
def takeNamed (s : St) (b : Nat) : Except Err (St × Nat) :=
  match lookup s.named b with
  | none => .error (.bucketNotFound b)
  | some node => .ok ({ s with named := remove s.named b }, node)

/-! ### proofs: lock / unlock on the proof's container -/

def lockOn (s : St) (p : Prf) : Except Err St :=
  match p.src with
  | .vault r =>
    if p.nf then
      match s.vaultN.lock p.ids .vault with
      | .error e => .error e
      | .ok c => .ok { s with vaultN := c }
    else
      match (s.vaultF r).lock p.amt .vault with
      | .error e => .error e
      | .ok c => .ok { s with vaultF := upd s.vaultF r c }
  | .bucket node =>
    match lookup s.nodes node with
    | none => .error .dangling
    | some b =>
      match b.c with
      | .f c =>
        if p.nf then .error .dangling else
        match c.lock p.amt .bucket with
        | .error e => .error e
        | .ok c' => .ok { s with nodes := setNode s.nodes node { b with c := .f c' } }
      | .n c =>
        if !p.nf then .error .dangling else
        match c.lock p.ids .bucket with
        | .error e => .error e
        | .ok c' => .ok { s with nodes := setNode s.nodes node { b with c := .n c' } }

/-- proof `on_drop` → `teardown` → `unlock_*` on the container -/
def unlockOn (s : St) (p : Prf) : Except Err St :=
  match p.src with
  | .vault r =>
    if p.nf then
      match s.vaultN.unlock p.ids with
      | .error e => .error e
      | .ok c => .ok { s with vaultN := c }
    else
      match (s.vaultF r).unlock p.amt with
      | .error e => .error e
      | .ok c => .ok { s with vaultF := upd s.vaultF r c }
  | .bucket node =>
    match lookup s.nodes node with
    | none => .error .dangling
    | some b =>
      match b.c with
      | .f c =>
        if p.nf then .error .dangling else
        match c.unlock p.amt with
        | .error e => .error e
        | .ok c' => .ok { s with nodes := setNode s.nodes node { b with c := .f c' } }
      | .n c =>
        if !p.nf then .error .dangling else
        match c.unlock p.ids with
        | .error e => .error e
        | .ok c' => .ok { s with nodes := setNode s.nodes node { b with c := .n c' } }

def unlockAll (s : St) : List (Nat × Prf) → Except Err St
  | [] => .ok s
  | (_, p) :: rest =>
    match unlockOn s p with
    | .error e => .error e
    | .ok s' => unlockAll s' rest

/-- deposit the listed bucket nodes one after the other (`deposit_batch`) -/
def depositNodes (s : St) : List Nat → Except Err St
  | [] => .ok s
  | node :: rest =>
    match dropNode s node with
    | .error e => .error e
    | .ok (s', b) =>
      match b.c with
      | .f c => depositNodes { s' with vaultF := upd s'.vaultF b.res ((s'.vaultF b.res).put c.liquid) } rest
      | .n c => depositNodes { s' with vaultN := s'.vaultN.put c.liquid } rest

/-- `worktop.drop`: every bucket still on the worktop must be droppable and empty -/
def dropWorktop (s : St) : List (Nat × Nat) → Except Err St
  | [] => .ok s
  | (_, node) :: rest =>
    match dropEmpty s node with
    | .error e => .error e
    | .ok s' => dropWorktop s' rest

/-! ### instructions -/

def step (s : St) : Op → Except Err St
  | .withdraw r a =>
    if !s.authed then .error .unauthorized else
    match (s.vaultF r).take a (div r) .vault with
    | .error e => .error e
    | .ok c =>
      let (s1, node) := newNode { s with vaultF := upd s.vaultF r c } ⟨r, .f { liquid := a, locked := [] }⟩
      wtPut s1 node
  | .withdrawNf ids =>
    if !s.authed then .error .unauthorized else
    if hasDup ids then .error .duplicateKey else
    match s.vaultN.take ids .vault with
    | .error e => .error e
    | .ok c =>
      let (s1, node) := newNode { s with vaultN := c } ⟨3, .n { liquid := ids, locked := [] }⟩
      wtPut s1 node
  | .vburn r a =>
    if !s.authed then .error .unauthorized else
    match (s.vaultF r).take a (div r) .vault with
    | .error e => .error e
    | .ok c => .ok { s with vaultF := upd s.vaultF r c, burnedF := upd s.burnedF r (s.burnedF r + a) }
  | .vburnNf ids =>
    if !s.authed then .error .unauthorized else
    if hasDup ids then .error .duplicateKey else
    match s.vaultN.take ids .vault with
    | .error e => .error e
    | .ok c => .ok { s with vaultN := c, burnedN := s.burnedN ++ ids }
  | .recall r a =>
    match (s.vaultF r).take a (div r) .vault with
    | .error e => .error e
    | .ok c =>
      let (s1, node) := newNode { s with vaultF := upd s.vaultF r c } ⟨r, .f { liquid := a, locked := [] }⟩
      wtPut s1 node
  | .recallNf ids =>
    if hasDup ids then .error .duplicateKey else
    match s.vaultN.take ids .vault with
    | .error e => .error e
    | .ok c =>
      let (s1, node) := newNode { s with vaultN := c } ⟨3, .n { liquid := ids, locked := [] }⟩
      wtPut s1 node
  | .vproof r a =>
    if !s.authed then .error .unauthorized else
    match (s.vaultF r).createProof a (div r) .vault with
    | .error e => .error e
    | .ok c => .ok (nameProof { s with vaultF := upd s.vaultF r c } ⟨.vault r, a, [], false⟩)
  | .vproofNf ids =>
    if !s.authed then .error .unauthorized else
    if hasDup ids then .error .duplicateKey else
    match s.vaultN.createProof ids .vault with
    | .error e => .error e
    | .ok c => .ok (nameProof { s with vaultN := c } ⟨.vault 3, 0, ids, true⟩)
  | .balance r =>
    .ok { s with outs := s.outs ++ [if isNf r then s.vaultN.amount else (s.vaultF r).amount] }
  | .take r a =>
    if a = 0 then
      let (s1, node) := newNode s ⟨r, emptyCont r⟩
      .ok (nameBucket s1 node)
    else
      match lookup s.worktop r with
      | none => .error .worktopInsufficient
      | some node =>
        match lookup s.nodes node with
        | none => .error .dangling
        | some b =>
          if b.c.amount < a then .error .worktopInsufficient
          else if b.c.amount = a then .ok (nameBucket { s with worktop := wtRemove s.worktop r } node)
          else
            -- `existing_bucket.take(amount)`: the new bucket belongs to the bucket's own resource
            match b.c with
            | .f c =>
              match c.take a (div b.res) .bucket with
              | .error e => .error e
              | .ok c' =>
                let (s1, nn) := newNode { s with nodes := setNode s.nodes node { b with c := .f c' } } ⟨b.res, .f { liquid := a, locked := [] }⟩
                .ok (nameBucket s1 nn)
            | .n c =>
              match c.takeAmount a with
              | .error e => .error e
              | .ok (c', taken) =>
                let (s1, nn) := newNode { s with nodes := setNode s.nodes node { b with c := .n c' } } ⟨b.res, .n { liquid := taken, locked := [] }⟩
                .ok (nameBucket s1 nn)
  | .takeAll r =>
    match lookup s.worktop r with
    | some node => .ok (nameBucket { s with worktop := wtRemove s.worktop r } node)
    | none =>
      let (s1, node) := newNode s ⟨r, emptyCont r⟩
      .ok (nameBucket s1 node)
  | .takeNf ids0 =>
    let ids := ids0.eraseDups
    if ids.isEmpty then
      let (s1, node) := newNode s ⟨3, emptyCont 3⟩
      .ok (nameBucket s1 node)
    else
      match lookup s.worktop 3 with
      | none => .error .worktopInsufficient
      | some node =>
        match lookup s.nodes node with
        | none => .error .dangling
        | some b =>
          match b.c with
          | .f _ => .error .dangling
          | .n c =>
            if !(ids.all (fun i => c.ids.contains i)) then .error .worktopInsufficient
            else if c.ids.length = ids.length then .ok (nameBucket { s with worktop := wtRemove s.worktop 3 } node)
            else
              match c.take ids .bucket with
              | .error e => .error e
              | .ok c' =>
                let (s1, nn) := newNode { s with nodes := setNode s.nodes node { b with c := .n c' } } ⟨b.res, .n { liquid := ids, locked := [] }⟩
                .ok (nameBucket s1 nn)
  | .ret b =>
    match takeNamed s b with
    | .error e => .error e
    | .ok (s1, node) => wtPut s1 node
  | .assertAny r =>
    match lookup s.worktop r with
    | none => .error .worktopAssertion
    | some node =>
      match lookup s.nodes node with
      | none => .error .dangling
      | some b => if b.c.amount = 0 then .error .worktopAssertion else .ok s
  | .assertAmt r a =>
    match lookup s.worktop r with
    | none => if 0 < a then .error .worktopAssertion else .ok s
    | some node =>
      match lookup s.nodes node with
      | none => .error .dangling
      | some b => if b.c.amount < a then .error .worktopAssertion else .ok s
  | .assertNf ids =>
    match lookup s.worktop 3 with
    | none => if ids.isEmpty then .ok s else .error .worktopAssertion
    | some node =>
      match lookup s.nodes node with
      | none => .error .dangling
      | some b =>
        match b.c with
        | .f _ => .error .dangling
        | .n c => if ids.all (fun i => c.ids.contains i) then .ok s else .error .worktopAssertion
  | .burn b =>
    match takeNamed s b with
    | .error e => .error e
    | .ok (s1, node) =>
      match dropNode s1 node with
      | .error e => .error e
      | .ok (s2, bk) =>
        match bk.c with
        | .f c => .ok { s2 with burnedF := upd s2.burnedF bk.res (s2.burnedF bk.res + c.liquid) }
        | .n c => .ok { s2 with burnedN := s2.burnedN ++ c.liquid }
  | .deposit b =>
    match takeNamed s b with
    | .error e => .error e
    | .ok (s1, node) =>
      if !s1.authed then .error .unauthorized else depositNodes s1 [node]
  | .depositAll =>
    let nodes := s.worktop.map (fun e => e.2)
    let s1 := { s with worktop := [] }
    if !s1.authed then .error .unauthorized else depositNodes s1 nodes
  | .bproof b a =>
    match lookup s.named b with
    | none => .error (.bucketNotFound b)
    | some node =>
      match lookup s.nodes node with
      | none => .error .dangling
      | some bk =>
        match bk.c with
        | .n _ => .error .noMethod
        | .f c =>
          match c.createProof a (div bk.res) .bucket with
          | .error e => .error e
          | .ok c' => .ok (nameProof { s with nodes := setNode s.nodes node { bk with c := .f c' } } ⟨.bucket node, a, [], false⟩)
  | .bproofNf b ids0 =>
    let ids := ids0.eraseDups
    match lookup s.named b with
    | none => .error (.bucketNotFound b)
    | some node =>
      match lookup s.nodes node with
      | none => .error .dangling
      | some bk =>
        match bk.c with
        | .f _ => .error .noMethod
        | .n c =>
          match c.createProof ids .bucket with
          | .error e => .error e
          | .ok c' => .ok (nameProof { s with nodes := setNode s.nodes node { bk with c := .n c' } } ⟨.bucket node, 0, ids, true⟩)
  | .bproofAll b =>
    match lookup s.named b with
    | none => .error (.bucketNotFound b)
    | some node =>
      match lookup s.nodes node with
      | none => .error .dangling
      | some bk =>
        match bk.c with
        | .f c =>
          match c.createProof c.amount (div bk.res) .bucket with
          | .error e => .error e
          | .ok c' => .ok (nameProof { s with nodes := setNode s.nodes node { bk with c := .f c' } } ⟨.bucket node, c.amount, [], false⟩)
        | .n c =>
          match c.createProof c.ids .bucket with
          | .error e => .error e
          | .ok c' => .ok (nameProof { s with nodes := setNode s.nodes node { bk with c := .n c' } } ⟨.bucket node, 0, c.ids, true⟩)
  | .clone p =>
    match lookup s.proofs p with
    | none => .error (.proofNotFound p)
    | some pr =>
      match lockOn s pr with
      | .error e => .error e
      | .ok s1 => .ok (nameProof s1 pr)
  | .drop p =>
    match lookup s.proofs p with
    | none => .error (.proofNotFound p)
    | some pr => unlockOn { s with proofs := remove s.proofs p } pr
  | .dropNamed =>
    unlockAll { s with proofs := [] } s.proofs
  | .dropAll =>
    match unlockAll { s with proofs := [] } s.proofs with
    | .error e => .error e
    | .ok s1 => .ok { s1 with authed := false }

/-- end of the transaction: `worktop.drop`, auto-drop of the remaining proofs, orphan check. -/
def finish (s : St) : Except Err St :=
  match dropWorktop { s with worktop := [] } s.worktop with
  | .error e => .error e
  | .ok s1 =>
    match unlockAll { s1 with proofs := [] } s1.proofs with
    | .error e => .error e
    | .ok s2 => if s2.named.isEmpty then .ok s2 else .error .orphaned

def runOps (s : St) : List Op → Except Err St
  | [] => .ok s
  | op :: rest =>
    match step s op with
    | .error e => .error e
    | .ok s' => runOps s' rest

/-- the state observed by the trailing queries (before the end-of-transaction clean-up), if the whole
transaction succeeds -/
def runTx (ops : List Op) : Except Err St :=
  match runOps init ops with
  | .error e => .error e
  | .ok s =>
    match finish s with
    | .error e => .error e
    | .ok _ => .ok s

end Radix.Res
