/-
Executable model of the v1.1 pool blueprints
(radix-engine/src/blueprints/pool/v1/v1_1/{one,two,multi}_resource_pool_blueprint.rs).

Amounts: `Decimal` = `Int` attos (10^-18) in [-2^191, 2^191); `PreciseDecimal` = `Int` sub-units
(10^-36) in [-2^255, 2^255). Rust signed `/` is `Int.tdiv`. Every `checked_*` that can return `None`
and every engine check on the way (bucket/vault take, mint cap) is an explicit error outcome.
Core Lean only (the driver links this file).
-/
namespace Radix.Pool

def P18 : Int := 1000000000000000000
def P36 : Int := 1000000000000000000000000000000000000
def MAX_MINT : Int := 2 ^ 152

def inI256 (x : Int) : Bool := decide (-(2 ^ 255) ≤ x) && decide (x < 2 ^ 255)
def inI192 (x : Int) : Bool := decide (-(2 ^ 191) ≤ x) && decide (x < 2 ^ 191)

/-! ### PreciseDecimal (I256 sub-units) -/

/-- `PreciseDecimal::from(Decimal)` — never overflows (2^191 * 10^18 < 2^255). -/
def pdOfDec (d : Int) : Int := d * P18

/-- `checked_mul`: I384 product, `/ 10^36` truncating, must fit I256 (this subsumes the I384 check). -/
def pdMul (a b : Int) : Option Int :=
  let c := (a * b).tdiv P36
  if inI256 c then some c else none

/-- `checked_div`: `a * 10^36 / b` truncating; `None` for `b = 0` or a result outside I256. -/
def pdDiv (a b : Int) : Option Int :=
  if b = 0 then none else
  let c := (a * P36).tdiv b
  if inI256 c then some c else none

def pdAdd (a b : Int) : Option Int := if inI256 (a + b) then some (a + b) else none

/-- `Decimal::try_from(PreciseDecimal)` = `checked_truncate(ToZero)`. -/
def pdToDec (a : Int) : Option Int :=
  let c := a.tdiv P18
  if inI192 c then some c else none

/-- `checked_round(18, ToPositiveInfinity)` on a PreciseDecimal. -/
def pdRoundUp18 (a : Int) : Option Int :=
  let r := a.emod P18
  if r = 0 then some a else
  let c := a + (P18 - r)
  if inI256 c then some c else none

/-- `checked_sqrt`: floor square root of `a * 10^36`. -/
def pdSqrt (a : Int) : Option Int :=
  if a < 0 then none else some (Int.ofNat (Nat.sqrt (a * P36).toNat))

/-- floor n-th root by bisection; `fuel` iterations on the interval `[lo, hi)`. -/
def rootLoop (n x : Nat) : Nat → Nat → Nat → Nat
  | 0, lo, _ => lo
  | fuel + 1, lo, hi =>
    if lo + 1 ≥ hi then lo else
    let mid := (lo + hi) / 2
    if mid ^ n ≤ x then rootLoop n x fuel mid hi else rootLoop n x fuel lo mid

/-- floor n-th root (n ≥ 1): the result lies in `[0, 2^(log2 x / n + 1))`. -/
def natRoot (n x : Nat) : Nat :=
  let e := Nat.log2 x / n + 1
  rootLoop n x (e + 2) 0 (2 ^ e)

/-- `checked_nth_root(n)`. -/
def pdNthRoot (a : Int) (n : Nat) : Option Int :=
  if (a < 0 ∧ n % 2 = 0) ∨ n = 0 then none
  else if n = 1 then some a
  else if a = 0 then some 0
  else if a < 0 then none  -- odd roots of negatives: not reachable from the pools (amounts ≥ 0)
  else some (Int.ofNat (natRoot n (a.toNat * (P36.toNat) ^ (n - 1))))

/-! ### Decimal rounding (`Decimal::checked_round(places, mode)`) -/

inductive Mode
  | toPosInf | toNegInf | toZero | awayFromZero | midTowardZero | midAwayFromZero | midToEven
  deriving Repr, DecidableEq

inductive Strat | up | down | even
  deriving DecidableEq

def towardsZero (pos : Bool) : Strat := if pos then .down else .up
def awayFromZero (pos : Bool) : Strat := if pos then .up else .down

def fromMidpoint (o : Ordering) (eq : Strat) : Strat :=
  match o with
  | .lt => .down
  | .eq => eq
  | .gt => .up

def resolve (m : Mode) (pos : Bool) (o : Ordering) : Strat :=
  match m with
  | .toPosInf => .up
  | .toNegInf => .down
  | .toZero => towardsZero pos
  | .awayFromZero => awayFromZero pos
  | .midTowardZero => fromMidpoint o (towardsZero pos)
  | .midAwayFromZero => fromMidpoint o (awayFromZero pos)
  | .midToEven => fromMidpoint o .even

def chk192 (x : Int) : Option Int := if inI192 x then some x else none

/-- 10^(18 - places): the smallest representable amount of a resource with that divisibility. -/
def unitOf (places : Nat) : Int := (10 : Int) ^ (18 - places)

def decRound (d : Int) (places : Nat) (mode : Mode) : Option Int :=
  let m := unitOf places
  let r := d.emod m
  if r = 0 then some d else
  match resolve mode (decide (d > 0)) (compare r (m / 2)) with
  | .up => chk192 (d + (m - r))
  | .down => chk192 (d - r)
  | .even =>
    if d > 0 then
      match chk192 (d - r) with
      | none => none
      | some rd => if rd.tmod (2 * m) = 0 then some rd else chk192 (rd + m)
    else
      match chk192 (d + (m - r)) with
      | none => none
      | some ru => if ru.tmod (2 * m) = 0 then some ru else chk192 (ru - m)

/-- `check_fungible_amount` -/
def fungibleOk (a : Int) (places : Nat) : Bool := decide (0 ≤ a) && decide (a.tmod (unitOf places) = 0)

/-! ### Errors -/

inductive Err
  | emptyBucket            -- ContributionOfEmptyBucketError
  | overflow               -- DecimalOverflowError
  | nonZeroSupplyZeroReserves
  | zeroUnits              -- ZeroPoolUnitsMinted
  | redeemedZero           -- RedeemedZeroTokens
  | largerContribution     -- LargerContributionRequiredToMeetRatio
  | noMinimumRatio
  | invalidRedemptionAmount
  | bucketOverflow         -- BucketError::DecimalOverflow
  | bucketInvalidAmount
  | bucketInsufficient     -- BucketError::ResourceError(InsufficientBalance)
  | vaultOverflow          -- VaultError::DecimalOverflow
  | vaultInvalidAmount
  | vaultInsufficient
  | mintCap                -- FungibleResourceManagerError::MaxMintAmountExceeded
  | supplyOverflow         -- FungibleResourceManagerError::UnexpectedDecimalComputationError
  | dropNonEmpty           -- dropping a non-empty bucket
  deriving Repr, DecidableEq

inductive Kind | one | two | multi
  deriving Repr, DecidableEq

def Err.name (k : Kind) (e : Err) : String :=
  let p := match k with
    | .one => "OneResourcePoolError:"
    | .two => "TwoResourcePoolError:"
    | .multi => "MultiResourcePoolError:"
  match e with
  | .emptyBucket => p ++ "ContributionOfEmptyBucketError"
  | .overflow => p ++ "DecimalOverflowError"
  | .nonZeroSupplyZeroReserves => p ++ "NonZeroPoolUnitSupplyButZeroReserves"
  | .zeroUnits => p ++ "ZeroPoolUnitsMinted"
  | .redeemedZero => p ++ "RedeemedZeroTokens"
  | .largerContribution => p ++ "LargerContributionRequiredToMeetRatio"
  | .noMinimumRatio => p ++ "NoMinimumRatio"
  | .invalidRedemptionAmount => p ++ "InvalidGetRedemptionAmount"
  | .bucketOverflow => "BucketError:DecimalOverflow"
  | .bucketInvalidAmount => "BucketError:InvalidAmount"
  | .bucketInsufficient => "BucketError:ResourceError:InsufficientBalance"
  | .vaultOverflow => "VaultError:DecimalOverflow"
  | .vaultInvalidAmount => "VaultError:InvalidAmount"
  | .vaultInsufficient => "VaultError:ResourceError:InsufficientBalance"
  | .mintCap => "FungibleResourceManagerError:MaxMintAmountExceeded"
  | .supplyOverflow => "FungibleResourceManagerError:UnexpectedDecimalComputationError"
  | .dropNonEmpty => "FungibleResourceManagerError:DropNonEmptyBucket"

abbrev R := Except Err

def orErr {α} (o : Option α) (e : Err) : R α :=
  match o with
  | some a => .ok a
  | none => .error e

/-! ### Engine pieces -/

/-- `bucket.take_advanced(amount, Rounded(ToNegativeInfinity))` from a bucket holding `held`:
    returns the amount actually taken. -/
def bucketTakeRoundedDown (held amount : Int) (places : Nat) : R Int :=
  match decRound amount places .toNegInf with
  | none => .error .bucketOverflow
  | some a =>
    if !fungibleOk a places then .error .bucketInvalidAmount
    else if held < a then .error .bucketInsufficient
    else .ok a

/-- `mint_fungible(units)` on the pool unit resource (divisibility 18) with current supply `s`. -/
def mintUnits (s units : Int) : R Int :=
  if units < 0 then .error .supplyOverflow  -- not reachable: check_fungible_amount (InvalidAmount)
  else if units > MAX_MINT then .error .mintCap
  else if !inI192 (s + units) then .error .supplyOverflow
  else .ok (s + units)

/-- `calculate_amount_owed` for one reserve. -/
def amountOwed (u s r : Int) (places : Nat) : R Int :=
  match pdDiv (pdOfDec u) (pdOfDec s) with
  | none => .error .overflow
  | some q =>
    match pdMul q (pdOfDec r) with
    | none => .error .overflow
    | some o =>
      match pdToDec o with
      | none => .error .overflow
      | some od => orErr (decRound od places .toNegInf) .overflow

/-- the owed amounts for every reserve, in vault order; first failure wins -/
def amountsOwed (u s : Int) : List (Int × Nat) → R (List Int)
  | [] => .ok []
  | (r, d) :: rest =>
    match amountOwed u s r d with
    | .error e => .error e
    | .ok o =>
      match amountsOwed u s rest with
      | .error e => .error e
      | .ok os => .ok (o :: os)

/-! ### One resource pool -/

/-- pool units to mint for a contribution `c` (attos) to a pool with supply `s` and reserves `r`. -/
def oneUnits (s r c : Int) : R Int :=
  let r' := pdOfDec r
  let s' := pdOfDec s
  let c' := pdOfDec c
  let upd : R Int :=
    match decide (s' > 0), decide (r' > 0) with
    | false, false => .ok c'
    | false, true => orErr (pdAdd c' r') .overflow
    | true, false => .error .nonZeroSupplyZeroReserves
    | true, true =>
      match pdDiv c' r' with
      | none => .error .overflow
      | some d => orErr (pdMul d s') .overflow
  match upd with
  | .error e => .error e
  | .ok u' =>
    match pdToDec u' with
    | none => .error .overflow
    | some u => if u = 0 then .error .zeroUnits else .ok u

/-- result of a contribution: (new supply, new reserves, accepted amounts) -/
structure Contributed where
  supply : Int
  reserves : List Int
  accepted : List Int
  deriving Repr, DecidableEq

def oneContribute (s r c : Int) : R Contributed :=
  if c = 0 then .error .emptyBucket else
  match oneUnits s r c with
  | .error e => .error e
  | .ok u =>
    -- vault.put(bucket) then mint
    match mintUnits s u with
    | .error e => .error e
    | .ok s2 => .ok { supply := s2, reserves := [r + c], accepted := [c] }

/-! ### Two resource pool (index 1 = the vault with the larger resource address) -/

/-- candidate `(c1, c2, units)` in PreciseDecimal for `(true, true, true)` -/
def twoCandidate (c1x c2x : Option Int) (c1' c2' r1' s' : Int) : Option (Int × Int × Int) :=
  match c1x, c2x with
  | some a, some b =>
    if a ≤ c1' ∧ b ≤ c2' then
      match pdDiv a r1' with
      | none => none
      | some d =>
        match pdMul d s' with
        | none => none
        | some u => some (a, b, u)
    else none
  | _, _ => none

/-- `(amount1, amount2, pool_units_to_mint)` as PreciseDecimals -/
def twoAmounts (s r1 r2 c1 c2 : Int) : R (Int × Int × Int) :=
  let s' := pdOfDec s
  let r1' := pdOfDec r1
  let r2' := pdOfDec r2
  let c1' := pdOfDec c1
  let c2' := pdOfDec c2
  match decide (r1' > 0), decide (r2' > 0), decide (s' > 0) with
  | _, _, false =>
    if c1' = 0 ∨ c2' = 0 then .ok (c1', c2', max c1' c2')
    else
      match pdSqrt c1', pdSqrt c2' with
      | some q1, some q2 =>
        match pdMul q1 q2 with
        | none => .error .overflow
        | some g =>
          match pdRoundUp18 g with
          | none => .error .overflow
          | some u => .ok (c1', c2', u)
      | _, _ => .error .overflow
  | false, true, true =>
    match pdDiv c2' r2' with
    | none => .error .overflow
    | some d =>
      match pdMul d s' with
      | none => .error .overflow
      | some u => .ok (0, c2', u)
  | true, false, true =>
    match pdDiv c1' r1' with
    | none => .error .overflow
    | some d =>
      match pdMul d s' with
      | none => .error .overflow
      | some u => .ok (c1', 0, u)
  | true, true, true =>
    let candA := twoCandidate (some c1') ((pdDiv c1' r1').bind (fun d => pdMul d r2')) c1' c2' r1' s'
    let candB := twoCandidate ((pdDiv c2' r2').bind (fun d => pdMul d r1')) (some c2') c1' c2' r1' s'
    -- `max_by` on the minted units: the LAST maximal element wins
    match candA, candB with
    | none, none => .error .overflow
    | some a, none => .ok a
    | none, some b => .ok b
    | some a, some b => if a.2.2 ≤ b.2.2 then .ok b else .ok a
  | false, false, true => .error .nonZeroSupplyZeroReserves

def twoContribute (s r1 r2 c1 c2 : Int) (d1 d2 : Nat) : R Contributed :=
  match twoAmounts s r1 r2 c1 c2 with
  | .error e => .error e
  | .ok (a1', a2', u') =>
    match pdToDec a1' with
    | none => .error .overflow
    | some amount1 =>
    match pdToDec a2' with
    | none => .error .overflow
    | some amount2 =>
    match pdToDec u' with
    | none => .error .overflow
    | some units =>
    match bucketTakeRoundedDown c1 amount1 d1 with
    | .error e => .error e
    | .ok a1 =>
    match bucketTakeRoundedDown c2 amount2 d2 with
    | .error e => .error e
    | .ok a2 =>
    if (a1 = 0 ∧ r1 ≠ 0) ∨ (a2 = 0 ∧ r2 ≠ 0) then .error .largerContribution
    else if units = 0 then .error .zeroUnits
    else
      match mintUnits s units with
      | .error e => .error e
      | .ok s2 =>
        -- change: at most one bucket may be left non-empty (the other is `drop_empty`ed)
        if c1 - a1 ≠ 0 ∧ c2 - a2 ≠ 0 then .error .dropNonEmpty
        else .ok { supply := s2, reserves := [r1 + a1, r2 + a2], accepted := [a1, a2] }

/-! ### Multi resource pool -/

/-- geometric mean fold: `try_fold(ONE, |acc, v| v.nth_root(n)?.checked_mul(acc))` -/
def geoFold (n : Nat) : List Int → Int → Option Int
  | [], acc => some acc
  | v :: rest, acc =>
    match pdNthRoot v n with
    | none => none
    | some q =>
      match pdMul q acc with
      | none => none
      | some acc' => geoFold n rest acc'

/-- minimum of the ratios `c/r` over the non-empty reserves (`None` divisions are skipped) -/
def minRatio : List (Int × Int) → Option Int
  | [] => none
  | (r, c) :: rest =>
    let here := if pdOfDec r ≠ 0 then pdDiv (pdOfDec c) (pdOfDec r) else none
    match here, minRatio rest with
    | none, m => m
    | some k, none => some k
    | some k, some m => some (min k m)

/-- accept `reserves * k` of every contribution, in vault order; returns the accepted amounts -/
def multiAccept (k : Int) : List (Int × Int × Nat) → R (List Int)
  | [] => .ok []
  | (r, c, d) :: rest =>
    match (pdMul (pdOfDec r) k).bind pdToDec with
    | none => .error .overflow
    | some amt =>
      match bucketTakeRoundedDown c amt d with
      | .error e => .error e
      | .ok a =>
        if a = 0 ∧ pdOfDec r ≠ 0 then .error .largerContribution
        else
          match multiAccept k rest with
          | .error e => .error e
          | .ok as => .ok (a :: as)

def addLists : List Int → List Int → List Int
  | a :: as, b :: bs => (a + b) :: addLists as bs
  | _, _ => []

/-- `rs` = per resource (reserves, contribution, divisibility) in vault order -/
def multiContribute (s : Int) (rs : List (Int × Int × Nat)) : R Contributed :=
  let s' := pdOfDec s
  let step : R (Int × List Int) :=
    if s' = 0 then
      let nz := (rs.map (fun x => pdOfDec x.2.1)).filter (fun c => c ≠ 0)
      match (geoFold nz.length nz P36).bind pdRoundUp18 with
      | none => .error .overflow
      | some u => .ok (u, rs.map (fun x => x.2.1))
    else
      match minRatio (rs.map (fun x => (x.1, x.2.1))) with
      | none => .error .noMinimumRatio
      | some k =>
        match multiAccept k rs with
        | .error e => .error e
        | .ok as =>
          match pdMul s' k with
          | none => .error .overflow
          | some u => .ok (u, as)
  match step with
  | .error e => .error e
  | .ok (u', as) =>
    match pdToDec u' with
    | none => .error .overflow
    | some units =>
      if units = 0 then .error .zeroUnits
      else
        match mintUnits s units with
        | .error e => .error e
        | .ok s2 => .ok { supply := s2, reserves := addLists (rs.map (·.1)) as, accepted := as }

/-! ### Pool state machine (the observable state of the correspondence run) -/

structure Pool where
  kind : Kind
  divs : List Nat
  supply : Int
  reserves : List Int
  account : List Int
  deriving Repr

def newPool (k : Kind) (divs : List Nat) : Pool :=
  { kind := k, divs := divs, supply := 0, reserves := divs.map (fun _ => 0), account := divs.map (fun _ => 0) }

def subLists : List Int → List Int → List Int
  | a :: as, b :: bs => (a - b) :: subLists as bs
  | _, _ => []

def zip3 : List Int → List Int → List Nat → List (Int × Int × Nat)
  | a :: as, b :: bs, c :: cs => (a, b, c) :: zip3 as bs cs
  | _, _, _ => []

/-- a contribution of `cs` (one bucket per resource, freshly minted by the contributor) -/
def contribute (p : Pool) (cs : List Int) : R Contributed :=
  match p.kind, p.reserves, cs, p.divs with
  | .one, [r], [c], [_] => oneContribute p.supply r c
  | .two, [r1, r2], [c1, c2], [d1, d2] => twoContribute p.supply r1 r2 c1 c2 d1 d2
  | .multi, rs, cs, ds => multiContribute p.supply (zip3 rs cs ds)
  | _, _, _, _ => .error .overflow  -- ill-formed state, excluded by `WF`

def applyContribute (p : Pool) (cs : List Int) (c : Contributed) : Pool :=
  { p with supply := c.supply, reserves := c.reserves,
           account := addLists p.account (subLists cs c.accepted) }

/-- redeem `u` pool units: owed amounts -/
def redeem (p : Pool) (u : Int) : R (List Int) :=
  match amountsOwed u p.supply (p.reserves.zip p.divs) with
  | .error e => .error e
  | .ok os =>
    if p.kind = .one ∧ os = [0] then .error .redeemedZero
    else if (subLists p.reserves os).any (fun x => x < 0) then .error .vaultInsufficient
    else .ok os

def applyRedeem (p : Pool) (u : Int) (os : List Int) : Pool :=
  { p with supply := p.supply - u, reserves := subLists p.reserves os, account := addLists p.account os }

def redemptionValue (p : Pool) (u : Int) : R (List Int) :=
  if u < 0 ∨ u = 0 ∨ u > p.supply then .error .invalidRedemptionAmount
  else amountsOwed u p.supply (p.reserves.zip p.divs)

def setAt : List Int → Nat → Int → List Int
  | [], _, _ => []
  | _ :: xs, 0, v => v :: xs
  | x :: xs, n + 1, v => x :: setAt xs n v

inductive Strategy
  | exact
  | rounded (m : Mode)
  deriving Repr, DecidableEq

/-- `vault.take_advanced(amount, strategy)`: the amount withdrawn -/
def vaultTake (held amount : Int) (places : Nat) (st : Strategy) : R Int :=
  let a? := match st with
    | .exact => some amount
    | .rounded m => decRound amount places m
  match a? with
  | none => .error .vaultOverflow
  | some a =>
    if !fungibleOk a places then .error .vaultInvalidAmount
    else if held < a then .error .vaultInsufficient
    else .ok a


/-! ### Operation sequences -/

inductive Op
  | contribute (cs : List Int)
  | redeem (u : Int)
  | deposit (i : Nat) (a : Int)
  | withdraw (i : Nat) (a : Int) (st : Strategy)
  deriving Repr

inductive Outcome
  | skip            -- the request cannot reach the pool (engine preconditions)
  | badIndex        -- no such resource
  | err (e : Err)   -- the transaction fails, state unchanged
  | ok
  deriving Repr

def alignedTo (a : Int) (d : Nat) : Bool := decide (a.tmod (unitOf d) = 0)

/-- bucket amounts handed to `contribute`: non-negative multiples of the resource unit, each mintable -/
def bucketsOk : List Int → List Nat → Bool
  | c :: cs, d :: ds => decide (0 ≤ c) && alignedTo c d && decide (c ≤ MAX_MINT) && bucketsOk cs ds
  | [], [] => true
  | _, _ => false

def step (p : Pool) : Op → Pool × Outcome
  | .contribute cs =>
    if !bucketsOk cs p.divs then (p, .skip) else
    match contribute p cs with
    | .error e => (p, .err e)
    | .ok c => (applyContribute p cs c, .ok)
  | .redeem u =>
    if u ≤ 0 ∨ u > p.supply then (p, .skip) else
    match redeem p u with
    | .error e => (p, .err e)
    | .ok os => (applyRedeem p u os, .ok)
  | .deposit i a =>
    match p.reserves[i]?, p.divs[i]? with
    | some r, some d =>
      if a ≤ 0 ∨ !alignedTo a d ∨ a > MAX_MINT then (p, .skip)
      else ({ p with reserves := setAt p.reserves i (r + a) }, .ok)
    | _, _ => (p, .badIndex)
  | .withdraw i a st =>
    match p.reserves[i]?, p.divs[i]?, p.account[i]? with
    | some r, some d, some acc =>
      if !inI192 a then (p, .skip) else
      match vaultTake r a d st with
      | .error e => (p, .err e)
      | .ok t => ({ p with reserves := setAt p.reserves i (r - t), account := setAt p.account i (acc + t) }, .ok)
    | _, _, _ => (p, .badIndex)

def run (p : Pool) : List Op → Pool
  | [] => p
  | op :: ops => run (step p op).1 ops

end Radix.Pool
