/-
C10 (and the containers of C09) — model of the proof-locking resource containers:

* `radix-engine-interface/src/blueprints/resource/resource.rs`
    `LiquidFungibleResource` (`take_by_amount`, `put`), `LockedFungibleResource { amounts :
    IndexMap<Decimal, usize> }` (`amount()` = max key, starting from 0), `LiquidNonFungibleResource`
    (`IndexSet` with `swap_remove`, `take_by_amount` = first n in index order, `take_by_ids`, `put` =
    `extend`), `LockedNonFungibleResource { ids : IndexMap<id, usize> }`
* `radix-engine/src/blueprints/resource/fungible/{fungible_vault,fungible_bucket}.rs`
    `take`/`take_advanced(Exact)`, `create_proof_of_amount`, `lock_amount`, `unlock_amount`, `recall`,
    `get_amount`
* `radix-engine/src/blueprints/resource/non_fungible/{non_fungible_vault,non_fungible_bucket}.rs`
    `take_non_fungibles`, `take(amount)` (bucket), `lock_non_fungibles`, `unlock_non_fungibles`
* `radix-engine-interface/src/blueprints/resource/mod.rs` `check_fungible_amount`,
    `check_non_fungible_amount`

Transcription notes
* `Decimal` = `Int` attos. The model has no 192-bit range check: `checked_add/checked_sub` overflow
  branches (`DecimalOverflow`, `expect("Overflow")`) are unreachable while |amounts| < 2^190, which
  the line protocol enforces (|a| < 2^100); this is listed as an assumption of C10/C09.
* `IndexMap<Decimal, usize>` (amount ↦ number of locks) is modelled as the multiset of locked
  amounts, a `List Int` with one element per lock: `entry(a).or_default() += 1` = cons,
  `swap_remove(a)` + re-insert of `cnt-1` = erase one occurrence, `expect(..)` on a missing key =
  the outcome `Err.unlockPanic`. `amount()` iterates the keys keeping the maximum, starting from 0.
  Likewise `IndexMap<NonFungibleLocalId, usize>` = multiset of locked ids.
* `IndexSet` of liquid ids = duplicate-free `List Nat` in index order with `swap_remove` semantics
  (the order decides which ids an amount-based bucket take returns).
* Both vault and bucket run the same code shape; `Who` only selects the error type the real code wraps
  the failure in (`VaultError`/`NonFungibleVaultError` vs `BucketError`).
-/
namespace Radix.Res

inductive Who where
  | vault | bucket
  deriving DecidableEq, Repr

/-- Failure outcomes of the modelled code (each is a distinct error/panic branch of the real code). -/
inductive Err where
  | insufficient (w : Who) (requested actual : Int)   -- ResourceError::InsufficientBalance
  | invalidAmount (w : Who) (a : Int)                 -- Vault/BucketError::InvalidAmount
  | emptyProof (w : Who)                              -- ProofError::EmptyProofNotAllowed
  | missingId (w : Who) (id : Nat)                    -- NonFungibleVaultError::MissingId / ResourceError::MissingNonFungibleLocalId
  | unlockPanic                                       -- `expect("Attempted to unlock …")`
  | worktopInsufficient                               -- WorktopError::InsufficientBalance
  | worktopAssertion                                  -- WorktopError::AssertionFailed
  | bucketNotFound (b : Nat)                          -- TransactionProcessorError::BucketNotFound
  | proofNotFound (p : Nat)                           -- TransactionProcessorError::ProofNotFound
  | dropNonEmpty                                      -- *ResourceManagerError::DropNonEmptyBucket
  | nodeBorrowed                                      -- KernelError … DropNodeError::NodeBorrowed
  | orphaned                                          -- KernelError::OrphanedNodes
  | unauthorized                                      -- AuthError::Unauthorized
  | noMethod                                          -- AuthError::NoMethodMapping (method of the other bucket kind)
  | duplicateKey                                      -- InputDecodeError(DuplicateKey) (IndexSet argument with a repeated id)
  | dangling                                          -- a proof whose container node is gone (never reached; see Props)
  deriving DecidableEq, Repr

/-! ### Fungible containers -/

structure FCont where
  liquid : Int
  locked : List Int
  deriving DecidableEq, Repr

/-- `LockedFungibleResource::amount`: the largest locked amount, 0 when nothing is locked. -/
def maxL : List Int → Int
  | [] => 0
  | a :: t => if a > maxL t then a else maxL t

/-- `check_fungible_amount`: non-negative and a multiple of `10^(18-divisibility)`. -/
def checkAmount (a : Int) (d : Nat) : Bool :=
  decide (0 ≤ a) && decide (a.tmod ((10 : Int) ^ (18 - d)) = 0)

namespace FCont

/-- `get_amount` = liquid + locked amount. -/
def amount (c : FCont) : Int := c.liquid + maxL c.locked

/-- `internal_take` → `LiquidFungibleResource::take_by_amount`. -/
def takeRaw (c : FCont) (a : Int) (w : Who) : Except Err FCont :=
  if c.liquid < a then .error (.insufficient w a c.liquid)
  else .ok { c with liquid := c.liquid - a }

/-- `take` / `take_advanced(Exact)` (also the body of `burn`), and `recall`: divisibility check, then
`internal_take`. -/
def take (c : FCont) (a : Int) (d : Nat) (w : Who) : Except Err FCont :=
  if checkAmount a d then c.takeRaw a w else .error (.invalidAmount w a)

/-- `internal_put` / `LiquidFungibleResource::put`. -/
def put (c : FCont) (a : Int) : FCont := { c with liquid := c.liquid + a }

/-- `lock_amount` (also what `clone_proof` calls): only the part above the current maximum is moved
out of the liquid balance. -/
def lock (c : FCont) (a : Int) (w : Who) : Except Err FCont :=
  if a > maxL c.locked then
    match c.takeRaw (a - maxL c.locked) w with
    | .error e => .error e
    | .ok c' => .ok { c' with locked := a :: c'.locked }
  else .ok { c with locked := a :: c.locked }

/-- `create_proof_of_amount`: divisibility check, `lock_amount`, then `FungibleProofSubstate::new`
rejects a zero amount. -/
def createProof (c : FCont) (a : Int) (d : Nat) (w : Who) : Except Err FCont :=
  if checkAmount a d then
    match c.lock a w with
    | .error e => .error e
    | .ok c' => if a = 0 then .error (.emptyProof w) else .ok c'
  else .error (.invalidAmount w a)

/-- `unlock_amount`: remove one lock of `a`; the drop of the maximum flows back into liquid. -/
def unlock (c : FCont) (a : Int) : Except Err FCont :=
  if a ∈ c.locked then
    let l' := c.locked.erase a
    .ok { liquid := c.liquid + (maxL c.locked - maxL l'), locked := l' }
  else .error .unlockPanic

end FCont

/-! ### Non-fungible containers -/

structure NCont where
  liquid : List Nat
  locked : List Nat
  deriving DecidableEq, Repr

/-- `IndexSet::swap_remove`: the last element takes the place of the removed one. -/
def swapRemove (l : List Nat) (x : Nat) : Option (List Nat) :=
  if x ∈ l then
    match l.getLast? with
    | none => none
    | some last =>
      if last = x then some l.dropLast
      else some (l.dropLast.map (fun y => if y = x then last else y))
  else none

/-- `LiquidNonFungibleResource::take_by_ids` / vault `internal_take_non_fungibles`: remove the ids one
by one, failing on the first that is not liquid. -/
def takeIds (l : List Nat) (w : Who) : List Nat → Except Err (List Nat)
  | [] => .ok l
  | id :: rest =>
    match swapRemove l id with
    | none => .error (.missingId w id)
    | some l' => takeIds l' w rest

/-- `IndexSet::extend`. -/
def extendIds (l : List Nat) : List Nat → List Nat
  | [] => l
  | id :: rest => if id ∈ l then extendIds l rest else extendIds (l ++ [id]) rest

/-- keys of the `IndexMap` of locked ids (first-occurrence order). -/
def lockedKeys (l : List Nat) : List Nat := l.eraseDups

/-- `check_non_fungible_amount`: a whole number in `0..=u32::MAX`. -/
def nfCount (a : Int) : Option Nat :=
  if 0 ≤ a ∧ a.tmod ((10 : Int) ^ 18) = 0 ∧ a / ((10 : Int) ^ 18) ≤ 4294967295
  then some (a / ((10 : Int) ^ 18)).toNat else none

namespace NCont

/-- all ids held (liquid first, then locked), as `get_non_fungible_local_ids` of a bucket. -/
def ids (c : NCont) : List Nat := extendIds c.liquid (lockedKeys c.locked)

/-- `get_amount` in attos. -/
def amount (c : NCont) : Int := ((c.liquid.length + (lockedKeys c.locked).length : Nat) : Int) * (10 : Int) ^ 18

/-- `take_non_fungibles`. -/
def take (c : NCont) (is : List Nat) (w : Who) : Except Err NCont :=
  match takeIds c.liquid w is with
  | .error e => .error e
  | .ok l => .ok { c with liquid := l }

/-- bucket `take(amount)`: the first `n` liquid ids in index order. Returns the container and the
taken ids. -/
def takeAmount (c : NCont) (a : Int) : Except Err (NCont × List Nat) :=
  match nfCount a with
  | none => .error (.invalidAmount .bucket a)
  | some n =>
    if c.liquid.length < n then
      .error (.insufficient .bucket ((n : Int) * (10 : Int) ^ 18) ((c.liquid.length : Int) * (10 : Int) ^ 18))
    else
      match takeIds c.liquid .bucket (c.liquid.take n) with
      | .error e => .error e
      | .ok l => .ok ({ c with liquid := l }, c.liquid.take n)

def put (c : NCont) (is : List Nat) : NCont := { c with liquid := extendIds c.liquid is }

/-- `lock_non_fungibles`: ids not yet locked are taken out of liquid; every id gets one more lock. -/
def lock (c : NCont) (is : List Nat) (w : Who) : Except Err NCont :=
  match takeIds c.liquid w (is.filter (fun i => !(c.locked.contains i))) with
  | .error e => .error e
  | .ok l => .ok { liquid := l, locked := c.locked ++ is }

/-- `create_proof_of_non_fungibles`: lock, then `NonFungibleProofSubstate::new` rejects an empty set. -/
def createProof (c : NCont) (is : List Nat) (w : Who) : Except Err NCont :=
  match c.lock is w with
  | .error e => .error e
  | .ok c' => if is.isEmpty then .error (.emptyProof w) else .ok c'

/-- the loop of `unlock_non_fungibles`: returns the remaining locks and the ids whose last lock went. -/
def unlockLoop : List Nat → List Nat → List Nat → Except Err (List Nat × List Nat)
  | locked, freed, [] => .ok (locked, freed)
  | locked, freed, id :: rest =>
    if id ∈ locked then
      let l' := locked.erase id
      if id ∈ l' then unlockLoop l' freed rest
      else unlockLoop l' (if id ∈ freed then freed else freed ++ [id]) rest
    else .error .unlockPanic

def unlock (c : NCont) (is : List Nat) : Except Err NCont :=
  match unlockLoop c.locked [] is with
  | .error e => .error e
  | .ok (l, freed) => .ok { liquid := extendIds c.liquid freed, locked := l }

end NCont

end Radix.Res
