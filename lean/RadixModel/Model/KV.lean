/-
Shared key/value containers used by the substate-store models (C12 `Track`, C14 overlay).

* `SMap`  — `BTreeMap<DbSortKey, V>`: association list kept strictly sorted by key.
            `DbSortKey`s (byte strings, lexicographic order) are represented by `Nat`s; the
            drivers map a byte string to a `Nat` by an order-embedding (see `Driver/C12.lean`).
* `IMap`  — `IndexMap<K, V>`: association list in insertion order, no duplicate keys.
* `overlayIter` — the loop of `radix-rust/src/iterators/overlaying_iterator.rs`
            (`OverlayingIterator::next`, collected), and of `overlaying_result_iterator.rs`
            when the underlying iterator never yields `Err`.

Core Lean only (linked into the drivers).
-/
namespace Radix.KV

/-! ### BTreeMap as a sorted association list -/

/-- `BTreeMap::get` -/
def SMap.get? {V : Type} : List (Nat × V) → Nat → Option V
  | [], _ => none
  | (k', v) :: t, k => if k = k' then some v else SMap.get? t k

/-- `BTreeMap::insert` (replaces the value of an equal key, keeps the order). -/
def SMap.insert {V : Type} : List (Nat × V) → Nat → V → List (Nat × V)
  | [], k, v => [(k, v)]
  | (k', v') :: t, k, v =>
    if k < k' then (k, v) :: (k', v') :: t
    else if k = k' then (k, v) :: t
    else (k', v') :: SMap.insert t k v

/-- `BTreeMap::remove` -/
def SMap.erase {V : Type} : List (Nat × V) → Nat → List (Nat × V)
  | [], _ => []
  | (k', v') :: t, k => if k = k' then SMap.erase t k else (k', v') :: SMap.erase t k

def SMap.contains {V : Type} (m : List (Nat × V)) (k : Nat) : Bool := (SMap.get? m k).isSome

/-- `BTreeMap::from_iter` / `collect` (later duplicates win). -/
def SMap.ofList {V : Type} (l : List (Nat × V)) : List (Nat × V) :=
  l.foldl (fun m kv => SMap.insert m kv.1 kv.2) []

/-- `BTreeMap::range(from..)` and `skip_while(key < from)` on an ordered iteration. -/
def SMap.from {V : Type} : List (Nat × V) → Nat → List (Nat × V)
  | [], _ => []
  | (k', v') :: t, k => if k' < k then SMap.from t k else (k', v') :: t

/-- the representation invariant: strictly increasing keys -/
def SMap.Sorted {V : Type} (m : List (Nat × V)) : Prop := m.Pairwise (fun a b => a.1 < b.1)

/-! ### IndexMap as an insertion-ordered association list -/

def IMap.get? {K V : Type} [DecidableEq K] : List (K × V) → K → Option V
  | [], _ => none
  | (k', v) :: t, k => if k = k' then some v else IMap.get? t k

/-- `IndexMap::insert`: replace in place, or append at the end. -/
def IMap.set {K V : Type} [DecidableEq K] : List (K × V) → K → V → List (K × V)
  | [], k, v => [(k, v)]
  | (k', v') :: t, k, v => if k = k' then (k, v) :: t else (k', v') :: IMap.set t k v

/-- `map.entry(k).or_insert(d)` followed by an in-place modification `f`. -/
def IMap.alter {K V : Type} [DecidableEq K] : List (K × V) → K → V → (V → V) → List (K × V)
  | [], k, d, f => [(k, f d)]
  | (k', v') :: t, k, d, f => if k = k' then (k', f v') :: t else (k', v') :: IMap.alter t k d f

/-- `IndexMap::swap_remove`: the last element takes the place of the removed one. -/
def IMap.swapRemove {K V : Type} [DecidableEq K] (m : List (K × V)) (k : K) : List (K × V) :=
  match m.findIdx? (fun kv => kv.1 = k) with
  | none => m
  | some i =>
    match m.getLast? with
    | none => m
    | some last =>
      if i + 1 = m.length then m.dropLast
      else (m.dropLast).set i last

/-- `IndexMap::retain` -/
def IMap.retain {K V : Type} (m : List (K × V)) (p : K → V → Bool) : List (K × V) :=
  m.filter (fun kv => p kv.1 kv.2)

def IMap.Nodup {K V : Type} (m : List (K × V)) : Prop := m.Pairwise (fun a b => a.1 ≠ b.1)

/-- `IndexSet::insert` -/
def ISet.insert {K : Type} [DecidableEq K] (s : List K) (k : K) : List K :=
  if k ∈ s then s else s ++ [k]

/-! ### OverlayingIterator -/

/-- `OverlayingIterator::new(underlying, overlaying).collect()`.

One call of `next()` is one unfolding up to the first produced element: peek both keys;
`underlying < overlaying` ⇒ emit the underlying entry; `=` ⇒ drop the underlying entry;
then take the overlaying change: `Some v` ⇒ emit, `None` ⇒ loop. When the overlay is exhausted
the rest of the underlying iterator is passed through. -/
def overlayIter {V : Type} : List (Nat × V) → List (Nat × Option V) → List (Nat × V)
  | us, [] => us
  | [], (ok, c) :: os =>
    match c with
    | some v => (ok, v) :: overlayIter [] os
    | none => overlayIter [] os
  | (uk, uv) :: us, (ok, c) :: os =>
    if uk < ok then (uk, uv) :: overlayIter us ((ok, c) :: os)
    else if uk = ok then
      match c with
      | some v => (ok, v) :: overlayIter us os
      | none => overlayIter us os
    else
      match c with
      | some v => (ok, v) :: overlayIter ((uk, uv) :: us) os
      | none => overlayIter ((uk, uv) :: us) os
termination_by us os => us.length + os.length

end Radix.KV

namespace Radix.KV

/-! ### Order-embedding of bounded byte strings (DbSortKeys) into `Nat`

`encKey bs` reads `bs` as a big-endian base-257 numeral with digits `b + 1`, right-padded with
zero digits to `keyLen` digits. For byte strings of length ≤ `keyLen` the numeric order of the
codes is the lexicographic order of the byte strings (a proper prefix is smaller). Used only by the
line-protocol drivers. -/

def keyLen : Nat := 48

def encDigits : List UInt8 → Nat → Nat
  | [], acc => acc
  | b :: t, acc => encDigits t (acc * 257 + (b.toNat + 1))

def encKey (bs : List UInt8) : Option Nat :=
  if bs.length ≤ keyLen then some (encDigits bs 0 * 257 ^ (keyLen - bs.length)) else none

/-- digits from the most significant; stops at the first zero digit (padding) -/
def decDigits : Nat → Nat → List UInt8
  | 0, _ => []
  | i + 1, n =>
    let d := n / 257 ^ i
    if d = 0 then [] else UInt8.ofNat (d - 1) :: decDigits i (n % 257 ^ i)

def decKey (n : Nat) : List UInt8 := decDigits keyLen n

end Radix.KV
