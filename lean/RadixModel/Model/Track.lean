/-
C12 (also used by C02 / C49) — model of `radix-engine/src/track/track.rs` (`MappedTrack`) and
`radix-engine/src/track/state_updates.rs` (`TrackedSubstateValue`, `TrackedPartition`, `TrackedNode`).

Transcription notes
* Keys are at the database level: `NodeId` ↦ `Nat`, `PartitionNumber` ↦ `Nat`, and a substate is
  identified inside its partition by its `DbSortKey` (a `Nat`, see `Model/KV.lean`), exactly as the
  real `TrackedPartition.substates : BTreeMap<DbSortKey, TrackedSubstate>` does. The `SubstateKey`
  stored next to the value (`TrackedSubstate.substate_key`) is determined by the sort key for an
  injective key mapper (C16) and is not represented. Values (`IndexedScryptoValue`) are `Nat`s.
* `tracked_nodes`, `force_write_tracked_nodes` and `TrackedNode.tracked_partitions` are `IndexMap`s
  (`IMap`: insertion order is kept because it determines the order of the final `StateUpdates`);
  `deleted_partitions` is an `IndexSet`.
* The `on_io_access` callback is instantiated with one that never fails (the `?` exits are
  therefore not taken); I/O accounting is C49's business. `force_write` uses a callback that always
  fails and `expect`s the result: it panics iff the substate is not tracked yet.
* `TrackedPartition.range_read` is book-keeping that no `Track` method reads; it is not modelled.
* Transient substates (`mark_as_transient`) are not modelled (never marked).
* Loops with an `items.len() == limit` exit are written with a *remaining budget* argument
  (`limit - items.len()`), which is the same control flow without an accumulator.
* `none` results of `forceWrite` / `revert` are panics (`expect` / `unwrap` on a missing entry).
-/
import RadixModel.Model.SubstateDb
namespace Radix.Track
open Radix.KV Radix.SubstateDb

/-- `Write` -/
inductive Write where
  | update (v : Nat)
  | delete
  deriving Repr, DecidableEq

/-- `TrackedSubstateValue`; `readOnly none` = `ReadOnly(NonExistent)`. -/
inductive TV where
  | new (v : Nat)
  | readOnly (r : Option Nat)
  | readExistAndWrite (old : Nat) (w : Write)
  | readNonExistAndWrite (v : Nat)
  | writeOnly (w : Write)
  | garbage
  deriving Repr, DecidableEq

/-- `Write::into_value` -/
def Write.intoValue : Write → Option Nat
  | .update v => some v
  | .delete => none

/-- `TrackedSubstateValue::get` (= `get_runtime_substate_mut().map(|v| &v.value)`) -/
def TV.get : TV → Option Nat
  | .new v => some v
  | .writeOnly (.update v) => some v
  | .readOnly (some v) => some v
  | .readExistAndWrite _ (.update v) => some v
  | .readNonExistAndWrite v => some v
  | .writeOnly .delete => none
  | .readExistAndWrite _ .delete => none
  | .readOnly none => none
  | .garbage => none

/-- `TrackedSubstateValue::into_value` -/
def TV.intoValue : TV → Option Nat := TV.get

/-- `TrackedSubstateValue::set` -/
def TV.set : TV → Nat → TV
  | .garbage, v => .writeOnly (.update v)
  | .new _, v => .new v
  | .writeOnly (.update _), v => .writeOnly (.update v)
  | .readExistAndWrite old (.update _), v => .readExistAndWrite old (.update v)
  | .readNonExistAndWrite _, v => .readNonExistAndWrite v
  | .readOnly none, v => .readNonExistAndWrite v
  | .readOnly (some old), v => .readExistAndWrite old (.update v)
  | .readExistAndWrite old .delete, v => .readExistAndWrite old (.update v)
  | .writeOnly .delete, v => .writeOnly (.update v)

/-- `TrackedSubstateValue::take`: new state and the taken value -/
def TV.take : TV → TV × Option Nat
  | .garbage => (.garbage, none)
  | .new v => (.garbage, some v)
  | .writeOnly w => (.writeOnly .delete, w.intoValue)
  | .readExistAndWrite old w => (.readExistAndWrite old .delete, w.intoValue)
  | .readNonExistAndWrite v => (.readOnly none, some v)
  | .readOnly (some v) => (.readExistAndWrite v .delete, some v)
  | .readOnly none => (.readOnly none, none)

/-- `TrackedSubstateValue::revert_writes` -/
def TV.revertWrites : TV → TV
  | .readOnly r => .readOnly r
  | .garbage => .garbage
  | .new _ => .garbage
  | .writeOnly _ => .garbage
  | .readExistAndWrite old _ => .readOnly (some old)
  | .readNonExistAndWrite _ => .readOnly none

/-- `TrackedPartition.substates` -/
abbrev TPart := List (Nat × TV)

/-- `TrackedNode` -/
structure TNode where
  parts : List (Nat × TPart)
  isNew : Bool
  deriving Repr

abbrev Nodes := List (Nat × TNode)

structure Track where
  db : Db
  nodes : Nodes
  force : Nodes
  deleted : List (Nat × Nat)

def new (db : Db) : Track := { db := db, nodes := [], force := [], deleted := [] }

/-- lookup in `tracked_nodes[n].tracked_partitions[p].substates[k]` -/
def lookupIn (nodes : Nodes) (n p k : Nat) : Option TV :=
  match IMap.get? nodes n with
  | none => none
  | some nd =>
    match IMap.get? nd.parts p with
    | none => none
    | some part => SMap.get? part k

def lookupTV (t : Track) (n p k : Nat) : Option TV := lookupIn t.nodes n p k

/-- `.entry(n).or_insert(TrackedNode::new(false)).tracked_partitions.entry(p).or_default()` followed
by a modification of the partition's substates -/
def alterPart (nodes : Nodes) (n p : Nat) (f : TPart → TPart) : Nodes :=
  IMap.alter nodes n { parts := [], isNew := false }
    (fun nd => { nd with parts := IMap.alter nd.parts p [] f })

/-- `get_tracked_partition` (creates the node / partition entries when absent) -/
def ensurePart (nodes : Nodes) (n p : Nat) : Nodes := alterPart nodes n p id

def putIn (nodes : Nodes) (n p k : Nat) (tv : TV) : Nodes :=
  alterPart nodes n p (fun part => SMap.insert part k tv)

/-- `get_tracked_substate`: load from the database on first access -/
def getTracked (t : Track) (n p k : Nat) : Track × TV :=
  match lookupTV t n p k with
  | some tv => (t, tv)
  | none =>
    let tv := TV.readOnly (t.db.get (n, p) k)
    ({ t with nodes := putIn t.nodes n p k tv }, tv)

/-- `get_substate` -/
def getSubstate (t : Track) (n p k : Nat) : Track × Option Nat :=
  let (t', tv) := getTracked t n p k
  (t', tv.get)

/-- `set_substate` -/
def setSubstate (t : Track) (n p k v : Nat) : Track :=
  match lookupTV t n p k with
  | none => { t with nodes := putIn t.nodes n p k (.writeOnly (.update v)) }
  | some tv => { t with nodes := putIn t.nodes n p k (tv.set v) }

/-- `remove_substate` -/
def removeSubstate (t : Track) (n p k : Nat) : Track × Option Nat :=
  let (t', tv) := getTracked t n p k
  let (tv', taken) := tv.take
  ({ t' with nodes := putIn t'.nodes n p k tv' }, taken)

/-- `NodeSubstates`: partitions (ascending, distinct) with their substates (distinct keys) -/
abbrev NodeSubstates := List (Nat × List (Nat × Nat))

/-- `create_node` -/
def createNode (t : Track) (n : Nat) (subs : NodeSubstates) : Track :=
  let parts : List (Nat × TPart) :=
    subs.foldl (fun acc ps => IMap.set acc ps.1 (SMap.ofList (ps.2.map (fun kv => (kv.1, TV.new kv.2))))) []
  { t with nodes := IMap.set t.nodes n { parts := parts, isNew := true } }

/-- `force_write`; `none` = panic (substate not tracked) -/
def forceWrite (t : Track) (n p k : Nat) : Option Track :=
  match lookupTV t n p k with
  | none => none
  | some tv => some { t with force := putIn t.force n p k tv }

/-- `delete_partition` -/
def deletePartition (t : Track) (n p : Nat) : Track :=
  { t with deleted := ISet.insert t.deleted (n, p) }

/-! ### scans -/

def trackedPart (t : Track) (n p : Nat) : Option TPart :=
  match IMap.get? t.nodes n with
  | none => none
  | some nd => IMap.get? nd.parts p

/-- the tracked substates of a partition, empty when the partition is not tracked
(`tracked_partition.map(..).unwrap_or(..)` / `if let Some(tracked_partition)`) -/
def trackedOr (t : Track) (n p : Nat) : TPart :=
  match trackedPart t n p with
  | some part => part
  | none => []

def nodeIsNew (t : Track) (n : Nat) : Bool :=
  match IMap.get? t.nodes n with
  | none => false
  | some nd => nd.isNew

/-- first loop of `scan_keys`: present tracked keys, in `BTreeMap` order, at most `budget`;
returns the items and the remaining budget -/
def scanTrackedKeys : Nat → TPart → List Nat × Nat
  | 0, _ => ([], 0)
  | r, [] => ([], r)
  | r + 1, (k, tv) :: rest =>
    match tv.get with
    | some _ => let (it, r') := scanTrackedKeys r rest; (k :: it, r')
    | none => scanTrackedKeys (r + 1) rest

/-- second loop of `scan_keys`: database entries whose key is not tracked -/
def scanDbKeys (tracked : TPart) : Nat → List (Nat × Nat) → List Nat
  | 0, _ => []
  | _, [] => []
  | r + 1, (k, _) :: rest =>
    if SMap.contains tracked k then scanDbKeys tracked (r + 1) rest
    else k :: scanDbKeys tracked r rest

/-- `scan_keys` -/
def scanKeys (t : Track) (n p limit : Nat) : Track × List Nat :=
  let isNew := nodeIsNew t n
  let tracked : TPart := trackedOr t n p
  let (items, rem) := scanTrackedKeys limit tracked
  if rem = 0 ∨ isNew then (t, items)
  else
    let items' := scanDbKeys tracked rem (t.db (n, p))
    ({ t with nodes := ensurePart t.nodes n p }, items ++ items')

/-- first loop of `drain_substates`: `take()` every visited tracked substate -/
def drainTracked : Nat → TPart → TPart × List (Nat × Nat) × Nat
  | 0, l => (l, [], 0)
  | r, [] => ([], [], r)
  | r + 1, (k, tv) :: rest =>
    match tv.take with
    | (tv', some v) => let (l', it, r') := drainTracked r rest; ((k, tv') :: l', (k, v) :: it, r')
    | (tv', none) => let (l', it, r') := drainTracked (r + 1) rest; ((k, tv') :: l', it, r')

/-- second loop of `drain_substates`: untracked database entries -/
def drainDb (tracked : TPart) : Nat → List (Nat × Nat) → List (Nat × Nat)
  | 0, _ => []
  | _, [] => []
  | r + 1, (k, v) :: rest =>
    if SMap.contains tracked k then drainDb tracked (r + 1) rest
    else (k, v) :: drainDb tracked r rest

/-- "Update track": insert `ReadExistAndWrite(v, Delete)` for every drained database entry -/
def insertDrained (part : TPart) : List (Nat × Nat) → TPart
  | [] => part
  | (k, v) :: rest => insertDrained (SMap.insert part k (.readExistAndWrite v .delete)) rest

/-- `drain_substates` -/
def drainSubstates (t : Track) (n p limit : Nat) : Track × List (Nat × Nat) :=
  let isNew := nodeIsNew t n
  match trackedPart t n p with
  | some part =>
    let (part', items, rem) := drainTracked limit part
    let nodes' := alterPart t.nodes n p (fun _ => part')
    if rem = 0 ∨ isNew then ({ t with nodes := nodes' }, items)
    else
      let fromDb := drainDb part' rem (t.db (n, p))
      ({ t with nodes := alterPart nodes' n p (fun pt => insertDrained pt fromDb) }, items ++ fromDb)
  | none =>
    if limit = 0 ∨ isNew then (t, [])
    else
      let fromDb := drainDb [] limit (t.db (n, p))
      ({ t with nodes := alterPart t.nodes n p (fun pt => insertDrained pt fromDb) }, fromDb)

/-- `scan_sorted_substates` -/
def scanSortedSubstates (t : Track) (n p limit : Nat) : Track × List (Nat × Nat) :=
  let nodes' := ensurePart t.nodes n p
  let t' := { t with nodes := nodes' }
  let dbEntries : List (Nat × Nat) := if nodeIsNew t' n then [] else t.db (n, p)
  let tracked : TPart := trackedOr t' n p
  let changes : List (Nat × Option Nat) := tracked.map (fun ktv => (ktv.1, ktv.2.get))
  (t', (overlayIter dbEntries changes).take limit)

/-! ### revert -/

/-- `tracked_nodes.get_mut(n).unwrap().tracked_partitions.get_mut(p).unwrap().substates.get_mut(k).unwrap() = tv` -/
def replaceExisting (nodes : Nodes) (n p k : Nat) (tv : TV) : Option Nodes :=
  match lookupIn nodes n p k with
  | none => none
  | some _ => some (putIn nodes n p k tv)

def applyForcePart (nodes : Nodes) (n p : Nat) : TPart → Option Nodes
  | [] => some nodes
  | (k, tv) :: rest =>
    match replaceExisting nodes n p k tv with
    | none => none
    | some nodes' => applyForcePart nodes' n p rest

def applyForceNode (nodes : Nodes) (n : Nat) : List (Nat × TPart) → Option Nodes
  | [] => some nodes
  | (p, part) :: rest =>
    match applyForcePart nodes n p part with
    | none => none
    | some nodes' => applyForceNode nodes' n rest

def applyForce (nodes : Nodes) : Nodes → Option Nodes
  | [] => some nodes
  | (n, nd) :: rest =>
    match applyForceNode nodes n nd.parts with
    | none => none
    | some nodes' => applyForce nodes' rest

def TNode.revertWrites (nd : TNode) : TNode :=
  { nd with parts := nd.parts.map (fun pp => (pp.1, pp.2.map (fun ktv => (ktv.1, ktv.2.revertWrites)))) }

/-- `revert_non_force_write_changes`; `none` = panic (a force-written substate lives in a node
created by this transaction, whose tracked node was just dropped) -/
def revert (t : Track) : Option Track :=
  let kept := (IMap.retain t.nodes (fun _ nd => !nd.isNew)).map (fun nn => (nn.1, nn.2.revertWrites))
  match applyForce kept t.force with
  | none => none
  | some nodes' => some { t with nodes := nodes', force := [] }

/-! ### finalize / to_state_updates -/

/-- `PartitionStateUpdates::mut_update_substates` -/
def PUpd.updateSubstates : PUpd → List (Nat × DbUpdate) → PUpd
  | .delta l, ups => .delta (ups.foldl (fun m ku => IMap.set m ku.1 ku.2) l)
  | .reset l, ups => .reset (ups.foldl (fun m ku =>
      match ku.2 with
      | some v => IMap.set m ku.1 v
      | none => IMap.swapRemove m ku.1) l)

/-- `state_updates.of_node(n).of_partition(p)` followed by `f` -/
def suAlter (su : DbUpdates) (n p : Nat) (f : PUpd → PUpd) : DbUpdates :=
  IMap.alter su n [] (fun nu => IMap.alter nu p (.delta []) f)

/-- the `filter_map` of `to_state_updates` -/
def TV.toUpdate : TV → Option DbUpdate
  | .readOnly _ => none
  | .garbage => none
  | .readNonExistAndWrite v => some (some v)
  | .new v => some (some v)
  | .readExistAndWrite _ w => some w.intoValue
  | .writeOnly w => some w.intoValue

def partUpdates (part : TPart) : List (Nat × DbUpdate) :=
  part.filterMap (fun ktv => match ktv.2.toUpdate with | some u => some (ktv.1, u) | none => none)

def suOfParts (su : DbUpdates) (n : Nat) : List (Nat × TPart) → DbUpdates
  | [] => su
  | (p, part) :: rest =>
    let ups := partUpdates part
    if ups.isEmpty then suOfParts su n rest
    else suOfParts (suAlter su n p (fun pu => PUpd.updateSubstates pu ups)) n rest

def suOfNodes (su : DbUpdates) : Nodes → DbUpdates
  | [] => su
  | (n, nd) :: rest => suOfNodes (suOfParts su n nd.parts) rest

def suOfDeleted (su : DbUpdates) : List (Nat × Nat) → DbUpdates
  | [] => su
  | (n, p) :: rest => suOfDeleted (suAlter su n p (fun _ => .reset [])) rest

/-- `finalize()` (no transient substates) followed by `TrackedSubstates::to_state_updates`:
the new node ids and the `StateUpdates` (expressed with database-level keys, i.e. after
`create_database_updates`) -/
def toStateUpdates (t : Track) : List Nat × DbUpdates :=
  ((t.nodes.filter (fun nn => nn.2.isNew)).map (·.1),
   suOfNodes (suOfDeleted [] t.deleted) t.nodes)

/-! ### operations -/

inductive Op where
  | get (n p k : Nat)
  | set (n p k v : Nat)
  | remove (n p k : Nat)
  | create (n : Nat) (subs : NodeSubstates)
  | scanKeys (n p limit : Nat)
  | drain (n p limit : Nat)
  | scanSorted (n p limit : Nat)
  | forceWrite (n p k : Nat)
  | deletePartition (n p : Nat)
  | revert
  deriving Repr

inductive Res where
  | unit
  | val (v : Option Nat)
  | keys (ks : List Nat)
  | entries (es : List (Nat × Nat))
  | panic
  deriving Repr, DecidableEq

/-- One step of the `CommitableSubstateStore` interface. A panicking call leaves the model state
unchanged (the real object is not used after a panic). -/
def step (t : Track) : Op → Track × Res
  | .get n p k => let (t', r) := getSubstate t n p k; (t', .val r)
  | .set n p k v => (setSubstate t n p k v, .unit)
  | .remove n p k => let (t', r) := removeSubstate t n p k; (t', .val r)
  | .create n subs => (createNode t n subs, .unit)
  | .scanKeys n p l => let (t', r) := scanKeys t n p l; (t', .keys r)
  | .drain n p l => let (t', r) := drainSubstates t n p l; (t', .entries r)
  | .scanSorted n p l => let (t', r) := scanSortedSubstates t n p l; (t', .entries r)
  | .forceWrite n p k => match forceWrite t n p k with | some t' => (t', .unit) | none => (t, .panic)
  | .deletePartition n p => (deletePartition t n p, .unit)
  | .revert => match revert t with | some t' => (t', .unit) | none => (t, .panic)

def run (db : Db) (ops : List Op) : Track := ops.foldl (fun t op => (step t op).1) (new db)

/-- The abstraction: what a read of `(n, p, k)` observes — the tracked value if the substate is
tracked, the database value otherwise. -/
def eff (t : Track) (n p k : Nat) : Option Nat :=
  match lookupTV t n p k with
  | some tv => tv.get
  | none => t.db.get (n, p) k

end Radix.Track
