/-
C14 — model of `radix-substate-store-impls/src/substate_database_overlay.rs`
(`SubstateDatabaseOverlay<S, D>` with `D = InMemorySubstateDatabase`).

Transcription notes
* `StagingDatabaseUpdates` is `BTreeMap<DbNodeKey, BTreeMap<DbPartitionNum, Staging…>>`. The order
  of the two outer maps is only observable through `list_partition_keys` (not part of C14) and
  through the order in which `commit_overlay_into_root_store` applies independent partitions, so
  they are modelled as association lists in insertion order (`IMap`); the innermost maps
  (`BTreeMap<DbSortKey, _>`) are sorted association lists (`SMap`), as their order is what
  `list_raw_values_from_db_key` iterates.
* `merge_database_updates` is transcribed branch by branch: node absent ⇒ the whole node update is
  converted and inserted; partition absent ⇒ converted and inserted; otherwise the four
  `(Delta|Reset) × (Delta|Reset)` combinations.
-/
import RadixModel.Model.SubstateDb
namespace Radix.Overlay
open Radix.KV Radix.SubstateDb

/-- `StagingPartitionDatabaseUpdates` -/
inductive SPart where
  | delta (substateUpdates : List (Nat × DbUpdate))   -- BTreeMap<DbSortKey, DatabaseUpdate>
  | reset (newSubstateValues : List (Nat × Nat))      -- BTreeMap<DbSortKey, DbSubstateValue>
  deriving Repr, DecidableEq

abbrev SNode := List (Nat × SPart)
abbrev Staging := List (Nat × SNode)

structure Overlay where
  staging : Staging
  root : Db

def new (root : Db) : Overlay := { staging := [], root := root }

/-- `From<PartitionDatabaseUpdates> for StagingPartitionDatabaseUpdates` (`collect` into a BTreeMap) -/
def SPart.ofPUpd : PUpd → SPart
  | .delta us => .delta (SMap.ofList us)
  | .reset vs => .reset (SMap.ofList vs)

/-- `From<StagingPartitionDatabaseUpdates> for PartitionDatabaseUpdates` -/
def SPart.toPUpd : SPart → PUpd
  | .delta us => .delta us
  | .reset vs => .reset vs

/-- `From<NodeDatabaseUpdates> for StagingNodeDatabaseUpdates` (`collect` into a BTreeMap: a later
duplicate partition number wins) -/
def SNode.ofNodeUpd (nu : NodeUpd) : SNode :=
  nu.foldl (fun m pu => IMap.set m pu.1 (SPart.ofPUpd pu.2)) []

/-- `this_substate_updates.extend(other_substate_updates)` -/
def extendDelta (this : List (Nat × DbUpdate)) : List (Nat × DbUpdate) → List (Nat × DbUpdate)
  | [] => this
  | (k, u) :: t => extendDelta (SMap.insert this k u) t

/-- the `(Reset, Delta)` arm: apply the delta on the reset's new values -/
def applyOnReset (this : List (Nat × Nat)) : List (Nat × DbUpdate) → List (Nat × Nat)
  | [] => this
  | (k, some v) :: t => applyOnReset (SMap.insert this k v) t
  | (k, none) :: t => applyOnReset (SMap.erase this k) t

/-- the innermost `match (this, other)` of `merge_database_updates` -/
def mergePart : SPart → PUpd → SPart
  | .delta this, .delta other => .delta (extendDelta this other)
  | .reset this, .delta other => .reset (applyOnReset this other)
  | _, .reset other => SPart.ofPUpd (.reset other)

/-- the loop over `other_partition_updates` when the node exists in `this` -/
def mergeNode (this : SNode) : NodeUpd → SNode
  | [] => this
  | (p, u) :: t =>
    match IMap.get? this p with
    | some sp => mergeNode (IMap.set this p (mergePart sp u)) t
    | none => mergeNode (IMap.set this p (SPart.ofPUpd u)) t

/-- `merge_database_updates` -/
def mergeUpdates (this : Staging) : DbUpdates → Staging
  | [] => this
  | (n, nu) :: t =>
    match IMap.get? this n with
    | some sn => mergeUpdates (IMap.set this n (mergeNode sn nu)) t
    | none => mergeUpdates (IMap.set this n (SNode.ofNodeUpd nu)) t

/-- `CommittableSubstateDatabase::commit` of the overlay -/
def commit (o : Overlay) (u : DbUpdates) : Overlay := { o with staging := mergeUpdates o.staging u }

def stagedPart (s : Staging) (pk : PKey) : Option SPart :=
  match IMap.get? s pk.1 with
  | none => none
  | some sn => IMap.get? sn pk.2

/-- `get_raw_substate_by_db_key` -/
def get (o : Overlay) (pk : PKey) (k : Nat) : Option Nat :=
  match IMap.get? o.staging pk.1 with
  | some sn =>
    match IMap.get? sn pk.2 with
    | some (.delta us) =>
      match SMap.get? us k with
      | some (some v) => some v          -- Found(Some)
      | some none => none                -- Found(None)
      | none => o.root.get pk k          -- NotFound
    | some (.reset vs) =>
      match SMap.get? vs k with
      | some v => some v
      | none => none
    | none => o.root.get pk k
  | none => o.root.get pk k

/-- `list_raw_values_from_db_key` -/
def list (o : Overlay) (pk : PKey) (from? : Option Nat) : List (Nat × Nat) :=
  match IMap.get? o.staging pk.1 with
  | some sn =>
    match IMap.get? sn pk.2 with
    | some (.reset vs) =>
      match from? with
      | some f => SMap.from vs f
      | none => vs
    | some (.delta us) =>
      let underlying := o.root.list pk from?
      match from? with
      | some f => overlayIter underlying (SMap.from us f)
      | none => overlayIter underlying us
    | none => o.root.list pk from?
  | none => o.root.list pk from?

/-- `From<StagingDatabaseUpdates> for DatabaseUpdates` -/
def Staging.toUpdates (s : Staging) : DbUpdates :=
  s.map (fun nsn => (nsn.1, nsn.2.map (fun psp => (psp.1, psp.2.toPUpd))))

/-- `commit_overlay_into_root_store` -/
def commitIntoRoot (o : Overlay) : Overlay :=
  { staging := [], root := o.root.commit (Staging.toUpdates o.staging) }

/-- `database_updates()` restricted to one partition (for the line protocol) -/
def databaseUpdatesOf (o : Overlay) (pk : PKey) : Option PUpd :=
  (stagedPart o.staging pk).map SPart.toPUpd

/-- Operations of the line protocol. -/
inductive Op where
  | commit (u : DbUpdates)
  | commitIntoRoot
  deriving Repr

def step (o : Overlay) : Op → Overlay
  | .commit u => commit o u
  | .commitIntoRoot => commitIntoRoot o

end Radix.Overlay
