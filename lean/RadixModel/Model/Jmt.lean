/-
C17 / C18 — model of `radix-substate-store-impls/src/state_tree/*`
(`jellyfish.rs`, `types.rs`, `tier_framework.rs`, `entity_tier.rs`, `partition_tier.rs`,
`substate_tier.rs`, `tree_store.rs::TypedInMemoryTreeStore`, `mod.rs::put_at_next_version`).

Transcription notes
* The real code keeps tree nodes in a store keyed by `(version, nibble path)` and re-reads them; the
  model keeps the *current* tree as a persistent value `Tree α` whose every node carries the version
  under which it is stored (`ver`), so the store key of a node at path `p` is `(ver, p)`.  The
  functions below follow `batch_insert_at / insert_at_child / batch_update_subtree(_with_existing_leaf)`
  branch by branch and **emit** exactly the `put_node` / `put_stale_node` calls of the real code
  (`Batch`); the store itself (`present`) is a separate component of the state that receives those
  emissions (`applyEvents`), including the pruning of `TypedInMemoryTreeStore::record_stale_tree_part`.
  That a read of a referenced node never fails on the real store is property C18 (`present` contains
  every key of the current tree); it is checked on the real store by the correspondence.
* `Child.hash` (cached child hash inside an internal node) is the field `h` of `Tree.node`.
* `NibbleRangeIterator` (binary search for runs of equal nibbles in the *sorted, de-duplicated* slice
  coming out of a `BTreeMap`) is modelled by its specification `groups`: for every nibble `n` in
  increasing order the sub-list of entries whose key has nibble `n` at the current depth.  A key that
  has no nibble at that depth (`LeafKey::get_nibble` index out of range) is the outcome `panic`.
* `HashMap`/`IndexMap` iteration orders only influence the order of `put_node` calls, which is not
  observable (the store is a map and every put of one commit goes to a distinct key).
* Three tiers: the payload of an upper-tier leaf is the root version of the nested tier; the model
  keeps the nested tier's tree itself in the leaf (`sub`).
* Recursion on the depth uses `fuel`; every recursive step consumes one nibble of every key of the
  slice, so `2 * maxKeyLen + 2` (`fuelFor`) suffices.  That bound is NOT proved; the outcome `fuel`
  would show up as a disagreement in the correspondence (the real code has no such outcome) and has
  never been observed.  All theorems quantify over runs that return `.ok`.
-/
namespace Radix.Jmt

abbrev Key := List UInt8
abbrev Hash := List UInt8
abbrev Path := List Nat
/-- `(version, global nibble path)` — `StoredTreeNodeKey`. -/
abbrev NodeKey := Nat × Path

def zeroHash : Hash := List.replicate 32 0

def nibbles : Key → List Nat
  | [] => []
  | b :: r => (b.toNat / 16) :: (b.toNat % 16) :: nibbles r

/-- `LeafKey::get_nibble`; `none` = index out of range (panic). -/
def nib (k : Key) (d : Nat) : Option Nat := (nibbles k)[d]?

/-- The persistent tree of one tier. `sub` = nested tier (`Unit` in the substate tier). -/
inductive Tree (α : Type) where
  | null : Tree α
  | leaf (ver : Nat) (key : Key) (vh : Hash) (payload : Nat) (sub : α) : Tree α
  | node (ver : Nat) (h : Hash) (c : Nat → Tree α) : Tree α

namespace Tree
variable {α : Type}

def isNull : Tree α → Bool | null => true | _ => false
def isLeaf : Tree α → Bool | leaf .. => true | _ => false
def isNode : Tree α → Bool | node .. => true | _ => false

def ver : Tree α → Nat
  | null => 0
  | leaf v .. => v
  | node v .. => v

/-- re-place a node under the current version (a node returned upwards is always `put_node`d by its
new parent under `gen_child_node_key(version, nibble)`). -/
def setVer (v : Nat) : Tree α → Tree α
  | null => null
  | leaf _ k vh p s => leaf v k vh p s
  | node _ h c => node v h c

end Tree

/-- `Node::hash` with the cached child hashes: `Null` ↦ 0³², leaf ↦ `H(key ++ value_hash)`. -/
def hashOf {α : Type} (H : List UInt8 → Hash) : Tree α → Hash
  | .null => zeroHash
  | .leaf _ k vh _ _ => H (k ++ vh)
  | .node _ h _ => h

/-- `InternalNode::merkle_hash(start, width = 2^lvl, bitmaps)` over child hashes `hs`,
existence `ex` and leaf flags `lf`. -/
def mh (H : List UInt8 → Hash) (hs : Nat → Hash) (ex lf : Nat → Bool) : Nat → Nat → Hash
  | 0, s => if ex s then hs s else zeroHash
  | l + 1, s =>
    match ((List.range (2 ^ (l + 1))).map (s + ·)).filter ex with
    | [] => zeroHash
    | [i] => if lf i then hs i else H (mh H hs ex lf l s ++ mh H hs ex lf l (s + 2 ^ l))
    | _ => H (mh H hs ex lf l s ++ mh H hs ex lf l (s + 2 ^ l))

/-- `InternalNode::hash` of the children function `c`. -/
def internalHash {α : Type} (H : List UInt8 → Hash) (c : Nat → Tree α) : Hash :=
  mh H (fun i => hashOf H (c i)) (fun i => !(c i).isNull) (fun i => (c i).isLeaf) 4 0

/-- `TreeNode` as stored (`TreeNodeV1`): what `from_jmt_node` writes. -/
inductive SNode where
  | null
  | leaf (suffix : List Nat) (vh : Hash) (payload : Nat)
  | internal (children : List (Nat × Nat × Hash × Bool))  -- nibble, version, hash, is_leaf

/-- `from_jmt_node(node, key)`; `d` = number of nibbles of the *local* key path. -/
def summ {α : Type} (H : List UInt8 → Hash) (d : Nat) : Tree α → SNode
  | .null => .null
  | .leaf _ k vh p _ => .leaf ((nibbles k).drop d) vh p
  | .node _ _ c => .internal ((List.range 16).filterMap fun i =>
      if (c i).isNull then none else some (i, (c i).ver, hashOf H (c i), (c i).isLeaf))

/-- `TreeUpdateBatch`: `node_batch[0]` and `stale_node_index_batch[0]` (global keys). -/
structure Batch where
  puts : List (NodeKey × SNode) := []
  stale : List NodeKey := []

def Batch.append (a b : Batch) : Batch := { puts := a.puts ++ b.puts, stale := a.stale ++ b.stale }
instance : Append Batch := ⟨Batch.append⟩

/-- One entry of the value set: `(LeafKey, Option<(Hash, Payload)>)` plus the nested tier. -/
structure KV (α : Type) where
  key : Key
  val : Option (Hash × Nat × α)

/-- Outcome of a recursive put: `Ok(Option<Node>)` and the emitted batch. -/
structure R (α : Type) where
  t : Option (Tree α)
  b : Batch

inductive Err where
  | panic (why : String)
  | fuel
  deriving Repr

/-- Specification of `NibbleRangeIterator` on a sorted, de-duplicated slice. -/
def groups {α : Type} (d : Nat) (kvs : List (KV α)) : Except Err (List (Nat × List (KV α))) :=
  if kvs.all (fun kv => (nib kv.key d).isSome) then
    .ok ((List.range 16).filterMap fun n =>
      let g := kvs.filter (fun kv => nib kv.key d == some n)
      if g.isEmpty then none else some (n, g))
  else .error (.panic "get_nibble out of range")

/-- children list ↦ children function (`Children` map). -/
def childFn {α : Type} (cs : List (Nat × Tree α)) (dflt : Nat → Tree α) : Nat → Tree α :=
  fun i => match cs.lookup i with
    | some t => t
    | none => dflt i

/-- tabulate a children function on the 16 nibbles (anything else is not a child). -/
@[noinline] def ofTable {α : Type} (tab : List (Tree α)) : Nat → Tree α :=
  fun i => tab.getD i .null

def norm {α : Type} (c : Nat → Tree α) : Nat → Tree α :=
  ofTable ((List.range 16).map c)

/-- `InternalNode::new(children…)` + the `batch.put_node(child_key, child)` of every listed child. -/
def mkInternal {α : Type} (H : List UInt8 → Hash) (version : Nat) (pfx lp : Path)
    (newCs : List (Nat × Tree α)) (oldC : Nat → Tree α) : Tree α × List (NodeKey × SNode) :=
  -- (`norm (childFn newCs oldC)`, written so that the compiled code tabulates once, here)
  let tab := (List.range 16).map (childFn newCs oldC)
  let c := ofTable tab
  (.node version (internalHash H c) c,
   newCs.map fun (n, t) => ((version, pfx ++ lp ++ [n]), summ H (lp.length + 1) t))

/-- The common tail of `batch_update_subtree` and `…_with_existing_leaf`:
no child → `None`; a single leaf child → that leaf (not yet put); otherwise a new internal node. -/
def finish {α : Type} (H : List UInt8 → Hash) (version : Nat) (pfx lp : Path)
    (cs : List (Nat × Tree α)) (b : Batch) : R α :=
  match cs with
  | [] => ⟨none, b⟩
  | [(n, t)] =>
    if t.isLeaf then ⟨some t, b⟩
    else
      let (nd, puts) := mkInternal H version pfx lp [(n, t)] (fun _ => .null)
      ⟨some nd, b ++ { puts := puts }⟩
  | _ =>
    let (nd, puts) := mkInternal H version pfx lp cs (fun _ => .null)
    ⟨some nd, b ++ { puts := puts }⟩

/-- run `f` over the groups, collecting `(nibble, result)` and the concatenated batch. -/
def mapGroups {α : Type} (f : Nat → List (KV α) → Except Err (R α)) :
    List (Nat × List (KV α)) → Except Err (List (Nat × Option (Tree α)) × Batch)
  | [] => .ok ([], {})
  | (n, g) :: rest =>
    match f n g with
    | .error e => .error e
    | .ok r =>
      match mapGroups f rest with
      | .error e => .error e
      | .ok (rs, b) => .ok ((n, r.t) :: rs, r.b ++ b)

def someChildren {α : Type} (rs : List (Nat × Option (Tree α))) : List (Nat × Tree α) :=
  rs.filterMap fun (n, r) => r.map (n, ·)

/-- the single-entry case shared by `batch_update_subtree` and the same-key case of
`…_with_existing_leaf`: `Node::new_leaf(key, value_hash, payload, version)` or `None`. -/
def single {α : Type} (version : Nat) (kv : KV α) : R α :=
  match kv.val with
  | some (vh, p, s) => ⟨some (.leaf version kv.key vh p s), {}⟩
  | none => ⟨none, {}⟩

/-- `batch_update_subtree` -/
def updateSubtree {α : Type} (H : List UInt8 → Hash) (version : Nat) (pfx : Path) :
    Nat → Path → List (KV α) → Except Err (R α)
  | 0, _, _ => .error .fuel
  | fuel + 1, lp, kvs =>
    match kvs with
    | [kv] => .ok (single version kv)
    | _ =>
      match groups lp.length kvs with
      | .error e => .error e
      | .ok gs =>
        match mapGroups (fun n g => updateSubtree H version pfx fuel (lp ++ [n]) g) gs with
        | .error e => .error e
        | .ok (rs, b) => .ok (finish H version pfx lp (someChildren rs) b)

/-- `batch_update_subtree_with_existing_leaf`; the existing leaf is `(ek, evh, epl, esub)`. -/
def withExistingLeaf {α : Type} (H : List UInt8 → Hash) (version : Nat) (pfx : Path)
    (ek : Key) (evh : Hash) (epl : Nat) (esub : α) :
    Nat → Path → List (KV α) → Except Err (R α)
  | 0, _, _ => .error .fuel
  | fuel + 1, lp, kvs =>
    let general : Except Err (R α) :=
      match nib ek lp.length with
      | none => .error (.panic "get_nibble out of range (existing leaf)")
      | some bucket =>
        match groups lp.length kvs with
        | .error e => .error e
        | .ok gs =>
          match mapGroups (fun n g =>
              if n = bucket then withExistingLeaf H version pfx ek evh epl esub fuel (lp ++ [n]) g
              else updateSubtree H version pfx fuel (lp ++ [n]) g) gs with
          | .error e => .error e
          | .ok (rs, b) =>
            let isolated := !(gs.any fun g => g.1 == bucket)
            let cs := someChildren rs ++
              (if isolated then [(bucket, Tree.leaf version ek evh epl esub)] else [])
            .ok (finish H version pfx lp cs b)
    match kvs with
    | [kv] => if kv.key = ek then .ok (single version kv) else general
    | _ => general

/-- The tail of `batch_insert_at` on an internal node: `old_children` (`oldC`: the old children minus
those whose subtree became empty) and `new_created_children` (`newCs`) are merged; an internal node
left with no child disappears, one left with a single *leaf* child is replaced by that leaf (which is
then re-put by the parent), anything else is rebuilt under the new version. -/
def collapse {α : Type} (H : List UInt8 → Hash) (version : Nat) (pfx lp : Path)
    (newCs : List (Nat × Tree α)) (oldC : Nat → Tree α) (b : Batch) : R α :=
  let oldIdx := (List.range 16).filter fun i => !(oldC i).isNull
  let rebuild : R α :=
    let (nd, puts) := mkInternal H version pfx lp newCs oldC
    ⟨some nd, b ++ { puts := puts }⟩
  match newCs, oldIdx with
  | [], [] => ⟨none, b⟩
  | [(nn, nt)], [on] => if on = nn && nt.isLeaf then ⟨some nt, b⟩ else rebuild
  | [(_, nt)], [] => if nt.isLeaf then ⟨some nt, b⟩ else rebuild
  | [], [on] =>
    if (oldC on).isLeaf then
      -- the only remaining child is a leaf: it is read, marked stale and returned upwards
      ⟨some ((oldC on).setVer version),
       b ++ { stale := [((oldC on).ver, pfx ++ lp ++ [on])] }⟩
    else rebuild
  | _, _ => rebuild

/-- `batch_insert_at` on a non-`Null` node (`Null` exists at depth 0 only, see `putTier`). -/
def insertAt {α : Type} (H : List UInt8 → Hash) (version : Nat) (pfx : Path) (fuel : Nat) :
    Tree α → Path → List (KV α) → Except Err (R α)
  | .null, _, _ => .error (.panic "Null node can only exist at depth 0")
  | .leaf v ek evh epl esub, lp, kvs =>
    match withExistingLeaf H version pfx ek evh epl esub fuel lp kvs with
    | .error e => .error e
    | .ok r => .ok ⟨r.t, ({ stale := [(v, pfx ++ lp)] } : Batch) ++ r.b⟩
  | .node v _ c, lp, kvs =>
    match groups lp.length kvs with
    | .error e => .error e
    | .ok gs =>
      -- `insert_at_child`
      match mapGroups (fun n g =>
          if (c n).isNull then updateSubtree H version pfx fuel (lp ++ [n]) g
          else insertAt H version pfx fuel (c n) (lp ++ [n]) g) gs with
      | .error e => .error e
      | .ok (rs, b0) =>
        let b : Batch := ({ stale := [(v, pfx ++ lp)] } : Batch) ++ b0
        let removed := fun i => rs.any fun r => r.1 == i && r.2.isNone
        let oldC : Nat → Tree α := fun i => if removed i then .null else c i
        .ok (collapse H version pfx lp (someChildren rs) oldC b)

end Radix.Jmt
