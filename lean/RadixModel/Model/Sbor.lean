/-
C20 / C21 — model of the SBOR value codec and the untyped streaming traverser.

Transcribed from
  sbor/src/value_kind.rs            (`ValueKind::as_u8 / from_u8`)
  sbor/src/encoder.rs               (`Encoder::write_size`, `VecEncoder` depth tracking)
  sbor/src/decoder.rs               (`Decoder::read_size`, `VecDecoder`, `decode_payload`)
  sbor/src/codec/{boolean,integer,string}.rs
  sbor/src/value.rs                 (`Encode/Decode for Value<X, Y>`)
  sbor/src/traversal/untyped/{traverser,events}.rs   (`VecTraverser::next_event`)
  radix-common/src/data/scrypto/{custom_value_kind,custom_value,custom_traversal}.rs, model/*
  radix-common/src/data/manifest/{custom_value_kind,custom_value,custom_traversal}.rs, model/*

Transcription notes
* A decoder is a function on the *remaining* input; an error carries the number of bytes that
  remain at the moment of the error (`DErr × Nat`) so that the traverser's error locations
  (`Location::end_offset = decoder.get_offset()`) are part of the model.
* `stack_depth`/`max_depth`: the functions `encBody`/`decBody` take the *remaining* allowance
  `rem = max_depth - stack_depth`; `track_stack_depth_increase` is the `rem = 0` test, and the error
  carries `max_depth` (parameter `max`). They are structurally recursive on `rem`.
* Integers are bit patterns (`BitVec (8*width)`), `to_le_bytes/from_le_bytes` are `leBytes/leVal`.
* Strings are byte lists; Rust's `String` invariant is the well-formedness predicate `utf8 s`.
  `str::from_utf8` is the parameter `Flavour.utf8` (the driver instantiates it with `utf8Valid`).
* The three flavours are instances of one `Flavour` record (custom value kinds + custom bodies).
  `Decimal`/`PreciseDecimal` bodies are kept as their 24/32 little-endian bytes (bnum's
  `from_le_bytes` is total on them).
* Every constant (value-kind bytes, payload prefixes, custom kind ids, size cap, lengths, entity
  types, max depths) is taken from `Generated/Sbor.lean`, `Generated/SborDepth.lean`.
-/
import RadixModel.Generated.Sbor
import RadixModel.Generated.SborDepth

namespace Radix.Sbor
open Radix.Generated

abbrev Bytes := List UInt8

/-! ## Errors -/

/-- `sbor::DecodeError` (the variants reachable from the `Value` codec and the traverser). -/
inductive DErr where
  | extraTrailingBytes (n : Nat)
  | bufferUnderflow (required remaining : Nat)
  | unexpectedPayloadPrefix (expected actual : UInt8)
  | unexpectedCustomValueKind (actual : UInt8)
  | unknownValueKind (b : UInt8)
  | invalidBool (b : UInt8)
  | invalidUtf8
  | invalidSize
  | maxDepthExceeded (max : Nat)
  | invalidCustomValue
  deriving DecidableEq, Repr

/-- `sbor::EncodeError` -/
inductive EErr where
  | maxDepthExceeded (max : Nat)
  | sizeTooLarge (actual maxAllowed : Nat)
  | mismatchingArrayElementValueKind (elementKind actualKind : UInt8)
  | mismatchingMapKeyValueKind (keyKind actualKind : UInt8)
  | mismatchingMapValueValueKind (valueKind actualKind : UInt8)
  deriving DecidableEq, Repr

/-- Decoder result: value and remaining input, or error and number of remaining bytes at the error. -/
abbrev R (α : Type) := Except (DErr × Nat) (α × Bytes)

/-! ## Value kinds -/

inductive IntK where
  | i8 | i16 | i32 | i64 | i128 | u8 | u16 | u32 | u64 | u128
  deriving DecidableEq, Repr

def IntK.width : IntK → Nat
  | .i8 => 1 | .i16 => 2 | .i32 => 4 | .i64 => 8 | .i128 => 16
  | .u8 => 1 | .u16 => 2 | .u32 => 4 | .u64 => 8 | .u128 => 16

def IntK.toNat : IntK → Nat
  | .i8 => Sbor.VALUE_KIND_I8 | .i16 => Sbor.VALUE_KIND_I16 | .i32 => Sbor.VALUE_KIND_I32
  | .i64 => Sbor.VALUE_KIND_I64 | .i128 => Sbor.VALUE_KIND_I128
  | .u8 => Sbor.VALUE_KIND_U8 | .u16 => Sbor.VALUE_KIND_U16 | .u32 => Sbor.VALUE_KIND_U32
  | .u64 => Sbor.VALUE_KIND_U64 | .u128 => Sbor.VALUE_KIND_U128

/-- `ValueKind<X>` -/
inductive VK (X : Type) where
  | bool
  | int (k : IntK)
  | string
  | enum
  | array
  | tuple
  | map
  | custom (x : X)
  deriving DecidableEq, Repr

/-- `CustomValueKind` (`as_u8`, `from_u8`). -/
structure KindCodec (X : Type) where
  toU8 : X → UInt8
  ofU8 : UInt8 → Option X

/-- `ValueKind::as_u8` -/
def VK.toU8 {X : Type} (kc : KindCodec X) : VK X → UInt8
  | .bool => UInt8.ofNat Sbor.VALUE_KIND_BOOL
  | .int k => UInt8.ofNat k.toNat
  | .string => UInt8.ofNat Sbor.VALUE_KIND_STRING
  | .enum => UInt8.ofNat Sbor.VALUE_KIND_ENUM
  | .array => UInt8.ofNat Sbor.VALUE_KIND_ARRAY
  | .tuple => UInt8.ofNat Sbor.VALUE_KIND_TUPLE
  | .map => UInt8.ofNat Sbor.VALUE_KIND_MAP
  | .custom x => kc.toU8 x

/-- `ValueKind::from_u8` (same order of tests as the `match`). -/
def VK.ofU8 {X : Type} (kc : KindCodec X) (id : UInt8) : Option (VK X) :=
  if id.toNat = Sbor.VALUE_KIND_BOOL then some .bool
  else if id.toNat = Sbor.VALUE_KIND_I8 then some (.int .i8)
  else if id.toNat = Sbor.VALUE_KIND_I16 then some (.int .i16)
  else if id.toNat = Sbor.VALUE_KIND_I32 then some (.int .i32)
  else if id.toNat = Sbor.VALUE_KIND_I64 then some (.int .i64)
  else if id.toNat = Sbor.VALUE_KIND_I128 then some (.int .i128)
  else if id.toNat = Sbor.VALUE_KIND_U8 then some (.int .u8)
  else if id.toNat = Sbor.VALUE_KIND_U16 then some (.int .u16)
  else if id.toNat = Sbor.VALUE_KIND_U32 then some (.int .u32)
  else if id.toNat = Sbor.VALUE_KIND_U64 then some (.int .u64)
  else if id.toNat = Sbor.VALUE_KIND_U128 then some (.int .u128)
  else if id.toNat = Sbor.VALUE_KIND_STRING then some .string
  else if id.toNat = Sbor.VALUE_KIND_TUPLE then some .tuple
  else if id.toNat = Sbor.VALUE_KIND_ENUM then some .enum
  else if id.toNat = Sbor.VALUE_KIND_ARRAY then some .array
  else if id.toNat = Sbor.VALUE_KIND_MAP then some .map
  else if id.toNat ≥ Sbor.CUSTOM_VALUE_KIND_START then (kc.ofU8 id).map VK.custom
  else none

/-! ## Primitive readers (`VecDecoder`) -/

/-- `read_byte` -/
def readByte : Bytes → R UInt8
  | [] => .error (.bufferUnderflow 1 0, 0)
  | b :: bs => .ok (b, bs)

/-- `read_slice(n)` -/
def readSlice (n : Nat) (bs : Bytes) : R Bytes :=
  if bs.length < n then .error (.bufferUnderflow n bs.length, bs.length)
  else .ok (bs.take n, bs.drop n)

/-- `read_value_kind` -/
def readValueKind {X : Type} (kc : KindCodec X) (bs : Bytes) : R (VK X) :=
  match readByte bs with
  | .error e => .error e
  | .ok (id, bs') =>
    match VK.ofU8 kc id with
    | some vk => .ok (vk, bs')
    | none => .error (.unknownValueKind id, bs'.length)

/-- The loop of `read_size` (LEB128, 4 bytes max); `fuel` = bytes still allowed (4 at entry; the
`shift >= 28` test fires before it can reach 0). -/
def readSizeLoop : Nat → Nat → Nat → Bytes → R Nat
  | 0, _, _, bs => .error (.invalidSize, bs.length)
  | fuel + 1, size, shift, bs =>
    match readByte bs with
    | .error e => .error e
    | .ok (byte, bs') =>
      let size' := size ||| ((byte &&& 0x7F).toNat <<< shift)
      if byte < 0x80 then
        -- "The last byte should not be zero, unless the size is zero"
        if byte = 0 ∧ shift ≠ 0 then .error (.invalidSize, bs'.length) else .ok (size', bs')
      else
        let shift' := shift + 7
        if shift' ≥ 28 then .error (.invalidSize, bs'.length)
        else readSizeLoop fuel size' shift' bs'

/-- `read_size` -/
def readSize (bs : Bytes) : R Nat := readSizeLoop 4 0 0 bs

/-! ## Primitive writers (`VecEncoder`) -/

/-- The loop of `write_size`; `fuel` = bytes still allowed (4 at entry, enough below the cap). -/
def writeSizeLoop : Nat → Nat → Bytes
  | 0, _ => []
  | fuel + 1, size =>
    let seven := size &&& 0x7F
    let size' := size >>> 7
    if size' = 0 then [UInt8.ofNat seven]
    else UInt8.ofNat (seven ||| 0x80) :: writeSizeLoop fuel size'

/-- `write_size` -/
def writeSize (size : Nat) : Except EErr Bytes :=
  if size > Sbor.SBOR_MAX_SIZE then .error (.sizeTooLarge size Sbor.SBOR_MAX_SIZE)
  else .ok (writeSizeLoop 4 size)

/-- `to_le_bytes` of a `k`-byte integer. -/
def leBytes : Nat → Nat → Bytes
  | 0, _ => []
  | k + 1, n => UInt8.ofNat (n % 256) :: leBytes k (n / 256)

/-- `from_le_bytes` -/
def leVal : Bytes → Nat
  | [] => 0
  | b :: bs => b.toNat + 256 * leVal bs

/-- `to_be_bytes` / `from_be_bytes` (u64 of the integer non-fungible local id). -/
def beBytes (k n : Nat) : Bytes := (leBytes k n).reverse
def beVal (bs : Bytes) : Nat := leVal bs.reverse

/-! ## Values -/

/-- `Value<X, Y>` -/
inductive Value (X Y : Type) where
  | bool (b : Bool)
  | int (k : IntK) (v : BitVec (8 * k.width))
  | string (s : Bytes)
  | enum (discriminator : UInt8) (fields : List (Value X Y))
  | array (elementKind : VK X) (elements : List (Value X Y))
  | tuple (fields : List (Value X Y))
  | map (keyKind valueKind : VK X) (entries : List (Value X Y × Value X Y))
  | custom (c : Y)

/-- One flavour of SBOR: custom value kinds, payload prefix, custom value bodies, UTF-8 test. -/
structure Flavour (X Y : Type) where
  kc : KindCodec X
  payloadPrefix : UInt8
  /-- `str::from_utf8(..).is_ok()` -/
  utf8 : Bytes → Bool
  /-- `CustomValue::get_custom_value_kind` -/
  customKind : Y → X
  /-- `Y::encode_body` -/
  encodeCustom : Y → Except EErr Bytes
  /-- `Y::decode_body_with_value_kind(decoder, Custom(x))` -/
  decodeCustom : X → Bytes → R Y

/-- `Value::get_value_kind` -/
def Value.kind {X Y : Type} (F : Flavour X Y) : Value X Y → VK X
  | .bool _ => .bool
  | .int k _ => .int k
  | .string _ => .string
  | .enum _ _ => .enum
  | .array _ _ => .array
  | .tuple _ => .tuple
  | .map _ _ _ => .map
  | .custom c => .custom (F.customKind c)

/-! ## Encoder (`Encode for Value`, `VecEncoder`) -/

/-- Sequential encoding of a list, first error wins. -/
def encMany {α : Type} (f : α → Except EErr Bytes) : List α → Except EErr Bytes
  | [] => .ok []
  | a :: as =>
    match f a with
    | .error e => .error e
    | .ok b =>
      match encMany f as with
      | .error e => .error e
      | .ok bs => .ok (b ++ bs)

/-- `encoder.encode(field)`: value kind byte, then the deeper body (`enc`). -/
def encField {X Y : Type} (F : Flavour X Y) (enc : Value X Y → Except EErr Bytes) (f : Value X Y) :
    Except EErr Bytes :=
  match enc f with
  | .error e => .error e
  | .ok b => .ok (VK.toU8 F.kc (f.kind F) :: b)

/-- One array element: kind check, then `encode_deeper_body`. -/
def encElem {X Y : Type} [DecidableEq X] (F : Flavour X Y) (ek : VK X) (enc : Value X Y → Except EErr Bytes)
    (item : Value X Y) : Except EErr Bytes :=
  if item.kind F ≠ ek then
    .error (.mismatchingArrayElementValueKind (VK.toU8 F.kc ek) (VK.toU8 F.kc (item.kind F)))
  else enc item

/-- One map entry: key kind check, key body, value kind check, value body. -/
def encEntry {X Y : Type} [DecidableEq X] (F : Flavour X Y) (kk vk : VK X) (enc : Value X Y → Except EErr Bytes)
    (entry : Value X Y × Value X Y) : Except EErr Bytes :=
  if entry.1.kind F ≠ kk then
    .error (.mismatchingMapKeyValueKind (VK.toU8 F.kc kk) (VK.toU8 F.kc (entry.1.kind F)))
  else
    match enc entry.1 with
    | .error e => .error e
    | .ok kb =>
      if entry.2.kind F ≠ vk then
        .error (.mismatchingMapValueValueKind (VK.toU8 F.kc vk) (VK.toU8 F.kc (entry.2.kind F)))
      else
        match enc entry.2 with
        | .error e => .error e
        | .ok vb => .ok (kb ++ vb)

/-- `encoder.encode_deeper_body(value)` with `rem` levels of depth left:
`track_stack_depth_increase` (fails when `rem = 0`), then `Value::encode_body`. -/
def encBody {X Y : Type} [DecidableEq X] (F : Flavour X Y) (max : Nat) : Nat → Value X Y → Except EErr Bytes
  | 0, _ => .error (.maxDepthExceeded max)
  | rem + 1, v =>
    match v with
    | .bool b => .ok [if b then 1 else 0]
    | .int k x => .ok (leBytes k.width x.toNat)
    | .string s =>
      match writeSize s.length with
      | .error e => .error e
      | .ok sz => .ok (sz ++ s)
    | .enum d fs =>
      match writeSize fs.length with
      | .error e => .error e
      | .ok sz =>
        match encMany (encField F (encBody F max rem)) fs with
        | .error e => .error e
        | .ok body => .ok (d :: sz ++ body)
    | .array ek es =>
      match writeSize es.length with
      | .error e => .error e
      | .ok sz =>
        match encMany (encElem F ek (encBody F max rem)) es with
        | .error e => .error e
        | .ok body => .ok (VK.toU8 F.kc ek :: sz ++ body)
    | .tuple fs =>
      match writeSize fs.length with
      | .error e => .error e
      | .ok sz =>
        match encMany (encField F (encBody F max rem)) fs with
        | .error e => .error e
        | .ok body => .ok (sz ++ body)
    | .map kk vk es =>
      match writeSize es.length with
      | .error e => .error e
      | .ok sz =>
        match encMany (encEntry F kk vk (encBody F max rem)) es with
        | .error e => .error e
        | .ok body => .ok (VK.toU8 F.kc kk :: VK.toU8 F.kc vk :: sz ++ body)
    | .custom c => F.encodeCustom c

/-- `encoder.encode(value)`: value kind byte, then `encode_deeper_body`. -/
def encValue {X Y : Type} [DecidableEq X] (F : Flavour X Y) (max rem : Nat) (v : Value X Y) : Except EErr Bytes :=
  encField F (encBody F max rem) v

/-- `VecEncoder::new(buf, max).encode_payload(value, prefix)` -/
def encodePayload {X Y : Type} [DecidableEq X] (F : Flavour X Y) (max : Nat) (v : Value X Y) : Except EErr Bytes :=
  match encValue F max max v with
  | .error e => .error e
  | .ok b => .ok (F.payloadPrefix :: b)

/-! ## Decoder (`Decode for Value`, `VecDecoder`) -/

/-- `for _ in 0..n { push(f()?) }` -/
def decMany {α : Type} (f : Bytes → R α) : Nat → Bytes → R (List α)
  | 0, bs => .ok ([], bs)
  | n + 1, bs =>
    match f bs with
    | .error e => .error e
    | .ok (a, bs') =>
      match decMany f n bs' with
      | .error e => .error e
      | .ok (as, bs'') => .ok (a :: as, bs'')

/-- `bool::decode_body_with_value_kind` -/
def decBool (bs : Bytes) : R Bool :=
  match readByte bs with
  | .error e => .error e
  | .ok (b, bs') =>
    if b = 0 then .ok (false, bs')
    else if b = 1 then .ok (true, bs')
    else .error (.invalidBool b, bs'.length)

/-- `<int>::decode_body_with_value_kind` (`read_byte` / `read_slice(n)` + `from_le_bytes`). -/
def decInt (k : IntK) (bs : Bytes) : R (BitVec (8 * k.width)) :=
  match readSlice k.width bs with
  | .error e => .error e
  | .ok (sl, bs') => .ok (BitVec.ofNat _ (leVal sl), bs')

/-- `String::decode_body_with_value_kind` -/
def decString (utf8 : Bytes → Bool) (bs : Bytes) : R Bytes :=
  match readSize bs with
  | .error e => .error e
  | .ok (len, bs1) =>
    match readSlice len bs1 with
    | .error e => .error e
    | .ok (sl, bs2) =>
      if utf8 sl then .ok (sl, bs2) else .error (.invalidUtf8, bs2.length)

/-- `decoder.decode()`: `read_value_kind`, then the deeper body (`dec`). -/
def decField {X Y : Type} (F : Flavour X Y) (dec : VK X → Bytes → R (Value X Y)) (bs : Bytes) : R (Value X Y) :=
  match readValueKind F.kc bs with
  | .error e => .error e
  | .ok (vk, bs') => dec vk bs'

/-- One map entry: key body, value body. -/
def decEntry {X Y : Type} (kk vk : VK X) (dec : VK X → Bytes → R (Value X Y)) (b : Bytes) :
    R (Value X Y × Value X Y) :=
  match dec kk b with
  | .error e => .error e
  | .ok (k, b') =>
    match dec vk b' with
    | .error e => .error e
    | .ok (v, b'') => .ok ((k, v), b'')

/-- `decoder.decode_deeper_body_with_value_kind(vk)` with `rem` levels of depth left:
`track_stack_depth_increase` (fails when `rem = 0`), then `Value::decode_body_with_value_kind`. -/
def decBody {X Y : Type} (F : Flavour X Y) (max : Nat) : Nat → VK X → Bytes → R (Value X Y)
  | 0, _, bs => .error (.maxDepthExceeded max, bs.length)
  | rem + 1, vk, bs =>
    match vk with
    | .bool =>
      match decBool bs with
      | .error e => .error e
      | .ok (b, bs') => .ok (.bool b, bs')
    | .int k =>
      match decInt k bs with
      | .error e => .error e
      | .ok (v, bs') => .ok (.int k v, bs')
    | .string =>
      match decString F.utf8 bs with
      | .error e => .error e
      | .ok (s, bs') => .ok (.string s, bs')
    | .tuple =>
      match readSize bs with
      | .error e => .error e
      | .ok (len, bs1) =>
        match decMany (decField F (decBody F max rem)) len bs1 with
        | .error e => .error e
        | .ok (fs, bs2) => .ok (.tuple fs, bs2)
    | .enum =>
      match readByte bs with
      | .error e => .error e
      | .ok (d, bs0) =>
        match readSize bs0 with
        | .error e => .error e
        | .ok (len, bs1) =>
          match decMany (decField F (decBody F max rem)) len bs1 with
          | .error e => .error e
          | .ok (fs, bs2) => .ok (.enum d fs, bs2)
    | .array =>
      match readValueKind F.kc bs with
      | .error e => .error e
      | .ok (ek, bs0) =>
        match readSize bs0 with
        | .error e => .error e
        | .ok (len, bs1) =>
          match decMany (decBody F max rem ek) len bs1 with
          | .error e => .error e
          | .ok (es, bs2) => .ok (.array ek es, bs2)
    | .map =>
      match readValueKind F.kc bs with
      | .error e => .error e
      | .ok (kk, bs0) =>
        match readValueKind F.kc bs0 with
        | .error e => .error e
        | .ok (vk, bs00) =>
          match readSize bs00 with
          | .error e => .error e
          | .ok (len, bs1) =>
            match decMany (decEntry kk vk (decBody F max rem)) len bs1 with
            | .error e => .error e
            | .ok (es, bs2) => .ok (.map kk vk es, bs2)
    | .custom x =>
      match F.decodeCustom x bs with
      | .error e => .error e
      | .ok (c, bs') => .ok (.custom c, bs')

/-- `decoder.decode()` -/
def decValue {X Y : Type} (F : Flavour X Y) (max rem : Nat) (bs : Bytes) : R (Value X Y) :=
  decField F (decBody F max rem) bs

/-- `VecDecoder::new(buf, max).decode_payload(prefix)`:
`read_and_check_payload_prefix`, `decode`, `check_end`. -/
def decodePayload {X Y : Type} (F : Flavour X Y) (max : Nat) (bs : Bytes) : Except (DErr × Nat) (Value X Y) :=
  match readByte bs with
  | .error e => .error e
  | .ok (p, bs0) =>
    if p ≠ F.payloadPrefix then .error (.unexpectedPayloadPrefix F.payloadPrefix p, bs0.length)
    else
      match decValue F max max bs0 with
      | .error e => .error e
      | .ok (v, rest) =>
        if rest.length ≠ 0 then .error (.extraTrailingBytes rest.length, rest.length)
        else .ok v

/-! ## UTF-8 (`core::str::from_utf8`, Unicode Table 3-7) -/

def isCont (b : UInt8) : Bool := 0x80 ≤ b && b ≤ 0xBF

def utf8Valid : Bytes → Bool
  | [] => true
  | b0 :: rest =>
    if b0 < 0x80 then utf8Valid rest
    else if 0xC2 ≤ b0 && b0 ≤ 0xDF then
      match rest with
      | b1 :: r => isCont b1 && utf8Valid r
      | _ => false
    else if 0xE0 ≤ b0 && b0 ≤ 0xEF then
      match rest with
      | b1 :: b2 :: r =>
        (if b0 = 0xE0 then 0xA0 ≤ b1 && b1 ≤ 0xBF
         else if b0 = 0xED then 0x80 ≤ b1 && b1 ≤ 0x9F
         else isCont b1) && isCont b2 && utf8Valid r
      | _ => false
    else if 0xF0 ≤ b0 && b0 ≤ 0xF4 then
      match rest with
      | b1 :: b2 :: b3 :: r =>
        (if b0 = 0xF0 then 0x90 ≤ b1 && b1 ≤ 0xBF
         else if b0 = 0xF4 then 0x80 ≤ b1 && b1 ≤ 0x8F
         else isCont b1) && isCont b2 && isCont b3 && utf8Valid r
      | _ => false
    else false

/-! ## Basic flavour (`NoCustomValueKind`, `NoCustomValue`) -/

def basicKinds : KindCodec Empty := { toU8 := fun x => x.elim, ofU8 := fun _ => none }

def basic : Flavour Empty Empty where
  kc := basicKinds
  payloadPrefix := UInt8.ofNat Sbor.BASIC_PAYLOAD_PREFIX
  utf8 := utf8Valid
  customKind := fun y => y.elim
  encodeCustom := fun y => y.elim
  decodeCustom := fun x _ => x.elim

/-! ## Non-fungible local ids (shared by the Scrypto and manifest flavours) -/

/-- `NonFungibleLocalId` / `ManifestNonFungibleLocalId` -/
inductive NFId where
  | string (s : Bytes)
  | integer (v : BitVec 64)
  | bytes (b : Bytes)
  | ruid (b : Bytes)
  deriving DecidableEq, Repr

def nfCharOk (b : UInt8) : Bool :=
  (0x61 ≤ b && b ≤ 0x7A) || (0x41 ≤ b && b ≤ 0x5A) || (0x30 ≤ b && b ≤ 0x39) || b = 0x5F

/-- `StringNonFungibleLocalId::validate_slice` / `ManifestNonFungibleLocalId::string` -/
def nfStringOk (maxLen : Nat) (s : Bytes) : Bool :=
  !s.isEmpty && s.length ≤ maxLen && s.all nfCharOk

/-- `BytesNonFungibleLocalId::validate` / `ManifestNonFungibleLocalId::bytes` -/
def nfBytesOk (maxLen : Nat) (s : Bytes) : Bool :=
  !s.isEmpty && s.length ≤ maxLen

/-- `encode_body_common` / `ManifestNonFungibleLocalId::encode_body` -/
def encNFId : NFId → Except EErr Bytes
  | .string s =>
    match writeSize s.length with
    | .error e => .error e
    | .ok sz => .ok (0 :: sz ++ s)
  | .integer v => .ok (1 :: beBytes 8 v.toNat)
  | .bytes b =>
    match writeSize b.length with
    | .error e => .error e
    | .ok sz => .ok (2 :: sz ++ b)
  | .ruid b => .ok (3 :: b)

/-- `decode_body_common` / `ManifestNonFungibleLocalId::decode_body_with_value_kind` -/
def decNFId (utf8 : Bytes → Bool) (maxLen : Nat) (bs : Bytes) : R NFId :=
  match readByte bs with
  | .error e => .error e
  | .ok (d, bs0) =>
    if d = 0 then
      match readSize bs0 with
      | .error e => .error e
      | .ok (len, bs1) =>
        match readSlice len bs1 with
        | .error e => .error e
        | .ok (sl, bs2) =>
          if !utf8 sl then .error (.invalidCustomValue, bs2.length)
          else if !nfStringOk maxLen sl then .error (.invalidCustomValue, bs2.length)
          else .ok (.string sl, bs2)
    else if d = 1 then
      match readSlice 8 bs0 with
      | .error e => .error e
      | .ok (sl, bs1) => .ok (.integer (BitVec.ofNat 64 (beVal sl)), bs1)
    else if d = 2 then
      match readSize bs0 with
      | .error e => .error e
      | .ok (len, bs1) =>
        match readSlice len bs1 with
        | .error e => .error e
        | .ok (sl, bs2) =>
          if !nfBytesOk maxLen sl then .error (.invalidCustomValue, bs2.length)
          else .ok (.bytes sl, bs2)
    else if d = 3 then
      match readSlice 32 bs0 with
      | .error e => .error e
      | .ok (sl, bs1) => .ok (.ruid sl, bs1)
    else .error (.invalidCustomValue, bs0.length)

/-- Fixed-size custom body: `read_slice(size)` then `try_from` (which only checks the length). -/
def decFixed (size : Nat) (bs : Bytes) : R Bytes := readSlice size bs

/-! ## Scrypto flavour -/

inductive ScryptoKind where
  | reference | own | decimal | preciseDecimal | nonFungibleLocalId
  deriving DecidableEq, Repr

def ScryptoKind.toNat : ScryptoKind → Nat
  | .reference => Sbor.SCRYPTO_KIND_REFERENCE
  | .own => Sbor.SCRYPTO_KIND_OWN
  | .decimal => Sbor.SCRYPTO_KIND_DECIMAL
  | .preciseDecimal => Sbor.SCRYPTO_KIND_PRECISE_DECIMAL
  | .nonFungibleLocalId => Sbor.SCRYPTO_KIND_NON_FUNGIBLE_LOCAL_ID

def scryptoKinds : KindCodec ScryptoKind where
  toU8 := fun k => UInt8.ofNat k.toNat
  ofU8 := fun id =>
    if id.toNat = Sbor.SCRYPTO_KIND_REFERENCE then some .reference
    else if id.toNat = Sbor.SCRYPTO_KIND_OWN then some .own
    else if id.toNat = Sbor.SCRYPTO_KIND_DECIMAL then some .decimal
    else if id.toNat = Sbor.SCRYPTO_KIND_PRECISE_DECIMAL then some .preciseDecimal
    else if id.toNat = Sbor.SCRYPTO_KIND_NON_FUNGIBLE_LOCAL_ID then some .nonFungibleLocalId
    else none

/-- `ScryptoCustomValue` (node ids / decimals as their fixed-length byte bodies). -/
inductive ScryptoCustom where
  | reference (node : Bytes)
  | own (node : Bytes)
  | decimal (le : Bytes)
  | preciseDecimal (le : Bytes)
  | nonFungibleLocalId (id : NFId)
  deriving DecidableEq, Repr

def ScryptoCustom.kind : ScryptoCustom → ScryptoKind
  | .reference _ => .reference
  | .own _ => .own
  | .decimal _ => .decimal
  | .preciseDecimal _ => .preciseDecimal
  | .nonFungibleLocalId _ => .nonFungibleLocalId

def encScryptoCustom : ScryptoCustom → Except EErr Bytes
  | .reference n => .ok n
  | .own n => .ok n
  | .decimal b => .ok b
  | .preciseDecimal b => .ok b
  | .nonFungibleLocalId id => encNFId id

def decScryptoCustom (utf8 : Bytes → Bool) (k : ScryptoKind) (bs : Bytes) : R ScryptoCustom :=
  match k with
  | .reference =>
    match decFixed Sbor.NODE_ID_LENGTH bs with
    | .error e => .error e
    | .ok (b, r) => .ok (.reference b, r)
  | .own =>
    match decFixed Sbor.NODE_ID_LENGTH bs with
    | .error e => .error e
    | .ok (b, r) => .ok (.own b, r)
  | .decimal =>
    match decFixed Sbor.DECIMAL_SIZE bs with
    | .error e => .error e
    | .ok (b, r) => .ok (.decimal b, r)
  | .preciseDecimal =>
    match decFixed Sbor.PRECISE_DECIMAL_SIZE bs with
    | .error e => .error e
    | .ok (b, r) => .ok (.preciseDecimal b, r)
  | .nonFungibleLocalId =>
    match decNFId utf8 Sbor.NON_FUNGIBLE_LOCAL_ID_MAX_LENGTH bs with
    | .error e => .error e
    | .ok (id, r) => .ok (.nonFungibleLocalId id, r)

def scrypto : Flavour ScryptoKind ScryptoCustom where
  kc := scryptoKinds
  payloadPrefix := UInt8.ofNat Sbor.SCRYPTO_PAYLOAD_PREFIX
  utf8 := utf8Valid
  customKind := ScryptoCustom.kind
  encodeCustom := encScryptoCustom
  decodeCustom := decScryptoCustom utf8Valid

/-! ## Manifest flavour -/

inductive ManifestKind where
  | address | bucket | proof | expression | blob | decimal | preciseDecimal | nonFungibleLocalId
  | addressReservation
  deriving DecidableEq, Repr

def ManifestKind.toNat : ManifestKind → Nat
  | .address => Sbor.MANIFEST_KIND_ADDRESS
  | .bucket => Sbor.MANIFEST_KIND_BUCKET
  | .proof => Sbor.MANIFEST_KIND_PROOF
  | .expression => Sbor.MANIFEST_KIND_EXPRESSION
  | .blob => Sbor.MANIFEST_KIND_BLOB
  | .decimal => Sbor.MANIFEST_KIND_DECIMAL
  | .preciseDecimal => Sbor.MANIFEST_KIND_PRECISE_DECIMAL
  | .nonFungibleLocalId => Sbor.MANIFEST_KIND_NON_FUNGIBLE_LOCAL_ID
  | .addressReservation => Sbor.MANIFEST_KIND_ADDRESS_RESERVATION

def manifestKinds : KindCodec ManifestKind where
  toU8 := fun k => UInt8.ofNat k.toNat
  ofU8 := fun id =>
    if id.toNat = Sbor.MANIFEST_KIND_ADDRESS then some .address
    else if id.toNat = Sbor.MANIFEST_KIND_BUCKET then some .bucket
    else if id.toNat = Sbor.MANIFEST_KIND_PROOF then some .proof
    else if id.toNat = Sbor.MANIFEST_KIND_EXPRESSION then some .expression
    else if id.toNat = Sbor.MANIFEST_KIND_BLOB then some .blob
    else if id.toNat = Sbor.MANIFEST_KIND_DECIMAL then some .decimal
    else if id.toNat = Sbor.MANIFEST_KIND_PRECISE_DECIMAL then some .preciseDecimal
    else if id.toNat = Sbor.MANIFEST_KIND_NON_FUNGIBLE_LOCAL_ID then some .nonFungibleLocalId
    else if id.toNat = Sbor.MANIFEST_KIND_ADDRESS_RESERVATION then some .addressReservation
    else none

/-- `ManifestCustomValue` -/
inductive ManifestCustom where
  | addressStatic (node : Bytes)
  | addressNamed (id : BitVec 32)
  | bucket (id : BitVec 32)
  | proof (id : BitVec 32)
  /-- `false` = EntireWorktop, `true` = EntireAuthZone -/
  | expression (authZone : Bool)
  | blob (hash : Bytes)
  | decimal (le : Bytes)
  | preciseDecimal (le : Bytes)
  | nonFungibleLocalId (id : NFId)
  | addressReservation (id : BitVec 32)
  deriving DecidableEq, Repr

def ManifestCustom.kind : ManifestCustom → ManifestKind
  | .addressStatic _ => .address
  | .addressNamed _ => .address
  | .bucket _ => .bucket
  | .proof _ => .proof
  | .expression _ => .expression
  | .blob _ => .blob
  | .decimal _ => .decimal
  | .preciseDecimal _ => .preciseDecimal
  | .nonFungibleLocalId _ => .nonFungibleLocalId
  | .addressReservation _ => .addressReservation

def encManifestCustom : ManifestCustom → Except EErr Bytes
  | .addressStatic n => .ok (0 :: n)
  | .addressNamed i => .ok (1 :: leBytes 4 i.toNat)
  | .bucket i => .ok (leBytes 4 i.toNat)
  | .proof i => .ok (leBytes 4 i.toNat)
  | .expression a => .ok [if a then 1 else 0]
  | .blob h => .ok h
  | .decimal b => .ok b
  | .preciseDecimal b => .ok b
  | .nonFungibleLocalId id => encNFId id
  | .addressReservation i => .ok (leBytes 4 i.toNat)

/-- `EntityType::from_repr(b).is_some()` -/
def isEntityType (b : UInt8) : Bool := Sbor.ENTITY_TYPES.contains b.toNat

def decU32 (bs : Bytes) : R (BitVec 32) :=
  match readSlice 4 bs with
  | .error e => .error e
  | .ok (sl, r) => .ok (BitVec.ofNat 32 (leVal sl), r)

def decManifestCustom (utf8 : Bytes → Bool) (k : ManifestKind) (bs : Bytes) : R ManifestCustom :=
  match k with
  | .address =>
    match readByte bs with
    | .error e => .error e
    | .ok (d, bs0) =>
      if d = 0 then
        match readSlice Sbor.NODE_ID_LENGTH bs0 with
        | .error e => .error e
        | .ok (sl, r) =>
          match sl with
          | [] => .error (.invalidCustomValue, r.length)   -- `slice[0]`: NodeId::LENGTH > 0, unreachable
          | b0 :: _ =>
            if !isEntityType b0 then .error (.invalidCustomValue, r.length)
            else .ok (.addressStatic sl, r)
      else if d = 1 then
        match decU32 bs0 with
        | .error e => .error e
        | .ok (i, r) => .ok (.addressNamed i, r)
      else .error (.invalidCustomValue, bs0.length)
  | .bucket =>
    match decU32 bs with
    | .error e => .error e
    | .ok (i, r) => .ok (.bucket i, r)
  | .proof =>
    match decU32 bs with
    | .error e => .error e
    | .ok (i, r) => .ok (.proof i, r)
  | .expression =>
    match readSlice 1 bs with
    | .error e => .error e
    | .ok (sl, r) =>
      if sl = [0] then .ok (.expression false, r)
      else if sl = [1] then .ok (.expression true, r)
      else .error (.invalidCustomValue, r.length)
  | .blob =>
    match decFixed 32 bs with
    | .error e => .error e
    | .ok (b, r) => .ok (.blob b, r)
  | .decimal =>
    match decFixed Sbor.DECIMAL_SIZE bs with
    | .error e => .error e
    | .ok (b, r) => .ok (.decimal b, r)
  | .preciseDecimal =>
    match decFixed Sbor.PRECISE_DECIMAL_SIZE bs with
    | .error e => .error e
    | .ok (b, r) => .ok (.preciseDecimal b, r)
  | .nonFungibleLocalId =>
    match decNFId utf8 Sbor.MANIFEST_NON_FUNGIBLE_LOCAL_ID_MAX_LENGTH bs with
    | .error e => .error e
    | .ok (id, r) => .ok (.nonFungibleLocalId id, r)
  | .addressReservation =>
    match decU32 bs with
    | .error e => .error e
    | .ok (i, r) => .ok (.addressReservation i, r)

def manifest : Flavour ManifestKind ManifestCustom where
  kc := manifestKinds
  payloadPrefix := UInt8.ofNat Sbor.MANIFEST_PAYLOAD_PREFIX
  utf8 := utf8Valid
  customKind := ManifestCustom.kind
  encodeCustom := encManifestCustom
  decodeCustom := decManifestCustom utf8Valid

/-! ## Streaming traverser (`VecTraverser`) -/

/-- `ContainerHeader` -/
inductive Header (X : Type) where
  | tuple (len : Nat)
  | enumVariant (variant : UInt8) (len : Nat)
  | array (ek : VK X) (len : Nat)
  | map (kk vk : VK X) (len : Nat)
  deriving DecidableEq, Repr

/-- `get_child_count` -/
def Header.childCount {X : Type} : Header X → Nat
  | .tuple l => l
  | .enumVariant _ l => l
  | .array _ l => l
  | .map _ _ l => l * 2

/-- `get_implicit_child_value_kind` -/
def Header.implicitKind {X : Type} : Header X → Nat → Option (VK X)
  | .tuple _, _ => none
  | .enumVariant _ _, _ => none
  | .array ek _, _ => some ek
  | .map kk vk _, i => if i % 2 = 0 then some kk else some vk

/-- `AncestorState` -/
structure Ancestor (X : Type) where
  header : Header X
  start : Nat
  idx : Nat

/-- `NextAction` (without the unobservable placeholder). -/
inductive Action (X : Type) where
  | readPrefix (p : UInt8)
  | readRootValue
  | readRootValueBody (vk : VK X)
  | contentStart (h : Header X) (start : Nat)
  | readNext
  | errored
  | ended

/-- `TraversalEvent` (terminal values are `Value`s without children). -/
inductive Event (X Y : Type) where
  | containerStart (h : Header X)
  | containerEnd (h : Header X)
  | terminal (v : Value X Y)
  | batchU8 (bytes : Bytes)
  | end_
  | decodeError (e : DErr)

/-- `LocatedTraversalEvent`: event, `start_offset`, `end_offset`, and of the ancestor path its
length and the `current_child_index` of its last element. -/
structure Located (X Y : Type) where
  event : Event X Y
  start : Nat
  stop : Nat
  pathLen : Nat
  lastIdx : Option Nat

/-- `VecTraverserConfig` + the total input length (to turn "remaining" into offsets). -/
structure TCfg where
  maxDepth : Nat
  checkExactEnd : Bool
  total : Nat

/-- Traverser state: remaining input of the inner decoder, ancestor path (last element first),
next action. -/
structure TState (X : Type) where
  bs : Bytes
  path : List (Ancestor X)
  action : Action X

def TCfg.off (c : TCfg) (bs : Bytes) : Nat := c.total - bs.length
def TCfg.offR (c : TCfg) (remaining : Nat) : Nat := c.total - remaining

def lastIdxOf {X : Type} (path : List (Ancestor X)) : Option Nat :=
  match path with
  | [] => none
  | a :: _ => some a.idx

def mkLoc {X Y : Type} (ev : Event X Y) (start stop : Nat) (path : List (Ancestor X)) : Located X Y :=
  { event := ev, start := start, stop := stop, pathLen := path.length, lastIdx := lastIdxOf path }

/-- `ActionHandler::read_value_body` -/
def tReadBody {X Y : Type} (F : Flavour X Y) (c : TCfg) (path : List (Ancestor X)) (start : Nat)
    (vk : VK X) (bs : Bytes) : Located X Y × TState X :=
  let err := fun (e : DErr × Nat) =>
    (mkLoc (.decodeError e.1) start (c.offR e.2) path, ({ bs := [], path := path, action := .errored } : TState X))
  let term := fun (v : Value X Y) (bs' : Bytes) =>
    (mkLoc (.terminal v) start (c.off bs') path, ({ bs := bs', path := path, action := .readNext } : TState X))
  let cstart := fun (h : Header X) (bs' : Bytes) =>
    (mkLoc (.containerStart h) start (c.off bs') path,
      ({ bs := bs', path := path, action := .contentStart h start } : TState X))
  match vk with
  | .bool =>
    match decBool bs with
    | .error e => err e
    | .ok (b, bs') => term (.bool b) bs'
  | .int k =>
    match decInt k bs with
    | .error e => err e
    | .ok (v, bs') => term (.int k v) bs'
  | .string =>
    match decString F.utf8 bs with
    | .error e => err e
    | .ok (s, bs') => term (.string s) bs'
  | .array =>
    match readValueKind F.kc bs with
    | .error e => err e
    | .ok (ek, bs0) =>
      match readSize bs0 with
      | .error e => err e
      | .ok (len, bs1) => cstart (.array ek len) bs1
  | .map =>
    match readValueKind F.kc bs with
    | .error e => err e
    | .ok (kk, bs0) =>
      match readValueKind F.kc bs0 with
      | .error e => err e
      | .ok (vk, bs00) =>
        match readSize bs00 with
        | .error e => err e
        | .ok (len, bs1) => cstart (.map kk vk len) bs1
  | .enum =>
    match readByte bs with
    | .error e => err e
    | .ok (d, bs0) =>
      match readSize bs0 with
      | .error e => err e
      | .ok (len, bs1) => cstart (.enumVariant d len) bs1
  | .tuple =>
    match readSize bs with
    | .error e => err e
    | .ok (len, bs1) => cstart (.tuple len) bs1
  | .custom x =>
    match F.decodeCustom x bs with
    | .error e => err e
    | .ok (cv, bs') => term (.custom cv) bs'

/-- `ActionHandler::read_value` (the handler is created at the current offset). -/
def tReadValue {X Y : Type} (F : Flavour X Y) (c : TCfg) (path : List (Ancestor X))
    (implicit : Option (VK X)) (bs : Bytes) : Located X Y × TState X :=
  let start := c.off bs
  match implicit with
  | some vk => tReadBody F c path start vk bs
  | none =>
    match readValueKind F.kc bs with
    | .error e =>
      (mkLoc (.decodeError e.1) start (c.offR e.2) path, { bs := [], path := path, action := .errored })
    | .ok (vk, bs') => tReadBody F c path start vk bs'

/-- `VecTraverser::step`. `none` = the `panic!` of calling `next_event` after End/Error. -/
def tStep {X Y : Type} (F : Flavour X Y) (c : TCfg) (st : TState X) : Option (Located X Y × TState X) :=
  match st.action with
  | .readPrefix p =>
    let start := c.off st.bs
    match readByte st.bs with
    | .error e =>
      some (mkLoc (.decodeError e.1) start (c.offR e.2) st.path, { bs := [], path := st.path, action := .errored })
    | .ok (b, bs') =>
      if b ≠ p then
        some (mkLoc (.decodeError (.unexpectedPayloadPrefix p b)) start (c.off bs') st.path,
          { bs := [], path := st.path, action := .errored })
      else some (tReadValue F c st.path none bs')
  | .readRootValue => some (tReadValue F c st.path none st.bs)
  | .readRootValueBody vk => some (tReadValue F c st.path (some vk) st.bs)
  | .contentStart h cstart =>
    if h.childCount = 0 then
      some (mkLoc (.containerEnd h) cstart (c.off st.bs) st.path,
        { bs := st.bs, path := st.path, action := .readNext })
    else
      let path' := { header := h, start := cstart, idx := 0 } :: st.path
      if path'.length ≥ c.maxDepth then
        some (mkLoc (.decodeError (.maxDepthExceeded c.maxDepth)) (c.off st.bs) (c.off st.bs) path',
          { bs := [], path := path', action := .errored })
      else
        match h with
        | .array (.int .u8) len =>
          -- batch read of a byte array; `current_child_index` is set to the last index first
          let path'' := { header := h, start := cstart, idx := len - 1 } :: st.path
          match readSlice len st.bs with
          | .error e =>
            some (mkLoc (.decodeError e.1) (c.off st.bs) (c.offR e.2) path'',
              { bs := [], path := path'', action := .errored })
          | .ok (sl, bs') =>
            some (mkLoc (.batchU8 sl) (c.off st.bs) (c.off bs') path'',
              { bs := bs', path := path'', action := .readNext })
        | _ => some (tReadValue F c path' (h.implicitKind 0) st.bs)
  | .readNext =>
    match st.path with
    | parent :: rest =>
      let next := parent.idx + 1
      if next ≥ parent.header.childCount then
        some (mkLoc (.containerEnd parent.header) parent.start (c.off st.bs) rest,
          { bs := st.bs, path := rest, action := .readNext })
      else
        let path' := { parent with idx := next } :: rest
        some (tReadValue F c path' (parent.header.implicitKind next) st.bs)
    | [] =>
      if c.checkExactEnd ∧ st.bs.length ≠ 0 then
        some (mkLoc (.decodeError (.extraTrailingBytes st.bs.length)) (c.off st.bs) (c.off st.bs) [],
          { bs := [], path := [], action := .errored })
      else
        some (mkLoc .end_ (c.off st.bs) (c.off st.bs) [], { bs := st.bs, path := [], action := .ended })
  | .errored => none
  | .ended => none

/-- `ExpectedStart` -/
inductive ExpectedStart (X : Type) where
  | payloadPrefix (p : UInt8)
  | value
  | valueBody (vk : VK X)

def tInit {X : Type} (start : ExpectedStart X) (bs : Bytes) : TState X :=
  { bs := bs, path := [],
    action := match start with
      | .payloadPrefix p => .readPrefix p
      | .value => .readRootValue
      | .valueBody vk => .readRootValueBody vk }

/-- How a traverser state ends a run: `some true` after `End`, `some false` after `DecodeError`. -/
def TState.done {X : Type} (st : TState X) : Option Bool :=
  match st.action with
  | .ended => some true
  | .errored => some false
  | _ => none

/-- Pull events until `End` or `DecodeError` (the caller contract of `next_event`). `fuel` bounds
the number of events. The second component is `some true` if the run stopped with `End`,
`some false` if it stopped with `DecodeError`, `none` if the fuel ran out. -/
def tRun {X Y : Type} (F : Flavour X Y) (c : TCfg) : Nat → TState X → List (Located X Y) × Option Bool
  | 0, _ => ([], none)
  | fuel + 1, st =>
    match tStep F c st with
    | none => ([], none)
    | some (ev, st') =>
      match st'.done with
      | some b => ([ev], some b)
      | none =>
        let r := tRun F c fuel st'
        (ev :: r.1, r.2)

def traverse {X Y : Type} (F : Flavour X Y) (start : ExpectedStart X) (maxDepth : Nat) (checkExactEnd : Bool)
    (bs : Bytes) : List (Located X Y) × Option Bool :=
  tRun F { maxDepth := maxDepth, checkExactEnd := checkExactEnd, total := bs.length }
    (3 * bs.length + 3) (tInit start bs)

/-- Traversal of a full payload as `*_payload_traverser` does (prefix expected, exact end). -/
def traversePayload {X Y : Type} (F : Flavour X Y) (maxDepth : Nat) (bs : Bytes) : List (Located X Y) × Option Bool :=
  traverse F (.payloadPrefix F.payloadPrefix) maxDepth true bs

/-! ## Depth and size of values -/

mutual
/-- Nesting depth as the codecs count it: every value is one level. -/
def Value.depth {X Y : Type} : Value X Y → Nat
  | .enum _ fs => 1 + depthList fs
  | .array _ es => 1 + depthList es
  | .tuple fs => 1 + depthList fs
  | .map _ _ es => 1 + depthEntries es
  | _ => 1
def depthList {X Y : Type} : List (Value X Y) → Nat
  | [] => 0
  | v :: vs => max v.depth (depthList vs)
def depthEntries {X Y : Type} : List (Value X Y × Value X Y) → Nat
  | [] => 0
  | (k, v) :: es => max (max k.depth v.depth) (depthEntries es)
end

/-- `Vec::with_capacity(if length <= 1024 { length } else { 1024 })` -/
def prealloc (length : Nat) : Nat := if length ≤ 1024 then length else 1024

end Radix.Sbor
