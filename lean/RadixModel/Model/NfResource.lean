/-
C43 — executable model of the non-fungible resource manager's data collection
(radix-engine/src/blueprints/resource/non_fungible/non_fungible_resource_manager.rs):

  * `create_object`                       (`create`)            id type check of the initial entries
  * `mint_non_fungible`                   (`mintExplicit`)      assert_mintable, assert_is_not_ruid,
                                                                update_total_supply, create_non_fungibles(check = true)
  * `mint_ruid_non_fungible`              (`mintRuid`)          …, create_non_fungibles(check = false); the ids come
                                                                from `Runtime::generate_ruid` = a parameter of the op
  * `burn_internal`                       (`burn`)              assert_burnable, update_total_supply, per id:
                                                                open MUTABLE / remove / lock (tombstone) / close
  * `update_non_fungible_data`            (`update`)            mutable-field lookup, open MUTABLE, get, replace, set

A data entry is the `KeyValueEntrySubstate` of the `DataKeyValue` collection: `value : Option payload` plus
the lock flag.  `actor_open_key_value_entry(.., LockFlags::MUTABLE)` fails with `KeyValueEntryLocked` on a
locked entry (system.rs) — that is what makes a burned id unmintable.

Core Lean only (no Mathlib): this file is linked into the driver executable.
-/
namespace Radix.Nf

/-- `KeyValueEntrySubstate` of the data collection: payload = the tuple of field values. -/
structure Cell where
  value : Option (List Nat)
  locked : Bool
deriving DecidableEq, Repr

/-- NonFungibleLocalId: (id type code, payload). 0 String, 1 Integer, 2 Bytes, 3 RUID. -/
abbrev Id := Nat × Nat

def ruidType : Nat := 3

inductive Err
  | denied              -- auth layer: the mint / burn / update role is not configured (feature off)
  | localIdForRuid      -- NonFungibleLocalIdProvidedForRUIDType
  | invalidIdType       -- InvalidNonFungibleIdType (assert_is_not_ruid / assert_is_ruid)
  | idTypeMismatch      -- NonFungibleIdTypeDoesNotMatch
  | entryLocked         -- SystemError::KeyValueEntryLocked (open MUTABLE on a tombstone)
  | alreadyExists       -- NonFungibleAlreadyExists
  | payload             -- PayloadValidationError of key_value_entry_set (value does not match the data schema)
  | unknownField        -- UnknownMutableFieldName
  | notFound            -- NonFungibleNotFound
  | fieldIndexPanic     -- `fields[field_index] = data` out of range (cannot happen for validated schemas)
  | supplyOverflow      -- UnexpectedDecimalComputationError
  | notHeld             -- (transaction level) the ids to burn are not in the account / bucket
deriving DecidableEq, Repr

structure Res where
  idType : Nat
  nFields : Nat
  /-- `mutable_field_index : IndexMap<String, usize>` (field names are numbered) -/
  mutIdx : List (Nat × Nat)
  mintable : Bool
  burnable : Bool
  updatable : Bool
  track : Bool
  supply : Int
  data : Id → Cell

def emptyCell : Cell := ⟨none, false⟩

def setCell (d : Id → Cell) (id : Id) (c : Cell) : Id → Cell :=
  fun x => if x = id then c else d x

/-- Decimal range for whole numbers: |n * 10^18| must fit the 192-bit signed attos. -/
def supplyInRange (n : Int) : Bool :=
  decide (-(2 ^ 191 : Int) ≤ n * 10 ^ 18) && decide (n * 10 ^ 18 < (2 ^ 191 : Int))

/-- `update_total_supply` (only when the TrackTotalSupply feature is on). -/
def updateSupply (r : Res) (delta : Int) : Except Err Int :=
  if r.track then
    if supplyInRange (r.supply + delta) then .ok (r.supply + delta) else .error .supplyOverflow
  else .ok r.supply

/-- `create_non_fungibles`: per entry, in order: id type, open MUTABLE (lock check), existence check,
    set (payload validation), close. -/
def createNonFungibles (idType nFields : Nat) (check : Bool) :
    List (Id × List Nat) → (Id → Cell) → Except Err (Id → Cell)
  | [], d => .ok d
  | (id, v) :: rest, d =>
    if id.1 ≠ idType then .error .idTypeMismatch
    else if (d id).locked then .error .entryLocked
    else if check && (d id).value.isSome then .error .alreadyExists
    else if v.length ≠ nFields then .error .payload
    else createNonFungibles idType nFields check rest (setCell d id ⟨some v, false⟩)

/-- `create_object` + `create_with_initial_supply`: entries are written directly as unlocked KV entries
    (no existence check: the collection is new; the entries come from an IndexMap). -/
def initEntries (idType : Nat) : List (Id × List Nat) → (Id → Cell) → Except Err (Id → Cell)
  | [], d => .ok d
  | (id, v) :: rest, d =>
    if id.1 ≠ idType then .error .idTypeMismatch
    else initEntries idType rest (setCell d id ⟨some v, false⟩)

def fresh (idType nFields : Nat) (mutIdx : List (Nat × Nat)) (mintable burnable updatable track : Bool) : Res :=
  { idType, nFields, mutIdx, mintable, burnable, updatable, track, supply := 0, data := fun _ => emptyCell }

/-- `create_with_initial_supply` (explicit ids). -/
def create (r0 : Res) (entries : List (Id × List Nat)) : Except Err Res :=
  if r0.idType = ruidType ∧ ¬ entries.isEmpty then .error .localIdForRuid
  else match initEntries r0.idType entries r0.data with
    | .error e => .error e
    | .ok d => .ok { r0 with data := d, supply := if r0.track then entries.length else 0 }

def mintExplicit (r : Res) (entries : List (Id × List Nat)) : Except Err Res :=
  if ¬ r.mintable then .error .denied
  else if r.idType = ruidType then .error .invalidIdType
  else match updateSupply r entries.length with
    | .error e => .error e
    | .ok s =>
      match createNonFungibles r.idType r.nFields true entries r.data with
      | .error e => .error e
      | .ok d => .ok { r with data := d, supply := s }

/-- the ids are the results of `generate_ruid`; they all have the RUID type by construction
    (`NonFungibleLocalId::ruid`), the model keeps the type check the code performs. -/
def mintRuid (r : Res) (entries : List (Id × List Nat)) : Except Err Res :=
  if ¬ r.mintable then .error .denied
  else if r.idType ≠ ruidType then .error .invalidIdType
  else match updateSupply r entries.length with
    | .error e => .error e
    | .ok s =>
      match createNonFungibles ruidType r.nFields false entries r.data with
      | .error e => .error e
      | .ok d => .ok { r with data := d, supply := s }

/-- the loop of `burn_internal`. -/
def burnIds : List Id → (Id → Cell) → Except Err (Id → Cell)
  | [], d => .ok d
  | id :: rest, d =>
    if (d id).locked then .error .entryLocked
    else burnIds rest (setCell d id ⟨none, true⟩)

def burn (r : Res) (ids : List Id) : Except Err Res :=
  if ¬ r.burnable then .error .denied
  else match updateSupply r (-(ids.length : Int)) with
    | .error e => .error e
    | .ok s =>
      match burnIds ids r.data with
      | .error e => .error e
      | .ok d => .ok { r with data := d, supply := s }

def lookupField : List (Nat × Nat) → Nat → Option Nat
  | [], _ => none
  | (n, i) :: rest, name => if n = name then some i else lookupField rest name

/-- `update_non_fungible_data`; `typed = false` stands for a value of the wrong SBOR type. -/
def update (r : Res) (id : Id) (name : Nat) (v : Nat) (typed : Bool) : Except Err Res :=
  if ¬ r.updatable then .error .denied
  else match lookupField r.mutIdx name with
    | none => .error .unknownField
    | some i =>
      if (r.data id).locked then .error .entryLocked
      else match (r.data id).value with
        | none => .error .notFound
        | some fields =>
          if i < fields.length then
            if typed then .ok { r with data := setCell r.data id ⟨some (fields.set i v), false⟩ }
            else .error .payload
          else .error .fieldIndexPanic

/-- One transaction against the resource. -/
inductive Op
  | mint (entries : List (Id × List Nat))
  | mintRuid (entries : List (Id × List Nat))
  | burn (ids : List Id) (viaVault : Bool)
  | update (id : Id) (name : Nat) (v : Nat) (typed : Bool)
deriving Repr

def live (r : Res) (id : Id) : Bool := (r.data id).value.isSome

def nodupIds : List Id → Bool
  | [] => true
  | x :: xs => !(xs.contains x) && nodupIds xs

def apply (r : Res) : Op → Except Err Res
  | .mint es => mintExplicit r es
  | .mintRuid es => mintRuid r es
  | .burn ids viaVault =>
    -- vault burn (`Account::burn_non_fungibles` -> `NonFungibleVault::burn_non_fungibles`): the vault
    -- method's `burner` role is checked by the auth layer before anything is taken out of the vault
    if viaVault && !r.burnable then .error .denied
    -- the bucket handed to `burn` holds distinct, currently held ids (worktop / vault, C09)
    else if ids.all (live r) && nodupIds ids then burn r ids else .error .notHeld
  | .update id n v t => update r id n v t

/-- A failed transaction leaves the state unchanged (C02). -/
def step (r : Res) (op : Op) : Res × Option Err :=
  match apply r op with
  | .ok r' => (r', none)
  | .error e => (r, some e)

/-- ids minted by an op, counted when the op succeeds -/
def mintedBy : Op → List Id
  | .mint es => es.map (·.1)
  | .mintRuid es => es.map (·.1)
  | _ => []

/-- run a history, counting per id the successful mints -/
def run : Res → (Id → Nat) → List Op → Res × (Id → Nat)
  | r, cnt, [] => (r, cnt)
  | r, cnt, op :: rest =>
    match apply r op with
    | .ok r' => run r' (fun id => cnt id + (mintedBy op).count id) rest
    | .error _ => run r cnt rest

/-- all RUIDs handed out by the generator over a history -/
def ruidIds : List Op → List Id
  | [] => []
  | .mintRuid es :: rest => es.map (·.1) ++ ruidIds rest
  | _ :: rest => ruidIds rest

end Radix.Nf
