/-
C33 — model of signature validation of a transaction.

Transcribed from radix-transactions/src/validation/signature_validator.rs
  (`AllPendingSignatureValidations::{new_with_root, add_non_root, validate_all, validate_signatures}`,
   `SignedIntentTreeStructure::construct_pending_signature_validations`,
   `PendingIntentSignatureValidations::{intent_signature_validations, notary_signature_validations}`)
and transaction_validation_configuration.rs (`allow_notary_to_duplicate_signer`).

Transcription notes
* Cryptography is abstract: `Crypto.recover h s` is `verify_and_recover(h, s)` (signature with or without
  public key → the signer key, if the signature verifies), `Crypto.verify h k s` is `verify(h, k, s)`.
* `IndexSet<PublicKey>` is an insertion-ordered duplicate-free `List Key`; `insert` returning `false` is `k ∈ acc`.
* Error locations (`TransactionValidationErrorLocation`) are `Loc`.
* The intent / structure validation that `validate_transaction_tree_v2` runs between
  `construct_pending_signature_validations` and `validate_all` is outside this model (C34, C35).
-/
namespace Radix.SigVal

/-- `SignatureValidationError` (without `SerializationError`) -/
inductive SErr where
  | tooManySignatures (total limit : Nat)
  | invalidIntentSignature
  | invalidNotarySignature
  | duplicateSigner
  | notaryIsSignatorySoShouldNotAlsoBeASigner
  | incorrectNumberOfSubintentSignatureBatches
  deriving DecidableEq, Repr

/-- `TransactionValidationErrorLocation` -/
inductive Loc where
  | root
  | nonRoot (i : Nat)
  | across
  deriving DecidableEq, Repr

structure Crypto (Key ISig NSig Hash : Type) where
  /-- `verify_and_recover` -/
  recover : Hash → ISig → Option Key
  /-- `verify` -/
  verify : Hash → Key → NSig → Bool

/-- `PendingIntentSignatureValidations` -/
inductive Pending (Key ISig NSig Hash : Type) where
  | txIntent (notaryIsSignatory : Bool) (notaryKey : Key) (notarySig : NSig) (notarizedHash : Hash)
      (sigs : List ISig) (signedHash : Hash)
  | previewTxIntent (notaryIsSignatory : Bool) (notaryKey : Key) (keys : List Key)
  | subintent (sigs : List ISig) (signedHash : Hash)
  | previewSubintent (keys : List Key)

/-- the fields of `TransactionValidationConfig` that are read -/
structure Cfg where
  maxPerIntent : Nat
  maxTotal : Nat
  v1AllowNotaryDup : Bool
  deriving DecidableEq, Repr

/-- `allow_notary_to_duplicate_signer(version)` (`isV1` = `TransactionVersion::V1`) -/
def allowDup (cfg : Cfg) (isV1 : Bool) : Bool := if isV1 then cfg.v1AllowNotaryDup else false

section
variable {Key ISig NSig Hash : Type} [DecidableEq Key]

/-- `intent_signature_validations` -/
def Pending.intentCount : Pending Key ISig NSig Hash → Nat
  | .txIntent _ _ _ _ sigs _ => sigs.length
  | .previewTxIntent _ _ keys => keys.length
  | .subintent sigs _ => sigs.length
  | .previewSubintent keys => keys.length

/-- `notary_signature_validations` -/
def Pending.notaryCount : Pending Key ISig NSig Hash → Nat
  | .txIntent .. => 1
  | .previewTxIntent .. => 1
  | .subintent .. => 0
  | .previewSubintent .. => 0

/-- `for signature in intent_signatures { recover or InvalidIntentSignature; insert or DuplicateSigner }` -/
def collect (C : Crypto Key ISig NSig Hash) (h : Hash) : List ISig → List Key → Except SErr (List Key)
  | [], acc => .ok acc
  | s :: ss, acc =>
    match C.recover h s with
    | none => .error .invalidIntentSignature
    | some k => if k ∈ acc then .error .duplicateSigner else collect C h ss (acc ++ [k])

/-- `for key in intent_public_keys { insert or DuplicateSigner }` -/
def collectKeys : List Key → List Key → Except SErr (List Key)
  | [], acc => .ok acc
  | k :: ks, acc => if k ∈ acc then .error .duplicateSigner else collectKeys ks (acc ++ [k])

/-- `if notary_is_signatory && !set.insert(notary) && !allow { Err(NotaryIsSignatory…) }` -/
def addNotary (isSignatory allow : Bool) (nk : Key) (keys : List Key) : Except SErr (List Key) :=
  if isSignatory then
    if nk ∈ keys then
      if allow then .ok keys else .error .notaryIsSignatorySoShouldNotAlsoBeASigner
    else .ok (keys ++ [nk])
  else .ok keys

/-- `validate_signatures` -/
def validateSignatures (C : Crypto Key ISig NSig Hash) (allow : Bool) :
    Pending Key ISig NSig Hash → Except SErr (List Key)
  | .txIntent isSig nk nsig nh sigs sh =>
    match collect C sh sigs [] with
    | .error e => .error e
    | .ok keys =>
      if !C.verify nh nk nsig then .error .invalidNotarySignature
      else addNotary isSig allow nk keys
  | .previewTxIntent isSig nk keys =>
    match collectKeys keys [] with
    | .error e => .error e
    | .ok ks => addNotary isSig allow nk ks
  | .subintent sigs sh => collect C sh sigs []
  | .previewSubintent keys => collectKeys keys []

/-- the loop of `construct_pending_signature_validations` (`add_non_root`): per-intent limit, running total -/
def addNonRoots (cfg : Cfg) : List (Pending Key ISig NSig Hash) → Nat → Nat → Except (Loc × SErr) Nat
  | [], _, total => .ok total
  | p :: ps, i, total =>
    if p.intentCount > cfg.maxPerIntent then .error (.nonRoot i, .tooManySignatures p.intentCount cfg.maxPerIntent)
    else addNonRoots cfg ps (i + 1) (total + p.intentCount)

/-- the `non_roots.into_iter().map(validate_signatures).collect::<Result<_,_>>()` of `validate_all` -/
def validateNonRoots (C : Crypto Key ISig NSig Hash) (allow : Bool) :
    List (Pending Key ISig NSig Hash) → Nat → Except (Loc × SErr) (List (List Key))
  | [], _ => .ok []
  | p :: ps, i =>
    match validateSignatures C allow p with
    | .error e => .error (.nonRoot i, e)
    | .ok ks =>
      match validateNonRoots C allow ps (i + 1) with
      | .error e => .error e
      | .ok rest => .ok (ks :: rest)

/-- `SignatureValidationSummary` -/
structure Summary (Key : Type) where
  rootKeys : List Key
  nonRootKeys : List (List Key)
  total : Nat

/-- `construct_pending_signature_validations` followed by `validate_all`.
`subintents` = number of non-root subintents of the intent tree, `batches` = the signature batches
(V1: `0` and `[]`). -/
def validateAll (C : Crypto Key ISig NSig Hash) (cfg : Cfg) (isV1 : Bool)
    (root : Pending Key ISig NSig Hash) (subintents : Nat) (batches : List (Pending Key ISig NSig Hash)) :
    Except (Loc × SErr) (Summary Key) :=
  -- new_with_root
  if root.intentCount > cfg.maxPerIntent then
    .error (.root, .tooManySignatures root.intentCount cfg.maxPerIntent)
  else if subintents ≠ batches.length then
    .error (.across, .incorrectNumberOfSubintentSignatureBatches)
  else
    match addNonRoots cfg batches 0 (root.intentCount + root.notaryCount) with
    | .error e => .error e
    | .ok total =>
      -- validate_all
      if total > cfg.maxTotal then .error (.across, .tooManySignatures total cfg.maxTotal)
      else
        match validateSignatures C (allowDup cfg isV1) root with
        | .error e => .error (.root, e)
        | .ok rootKeys =>
          match validateNonRoots C (allowDup cfg isV1) batches 0 with
          | .error e => .error e
          | .ok nonRootKeys => .ok { rootKeys := rootKeys, nonRootKeys := nonRootKeys, total := total }

end

end Radix.SigVal
