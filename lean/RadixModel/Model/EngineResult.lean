/-
C11 — the logic kernels between "whatever execution returned" and "a receipt".

(1) `abortion` — transcription of the `CanBeAbortion` impls (`radix-engine/src/errors.rs`,
    `system_modules/costing/{fee_reserve,costing_module}.rs`, `vm/wasm/errors.rs`): which errors are an
    abort request. Error payloads that no `abortion` impl looks at are dropped; `AbortReason` has one
    variant (`ConfiguredAbortTriggeredOnFeeLoanRepayment`) and is represented by `Unit`.
(2) `createReceipt` / `determineResultType` — transcription of `System::create_receipt` and
    `System::determine_result_type` (`system/system_callback.rs`): first the `SystemPanic` re-panic,
    then `fee_reserve.repay_all()`, then the match. Inputs: the interpretation result, the result of
    `repay_all()` and `fully_repaid()` evaluated AFTER `repay_all()` (as in the code).
(3) `invokeUpstream` — transcription of the control flow of `System::invoke_upstream`: root actor
    panics; method/function actors load the blueprint definition, validate the input payload against
    the function's input schema, check the receiver, look up the export (`expect`), call the VM,
    validate the output; hook actors look up the hook export and call the VM without input validation.
    The VM and the two payload validators are parameters.
-/
namespace Radix.C11

/-! ## (1) abortion -/

inductive FeeReserveError where
  | insufficientBalance | overflow | limitExceeded | loanRepaymentFailed | abort
  deriving Repr, DecidableEq

def FeeReserveError.abortion : FeeReserveError → Option Unit
  | .abort => some ()
  | _ => none

/-- `WasmRuntimeError`: only `FeeReserveError(_)` is inspected; `other` = any of the other variants -/
inductive WasmRuntimeError where
  | feeReserveError (e : FeeReserveError)
  | other
  deriving Repr, DecidableEq

def WasmRuntimeError.abortion : WasmRuntimeError → Option Unit
  | .feeReserveError e => e.abortion
  | .other => none

inductive NativeRuntimeError where
  | invalidCodeId
  /-- a Rust panic inside a native blueprint, caught by `NativeVmInstance::invoke` -/
  | trap
  deriving Repr, DecidableEq

inductive VmError where
  | native (e : NativeRuntimeError)
  | wasm (e : WasmRuntimeError)
  | scryptoVmVersion
  deriving Repr, DecidableEq

def VmError.abortion : VmError → Option Unit
  | .wasm e => e.abortion
  | _ => none

/-- `CostingError` has the single variant `FeeReserveError(_)` -/
inductive SystemModuleError where
  | authError
  | costingError (e : FeeReserveError)
  | transactionLimitsError
  | eventError
  deriving Repr, DecidableEq

def SystemModuleError.abortion : SystemModuleError → Option Unit
  | .costingError e => e.abortion
  | _ => none

inductive RuntimeError where
  | kernelError
  | vmError (e : VmError)
  /-- `panic = true` is `SystemError::SystemPanic(_)` -/
  | systemError (panic : Bool)
  | systemUpstreamError
  | systemModuleError (e : SystemModuleError)
  | applicationError
  | finalizationCostingError
  deriving Repr, DecidableEq

def RuntimeError.abortion : RuntimeError → Option Unit
  | .kernelError => none
  | .vmError _ => none
  | .systemError _ => none
  | .systemUpstreamError => none
  | .systemModuleError e => e.abortion
  | .applicationError => none
  | .finalizationCostingError => none

inductive TransactionExecutionError where
  | bootloadingError
  | runtimeError (e : RuntimeError)
  deriving Repr, DecidableEq

/-! ## (2) result classification -/

inductive RejectionReason where
  | successButFeeLoanNotRepaid
  | bootloadingError
  | errorBeforeLoanAndDeferredCostsRepaid (e : RuntimeError)
  deriving Repr, DecidableEq

/-- `TransactionResultType` (instruction outputs dropped) -/
inductive ResultType where
  | commitSuccess
  | commitFailure (e : RuntimeError)
  | reject (r : RejectionReason)
  | abort
  deriving Repr, DecidableEq

/-- `determine_result_type`; `repay` = `fee_reserve.repay_all()`, `fullyRepaid` = `fee_reserve.fully_repaid()`
evaluated afterwards -/
def determineResultType (interp : Except TransactionExecutionError Unit)
    (repay : Except FeeReserveError Unit) (fullyRepaid : Bool) : ResultType :=
  match interp with
  | .ok () =>
    match repay with
    | .ok () => .commitSuccess
    | .error e =>
      match e.abortion with
      | some () => .abort
      | none => .reject .successButFeeLoanNotRepaid
  | .error e =>
    match e with
    | .bootloadingError => .reject .bootloadingError
    | .runtimeError e =>
      match e.abortion with
      | some () => .abort
      | none =>
        if fullyRepaid then .commitFailure e
        else .reject (.errorBeforeLoanAndDeferredCostsRepaid e)

/-- the end of `SystemLoanFeeReserve::repay_all` when no deferred cost fails: the loan is repaid from
the locked balance; an outstanding loan is `LoanRepaymentFailed`; otherwise a configured abort fires.
`covered` = the locked balance covers what is owed. Returns the result and `fully_repaid()` afterwards. -/
def repayAllTail (covered : Bool) (abortWhenLoanRepaid : Bool) : Except FeeReserveError Unit × Bool :=
  if !covered then (.error .loanRepaymentFailed, false)
  else if abortWhenLoanRepaid then (.error .abort, true)
  else (.ok (), true)

inductive ReceiptOutcome where
  /-- `panic!("An error has occurred in the system layer or below …")` -/
  | hostPanic
  | receipt (r : ResultType)
  deriving Repr, DecidableEq

/-- `create_receipt` (std build): a `SystemPanic` is re-raised as a host panic, everything else is
classified -/
def createReceipt (interp : Except TransactionExecutionError Unit)
    (repay : Except FeeReserveError Unit) (fullyRepaid : Bool) : ReceiptOutcome :=
  match interp with
  | .error (.runtimeError (.systemError true)) => .hostPanic
  | _ => .receipt (determineResultType interp repay fullyRepaid)

/-! ## (3) invoke_upstream -/

structure FunctionSchema where
  /-- `receiver.is_some()` and, if so, whether `ref_types` contains `DIRECT_ACCESS` -/
  receiver : Option Bool
  deriving Repr, DecidableEq

structure BlueprintDefinition where
  functions : List (String × FunctionSchema)
  functionExports : List (String × String)
  hookExports : List (Nat × String)
  deriving Repr

inductive Actor where
  | root
  /-- `node_id` is always present for a method actor -/
  | method (ident : String) (directAccess : Bool)
  | function (ident : String)
  | hook (h : Nat)
  deriving Repr, DecidableEq

inductive UpErr where
  | definitionNotFound
  | payloadDoesNotExist
  | inputSchemaNotMatch
  | receiverNotMatch
  | hookNotFound
  | vm (code : Nat)
  | outputSchemaNotMatch
  | outputDecodeError
  deriving Repr, DecidableEq

inductive UpOutcome where
  | panic (msg : String)
  | err (e : UpErr)
  | ok (output : Nat)
  deriving Repr, DecidableEq

/-- what reached the VM: export name and input payload -/
abbrev Dispatched := Option (String × Nat)

def lookupS {V : Type} : List (String × V) → String → Option V
  | [], _ => none
  | (k, v) :: t, x => if x = k then some v else lookupS t x

def lookupN {V : Type} : List (Nat × V) → Nat → Option V
  | [], _ => none
  | (k, v) :: t, x => if x = k then some v else lookupN t x

/-- "Validate receiver type" of `invoke_upstream` -/
def receiverOk (fs : FunctionSchema) (hasNode directAccess : Bool) : Bool :=
  match fs.receiver, hasNode with
  | some refDirect, true => directAccess == refDirect
  | none, false => true
  | _, _ => false

/-- method / function branch of `invoke_upstream` -/
def invokeFn (validIn : String → Nat → Bool) (validOut : String → Nat → Bool)
    (vm : String → Nat → Except Nat Nat) (defn : BlueprintDefinition)
    (ident : String) (hasNode : Bool) (directAccess : Bool) (input : Nat) : UpOutcome × Dispatched :=
  -- validate_blueprint_payload(Function(ident, Input)): the schema must exist and match
  match lookupS defn.functions ident with
  | none => (.err .payloadDoesNotExist, none)
  | some _ =>
    if !validIn ident input then (.err .inputSchemaNotMatch, none)
    else
      -- definition.interface.functions.get(ident).expect("Should exist due to schema check")
      match lookupS defn.functions ident with
      | none => (.panic "Should exist due to schema check", none)
      | some fs =>
        if !(receiverOk fs hasNode directAccess) then (.err .receiverNotMatch, none)
        else
          -- definition.function_exports.get(ident).expect("Schema should have validated this exists")
          match lookupS defn.functionExports ident with
          | none => (.panic "Schema should have validated this exists", none)
          | some ex =>
            match vm ex input with
            | .error c => (.err (.vm c), some (ex, input))
            | .ok out =>
              if validOut ident out then (.ok out, some (ex, input))
              else (.err .outputSchemaNotMatch, some (ex, input))

/-- `invoke_upstream`; `defn = none` models `load_blueprint_definition` failing -/
def invokeUpstream (validIn : String → Nat → Bool) (validOut : String → Nat → Bool)
    (hookOutOk : Nat → Nat → Bool)
    (vm : String → Nat → Except Nat Nat) (defn : Option BlueprintDefinition)
    (actor : Actor) (input : Nat) : UpOutcome × Dispatched :=
  match actor with
  | .root => (.panic "Root is invoked", none)
  | .method ident da =>
    match defn with
    | none => (.err .definitionNotFound, none)
    | some d => invokeFn validIn validOut vm d ident true da input
  | .function ident =>
    match defn with
    | none => (.err .definitionNotFound, none)
    | some d => invokeFn validIn validOut vm d ident false false input
  | .hook h =>
    match defn with
    | none => (.err .definitionNotFound, none)
    | some d =>
      match lookupN d.hookExports h with
      | none => (.err .hookNotFound, none)
      | some ex =>
        -- "Input is not validated as they're created by system."
        match vm ex input with
        | .error c => (.err (.vm c), some (ex, input))
        | .ok out =>
          if hookOutOk h out then (.ok out, some (ex, input))
          else (.err .outputDecodeError, some (ex, input))

/-- package well-formedness used by the two `expect`s: every declared function has an export -/
def exportsTotal (d : BlueprintDefinition) : Bool :=
  d.functions.all (fun f => (lookupS d.functionExports f.1).isSome)

end Radix.C11
