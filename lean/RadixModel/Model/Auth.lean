/-
C08 — authorization: access rules evaluated against the auth-zone stack.

Executable model (core Lean only) transcribing
  radix-engine/src/system/system_modules/auth/authorization.rs      (`Authorization::*`)
  radix-engine/src/system/system_modules/auth/auth_module.rs        (`create_auth_zone`, `check_permission`)
  radix-engine/src/blueprints/resource/auth_zone/auth_zone_substates.rs (`local_implicit_non_fungible_proofs`)
  radix-engine-interface/src/blueprints/resource/proof_rule.rs      (rule types)
  radix-engine/src/object_modules/role_assignment/package.rs        (`verify_access_rule` limits)

Conventions.
* Resource addresses, packages, global callers, non-fungible local ids are `Nat` indices (the
  harness owns the index ↔ address table). `NonFungibleGlobalId` = `NfId`.
* An auth zone substate refers to other zones by node id (`parent`, `global_caller.1`); the model
  holds the referenced zone *by value* (`Zone` is a finite tree). This is what the check reads:
  the referenced zones belong to suspended frames, so they cannot change during a check.
* Every `?` of the Rust code is an explicit `Except Err` outcome. The one error the evaluation
  itself can produce is `proof.non_fungible_local_ids()` called on a *fungible* proof
  (`proof_matches`, NonFungible requirement whose resource address is a fungible resource).
-/
namespace Radix.Auth

structure NfId where
  res : Nat
  id : Nat
deriving DecidableEq, Repr, Inhabited

/-- `ResourceOrNonFungible` -/
inductive RoN where
  | nf (g : NfId)
  | res (r : Nat)
deriving DecidableEq, Repr, Inhabited

/-- `BasicRequirement` (amounts are `Decimal` attos). `countOf`'s count is a `u8`. -/
inductive Basic where
  | require (x : RoN)
  | amountOf (amount : Int) (r : Nat)
  | countOf (n : Nat) (xs : List RoN)
  | allOf (xs : List RoN)
  | anyOf (xs : List RoN)
deriving Repr, Inhabited

/-- `CompositeRequirement` -/
inductive Comp where
  | basic (b : Basic)
  | anyOf (rs : List Comp)
  | allOf (rs : List Comp)
deriving Repr, Inhabited

/-- `AccessRule` -/
inductive Rule where
  | allowAll
  | denyAll
  | prot (c : Comp)
deriving Repr, Inhabited

/-- A proof object in an auth zone: resource, blueprint kind (FungibleProof / NonFungibleProof),
    `amount()` and `non_fungible_local_ids()`. -/
structure Proof where
  res : Nat
  fungible : Bool
  amount : Int
  ids : List Nat
deriving Repr, Inhabited

/-- `AuthZone` substate. `gc = some (caller, leaf)` is `global_caller = Some((caller, Reference))`. -/
inductive Zone where
  | mk (proofs : List Proof) (simRes : List Nat) (implicitNf : List NfId)
       (pkg : Option Nat) (gc : Option (Nat × Zone)) (parent : Option Zone)
deriving Repr, Inhabited

namespace Zone
def proofs : Zone → List Proof | mk p _ _ _ _ _ => p
def simRes : Zone → List Nat | mk _ s _ _ _ _ => s
def implicitNf : Zone → List NfId | mk _ _ i _ _ _ => i
def pkg : Zone → Option Nat | mk _ _ _ p _ _ => p
def gc : Zone → Option (Nat × Zone) | mk _ _ _ _ g _ => g
def parent : Zone → Option Zone | mk _ _ _ _ _ p => p
/-- `auth_zone.push(proof)` -/
def push : Zone → Proof → Zone | mk p s i k g pa, x => mk (p ++ [x]) s i k g pa
end Zone

/-- index of `PACKAGE_OF_DIRECT_CALLER_RESOURCE` -/
def PKG_BADGE : Nat := 0
/-- index of `GLOBAL_CALLER_RESOURCE` -/
def GC_BADGE : Nat := 1
/-- `FRAME_OWNED_GLOBAL_MARKER` as a global-caller index (`is_actually_frame_owned`). -/
def FRAME_OWNED_MARKER : Nat := 0

inductive Err where
  /-- `non_fungible_local_ids` invoked on a fungible proof -/
  | notNonFungibleProof
deriving DecidableEq, Repr, Inhabited

/-- `Authorization::proof_matches` -/
def proofMatches (x : RoN) (p : Proof) : Except Err Bool :=
  match x with
  | .nf g =>
    if p.res = g.res then
      (if p.fungible then .error .notNonFungibleProof else .ok (p.ids.contains g.id))
    else .ok false
  | .res r => .ok (decide (p.res = r))

/-- `for p in proofs { if proof_matches(rule, p)? { return Ok(true) } } Ok(false)` -/
def anyProofMatches (x : RoN) : List Proof → Except Err Bool
  | [] => .ok false
  | p :: ps =>
    match proofMatches x p with
    | .error e => .error e
    | .ok true => .ok true
    | .ok false => anyProofMatches x ps

/-- the closure of `auth_zone_stack_matches_rule`, applied to
    `(proofs, simulate_all_proofs_under_resources, implicit_non_fungible_proofs)` -/
def checkRule (x : RoN) (proofs : List Proof) (simRes : List Nat) (implicitNf : List NfId) : Except Err Bool :=
  match x with
  | .nf g =>
    if implicitNf.contains g then .ok true
    else if simRes.contains g.res then .ok true
    else anyProofMatches x proofs
  | .res _ => anyProofMatches x proofs

/-- the closure of `auth_zone_stack_has_amount` (each proof individually, never a sum) -/
def checkAmount (r : Nat) (amount : Int) : List Proof → Except Err Bool
  | [] => .ok false
  | p :: ps =>
    -- proof_matches(Resource(r), p)? && p.amount()? >= amount
    if p.res = r ∧ p.amount ≥ amount then .ok true else checkAmount r amount ps

/-- what the three closures have in common -/
abbrev Check := List Proof → List Nat → List NfId → Except Err Bool

/-- `Authorization::global_auth_zone_matches`: the zone, then its `parent` chain. -/
def globalMatches (check : Check) : Zone → Except Err Bool
  | .mk proofs simRes implicitNf _ _ parent =>
    match check proofs simRes implicitNf with
    | .error e => .error e
    | .ok true => .ok true
    | .ok false =>
      match parent with
      | some p => globalMatches check p
      | none => .ok false

/-- `AuthZone::local_implicit_non_fungible_proofs` (a `BTreeSet`; order is irrelevant for `contains`) -/
def localImplicit (z : Zone) : List NfId :=
  (match z.pkg with | some p => [NfId.mk PKG_BADGE p] | none => []) ++
  (match z.gc with
   | some (caller, _) => if caller = FRAME_OWNED_MARKER then [] else [NfId.mk GC_BADGE caller]
   | none => [])

/-- `if a? { return Ok(true) } b` -/
def orE (a b : Except Err Bool) : Except Err Bool :=
  match a with
  | .error e => .error e
  | .ok true => .ok true
  | .ok false => b

/-- `!local.is_empty() && check(&[], &{}, local)?` -/
def localCheck (check : Check) (z : Zone) : Except Err Bool :=
  if (localImplicit z).isEmpty then .ok false else check [] [] (localImplicit z)

/-- `if let Some((_, leaf)) = &auth_zone.global_caller { global_auth_zone_matches(leaf)? }` -/
def gcCheck (check : Check) (z : Zone) : Except Err Bool :=
  match z.gc with
  | some (_, leaf) => globalMatches check leaf
  | none => .ok false

/-- `if let Some(parent) = auth_zone.parent { global_auth_zone_matches(parent)? }` -/
def parentCheck (check : Check) (z : Zone) : Except Err Bool :=
  match z.parent with
  | some p => globalMatches check p
  | none => .ok false

/-- `Authorization::auth_zone_stack_matches`: local implicit proofs, then the global caller's
    zones, then the direct caller's zones; the first `true` (or error) ends the walk -/
def stackMatches (check : Check) (z : Zone) : Except Err Bool :=
  orE (localCheck check z) (orE (gcCheck check z) (parentCheck check z))

/-- `auth_zone_stack_matches_rule` -/
def stackMatchesRule (z : Zone) (x : RoN) : Except Err Bool := stackMatches (checkRule x) z

/-- `auth_zone_stack_has_amount` -/
def stackHasAmount (z : Zone) (r : Nat) (amount : Int) : Except Err Bool :=
  stackMatches (fun proofs _ _ => checkAmount r amount proofs) z

/-- `AllOf` arm of `verify_proof_rule` -/
def allMatch (z : Zone) : List RoN → Except Err Bool
  | [] => .ok true
  | x :: xs =>
    match stackMatchesRule z x with
    | .error e => .error e
    | .ok false => .ok false
    | .ok true => allMatch z xs

/-- `AnyOf` arm of `verify_proof_rule` -/
def anyMatch (z : Zone) : List RoN → Except Err Bool
  | [] => .ok false
  | x :: xs =>
    match stackMatchesRule z x with
    | .error e => .error e
    | .ok true => .ok true
    | .ok false => anyMatch z xs

/-- the loop of the `CountOf` arm, entered with `left > 0`:
    `if matches { left -= 1; if left == 0 { return true } }` -/
def countLoop (z : Zone) : Nat → List RoN → Except Err Bool
  | _, [] => .ok false
  | left, x :: xs =>
    match stackMatchesRule z x with
    | .error e => .error e
    | .ok true => if left - 1 = 0 then .ok true else countLoop z (left - 1) xs
    | .ok false => countLoop z left xs

/-- `Authorization::verify_proof_rule` -/
def verifyBasic (z : Zone) : Basic → Except Err Bool
  | .require x => stackMatchesRule z x
  | .amountOf a r => stackHasAmount z r a
  | .allOf xs => allMatch z xs
  | .anyOf xs => anyMatch z xs
  | .countOf n xs => if n = 0 then .ok true else countLoop z n xs

mutual
/-- `Authorization::verify_auth_rule` (`true` = `Authorized`, `false` = `Failed`) -/
def verifyComp (z : Zone) : Comp → Except Err Bool
  | .basic b => verifyBasic z b
  | .anyOf rs => verifyAny z rs
  | .allOf rs => verifyAll z rs
def verifyAny (z : Zone) : List Comp → Except Err Bool
  | [] => .ok false
  | r :: rs =>
    match verifyComp z r with
    | .error e => .error e
    | .ok true => .ok true
    | .ok false => verifyAny z rs
def verifyAll (z : Zone) : List Comp → Except Err Bool
  | [] => .ok true
  | r :: rs =>
    match verifyComp z r with
    | .error e => .error e
    | .ok false => .ok false
    | .ok true => verifyAll z rs
end

/-- `Authorization::check_authorization_against_access_rule` -/
def checkAccessRule (z : Zone) : Rule → Except Err Bool
  | .allowAll => .ok true
  | .denyAll => .ok false
  | .prot c => verifyComp z c

/-! ### Roles -/

/-- a role key; `SELF_ROLE = "_self_"`, `OWNER_ROLE = "_owner_"` are ordinary strings in the code -/
inductive RoleKey where
  | self
  | owner
  | named (n : Nat)
deriving DecidableEq, Repr, Inhabited

/-- the role-assignment module of one global object, for one module id:
    role entries (`None` = no entry / empty entry) and the owner rule -/
structure RoleAssignment where
  roles : RoleKey → Option Rule
  owner : Rule

/-- rule selection in `check_authorization_against_role_key_internal`;
    `addr` is `role_assignment_of` as a global-caller index -/
def resolveRole (ra : RoleAssignment) (addr : Nat) (key : RoleKey) : Rule :=
  if key = .self then
    .prot (.basic (.require (.nf (NfId.mk GC_BADGE addr))))
  else
    match ra.roles key with
    | some r => r
    | none => ra.owner

/-- `Authorization::check_authorization_against_role_list` -/
def checkRoleList (z : Zone) (ra : RoleAssignment) (addr : Nat) : List RoleKey → Except Err Bool
  | [] => .ok false
  | k :: ks =>
    match checkAccessRule z (resolveRole ra addr k) with
    | .error e => .error e
    | .ok true => .ok true
    | .ok false => checkRoleList z ra addr ks

/-- `ResolvedPermission` -/
inductive Permission where
  | allowAll
  | accessRule (r : Rule)
  | roleList (ra : RoleAssignment) (addr : Nat) (keys : List RoleKey)

inductive Outcome where
  | authorized
  | unauthorized
  | error (e : Err)
deriving DecidableEq, Repr, Inhabited

/-- `AuthModule::check_permission` -/
def checkPermission (z : Zone) : Permission → Outcome
  | .allowAll => .authorized
  | .accessRule r =>
    match checkAccessRule z r with
    | .ok true => .authorized | .ok false => .unauthorized | .error e => .error e
  | .roleList ra addr keys =>
    match checkRoleList z ra addr keys with
    | .ok true => .authorized | .ok false => .unauthorized | .error e => .error e

/-! ### Creation of the callee's auth zone (`AuthModule::create_auth_zone`) -/

/-- `ReferenceOrigin` of the direct caller's node -/
inductive Origin where
  | global (addr : Nat)
  | directlyAccessed
  | substateNonGlobalReference
  | frameOwned
deriving DecidableEq, Repr, Inhabited

/-- the direct caller (`system.current_actor()`) with its own auth zone -/
inductive Caller where
  | root
  /-- `Actor::Function`: package, `as_global_caller()` (the blueprint), auth zone -/
  | function (pkg : Nat) (bp : Nat) (zone : Zone)
  /-- `Actor::Method`: package, visibility origin of the receiver node, auth zone -/
  | method (pkg : Nat) (origin : Origin) (zone : Zone)
deriving Repr, Inhabited

/-- `copy_global_caller`: the `global_caller` field of the direct caller's zone -/
def copyGlobalCaller (z : Zone) : Option (Nat × Zone) := z.gc

/-- `AuthModule::create_auth_zone(receiver, simulate…, implicit…)`;
    `ctxChange` is `is_global_context_change` (function call, global receiver, or direct access). -/
def createAuthZone (caller : Caller) (ctxChange : Bool) (simRes : List Nat) (implicitNf : List NfId) : Zone :=
  let pkg : Option Nat := match caller with
    | .root => none | .function p _ _ => some p | .method p _ _ => some p
  let gc : Option (Nat × Zone) := match caller with
    | .root => none
    | .method _ origin cz =>
      match origin, ctxChange with
      | .global addr, true => some (addr, cz)
      | .global _, false => copyGlobalCaller cz
      | .directlyAccessed, _ => none
      | .substateNonGlobalReference, _ => none
      | .frameOwned, _ =>
        match copyGlobalCaller cz with
        | some _ => some (FRAME_OWNED_MARKER, cz)
        | none => none
    | .function _ bp cz => if ctxChange then some (bp, cz) else copyGlobalCaller cz
  let parent : Option Zone := if ctxChange then none else
    match caller with
    | .root => none | .function _ _ cz => some cz | .method _ _ cz => some cz
  .mk [] simRes implicitNf pkg gc parent

/-- the temporary zone of `create_temp_child_auth_zone_for_verify_parent` (VERIFY_PARENT):
    no package, no parent, global caller = (the processor blueprint, the parent intent's zone) -/
def verifyParentZone (bp : Nat) (parentZone : Zone) : Zone :=
  .mk [] [] [] none (some (bp, parentZone)) none

/-! ### Manifest-level auth-zone instructions (`auth_zone_substates.rs`) -/

/-- index of `SECP256K1_SIGNATURE_RESOURCE` / `ED25519_SIGNATURE_RESOURCE` -/
def SECP_SIG : Nat := 2
def ED_SIG : Nat := 3

/-- `AuthZone::pop` -/
def Zone.pop : Zone → Option Zone
  | .mk p s i k g pa => if p.isEmpty then none else some (.mk p.dropLast s i k g pa)

/-- `AuthZone::remove_signature_proofs` -/
def Zone.removeSignatureProofs : Zone → Zone
  | .mk p s i k g pa =>
    .mk p (s.filter (fun x => x != SECP_SIG && x != ED_SIG))
      (i.filter (fun x => x.res != SECP_SIG && x.res != ED_SIG)) k g pa

/-- `AuthZone::remove_regular_proofs` -/
def Zone.removeRegularProofs : Zone → Zone
  | .mk _ s i k g pa => .mk [] s i k g pa

/-! ### `RoleAssignmentNativePackage::verify_access_rule` (limits on stored rules) -/

inductive LimitErr where
  | depth   -- ExceededMaxAccessRuleDepth
  | nodes   -- ExceededMaxAccessRuleNodes
deriving DecidableEq, Repr, Inhabited

/-- `AccessRuleVerifier::visit`: depth check first, then the node counter -/
def visitNode (maxDepth maxNodes depth cnt : Nat) : Except LimitErr Nat :=
  if depth > maxDepth then .error .depth
  else if cnt + 1 > maxNodes then .error .nodes
  else .ok (cnt + 1)

mutual
/-- `dfs_traverse_recursive` with the verifier: pre-order, returns the node counter -/
def visitComp (maxDepth maxNodes : Nat) (depth : Nat) (cnt : Nat) : Comp → Except LimitErr Nat
  | .basic _ => visitNode maxDepth maxNodes depth cnt
  | .anyOf rs =>
    match visitNode maxDepth maxNodes depth cnt with
    | .error e => .error e
    | .ok c => visitList maxDepth maxNodes (depth + 1) c rs
  | .allOf rs =>
    match visitNode maxDepth maxNodes depth cnt with
    | .error e => .error e
    | .ok c => visitList maxDepth maxNodes (depth + 1) c rs
def visitList (maxDepth maxNodes : Nat) (depth : Nat) (cnt : Nat) : List Comp → Except LimitErr Nat
  | [] => .ok cnt
  | r :: rs =>
    match visitComp maxDepth maxNodes depth cnt r with
    | .error e => .error e
    | .ok c => visitList maxDepth maxNodes depth c rs
end

/-- `verify_access_rule(rule)` -/
def verifyAccessRule (maxDepth maxNodes : Nat) : Rule → Except LimitErr Unit
  | .prot c => match visitComp maxDepth maxNodes 0 0 c with | .error e => .error e | .ok _ => .ok ()
  | _ => .ok ()

def ruleWithinLimits (maxDepth maxNodes : Nat) (r : Rule) : Bool :=
  match verifyAccessRule maxDepth maxNodes r with | .ok _ => true | .error _ => false

end Radix.Auth
