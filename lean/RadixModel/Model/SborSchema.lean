/-
C22 / C23 — model of SBOR schemas and of payload validation against a schema.

Transcribed from
  sbor/src/schema/schema.rs                      (`SchemaV1::resolve_type_kind / _metadata / _validation / _data`)
  sbor/src/schema/type_data/{type_kind,type_validation,type_metadata}.rs
  sbor/src/schema/type_link.rs                   (`LocalTypeId`)
  sbor/src/traversal/typed/typed_traverser.rs    (`map_container_start_event`, `map_terminal_value_event`,
                                                  `map_terminal_value_batch_event`, `get_type_id`,
                                                  `value_kind_matches_type_kind`)
  sbor/src/payload_validation/payload_validator.rs (`validate_container`, `validate_terminal_value`,
                                                  `validate_terminal_value_batch`)
  radix-common/src/data/scrypto/{custom_extension,custom_validation,custom_schema}.rs

Transcription notes
* The real validator is a streaming pass over the payload bytes (`TypedTraverser` over `VecTraverser`).
  The untyped part (bytes → value tree, with depth limit) is the C20/C21 model `Sbor.decodePayload`;
  here `validate` is the typed part: a pre-order walk over the decoded value that performs, per
  event, exactly the checks of `next_event_internal` + `validate_event_with_type`, in the same order:
    container:  look_up_type → header/kind match (incl. child value-kind checks of arrays and maps)
                → `validate_container` → children (in order)
    terminal:   look_up_type → `value_kind_matches_type_kind` → `validate_terminal_value`
    byte array: (non-empty `Array<U8>`) one `TerminalValueBatch` event typed with the element type.
  `validatePayload` = `decodePayload` then `validate`; it accepts exactly when the real
  `validate_payload_against_schema` does (first error *class* is compared when the payload decodes).
* Names (type/field/variant names, blueprint names, package addresses) only take part in equality
  tests, so they are natural numbers (the harness maps a string to the number whose base-256 digits
  are `1 :: utf8 bytes`).
* `IndexMap<u8, _>` is an association list in iteration order (keys are unique in an `IndexMap`).
* The well-known type table and the entity-type predicates on node ids are parameters (`Env`);
  `genEnv` instantiates them from `Generated/SborSchema.lean`, which is rewritten on every check from
  the compiled tree (`ScryptoCustomSchema::resolve_well_known_type`, `NodeId::is_global…`).
* The three vectors of `SchemaV1` are kept separate (they can have different lengths in a schema
  that was not validated), so that `resolve_*` fail exactly where the code's `.get(index)` does.
-/
import RadixModel.Model.Sbor
import RadixModel.Generated.SborSchema

namespace Radix.Schema
open Radix.Sbor
open Radix.Generated

/-- Scrypto-flavoured SBOR values. -/
abbrev SV := Value ScryptoKind ScryptoCustom

/-! ## Schema types -/

/-- `LocalTypeId` -/
inductive TypeId where
  | wk (n : Nat)
  | loc (n : Nat)
  deriving DecidableEq, Repr

/-- `ScryptoCustomTypeKind` -/
inductive CTK where
  | reference | own | decimal | preciseDecimal | nonFungibleLocalId
  deriving DecidableEq, Repr

/-- `TypeKind<ScryptoCustomTypeKind, LocalTypeId>` -/
inductive TypeKind where
  | any
  | bool
  | int (k : IntK)
  | string
  | array (element : TypeId)
  | tuple (fields : List TypeId)
  | enum (variants : List (Nat × List TypeId))
  | map (key value : TypeId)
  | custom (c : CTK)
  deriving DecidableEq, Repr

/-- `NumericValidation<T>` / `LengthValidation` (bounds as integers). -/
structure Bounds where
  min : Option Int
  max : Option Int
  deriving DecidableEq, Repr

/-- `ReferenceValidation` (package address and blueprint name as opaque numbers). -/
inductive RefV where
  | isGlobal | isGlobalPackage | isGlobalComponent | isGlobalResourceManager
  | isGlobalTyped (pkg name : Nat)
  | isInternal
  | isInternalTyped (pkg name : Nat)
  deriving DecidableEq, Repr

/-- `OwnValidation` -/
inductive OwnV where
  | isBucket | isProof | isVault | isKeyValueStore | isGlobalAddressReservation
  | isTypedObject (pkg name : Nat)
  deriving DecidableEq, Repr

/-- `TypeValidation<ScryptoCustomTypeValidation>` -/
inductive TV where
  | none
  | num (k : IntK) (b : Bounds)
  | string (b : Bounds)
  | array (b : Bounds)
  | map (b : Bounds)
  | ref (r : RefV)
  | own (o : OwnV)
  deriving DecidableEq, Repr

/-- Metadata of one enum variant: its name and its `NamedFields`, if any. -/
structure VarMeta where
  name : Option Nat
  fields : Option (List Nat)
  deriving DecidableEq, Repr

/-- `Option<ChildNames>` -/
inductive ChildNames where
  | none
  | fields (names : List Nat)
  | variants (vs : List (Nat × VarMeta))
  deriving DecidableEq, Repr

/-- `TypeMetadata` -/
structure Meta where
  name : Option Nat
  children : ChildNames
  deriving DecidableEq, Repr

/-- `TypeData` -/
structure TypeData where
  kind : TypeKind
  md : Meta
  validation : TV
  deriving DecidableEq, Repr

/-- `SchemaV1` -/
structure Schema where
  kinds : List TypeKind
  metas : List Meta
  validations : List TV
  deriving DecidableEq, Repr

/-- What the custom schema contributes: the well-known table and the entity-type classes of node ids
(arguments: the first byte of the node id). -/
structure Env where
  wk : Nat → Option TypeData
  anyId : Nat
  entGlobal : Nat → Bool
  entGlobalPackage : Nat → Bool
  entGlobalComponent : Nat → Bool
  entGlobalResourceManager : Nat → Bool
  entInternal : Nat → Bool
  entInternalVault : Nat → Bool
  entInternalKvStore : Nat → Bool

/-- Association-list lookup (`IndexMap::get`). -/
def alookup {α : Type} (k : Nat) : List (Nat × α) → Option α
  | [] => none
  | (k', a) :: r => if k' = k then some a else alookup k r

/-- `resolve_type_kind` -/
def resolveKind (env : Env) (S : Schema) : TypeId → Option TypeKind
  | .wk n => (env.wk n).map (·.kind)
  | .loc i => S.kinds[i]?

/-- `resolve_type_metadata` -/
def resolveMeta (env : Env) (S : Schema) : TypeId → Option Meta
  | .wk n => (env.wk n).map (·.md)
  | .loc i => S.metas[i]?

/-- `resolve_type_validation` -/
def resolveValidation (env : Env) (S : Schema) : TypeId → Option TV
  | .wk n => (env.wk n).map (·.validation)
  | .loc i => S.validations[i]?

/-- `resolve_type_data` (all three must be present). -/
def resolveData (env : Env) (S : Schema) : TypeId → Option TypeData
  | .wk n => env.wk n
  | .loc i =>
    match S.kinds[i]?, S.metas[i]?, S.validations[i]? with
    | some k, some m, some v => some ⟨k, m, v⟩
    | _, _, _ => none

/-! ## Validation outcomes -/

/-- Error classes of `validate_payload_against_schema` once the payload is decodable:
`TypedTraversalError::{TypeIdNotFound, ValueMismatchWithType(_)}`, `ValidationError`,
`SchemaInconsistency`; `panic` is the `expect` in `get_type_id`. -/
inductive VErr where
  | typeIdNotFound
  | mismatchingType
  | mismatchingChildElementType
  | mismatchingChildKeyType
  | mismatchingChildValueType
  | mismatchingTupleLength
  | mismatchingEnumVariantLength
  | unknownEnumVariant
  | lengthValidation
  | numericValidation
  | customValidation
  | schemaInconsistency
  | panic
  deriving DecidableEq, Repr

abbrev VR := Except VErr Unit

/-! ## Numeric / length validation -/

def isSigned : IntK → Bool
  | .i8 | .i16 | .i32 | .i64 | .i128 => true
  | _ => false

/-- `T::MIN_VALUE` -/
def kindMin (k : IntK) : Int :=
  if isSigned k then -(2 ^ (8 * k.width - 1) : Nat) else 0

/-- `T::MAX_VALUE` -/
def kindMax (k : IntK) : Int :=
  if isSigned k then (2 ^ (8 * k.width - 1) : Nat) - 1 else (2 ^ (8 * k.width) : Nat) - 1

/-- The integer a bit pattern of kind `k` stands for. -/
def intVal (k : IntK) (v : BitVec (8 * k.width)) : Int :=
  if isSigned k then v.toInt else v.toNat

def effMin (k : IntK) (b : Bounds) : Int := match b.min with | some m => m | none => kindMin k
def effMax (k : IntK) (b : Bounds) : Int := match b.max with | some m => m | none => kindMax k

/-- `NumericValidation::is_valid` -/
def numValid (k : IntK) (b : Bounds) (x : Int) : Bool :=
  decide (effMin k b ≤ x) && decide (x ≤ effMax k b)

def U32_MAX : Int := 4294967295

def lenMin (b : Bounds) : Int := match b.min with | some m => m | none => 0
def lenMax (b : Bounds) : Int := match b.max with | some m => m | none => U32_MAX

/-- `LengthValidation::is_valid` -/
def lenValid (b : Bounds) (len : Nat) : Bool :=
  decide (lenMin b ≤ (len : Int)) && decide ((len : Int) ≤ lenMax b)

/-! ## Custom (Scrypto) validation -/

def firstByte (node : Bytes) : Option Nat :=
  match node with
  | [] => none
  | b :: _ => some b.toNat

/-- a `NodeId` predicate given by a class of entity-type bytes -/
def nodeIn (cls : Nat → Bool) (node : Bytes) : Bool :=
  match firstByte node with
  | some b => cls b
  | none => false

/-- the `is_valid` of `ScryptoCustomTypeValidation::Reference` -/
def refOk (env : Env) (r : RefV) (node : Bytes) : Bool :=
  match r with
  | .isGlobal => nodeIn env.entGlobal node
  | .isGlobalPackage => nodeIn env.entGlobalPackage node
  | .isGlobalComponent => nodeIn env.entGlobalComponent node
  | .isGlobalResourceManager => nodeIn env.entGlobalResourceManager node
  | .isGlobalTyped _ _ => nodeIn env.entGlobal node
  | .isInternal => nodeIn env.entInternal node
  | .isInternalTyped _ _ => nodeIn env.entInternal node

/-- the `is_valid` of `ScryptoCustomTypeValidation::Own` -/
def ownOk (env : Env) (o : OwnV) (node : Bytes) : Bool :=
  match o with
  | .isBucket => nodeIn env.entInternal node
  | .isProof => nodeIn env.entInternal node
  | .isVault => nodeIn env.entInternalVault node
  | .isKeyValueStore => nodeIn env.entInternalKvStore node
  | .isGlobalAddressReservation => true
  | .isTypedObject _ _ => true

/-- `ScryptoCustomTypeKind` of a custom value kind (`custom_value_kind_matches_type_kind`). -/
def ctkOf : ScryptoKind → CTK
  | .reference => .reference
  | .own => .own
  | .decimal => .decimal
  | .preciseDecimal => .preciseDecimal
  | .nonFungibleLocalId => .nonFungibleLocalId

/-- `value_kind_matches_type_kind::<ScryptoCustomExtension>` -/
def valueKindMatches (vk : VK ScryptoKind) (tk : TypeKind) : Bool :=
  match tk with
  | .any => true
  | _ =>
    match vk with
    | .custom x =>
      (match tk with
       | .custom c => decide (c = ctkOf x)
       | _ => false)
    | _ =>
      match tk with
      | .any => true
      | .bool => (match vk with | .bool => true | _ => false)
      | .int k => (match vk with | .int k' => decide (k' = k) | _ => false)
      | .string => (match vk with | .string => true | _ => false)
      | .array _ => (match vk with | .array => true | _ => false)
      | .tuple _ => (match vk with | .tuple => true | _ => false)
      | .enum _ => (match vk with | .enum => true | _ => false)
      | .map _ _ => (match vk with | .map => true | _ => false)
      | .custom _ => false

/-! ## Per-event checks -/

/-- `look_up_type!` -/
def lookKind (env : Env) (S : Schema) (tid : TypeId) : Except VErr TypeKind :=
  match resolveKind env S tid with
  | some k => .ok k
  | none => .error .typeIdNotFound

/-- The part of a `ContainerHeader` that `validate_container` looks at. -/
inductive Hdr where
  | tuple
  | enum
  | array (len : Nat)
  | map (len : Nat)

/-- `validate_container`, as a function of the resolved validation. -/
def containerCheck (tv : Option TV) (h : Hdr) : VR :=
  match tv with
  | none => .error .schemaInconsistency
  | some .none => .ok ()
  | some (.array b) =>
    (match h with
     | .array len => if lenValid b len then .ok () else .error .lengthValidation
     | _ => .error .schemaInconsistency)
  | some (.map b) =>
    (match h with
     | .map len => if lenValid b len then .ok () else .error .lengthValidation
     | _ => .error .schemaInconsistency)
  | some _ => .error .schemaInconsistency

/-- `validate_container` -/
def validateContainer (env : Env) (S : Schema) (tid : TypeId) (h : Hdr) : VR :=
  containerCheck (resolveValidation env S tid) h

def anyTid (env : Env) : TypeId := .wk env.anyId

/-- `ContainerStart(Tuple{length})`: typed-traverser check, then `validate_container`;
returns the type ids of the children. -/
def startTuple (env : Env) (S : Schema) (tid : TypeId) (n : Nat) : Except VErr (List TypeId) :=
  match lookKind env S tid with
  | .error e => .error e
  | .ok k =>
    match (match k with
      | .any => (.ok (List.replicate n (anyTid env)) : Except VErr (List TypeId))
      | .tuple fts => if fts.length = n then .ok fts else .error .mismatchingTupleLength
      | _ => .error .mismatchingType) with
    | .error e => .error e
    | .ok tids =>
      match validateContainer env S tid .tuple with
      | .error e => .error e
      | .ok _ => .ok tids

/-- `ContainerStart(EnumVariant{variant, length})` -/
def startEnum (env : Env) (S : Schema) (tid : TypeId) (d n : Nat) : Except VErr (List TypeId) :=
  match lookKind env S tid with
  | .error e => .error e
  | .ok k =>
    match (match k with
      | .any => (.ok (List.replicate n (anyTid env)) : Except VErr (List TypeId))
      | .enum vs =>
        (match alookup d vs with
         | some fts => if fts.length = n then .ok fts else .error .mismatchingEnumVariantLength
         | none => .error .unknownEnumVariant)
      | _ => .error .mismatchingType) with
    | .error e => .error e
    | .ok tids =>
      match validateContainer env S tid .enum with
      | .error e => .error e
      | .ok _ => .ok tids

/-- `ContainerStart(Array{element_value_kind, length})`; returns the element type id. -/
def startArray (env : Env) (S : Schema) (tid : TypeId) (ek : VK ScryptoKind) (n : Nat) : Except VErr TypeId :=
  match lookKind env S tid with
  | .error e => .error e
  | .ok k =>
    match (match k with
      | .any => (.ok (anyTid env) : Except VErr TypeId)
      | .array et =>
        (match lookKind env S et with
         | .error e => .error e
         | .ok ekind => if valueKindMatches ek ekind then .ok et else .error .mismatchingChildElementType)
      | _ => .error .mismatchingType) with
    | .error e => .error e
    | .ok et =>
      match validateContainer env S tid (.array n) with
      | .error e => .error e
      | .ok _ => .ok et

/-- `ContainerStart(Map{key_value_kind, value_value_kind, length})`; returns key and value type ids. -/
def startMap (env : Env) (S : Schema) (tid : TypeId) (kk vk : VK ScryptoKind) (n : Nat) :
    Except VErr (TypeId × TypeId) :=
  match lookKind env S tid with
  | .error e => .error e
  | .ok k =>
    match (match k with
      | .any => (.ok (anyTid env, anyTid env) : Except VErr (TypeId × TypeId))
      | .map kt vt =>
        (match lookKind env S kt with
         | .error e => .error e
         | .ok kkind =>
           if !valueKindMatches kk kkind then .error .mismatchingChildKeyType
           else
             match lookKind env S vt with
             | .error e => .error e
             | .ok vkind =>
               if !valueKindMatches vk vkind then .error .mismatchingChildValueType
               else .ok (kt, vt))
      | _ => .error .mismatchingType) with
    | .error e => .error e
    | .ok kv =>
      match validateContainer env S tid (.map n) with
      | .error e => .error e
      | .ok _ => .ok kv

/-- `apply_validation_for_custom_value` (`ValidatableCustomExtension<()>`), as a function of the
resolved validation. -/
def customCheck (env : Env) (tv : Option TV) (c : ScryptoCustom) : VR :=
  match tv with
  | none => .error .schemaInconsistency
  | some .none => .ok ()
  | some (.ref r) =>
    (match c with
     | .reference node => if refOk env r node then .ok () else .error .customValidation
     | _ => .error .schemaInconsistency)
  | some (.own o) =>
    (match c with
     | .own node => if ownOk env o node then .ok () else .error .customValidation
     | _ => .error .schemaInconsistency)
  | some _ => .error .schemaInconsistency

def validateCustom (env : Env) (S : Schema) (tid : TypeId) (c : ScryptoCustom) : VR :=
  customCheck env (resolveValidation env S tid) c

/-- `validate_terminal_value` for a non-custom terminal value, as a function of the resolved validation. -/
def termCheck (tv : Option TV) (v : SV) : VR :=
  match tv with
  | none => .error .schemaInconsistency
  | some .none => .ok ()
  | some (.num k b) =>
    (match v with
     | .int k' x =>
       if h : k' = k then
         (if numValid k b (intVal k (h ▸ x)) then .ok () else .error .numericValidation)
       else .error .schemaInconsistency
     | _ => .error .schemaInconsistency)
  | some (.string b) =>
    (match v with
     | .string s => if lenValid b s.length then .ok () else .error .lengthValidation
     | _ => .error .schemaInconsistency)
  | some (.array _) => .error .schemaInconsistency
  | some (.map _) => .error .schemaInconsistency
  -- `apply_custom_type_validation_for_non_custom_value`
  | some (.ref _) => .error .schemaInconsistency
  | some (.own _) => .error .schemaInconsistency

def validateTerminalValue (env : Env) (S : Schema) (tid : TypeId) (v : SV) : VR :=
  termCheck (resolveValidation env S tid) v

/-- `TerminalValue` event: `map_terminal_value_event`, then `validate_terminal_value`. -/
def terminal (env : Env) (S : Schema) (tid : TypeId) (v : SV) : VR :=
  match lookKind env S tid with
  | .error e => .error e
  | .ok k =>
    if !valueKindMatches (v.kind scrypto) k then .error .mismatchingType
    else
      match v with
      | .custom c => validateCustom env S tid c
      | _ => validateTerminalValue env S tid v

/-- The `u8` a batch element stands for (elements of a decoded byte array are always `.int .u8`). -/
def byteOf : SV → Option Int
  | .int .u8 x => some (intVal .u8 x)
  | _ => none

/-- one byte of a batch against a `NumericValidation<u8>` -/
def byteOk (b : Bounds) (e : SV) : Bool :=
  match byteOf e with
  | some x => numValid .u8 b x
  | none => true

/-- `validate_terminal_value_batch`, as a function of the resolved validation. -/
def batchCheck (tv : Option TV) (es : List SV) : VR :=
  match tv with
  | none => .error .schemaInconsistency
  | some .none => .ok ()
  | some (.num .u8 b) =>
    if es.all (byteOk b) then .ok ()
    else .error .numericValidation
  | some _ => .error .schemaInconsistency

/-- `TerminalValueBatch` event (non-empty byte array, typed with the element type):
`map_terminal_value_batch_event`, then `validate_terminal_value_batch`. -/
def validateBatch (env : Env) (S : Schema) (et : TypeId) (es : List SV) : VR :=
  match lookKind env S et with
  | .error e => .error e
  | .ok k =>
    if !valueKindMatches (.int .u8) k then .error .mismatchingType
    else batchCheck (resolveValidation env S et) es

/-! ## The walk -/

mutual
/-- Typed traversal + validation of one value against type `tid`. -/
def validate (env : Env) (S : Schema) : TypeId → SV → VR
  | tid, .tuple fs =>
    match startTuple env S tid fs.length with
    | .error e => .error e
    | .ok tids => validateFields env S tids fs
  | tid, .enum d fs =>
    match startEnum env S tid d.toNat fs.length with
    | .error e => .error e
    | .ok tids => validateFields env S tids fs
  | tid, .array ek es =>
    match startArray env S tid ek es.length with
    | .error e => .error e
    | .ok et =>
      if ek = .int .u8 then
        (if es.isEmpty then .ok () else validateBatch env S et es)
      else validateAll env S et es
  | tid, .map kk vk es =>
    match startMap env S tid kk vk es.length with
    | .error e => .error e
    | .ok (kt, vt) => validateEntries env S kt vt es
  | tid, .bool b => terminal env S tid (.bool b)
  | tid, .int k x => terminal env S tid (.int k x)
  | tid, .string s => terminal env S tid (.string s)
  | tid, .custom c => terminal env S tid (.custom c)
/-- Children of a tuple / enum variant: child `i` has type `tids[i]` (`get_child_type_for_element`;
a missing entry is the `expect` panic of `get_type_id`). -/
def validateFields (env : Env) (S : Schema) : List TypeId → List SV → VR
  | _, [] => .ok ()
  | [], _ :: _ => .error .panic
  | t :: ts, v :: vs =>
    match validate env S t v with
    | .error e => .error e
    | .ok _ => validateFields env S ts vs
/-- Children of an array: all have the element type. -/
def validateAll (env : Env) (S : Schema) : TypeId → List SV → VR
  | _, [] => .ok ()
  | t, v :: vs =>
    match validate env S t v with
    | .error e => .error e
    | .ok _ => validateAll env S t vs
/-- Children of a map: key, value, key, value, … -/
def validateEntries (env : Env) (S : Schema) : TypeId → TypeId → List (SV × SV) → VR
  | _, _, [] => .ok ()
  | kt, vt, (k, v) :: es =>
    match validate env S kt k with
    | .error e => .error e
    | .ok _ =>
      match validate env S vt v with
      | .error e => .error e
      | .ok _ => validateEntries env S kt vt es
end

/-- Outcome of `validate_payload_against_schema::<ScryptoCustomExtension, ()>`. -/
inductive POutcome where
  | ok
  | undecodable
  | invalid (e : VErr)
  deriving DecidableEq, Repr

/-- `validate_payload_against_schema(payload, schema, tid, &(), depth)`. -/
def validatePayload (env : Env) (S : Schema) (tid : TypeId) (depth : Nat) (payload : Bytes) : POutcome :=
  match decodePayload scrypto depth payload with
  | .error _ => .undecodable
  | .ok v =>
    match validate env S tid v with
    | .ok _ => .ok
    | .error e => .invalid e

/-! ## Token form of schemas (line protocol and `Generated/SborSchema.lean`)

```
tid        ::= 0 n | 1 n                                  -- WellKnown(n) | SchemaLocalIndex(n)
kind       ::= 0 | 1 | 2 k | 3 | 4 tid | 5 n tid^n | 6 nv (disc nf tid^nf)^nv | 7 tid tid | 8 c
optname    ::= 0 | 1 name
names      ::= n name^n
meta       ::= optname ( 0 | 1 names | 2 nv (disc optname (0 | 1 names))^nv )
optint     ::= 0 | 1 sign abs
validation ::= 0 | 1 k optint optint | 2 optint optint | 3 optint optint | 4 optint optint
             | 5 refv | 6 ownv
refv       ::= 0 | 1 | 2 | 3 | 4 pkg name | 5 | 6 pkg name
ownv       ::= 0 | 1 | 2 | 3 | 4 | 5 pkg name
typedata   ::= kind meta validation
schema     ::= nk kind^nk nm meta^nm nv validation^nv
```
-/

abbrev P (α : Type) := List Nat → Option (α × List Nat)

def pMany {α : Type} (p : P α) : Nat → P (List α)
  | 0, r => some ([], r)
  | n + 1, r =>
    match p r with
    | none => none
    | some (a, r') =>
      match pMany p n r' with
      | none => none
      | some (as, r'') => some (a :: as, r'')

def pCounted {α : Type} (p : P α) : P (List α)
  | n :: r => pMany p n r
  | [] => none

def pNat : P Nat
  | n :: r => some (n, r)
  | [] => none

def pTid : P TypeId
  | 0 :: n :: r => some (.wk n, r)
  | 1 :: n :: r => some (.loc n, r)
  | _ => none

def intKOfNat : Nat → Option IntK
  | 0 => some .i8 | 1 => some .i16 | 2 => some .i32 | 3 => some .i64 | 4 => some .i128
  | 5 => some .u8 | 6 => some .u16 | 7 => some .u32 | 8 => some .u64 | 9 => some .u128
  | _ => none

def ctkOfNat : Nat → Option CTK
  | 0 => some .reference | 1 => some .own | 2 => some .decimal | 3 => some .preciseDecimal
  | 4 => some .nonFungibleLocalId
  | _ => none

def pVariant : P (Nat × List TypeId)
  | d :: r =>
    match pCounted pTid r with
    | some (ts, r') => some ((d, ts), r')
    | none => none
  | [] => none

def pKind : P TypeKind
  | 0 :: r => some (.any, r)
  | 1 :: r => some (.bool, r)
  | 2 :: k :: r => (intKOfNat k).map (fun k => (.int k, r))
  | 3 :: r => some (.string, r)
  | 4 :: r => (pTid r).map (fun (t, r') => (.array t, r'))
  | 5 :: r => (pCounted pTid r).map (fun (ts, r') => (.tuple ts, r'))
  | 6 :: r => (pCounted pVariant r).map (fun (vs, r') => (.enum vs, r'))
  | 7 :: r =>
    match pTid r with
    | some (k, r') => (pTid r').map (fun (v, r'') => (.map k v, r''))
    | none => none
  | 8 :: c :: r => (ctkOfNat c).map (fun c => (.custom c, r))
  | _ => none

def pOptName : P (Option Nat)
  | 0 :: r => some (none, r)
  | 1 :: n :: r => some (some n, r)
  | _ => none

def pVarMeta : P (Nat × VarMeta)
  | d :: r =>
    match pOptName r with
    | none => none
    | some (nm, r') =>
      match r' with
      | 0 :: r'' => some ((d, ⟨nm, none⟩), r'')
      | 1 :: r'' => (pCounted pNat r'').map (fun (fs, r3) => ((d, ⟨nm, some fs⟩), r3))
      | _ => none
  | [] => none

def pMeta : P Meta := fun r =>
  match pOptName r with
  | none => none
  | some (nm, r') =>
    match r' with
    | 0 :: r'' => some (⟨nm, .none⟩, r'')
    | 1 :: r'' => (pCounted pNat r'').map (fun (fs, r3) => (⟨nm, .fields fs⟩, r3))
    | 2 :: r'' => (pCounted pVarMeta r'').map (fun (vs, r3) => (⟨nm, .variants vs⟩, r3))
    | _ => none

def pOptInt : P (Option Int)
  | 0 :: r => some (none, r)
  | 1 :: 0 :: a :: r => some (some (a : Int), r)
  | 1 :: 1 :: a :: r => some (some (-(a : Int)), r)
  | _ => none

def pBounds : P Bounds := fun r =>
  match pOptInt r with
  | none => none
  | some (lo, r') => (pOptInt r').map (fun (hi, r'') => (⟨lo, hi⟩, r''))

def pRefV : P RefV
  | 0 :: r => some (.isGlobal, r)
  | 1 :: r => some (.isGlobalPackage, r)
  | 2 :: r => some (.isGlobalComponent, r)
  | 3 :: r => some (.isGlobalResourceManager, r)
  | 4 :: p :: n :: r => some (.isGlobalTyped p n, r)
  | 5 :: r => some (.isInternal, r)
  | 6 :: p :: n :: r => some (.isInternalTyped p n, r)
  | _ => none

def pOwnV : P OwnV
  | 0 :: r => some (.isBucket, r)
  | 1 :: r => some (.isProof, r)
  | 2 :: r => some (.isVault, r)
  | 3 :: r => some (.isKeyValueStore, r)
  | 4 :: r => some (.isGlobalAddressReservation, r)
  | 5 :: p :: n :: r => some (.isTypedObject p n, r)
  | _ => none

def pTV : P TV
  | 0 :: r => some (.none, r)
  | 1 :: k :: r =>
    match intKOfNat k with
    | none => none
    | some k => (pBounds r).map (fun (b, r') => (.num k b, r'))
  | 2 :: r => (pBounds r).map (fun (b, r') => (.string b, r'))
  | 3 :: r => (pBounds r).map (fun (b, r') => (.array b, r'))
  | 4 :: r => (pBounds r).map (fun (b, r') => (.map b, r'))
  | 5 :: r => (pRefV r).map (fun (x, r') => (.ref x, r'))
  | 6 :: r => (pOwnV r).map (fun (x, r') => (.own x, r'))
  | _ => none

def pTypeData : P TypeData := fun r =>
  match pKind r with
  | none => none
  | some (k, r1) =>
    match pMeta r1 with
    | none => none
    | some (m, r2) => (pTV r2).map (fun (v, r3) => (⟨k, m, v⟩, r3))

def pSchema : P Schema := fun r =>
  match pCounted pKind r with
  | none => none
  | some (ks, r1) =>
    match pCounted pMeta r1 with
    | none => none
    | some (ms, r2) => (pCounted pTV r2).map (fun (vs, r3) => (⟨ks, ms, vs⟩, r3))

/-! ## The environment of the current tree -/

/-- Well-known type `n` as `ScryptoCustomSchema::resolve_well_known_type` gives it. -/
def genWk (n : Nat) : Option TypeData :=
  match alookup n SborSchema.WELL_KNOWN with
  | none => none
  | some toks =>
    match pTypeData toks with
    | some (td, []) => some td
    | _ => none

def genEnv : Env where
  wk := genWk
  anyId := SborSchema.ANY_TYPE
  entGlobal := fun b => SborSchema.ENT_GLOBAL.contains b
  entGlobalPackage := fun b => SborSchema.ENT_GLOBAL_PACKAGE.contains b
  entGlobalComponent := fun b => SborSchema.ENT_GLOBAL_COMPONENT.contains b
  entGlobalResourceManager := fun b => SborSchema.ENT_GLOBAL_RESOURCE_MANAGER.contains b
  entInternal := fun b => SborSchema.ENT_INTERNAL.contains b
  entInternalVault := fun b => SborSchema.ENT_INTERNAL_VAULT.contains b
  entInternalKvStore := fun b => SborSchema.ENT_INTERNAL_KV_STORE.contains b

end Radix.Schema
