/-
Model of `radix-substate-store-impls/src/memory_db.rs` (`InMemorySubstateDatabase`) and of the
`DatabaseUpdates` value (`radix-substate-store-interface/src/interface.rs`).

* A database is a function from a partition key `(node, partition)` to the partition's
  `BTreeMap<DbSortKey, DbSubstateValue>` (sorted association list). The real outer
  `BTreeMap<DbPartitionKey, _>` drops a partition entry when it becomes empty; that is only
  visible through `list_partition_keys` (not part of C12/C14) and is not modelled.
* `DatabaseUpdates` = `IndexMap<node, IndexMap<partition, PartitionDatabaseUpdates>>` in iteration
  order.
* Values and sort keys are `Nat`s (see `Model/KV.lean`).
-/
import RadixModel.Model.KV
namespace Radix.SubstateDb
open Radix.KV

abbrev PKey := Nat × Nat

/-- `DatabaseUpdate`: `some v` = `Set(v)`, `none` = `Delete`. -/
abbrev DbUpdate := Option Nat

/-- `PartitionDatabaseUpdates` -/
inductive PUpd where
  | delta (substateUpdates : List (Nat × DbUpdate))
  | reset (newSubstateValues : List (Nat × Nat))
  deriving Repr, DecidableEq

/-- `NodeDatabaseUpdates` / `DatabaseUpdates` -/
abbrev NodeUpd := List (Nat × PUpd)
abbrev DbUpdates := List (Nat × NodeUpd)

abbrev Db := PKey → List (Nat × Nat)

def Db.empty : Db := fun _ => []

/-- `get_raw_substate_by_db_key` -/
def Db.get (db : Db) (pk : PKey) (k : Nat) : Option Nat := SMap.get? (db pk) k

/-- `list_raw_values_from_db_key` -/
def Db.list (db : Db) (pk : PKey) (from? : Option Nat) : List (Nat × Nat) :=
  match from? with
  | none => db pk
  | some f => SMap.from (db pk) f

/-- the `Delta` loop of `commit`: `Set` ⇒ `insert`, `Delete` ⇒ `remove`, in order -/
def applyDelta (part : List (Nat × Nat)) : List (Nat × DbUpdate) → List (Nat × Nat)
  | [] => part
  | (k, some v) :: t => applyDelta (SMap.insert part k v) t
  | (k, none) :: t => applyDelta (SMap.erase part k) t

/-- one partition of `InMemorySubstateDatabase::commit` -/
def applyPUpd (part : List (Nat × Nat)) : PUpd → List (Nat × Nat)
  | .delta us => applyDelta part us
  | .reset vs => SMap.ofList vs

def Db.set (db : Db) (pk : PKey) (part : List (Nat × Nat)) : Db :=
  fun pk' => if pk' = pk then part else db pk'

def commitNode (db : Db) (n : Nat) : NodeUpd → Db
  | [] => db
  | (p, u) :: t => commitNode (db.set (n, p) (applyPUpd (db (n, p)) u)) n t

/-- `InMemorySubstateDatabase::commit` -/
def Db.commit (db : Db) : DbUpdates → Db
  | [] => db
  | (n, nu) :: t => Db.commit (commitNode db n nu) t

end Radix.SubstateDb
