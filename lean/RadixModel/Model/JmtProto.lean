/-
C17 / C18 — line protocol shared by the two drivers: parsing of `commit` lines into `DbUpdates`
and canonical printing of roots, listings, store contents and stale parts.
Core Lean only. The hash is instantiated with the executable BLAKE2b-256.
-/
import RadixModel.Util.Proto
import RadixModel.Util.Blake2b
import RadixModel.Model.JmtStore
namespace Radix.Jmt.Proto
open Radix.Proto Radix.Jmt

def H : List UInt8 → Hash := Radix.Blake2b.blake2b256

/-- `commit` tokens: `e:<hex>` `p:<dec>:d|r` `s:<keyhex>:<valhex>` `x:<keyhex>`. Duplicate entity /
partition / sort keys inside one commit are `none` (the harness builds `IndexMap`s). -/
def parseUpdates : List String → DbUpdates → Option DbUpdates
  | [], acc => some (acc.reverse.map fun (ek, ps) => (ek, ps.reverse.map fun (pn, pu) =>
      (pn, match pu with
        | .delta l => .delta l.reverse
        | .reset l => .reset l.reverse)))
  | tok :: rest, acc =>
    match tok.splitOn ":" with
    | ["e", k] =>
      match unhex k with
      | some ek => if acc.any (·.1 == ek) then none else parseUpdates rest ((ek, []) :: acc)
      | none => none
    | ["p", n, kind] =>
      match n.toNat?, acc with
      | some pn, (ek, ps) :: acc' =>
        if pn ≥ 256 || ps.any (·.1 == pn) then none
        else if kind = "d" then parseUpdates rest ((ek, (pn, PUpd.delta []) :: ps) :: acc')
        else if kind = "r" then parseUpdates rest ((ek, (pn, PUpd.reset []) :: ps) :: acc')
        else none
      | _, _ => none
    | ["s", k, v] =>
      match unhex k, unhex v, acc with
      | some sk, some val, (ek, (pn, pu) :: ps) :: acc' =>
        match pu with
        | .delta l => if l.any (·.1 == sk) then none else parseUpdates rest ((ek, (pn, .delta ((sk, some val) :: l)) :: ps) :: acc')
        | .reset l => if l.any (·.1 == sk) then none else parseUpdates rest ((ek, (pn, .reset ((sk, val) :: l)) :: ps) :: acc')
      | _, _, _ => none
    | ["x", k] =>
      match unhex k, acc with
      | some sk, (ek, (pn, .delta l) :: ps) :: acc' =>
        if l.any (·.1 == sk) then none else parseUpdates rest ((ek, (pn, .delta ((sk, none) :: l)) :: ps) :: acc')
      | _, _ => none
    | _ => none

def nibHex (p : List Nat) : String :=
  if p.isEmpty then "-" else String.ofList (p.map hexNibble)

def showKey (k : NodeKey) : String := s!"{k.1}.{nibHex k.2}"

def showSNode : SNode → String
  | .null => "N"
  | .leaf suf vh p => s!"L.{nibHex suf}.{hex vh}.{p}"
  | .internal cs => "I" ++ String.join (cs.map fun (n, v, h, l) => s!"|{String.ofList [hexNibble n]},{v},{hex h},{if l then 1 else 0}")

def pathLt : List Nat → List Nat → Bool
  | [], [] => false
  | [], _ :: _ => true
  | _ :: _, [] => false
  | a :: as, b :: bs => if a < b then true else if b < a then false else pathLt as bs

def nodeKeyLt (a b : NodeKey) : Bool :=
  if a.1 < b.1 then true else if b.1 < a.1 then false else pathLt a.2 b.2

def insertSorted {β : Type} (lt : β → β → Bool) (x : β) : List β → List β
  | [] => [x]
  | y :: r => if lt x y then x :: y :: r else y :: insertSorted lt x r

def sortBy {β : Type} (lt : β → β → Bool) (l : List β) : List β := l.foldl (fun acc x => insertSorted lt x acc) []

def joinWith (sep : String) (l : List String) : String :=
  if l.isEmpty then "-" else sep.intercalate l

def showStore (s : Store) : String :=
  let sorted := sortBy (fun a b => nodeKeyLt a.1 b.1) s.nodes
  let content := joinWith ";" (sorted.map fun (k, n) => showKey k ++ "=" ++ showSNode n)
  let dig := hex ((H content.toUTF8.toList).take 8)
  s!"nodes={s.nodes.length} dig={dig} keys={joinWith "," (sorted.map (showKey ·.1))}"

def showStale (evs : List Ev) : String :=
  let l := evs.filterMap fun
    | .put _ _ => none
    | .staleNode k => some ((0 : Nat), k)
    | .staleSub k => some (1, k)
  let sorted := sortBy (fun (a b : Nat × NodeKey) => if a.1 < b.1 then true else if b.1 < a.1 then false else nodeKeyLt a.2 b.2) l
  joinWith "," (sorted.map fun (t, k) => (if t = 0 then "N" else "S") ++ showKey k)

def showListing (t : ETree) : String :=
  let l := listSubstateHashes t
  s!"n={l.length} " ++ joinWith "," (l.map fun (ek, pk, sk, vh) => s!"{hex ek}/{hex pk}/{hex sk}={hex vh}")

/-- driver state: `none` after a panic (the real store may be half-updated). -/
structure DState where
  st : Option State := some {}

def showErr : Err → String
  | .panic _ => "panic"
  | .fuel => "fuel"

end Radix.Jmt.Proto
