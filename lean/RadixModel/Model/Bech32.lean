/-
C28 — executable transcription of the `bech32` crate (v0.9.1): `decode`, `Bech32Writer`,
`ToBase32`/`FromBase32` (`convert_bits`).  Core Lean only.

This file is the *trusted parameter* of C28: every theorem of `Props/C28.lean` is stated for an
arbitrary `Radix.AddrText.Codec` satisfying the round-trip law; this concrete codec is used only by the
model driver, where it is validated against the real crate by the c28 correspondence stream (valid,
mutated, upper-case, wrong-variant, bad-padding and arbitrary unicode texts).

All the crate's decoding errors collapse to `none` (the Radix layer maps all of them to
`Bech32mDecodingError`).
-/
namespace Radix.Bech32

abbrev Str := List Char
abbrev Bytes := List UInt8

/-- `CHARSET`: data value → char (total on u5; values ≥ 32 never occur). -/
def charset5 (v : Nat) : Char :=
  match v with
  | 0 => 'q' | 1 => 'p' | 2 => 'z' | 3 => 'r' | 4 => 'y' | 5 => '9' | 6 => 'x' | 7 => '8'
  | 8 => 'g' | 9 => 'f' | 10 => '2' | 11 => 't' | 12 => 'v' | 13 => 'd' | 14 => 'w' | 15 => '0'
  | 16 => 's' | 17 => '3' | 18 => 'j' | 19 => 'n' | 20 => '5' | 21 => '4' | 22 => 'k' | 23 => 'h'
  | 24 => 'c' | 25 => 'e' | 26 => '6' | 27 => 'm' | 28 => 'u' | 29 => 'a' | 30 => '7' | _ => 'l'

def CHARSET : Str := (List.range 32).map charset5

/-- `CHARSET_REV` (both ASCII cases map to the same value). -/
def rev5 (c : Char) : Option Nat := CHARSET.findIdx? (· == c.toLower)

def GEN : List Nat := [0x3b6a57b2, 0x26508e6d, 0x1ea119fa, 0x3d4233dd, 0x2a1462b3]

def polymodStep (chk : Nat) (v : Nat) : Nat :=
  let b := chk >>> 25
  let chk := ((chk &&& 0x1ffffff) <<< 5) ^^^ v
  GEN.zipIdx.foldl (fun c gi => if b.testBit gi.2 then c ^^^ gi.1 else c) chk

def polymod (vs : List Nat) : Nat := vs.foldl polymodStep 1

def hrpExpand (hrp : List Nat) : List Nat :=
  hrp.map (· >>> 5) ++ [0] ++ hrp.map (· &&& 31)

inductive Variant where | bech32 | bech32m
  deriving DecidableEq, Repr

def Variant.const : Variant → Nat
  | .bech32 => 1
  | .bech32m => 0x2bc830a3

inductive Case where | upper | lower | none
  deriving DecidableEq, Repr

/-- UTF-8 length of a char (`str::len` counts bytes). -/
def u8len (c : Char) : Nat :=
  if c.toNat < 0x80 then 1 else if c.toNat < 0x800 then 2 else if c.toNat < 0x10000 then 3 else 4

def utf8Len (s : Str) : Nat := (s.map u8len).sum

def isAsciiLower (c : Char) : Bool := 'a'.toNat ≤ c.toNat && c.toNat ≤ 'z'.toNat
def isAsciiUpper (c : Char) : Bool := 'A'.toNat ≤ c.toNat && c.toNat ≤ 'Z'.toNat

/-- the byte loop of `check_hrp` (a non-ASCII char has only bytes ≥ 0x80, which fail the range test). -/
def checkHrpGo : Str → Bool → Bool → Option Case
  | [], hasLower, hasUpper =>
    some (if hasUpper then .upper else if hasLower then .lower else .none)
  | c :: cs, hasLower, hasUpper =>
    if !(33 ≤ c.toNat && c.toNat ≤ 126) then none
    else
      let hasLower := hasLower || isAsciiLower c
      let hasUpper := hasUpper || (!isAsciiLower c && isAsciiUpper c)
      if hasLower && hasUpper then none else checkHrpGo cs hasLower hasUpper

/-- `check_hrp` (identical in the crate and in radix-common's copy `bech32_check_hrp`);
`none` = any of InvalidLength / InvalidChar / MixedCase. -/
def checkHrp (hrp : Str) : Option Case :=
  if hrp.isEmpty || utf8Len hrp > 83 then none else checkHrpGo hrp false false

def lowerStr (s : Str) : Str := s.map Char.toLower

/-- `Bech32Writer::new(hrp, variant, &mut String)` + `write(data5)` + `finalize()` (a `String` sink never fails). -/
def write5 (hrp : Str) (data5 : List Nat) (v : Variant) : Str :=
  let hb := hrp.map Char.toNat
  let plm := polymod (hrpExpand hb ++ data5 ++ [0, 0, 0, 0, 0, 0]) ^^^ v.const
  hrp ++ ['1'] ++ data5.map charset5 ++ (List.range 6).map (fun p => charset5 ((plm >>> (5 * (5 - p))) &&& 31))

/-- inner `while bits >= to` loop of `convert_bits` -/
def drain (to maxv acc : Nat) : Nat → Nat → List Nat → Nat × List Nat
  | 0, bits, ret => (bits, ret)
  | fuel + 1, bits, ret =>
    if bits ≥ to then drain to maxv acc fuel (bits - to) (((acc >>> (bits - to)) &&& maxv) :: ret)
    else (bits, ret)

/-- `convert_bits(data, from, to, pad)`; `ret` is accumulated reversed. `acc` is a `u32`. -/
def convertGo (frm to : Nat) (pad : Bool) : List Nat → Nat → Nat → List Nat → Option (List Nat)
  | [], acc, bits, ret =>
    let maxv := (1 <<< to) - 1
    if pad then
      some (if bits > 0 then (((acc <<< (to - bits)) % 2 ^ 32 &&& maxv) :: ret).reverse else ret.reverse)
    else if bits ≥ frm || ((acc <<< (to - bits)) % 2 ^ 32 &&& maxv) ≠ 0 then none
    else some ret.reverse
  | v :: vs, acc, bits, ret =>
    if v >>> frm ≠ 0 then none
    else
      let acc := ((acc <<< frm) % 2 ^ 32) ||| v
      let (bits, ret) := drain to ((1 <<< to) - 1) acc 9 (bits + frm) ret
      convertGo frm to pad vs acc bits ret

/-- `<[u8] as ToBase32>::to_base32` (= `convert_bits(8, 5, pad = true)`) -/
def toBase32 (data : Bytes) : List Nat :=
  match convertGo 8 5 true (data.map UInt8.toNat) 0 0 [] with
  | some r => r
  | none => []   -- unreachable: bytes are < 2^8

/-- `Vec<u8>::from_base32` (= `convert_bits(5, 8, pad = false)`); `none` = InvalidPadding -/
def fromBase32 (d5 : List Nat) : Option Bytes :=
  (convertGo 5 8 false d5 0 0 []).map (·.map UInt8.ofNat)

def rfindSep : Str → Nat → Option Nat → Option Nat
  | [], _, last => last
  | c :: cs, i, last => rfindSep cs (i + 1) (if c = '1' then some i else last)

/-- the payload loop of `split_and_decode` -/
def decodeData : Str → Case → List Nat → Option (List Nat)
  | [], _, acc => some acc.reverse
  | c :: cs, case, acc =>
    if c.toNat ≥ 128 then none
    else
      let step : Option Case :=
        if isAsciiLower c then
          (match case with | .upper => none | _ => some .lower)
        else if isAsciiUpper c then
          (match case with | .lower => none | _ => some .upper)
        else some case
      match step with
      | none => none
      | some case' =>
        match rev5 c with
        | none => none
        | some v => decodeData cs case' (v :: acc)

/-- `bech32::decode`: (lower-cased hrp, data without checksum, variant) -/
def decode (s : Str) : Option (Str × List Nat × Variant) :=
  match rfindSep s 0 none with
  | none => none
  | some sep =>
    let rawHrp := s.take sep
    let rawData := s.drop (sep + 1)
    match checkHrp rawHrp with
    | none => none
    | some case =>
      let hrpLower := if case = .upper then lowerStr rawHrp else rawHrp
      match decodeData rawData case [] with
      | none => none
      | some data =>
        if data.length < 6 then none
        else
          let pm := polymod (hrpExpand (hrpLower.map Char.toNat) ++ data)
          if pm = Variant.bech32.const then some (hrpLower, data.take (data.length - 6), .bech32)
          else if pm = Variant.bech32m.const then some (hrpLower, data.take (data.length - 6), .bech32m)
          else none

end Radix.Bech32
