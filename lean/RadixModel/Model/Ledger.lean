/-
C03 / C04 — the resource-accounting ledger: resources, vaults, transient buckets, the fee reserve's
locked XRD and fee finalisation, over a history of committed transactions.

Transcribed from
* `radix-engine-interface/src/blueprints/resource/resource.rs`
    `LiquidFungibleResource::{put, take_by_amount}` (`put` = `checked_add().expect("Overflow")`,
    `take_by_amount` = `InsufficientBalance` when `amount < amount_to_take`, then `checked_sub`),
    `LiquidNonFungibleResource::{put, take_by_ids}`
* `radix-engine/src/blueprints/resource/fungible/fungible_resource_manager.rs`
    `mint` (assert_mintable, `check_mint_amount`: divisibility, `MAX_MINT_AMOUNT`; create bucket; emit
    `MintFungibleResourceEvent`; if `TrackTotalSupply`: `total_supply.checked_add`),
    `burn_internal` (assert_burnable; drop bucket; emit `Burn…Event`; `total_supply.checked_sub`),
    `create_with_initial_supply` (supply field := initial supply, Mint event, no mintable check),
    `create_empty_vault`, `drop_empty_bucket`
* `…/fungible/fungible_vault.rs` `take`/`take_advanced(Exact)`, `put`, `recall`, `lock_fee`
    (XRD only, amount check, `UNMODIFIED_BASE | FORCE_WRITE` on the balance), `internal_take/put`
* `…/non_fungible/non_fungible_resource_manager.rs` `mint_non_fungible` (`update_total_supply(len)`,
    `create_non_fungibles` with the existence check on the data store), `burn_internal`
    (`update_total_supply(-amount)`, tombstoning of the data entries)
* `…/non_fungible/non_fungible_vault.rs` `internal_take_non_fungibles` (`amount.checked_sub(len)`, then
    every id must be removed from the index), `internal_put` (`amount.checked_add(len)`, index insert)
* `…/fungible/fungible_bucket.rs`, `…/non_fungible/non_fungible_bucket.rs` `put`, `take`
* `radix-engine/src/system/system_callback.rs` `finalize_fees_for_commit` (royalty deposits; locks in
    reverse order, `min(locked, required)`, contingent locks only on success; refund; the two
    `assert!`s; rewards-vault deposit; the XRD burn *event* for `to_burn`) and the failure path
    (`revert_non_force_write_changes`: only the force-written fee-vault balances survive)

Conventions
* `Decimal` = `Int` attos with the explicit 192-bit range check `inRange` wherever the code uses a
  checked operation; a non-fungible amount is the number of ids (the code stores `Decimal::from(n)`;
  the harness divides the stored attos by 10^18 and reports a remainder as an oracle failure).
* ids of resources, vaults and bucket nodes are `Nat`s. A bucket/vault/resource creation names the new
  id; the code allocates a fresh node id, the model has the explicit outcome `…Exists` otherwise.
* `IndexSet`/index-partition contents are lists used as sets (`insertId` does not duplicate, removal is
  `List.erase`); iteration order never matters here because every take names its ids.
* `minted`/`burned`/`events` are ghost fields: no transition reads them.
* not modelled: proofs/locked amounts (C10), freezing, withdraw strategies other than `Exact`,
  authorization (C08); `start_lock_fee` returning `false` (costing disabled) is the harness' business.
-/
namespace Radix.Ledger

/-- the model id of XRD -/
def XRD : Nat := 0

def decLo : Int := -((2 : Int) ^ 191)
def decHi : Int := (2 : Int) ^ 191
/-- value fits a `Decimal` (I192 attos) -/
def inRange (x : Int) : Bool := decide (decLo ≤ x) && decide (x < decHi)
/-- `MAX_MINT_AMOUNT` = 2^152 attos -/
def maxMint : Int := (2 : Int) ^ 152

/-- `check_fungible_amount`: non-negative and a multiple of `10^(18-divisibility)`. -/
def checkAmount (a : Int) (d : Nat) : Bool :=
  decide (0 ≤ a) && decide (a.tmod ((10 : Int) ^ (18 - d)) = 0)

structure ResInfo where
  nf : Bool
  tracks : Bool          -- feature `TrackTotalSupply`
  div : Nat              -- divisibility (fungible)
  mintable : Bool
  burnable : Bool
  recallable : Bool
  deriving DecidableEq, Repr

/-- state of one entry of a non-fungible resource's data store -/
inductive Data where
  | absent | live | tomb
  deriving DecidableEq, Repr

structure Bkt where
  res : Nat
  nf : Bool
  amt : Int              -- `LiquidFungibleResource.amount`
  ids : List Nat         -- `LiquidNonFungibleResource.ids`
  deriving DecidableEq, Repr

/-- `amount()` of the bucket's liquid resource -/
def Bkt.amount (b : Bkt) : Int := if b.nf then (b.ids.length : Int) else b.amt

structure Lock where
  vault : Nat
  amt : Int
  contingent : Bool
  deriving DecidableEq, Repr

inductive Event where
  | mint (r : Nat) (a : Int)
  | burn (r : Nat) (a : Int)
  | mintNf (r : Nat) (ids : List Nat)
  | burnNf (r : Nat) (ids : List Nat)
  | deposit (v : Nat) (a : Int)
  | withdraw (v : Nat) (a : Int)
  | recall (v : Nat) (a : Int)
  | depositNf (v : Nat) (ids : List Nat)
  | withdrawNf (v : Nat) (ids : List Nat)
  | recallNf (v : Nat) (ids : List Nat)
  | lockFee (v : Nat) (a : Int)
  | payFee (v : Nat) (a : Int)
  deriving DecidableEq, Repr

inductive Err where
  | noResource | noVault | noBucket
  | resourceExists | vaultExists | bucketExists
  | wrongKind | wrongResource
  | notMintable | notBurnable | notRecallable
  | invalidAmount | maxMintExceeded | insufficient | missingId | duplicateId
  | nfExists | nfLocked
  | overflow | dropNonEmpty
  | lockFeeNotXrd | lockNotUnmodified | lockInsufficient
  | orphaned
  deriving DecidableEq, Repr

structure St where
  res : Nat → Option ResInfo
  supply : Nat → Int            -- `TotalSupply` field (meaningful when `tracks`)
  vaults : List Nat             -- every vault ever created, creation order
  vres : Nat → Option Nat       -- vault ↦ resource (outer object)
  bal : Nat → Int               -- fungible: `Balance`; non-fungible: `Balance.amount` (count)
  idx : Nat → List Nat          -- non-fungible vault index partition
  data : Nat → Nat → Data       -- non-fungible data store of a resource
  -- transaction-local
  live : List Nat               -- every bucket node created in this transaction
  bkt : Nat → Option Bkt        -- bucket nodes still alive
  locks : List Lock             -- fee reserve `locked_fees`, lock order
  dirty : Nat → Bool            -- vault balance written (non-force) or created in this transaction
  minted : Nat → Int            -- ghost: Σ Mint events of this transaction
  burned : Nat → Int            -- ghost: Σ Burn events of this transaction
  events : List Event           -- ghost: emitted events, oldest first

def upd {β : Type} (f : Nat → β) (k : Nat) (v : β) : Nat → β := fun x => if x = k then v else f x

def empty : St :=
  { res := fun _ => none, supply := fun _ => 0, vaults := [], vres := fun _ => none, bal := fun _ => 0,
    idx := fun _ => [], data := fun _ _ => .absent, live := [], bkt := fun _ => none, locks := [],
    dirty := fun _ => false, minted := fun _ => 0, burned := fun _ => 0, events := [] }

/-! ### id sets -/

def hasDup : List Nat → Bool
  | [] => false
  | a :: t => t.contains a || hasDup t

/-- remove every id of `ids` (each must be present): `take_by_ids` / the `actor_index_remove` loop.
`none` = the first missing id. -/
def takeIds (l : List Nat) : List Nat → Option (List Nat)
  | [] => some l
  | i :: rest => if l.contains i then takeIds (l.erase i) rest else none

/-- `IndexSet::extend` / index inserts -/
def insertIds (l : List Nat) : List Nat → List Nat
  | [] => l
  | i :: rest => if l.contains i then insertIds l rest else insertIds (l ++ [i]) rest

/-! ### operations of the resource package -/

inductive Op where
  | newRes (r : Nat) (info : ResInfo)
  | create (r : Nat) (info : ResInfo) (a : Int) (b : Nat)          -- fungible create_with_initial_supply
  | createNf (r : Nat) (info : ResInfo) (ids : List Nat) (b : Nat)
  | newVault (v r : Nat)
  | mint (r : Nat) (a : Int) (b : Nat)
  | mintNf (r : Nat) (ids : List Nat) (b : Nat)
  | burn (b : Nat)
  | take (v : Nat) (a : Int) (b : Nat)
  | takeNf (v : Nat) (ids : List Nat) (b : Nat)
  | recall (v : Nat) (a : Int) (b : Nat)
  | recallNf (v : Nat) (ids : List Nat) (b : Nat)
  | put (v b : Nat)
  | bput (b1 b2 : Nat)
  | btake (b : Nat) (a : Int) (b' : Nat)
  | btakeNf (b : Nat) (ids : List Nat) (b' : Nat)
  | dropEmpty (b : Nat)
  | emptyBucket (r b : Nat)                                       -- create_empty_bucket
  | lockFee (v : Nat) (a : Int) (contingent : Bool)
  deriving Repr

def emit (s : St) (e : Event) : St := { s with events := s.events ++ [e] }

/-- a new bucket node `b` holding `k` -/
def newBucket (s : St) (b : Nat) (k : Bkt) : Except Err St :=
  if s.live.contains b then .error .bucketExists
  else .ok { s with live := s.live ++ [b], bkt := upd s.bkt b (some k) }

def dropBucket (s : St) (b : Nat) : St := { s with bkt := upd s.bkt b none }

/-- `update total supply` of mint (`+a`) and burn (`-a`): `checked_add`/`checked_sub` on the field. -/
def bumpSupply (s : St) (r : Nat) (info : ResInfo) (d : Int) : Except Err St :=
  if info.tracks then
    if inRange (s.supply r + d) then .ok { s with supply := upd s.supply r (s.supply r + d) }
    else .error .overflow
  else .ok s

/-- the common part of `mint` and `create_with_initial_supply` (fungible) -/
def mintCore (s : St) (r : Nat) (info : ResInfo) (a : Int) (b : Nat) : Except Err St :=
  if !checkAmount a info.div then .error .invalidAmount
  else if a > maxMint then .error .maxMintExceeded
  else match newBucket s b { res := r, nf := false, amt := a, ids := [] } with
    | .error e => .error e
    | .ok s1 =>
      let s2 := emit { s1 with minted := upd s1.minted r (s1.minted r + a) } (.mint r a)
      bumpSupply s2 r info a

/-- `create_non_fungibles`: every id must be new in the data store (a burnt id is tombstoned: its
entry is locked and the write fails). -/
def createIds (d : Nat → Data) : List Nat → Except Err (Nat → Data)
  | [] => .ok d
  | i :: rest =>
    match d i with
    | .live => .error .nfExists
    | .tomb => .error .nfLocked
    | .absent => createIds (upd d i .live) rest

def tombIds (d : Nat → Data) : List Nat → Nat → Data
  | [] => d
  | i :: rest => tombIds (upd d i .tomb) rest

/-- the common part of `mint_non_fungible` and the non-fungible `create_with_initial_supply`:
total supply first, then the data entries, the bucket, the event. -/
def mintNfCore (s : St) (r : Nat) (info : ResInfo) (ids : List Nat) (b : Nat) : Except Err St :=
  if hasDup ids then .error .duplicateId      -- the argument is an IndexMap: decoding rejects duplicates
  else match bumpSupply s r info (ids.length : Int) with
    | .error e => .error e
    | .ok s1 =>
      match createIds (s1.data r) ids with
      | .error e => .error e
      | .ok d =>
        match newBucket { s1 with data := upd s1.data r d } b { res := r, nf := true, amt := 0, ids := ids } with
        | .error e => .error e
        | .ok s2 =>
          .ok (emit { s2 with minted := upd s2.minted r (s2.minted r + (ids.length : Int)) } (.mintNf r ids))

/-- `take_advanced(Exact)` / `recall` after their guards: amount check, `internal_take`, bucket, event -/
def takeCore (s : St) (v : Nat) (a : Int) (b : Nat) (r : Nat) (info : ResInfo) (ev : Event) : Except Err St :=
  if !checkAmount a info.div then .error .invalidAmount
  else if s.bal v < a then .error .insufficient
  else
    match newBucket { s with bal := upd s.bal v (s.bal v - a), dirty := upd s.dirty v true } b
        { res := r, nf := false, amt := a, ids := [] } with
    | .error e => .error e
    | .ok s1 => .ok (emit s1 ev)

/-- `take_non_fungibles` / `recall_non_fungibles` after their guards: `internal_take_non_fungibles` -/
def takeNfCore (s : St) (v : Nat) (ids : List Nat) (b : Nat) (r : Nat) (ev : Event) : Except Err St :=
  if hasDup ids then .error .duplicateId
  else if !inRange (s.bal v - (ids.length : Int)) then .error .overflow
  else match takeIds (s.idx v) ids with
    | none => .error .missingId
    | some l =>
      match newBucket { s with bal := upd s.bal v (s.bal v - (ids.length : Int)), idx := upd s.idx v l,
                               dirty := upd s.dirty v true } b
          { res := r, nf := true, amt := 0, ids := ids } with
      | .error e => .error e
      | .ok s1 => .ok (emit s1 ev)

def step (s : St) : Op → Except Err St
  | .newRes r info =>
    match s.res r with
    | some _ => .error .resourceExists
    | none => .ok { s with res := upd s.res r (some info), supply := upd s.supply r 0 }
  | .create r info a b =>
    match s.res r with
    | some _ => .error .resourceExists
    | none =>
      if info.nf then .error .wrongKind else
      mintCore { s with res := upd s.res r (some info), supply := upd s.supply r 0 } r info a b
  | .createNf r info ids b =>
    match s.res r with
    | some _ => .error .resourceExists
    | none =>
      if !info.nf then .error .wrongKind else
      mintNfCore { s with res := upd s.res r (some info), supply := upd s.supply r 0 } r info ids b
  | .newVault v r =>
    match s.res r with
    | none => .error .noResource
    | some _ =>
      if s.vaults.contains v then .error .vaultExists
      else .ok { s with vaults := s.vaults ++ [v], vres := upd s.vres v (some r), bal := upd s.bal v 0,
                        idx := upd s.idx v [], dirty := upd s.dirty v true }
  | .mint r a b =>
    match s.res r with
    | none => .error .noResource
    | some info =>
      if info.nf then .error .wrongKind
      else if !info.mintable then .error .notMintable
      else mintCore s r info a b
  | .mintNf r ids b =>
    match s.res r with
    | none => .error .noResource
    | some info =>
      if !info.nf then .error .wrongKind
      else if !info.mintable then .error .notMintable
      else mintNfCore s r info ids b
  | .burn b =>
    match s.bkt b with
    | none => .error .noBucket
    | some k =>
      match s.res k.res with
      | none => .error .noResource
      | some info =>
        if !info.burnable then .error .notBurnable else
        let s1 := dropBucket s b
        let s2 := { s1 with burned := upd s1.burned k.res (s1.burned k.res + k.amount) }
        if k.nf then
          match bumpSupply s2 k.res info (-k.amount) with
          | .error e => .error e
          | .ok s3 =>
            .ok { emit s3 (.burnNf k.res k.ids) with data := upd s3.data k.res (tombIds (s3.data k.res) k.ids) }
        else bumpSupply (emit s2 (.burn k.res k.amt)) k.res info (-k.amount)
  | .take v a b =>
    match s.vres v with
    | none => .error .noVault
    | some r =>
      match s.res r with
      | none => .error .noResource
      | some info =>
        if info.nf then .error .wrongKind
        else takeCore s v a b r info (.withdraw v a)
  | .recall v a b =>
    match s.vres v with
    | none => .error .noVault
    | some r =>
      match s.res r with
      | none => .error .noResource
      | some info =>
        if info.nf then .error .wrongKind
        else if !info.recallable then .error .notRecallable
        else takeCore s v a b r info (.recall v a)
  | .takeNf v ids b =>
    match s.vres v with
    | none => .error .noVault
    | some r =>
      match s.res r with
      | none => .error .noResource
      | some info =>
        if !info.nf then .error .wrongKind
        else takeNfCore s v ids b r (.withdrawNf v ids)
  | .recallNf v ids b =>
    match s.vres v with
    | none => .error .noVault
    | some r =>
      match s.res r with
      | none => .error .noResource
      | some info =>
        if !info.nf then .error .wrongKind
        else if !info.recallable then .error .notRecallable
        else takeNfCore s v ids b r (.recallNf v ids)
  | .put v b =>
    match s.vres v with
    | none => .error .noVault
    | some r =>
      match s.bkt b with
      | none => .error .noBucket
      | some k =>
        if k.res ≠ r then .error .wrongResource else
        let s1 := dropBucket s b
        if k.nf then
          -- `internal_put`: nothing is written for an empty resource
          let s2 := if k.ids.isEmpty then s1 else
            { s1 with bal := upd s1.bal v (s1.bal v + (k.ids.length : Int)), idx := upd s1.idx v (insertIds (s1.idx v) k.ids),
                      dirty := upd s1.dirty v true }
          if !inRange (s.bal v + (k.ids.length : Int)) then .error .overflow
          else .ok (emit s2 (.depositNf v k.ids))
        else
          let s2 := if k.amt = 0 then s1 else
            { s1 with bal := upd s1.bal v (s1.bal v + k.amt), dirty := upd s1.dirty v true }
          if !inRange (s.bal v + k.amt) then .error .overflow
          else .ok (emit s2 (.deposit v k.amt))
  | .bput b1 b2 =>
    if b1 = b2 then .error .noBucket else
    match s.bkt b1, s.bkt b2 with
    | some k1, some k2 =>
      if k1.res ≠ k2.res then .error .wrongResource
      -- buckets of one resource are of one kind (the bucket blueprint is fixed by the resource manager)
      else if k1.nf ≠ k2.nf then .error .wrongKind
      else if !inRange (k1.amt + k2.amt) then .error .overflow
      -- `IndexSet::extend` would silently drop an id held by both buckets; ids are unique (C43), the
      -- model makes the impossible case an explicit outcome instead of losing an id
      else if k1.nf && (insertIds k1.ids k2.ids).length ≠ k1.ids.length + k2.ids.length then .error .duplicateId
      else if k1.nf then
        .ok { dropBucket s b2 with bkt := upd (dropBucket s b2).bkt b1 (some { k1 with ids := insertIds k1.ids k2.ids }) }
      else
        .ok { dropBucket s b2 with bkt := upd (dropBucket s b2).bkt b1 (some { k1 with amt := k1.amt + k2.amt }) }
    | _, _ => .error .noBucket
  | .btake b a b' =>
    match s.bkt b with
    | none => .error .noBucket
    | some k =>
      match s.res k.res with
      | none => .error .noResource
      | some info =>
        if k.nf then .error .wrongKind
        else if !checkAmount a info.div then .error .invalidAmount
        else if k.amt < a then .error .insufficient
        else newBucket { s with bkt := upd s.bkt b (some { k with amt := k.amt - a }) } b'
              { res := k.res, nf := false, amt := a, ids := [] }
  | .btakeNf b ids b' =>
    match s.bkt b with
    | none => .error .noBucket
    | some k =>
      if !k.nf then .error .wrongKind
      else if hasDup ids then .error .duplicateId
      else match takeIds k.ids ids with
        | none => .error .missingId
        | some l => newBucket { s with bkt := upd s.bkt b (some { k with ids := l }) } b'
              { res := k.res, nf := true, amt := 0, ids := ids }
  | .dropEmpty b =>
    match s.bkt b with
    | none => .error .noBucket
    | some k => if k.amount = 0 then .ok (dropBucket s b) else .error .dropNonEmpty
  | .emptyBucket r b =>
    match s.res r with
    | none => .error .noResource
    | some info => newBucket s b { res := r, nf := info.nf, amt := 0, ids := [] }
  | .lockFee v a c =>
    match s.vres v with
    | none => .error .noVault
    | some r =>
      if r ≠ XRD then .error .lockFeeNotXrd
      else if !checkAmount a 18 then .error .invalidAmount
      else if s.dirty v then .error .lockNotUnmodified
      else if s.bal v < a then .error .lockInsufficient
      else .ok (emit { s with bal := upd s.bal v (s.bal v - a), locks := s.locks ++ [{ vault := v, amt := a, contingent := c }] }
                  (.lockFee v a))

/-- run the instructions; stops at the first failing operation and returns the state reached
before it together with the error. -/
def runOps (s : St) : List Op → St × Option Err
  | [] => (s, none)
  | op :: rest =>
    match step s op with
    | .error e => (s, some e)
    | .ok s' => runOps s' rest

/-- no bucket node is left (`OrphanedNodes` / `DropNonEmptyBucket` otherwise) -/
def noBuckets (s : St) : Bool := s.live.all (fun b => (s.bkt b).isNone)

/-! ### commit: fee finalisation -/

/-- the part of the receipt's fee summary that `finalize_fees_for_commit` works from -/
structure Fin where
  required : Int                     -- `total_cost()`
  royalties : List (Nat × Int)       -- royalty vault ↦ amount
  rewardsVault : Nat
  toProposer : Int
  toValidators : Int
  toBurn : Int
  deriving Repr

inductive Panic where
  | noVault          -- `read_substate(..).unwrap()`
  | overflow         -- `put` → `expect("Overflow")`, `checked_*().unwrap()`
  | notCovered       -- assert!(required == 0)
  | imbalance        -- assert!(remaining_collected_fees == to_distribute)
  | takeFailed       -- `collected_fees.take_by_amount(total_amount).unwrap()`
  deriving DecidableEq, Repr

/-- `vault_balance.put(amount)` on the track + Deposit event -/
def creditVault (s : St) (v : Nat) (a : Int) : Except Panic St :=
  match s.vres v with
  | none => .error .noVault
  | some _ => if inRange (s.bal v + a) then .ok { s with bal := upd s.bal v (s.bal v + a) } else .error .overflow

def payRoyalties (s : St) : List (Nat × Int) → Except Panic St
  | [] => .ok s
  | (v, a) :: rest =>
    match creditVault s v a with
    | .error p => .error p
    | .ok s1 => payRoyalties (emit s1 (.deposit v a)) rest

/-- what a lock pays: contingent locks only on success, otherwise `min(locked, required)` -/
def payAmount (success : Bool) (l : Lock) (required : Int) : Int :=
  if l.contingent && !success then 0 else min l.amt required

/-- the loop over `locked_fees.iter().rev()`; argument = the locks already reversed. Returns the
state, what is still required and what was collected. -/
def payLocks (success : Bool) (s : St) (required collected : Int) : List Lock → Except Panic (St × Int × Int)
  | [] => .ok (s, required, collected)
  | l :: rest =>
    -- `locked.take_by_amount(amount).unwrap()`
    if l.amt < payAmount success l required then .error .takeFailed else
    match creditVault s l.vault (l.amt - payAmount success l required) with
    | .error p => .error p
    | .ok s1 => payLocks success (emit s1 (.payFee l.vault (payAmount success l required)))
                  (required - payAmount success l required) (collected + payAmount success l required) rest

def sumRoy : List (Nat × Int) → Int
  | [] => 0
  | (_, a) :: rest => a + sumRoy rest

/-- proposer + validator-set share into the rewards vault (`collected_fees.take_by_amount(..).unwrap()`) -/
def payRewards (s : St) (f : Fin) (collected : Int) : Except Panic St :=
  if f.toProposer ≠ 0 ∨ f.toValidators ≠ 0 then
    if collected < f.toProposer + f.toValidators then .error .takeFailed else
    match creditVault s f.rewardsVault (f.toProposer + f.toValidators) with
    | .error p => .error p
    | .ok s' => .ok (emit s' (.deposit f.rewardsVault (f.toProposer + f.toValidators)))
  else .ok s

/-- the rest of the collected fees is dropped; a Burn event for XRD is emitted when positive -/
def burnFee (s : St) (f : Fin) : St :=
  if f.toBurn > 0
  then emit { s with burned := upd s.burned XRD (s.burned XRD + f.toBurn) } (.burn XRD f.toBurn)
  else s

def finalize (s : St) (f : Fin) (success : Bool) : Except Panic St :=
  match payRoyalties s f.royalties with
  | .error p => .error p
  | .ok s1 =>
    match payLocks success s1 f.required 0 s1.locks.reverse with
    | .error p => .error p
    | .ok (s2, required, collected) =>
      if required ≠ 0 then .error .notCovered
      else if collected - sumRoy f.royalties ≠ f.toProposer + f.toValidators + f.toBurn then .error .imbalance
      else
        match payRewards s2 f collected with
        | .error p => .error p
        | .ok s4 => .ok { burnFee s4 f with locks := [] }

/-- start of a transaction: nothing in flight, ghost counters cleared -/
def beginTx (s : St) : St :=
  { s with live := [], bkt := fun _ => none, locks := [], dirty := fun _ => false,
           minted := fun _ => 0, burned := fun _ => 0, events := [] }

/-- `revert_non_force_write_changes`: everything goes back to the state at the start of the
transaction except the force-written fee-vault balances (base balance − what the vault locked);
the application events are dropped except the `LockFeeEvent`s. -/
def lockedOn (ls : List Lock) (v : Nat) : Int :=
  match ls with
  | [] => 0
  | l :: rest => (if l.vault = v then l.amt else 0) + lockedOn rest v

def revert (s0 s1 : St) : St :=
  { s0 with bal := fun v => s0.bal v - lockedOn s1.locks v, locks := s1.locks,
            events := s1.locks.map (fun l => Event.lockFee l.vault l.amt) }

structure Tx where
  ops : List Op
  fin : Fin
  deriving Repr

/-- one committed transaction (success or failure). `Panic` = the engine would panic. -/
def commitTx (s : St) (t : Tx) : Except Panic (St × Bool) :=
  let s0 := beginTx s
  let (s1, e) := runOps s0 t.ops
  let success := e.isNone && noBuckets s1
  if success then
    match finalize s1 t.fin true with
    | .error p => .error p
    | .ok s2 => .ok (s2, true)
  else
    match finalize (revert s0 s1) t.fin false with
    | .error p => .error p
    | .ok s2 => .ok (s2, false)

/-- a history of committed transactions -/
def runHistory (s : St) : List Tx → Except Panic St
  | [] => .ok s
  | t :: rest =>
    match commitTx s t with
    | .error p => .error p
    | .ok (s', _) => runHistory s' rest

/-! ### event replay (what `ResourceEventChecker` computes) -/

structure Replay where
  supply : Nat → Int     -- per resource: Σ mint − Σ burn
  bal : Nat → Int        -- per vault: Σ deposit − Σ withdraw/recall/pay-fee

def applyEvent (p : Replay) : Event → Replay
  | .mint r a => { p with supply := upd p.supply r (p.supply r + a) }
  | .burn r a => { p with supply := upd p.supply r (p.supply r - a) }
  | .mintNf r ids => { p with supply := upd p.supply r (p.supply r + (ids.length : Int)) }
  | .burnNf r ids => { p with supply := upd p.supply r (p.supply r - (ids.length : Int)) }
  | .deposit v a => { p with bal := upd p.bal v (p.bal v + a) }
  | .withdraw v a => { p with bal := upd p.bal v (p.bal v - a) }
  | .recall v a => { p with bal := upd p.bal v (p.bal v - a) }
  | .depositNf v ids => { p with bal := upd p.bal v (p.bal v + (ids.length : Int)) }
  | .withdrawNf v ids => { p with bal := upd p.bal v (p.bal v - (ids.length : Int)) }
  | .recallNf v ids => { p with bal := upd p.bal v (p.bal v - (ids.length : Int)) }
  | .lockFee _ _ => p
  | .payFee v a => { p with bal := upd p.bal v (p.bal v - a) }

def replay (p : Replay) (es : List Event) : Replay := es.foldl applyEvent p

/-! ### sums -/

def sumOn (l : List Nat) (g : Nat → Int) : Int :=
  match l with
  | [] => 0
  | x :: t => g x + sumOn t g

/-- contribution of vault `v` to resource `r` -/
def vaultOf (s : St) (r : Nat) (v : Nat) : Int := if s.vres v = some r then s.bal v else 0

/-- Σ of the balances of all vaults of `r` -/
def vsum (s : St) (r : Nat) : Int := sumOn s.vaults (vaultOf s r)

def bktOf (s : St) (r : Nat) (b : Nat) : Int :=
  match s.bkt b with
  | some k => if k.res = r then k.amount else 0
  | none => 0

/-- Σ of the amounts of all live buckets of `r` -/
def bsum (s : St) (r : Nat) : Int := sumOn s.live (bktOf s r)

def sumLocks : List Lock → Int
  | [] => 0
  | l :: rest => l.amt + sumLocks rest

/-- XRD held by the fee reserve -/
def fsum (s : St) (r : Nat) : Int := if r = XRD then sumLocks s.locks else 0

end Radix.Ledger
