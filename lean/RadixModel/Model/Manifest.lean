/-
Manifest lexer (`radix-transactions/src/manifest/lexer.rs`, `token.rs`) and the index arithmetic of
`create_snippet` (`diagnostic_snippets.rs`) — executable model, core Lean only.

Representation.  The Rust lexer holds `text: Vec<char>` and a cursor `current: Position`; the model
holds the not-yet-consumed suffix `rest` together with the same `Position` (`Pos`), so
`is_eof` ⇔ `rest = []`, `peek` = head of `rest`, `advance` = drop the head and `Position::advance`.
(`text[current.full_index]` can therefore not be out of range in the model; that the stored
`full_index` really is the number of consumed chars is theorem `Inv` in Lemmas/Manifest.)
Strings are `List Char` (Rust `String`/`char` and Lean `Char` are both Unicode scalar values).
Every `?`-propagated error, with its span, is an explicit `Except` outcome.  A loop that would make
no progress is the explicit outcome `hang` (proved unreachable).
-/
namespace Radix.Manifest

/-! ## token.rs -/

structure Pos where
  full : Nat
  line : Nat
  col : Nat
deriving DecidableEq, Repr, Inhabited

def Pos.zero : Pos := ⟨0, 0, 0⟩

/-- `Position::advance` -/
def Pos.advance (p : Pos) (c : Char) : Pos :=
  if c = '\n' then ⟨p.full + 1, p.line + 1, 0⟩ else ⟨p.full + 1, p.line, p.col + 1⟩

/-- `Position::line_number` -/
def Pos.lineNumber (p : Pos) : Nat := p.line + 1

structure Span where
  start : Pos
  stop : Pos
deriving DecidableEq, Repr, Inhabited

inductive IntTy | i8 | i16 | i32 | i64 | i128 | u8 | u16 | u32 | u64 | u128
deriving DecidableEq, Repr, Inhabited

def IntTy.signed : IntTy → Bool
  | .i8 | .i16 | .i32 | .i64 | .i128 => true
  | _ => false

def IntTy.bits : IntTy → Nat
  | .i8 | .u8 => 8
  | .i16 | .u16 => 16
  | .i32 | .u32 => 32
  | .i64 | .u64 => 64
  | .i128 | .u128 => 128

def IntTy.min (t : IntTy) : Int := if t.signed then -((2 : Int) ^ (t.bits - 1)) else 0
def IntTy.max (t : IntTy) : Int := if t.signed then (2 : Int) ^ (t.bits - 1) - 1 else (2 : Int) ^ t.bits - 1

def IntTy.name : IntTy → List Char
  | .i8 => "i8".toList | .i16 => "i16".toList | .i32 => "i32".toList | .i64 => "i64".toList | .i128 => "i128".toList
  | .u8 => "u8".toList | .u16 => "u16".toList | .u32 => "u32".toList | .u64 => "u64".toList | .u128 => "u128".toList

inductive Token
  | bool (b : Bool)
  | int (ty : IntTy) (v : Int)
  | str (s : List Char)
  | ident (s : List Char)
  | openParen | closeParen | lt | gt | comma | semi | fatArrow
deriving DecidableEq, Repr, Inhabited

structure TokSpan where
  tok : Token
  span : Span
deriving DecidableEq, Repr, Inhabited

/-! ## lexer.rs -/

inductive Expected
  | exact (c : Char)
  | oneOf (cs : List Char)
  | hexDigit
  | dlqp
deriving DecidableEq, Repr

/-- `core::num::IntErrorKind` as it can arise for `-?(0|[1-9][0-9]*)` -/
inductive IntErr | posOverflow | negOverflow | invalidDigit
deriving DecidableEq, Repr

inductive LexErrKind
  | eof
  | unexpectedChar (c : Char) (e : Expected)
  | invalidIntegerLiteral (s : List Char)
  | invalidIntegerType (s : List Char)
  | invalidInteger (lit : List Char) (ty : IntTy) (e : IntErr)
  | invalidUnicode (v : Nat)
  | missingSurrogate (v : Nat)
  /-- a loop iteration that consumed nothing (the real lexer would spin); proved unreachable -/
  | hang
deriving DecidableEq, Repr

structure LexErr where
  kind : LexErrKind
  span : Span
deriving DecidableEq, Repr

/-- lexer state: unconsumed text and `current` -/
structure St where
  rest : List Char
  pos : Pos
deriving DecidableEq, Repr

def eofErr (p : Pos) : LexErr := ⟨.eof, ⟨p, p⟩⟩

/-- `LexerError::unexpected_char(position, c, expected)` -/
def unexpectedChar (p : Pos) (c : Char) (e : Expected) : LexErr :=
  ⟨.unexpectedChar c e, ⟨p, p.advance c⟩⟩

/-- `Lexer::peek` -/
def peek (s : St) : Except LexErr Char :=
  match s.rest with
  | [] => .error (eofErr s.pos)
  | c :: _ => .ok c

/-- `Lexer::advance` -/
def advance (s : St) : Except LexErr (Char × St) :=
  match s.rest with
  | [] => .error (eofErr s.pos)
  | c :: r => .ok (c, ⟨r, s.pos.advance c⟩)

/-- `Lexer::advance_matching` -/
def advanceMatching (m : Char → Bool) (e : Expected) (s : St) : Except LexErr (Char × St) :=
  match advance s with
  | .error err => .error err
  | .ok (c, s') => if m c then .ok (c, s') else .error (unexpectedChar s.pos c e)

def isWhitespace (c : Char) : Bool := c = ' ' ∨ c = '\t' ∨ c = '\r' ∨ c = '\n'

def isAsciiDigit (c : Char) : Bool := '0' ≤ c ∧ c ≤ '9'
def isAsciiAlpha (c : Char) : Bool := ('a' ≤ c ∧ c ≤ 'z') ∨ ('A' ≤ c ∧ c ≤ 'Z')
def isAsciiHexDigit (c : Char) : Bool := isAsciiDigit c ∨ ('a' ≤ c ∧ c ≤ 'f') ∨ ('A' ≤ c ∧ c ≤ 'F')
def isIdentChar (c : Char) : Bool := isAsciiAlpha c ∨ isAsciiDigit c ∨ c = '_' ∨ c = ':'

/-- `char::to_digit(16)` on a hex digit -/
def hexVal (c : Char) : Nat :=
  if isAsciiDigit c then c.toNat - '0'.toNat
  else if 'a' ≤ c ∧ c ≤ 'f' then c.toNat - 'a'.toNat + 10
  else c.toNat - 'A'.toNat + 10

/-- the comment/whitespace skipping loop of `next_token` (`inComment` = the flag of the loop).
Seeing `#` outside a comment sets the flag without consuming; the next iteration consumes the `#`
(which is not a newline) — both iterations are folded into one step here. -/
def skipWs : List Char → Pos → Bool → St
  | [], p, _ => ⟨[], p⟩
  | c :: r, p, true => skipWs r (p.advance c) (c != '\n')
  | c :: r, p, false =>
    if c = '#' then skipWs r (p.advance c) true
    else if isWhitespace c then skipWs r (p.advance c) false
    else ⟨c :: r, p⟩

/-- `while self.peek()?.is_ascii_digit() { s.push(self.advance()?) }` — returns the digits consumed -/
def digitsLoop : List Char → Pos → Except LexErr (List Char × St)
  | [], p => .error (eofErr p)
  | c :: r, p =>
    if isAsciiDigit c then
      match digitsLoop r (p.advance c) with
      | .error e => .error e
      | .ok (ds, s) => .ok (c :: ds, s)
    else .ok ([], ⟨c :: r, p⟩)

def mkTy (signed : Bool) (bits : Nat) : IntTy :=
  match signed, bits with
  | true, 8 => .i8 | true, 16 => .i16 | true, 32 => .i32 | true, 64 => .i64 | true, _ => .i128
  | false, 8 => .u8 | false, 16 => .u16 | false, 32 => .u32 | false, 64 => .u64 | false, _ => .u128

/-- the nested `match self.advance_and_append(&mut t)?` deciding the integer type; `s0.pos` is
`ty_start`.  Error `InvalidIntegerType(t)` carries every char consumed so far. -/
def lexIntType (s0 : St) : Except LexErr (IntTy × St) :=
  let bad (t : List Char) (s : St) : Except LexErr (IntTy × St) :=
    .error ⟨.invalidIntegerType t, ⟨s0.pos, s.pos⟩⟩
  match advance s0 with
  | .error e => .error e
  | .ok (c1, s1) =>
    if c1 = 'i' ∨ c1 = 'u' then
      let sg : Bool := c1 = 'i'
      match advance s1 with
      | .error e => .error e
      | .ok (c2, s2) =>
        if c2 = '1' then
          match advance s2 with
          | .error e => .error e
          | .ok (c3, s3) =>
            if c3 = '2' then
              match advance s3 with
              | .error e => .error e
              | .ok (c4, s4) => if c4 = '8' then .ok (mkTy sg 128, s4) else bad [c1, c2, c3, c4] s4
            else if c3 = '6' then .ok (mkTy sg 16, s3)
            else bad [c1, c2, c3] s3
        else if c2 = '3' then
          match advance s2 with
          | .error e => .error e
          | .ok (c3, s3) => if c3 = '2' then .ok (mkTy sg 32, s3) else bad [c1, c2, c3] s3
        else if c2 = '6' then
          match advance s2 with
          | .error e => .error e
          | .ok (c3, s3) => if c3 = '4' then .ok (mkTy sg 64, s3) else bad [c1, c2, c3] s3
        else if c2 = '8' then .ok (mkTy sg 8, s2)
        else bad [c1, c2] s2
    else bad [c1] s1

/-- decimal value of a digit string -/
def digitsVal (ds : List Char) : Nat := ds.foldl (fun acc c => acc * 10 + (c.toNat - '0'.toNat)) 0

/-- `int.parse::<T>()` for `int = -?digits` (`neg` = leading `-`).  Unsigned types reject the sign
(`InvalidDigit`), signed ones report the direction of the overflow. -/
def parseInt (neg : Bool) (ds : List Char) (ty : IntTy) : Except IntErr Int :=
  if ty.signed then
    let v : Int := if neg then -(digitsVal ds : Int) else (digitsVal ds : Int)
    if v < ty.min then .error .negOverflow
    else if v > ty.max then .error .posOverflow
    else .ok v
  else if neg then .error .invalidDigit
  else if (digitsVal ds : Int) > ty.max then .error .posOverflow
  else .ok (digitsVal ds : Int)

/-- `Lexer::tokenize_number` -/
def lexNumber (s0 : St) : Except LexErr (TokSpan × St) :=
  -- negative sign
  match peek s0 with
  | .error e => .error e
  | .ok c0 =>
    let neg : Bool := c0 = '-'
    match (if neg then (advance s0).map (·.2) else .ok s0) with
    | .error e => .error e
    | .ok s1 =>
      let sign : List Char := if neg then ['-'] else []
      -- integer
      match advance s1 with
      | .error e => .error e
      | .ok (d, s2) =>
        let digits : Except LexErr (List Char × St) :=
          if d = '0' then .ok ([d], s2)
          else if '1' ≤ d ∧ d ≤ '9' then
            match digitsLoop s2.rest s2.pos with
            | .error e => .error e
            | .ok (ds, s3) => .ok (d :: ds, s3)
          else .error ⟨.invalidIntegerLiteral (sign ++ [d]), ⟨s0.pos, s2.pos⟩⟩
        match digits with
        | .error e => .error e
        | .ok (ds, s3) =>
          -- type
          match lexIntType s3 with
          | .error e => .error e
          | .ok (ty, s4) =>
            match parseInt neg ds ty with
            | .error ie => .error ⟨.invalidInteger (sign ++ ds) ty ie, ⟨s0.pos, s4.pos⟩⟩
            | .ok v => .ok (⟨.int ty v, ⟨s0.pos, s4.pos⟩⟩, s4)

/-- `Lexer::read_utf16_unit`: four `advance_matching(is_ascii_hexdigit)` -/
def readUnit (s0 : St) : Except LexErr (Nat × St) :=
  match advanceMatching isAsciiHexDigit .hexDigit s0 with
  | .error e => .error e
  | .ok (a, s1) =>
    match advanceMatching isAsciiHexDigit .hexDigit s1 with
    | .error e => .error e
    | .ok (b, s2) =>
      match advanceMatching isAsciiHexDigit .hexDigit s2 with
      | .error e => .error e
      | .ok (c, s3) =>
        match advanceMatching isAsciiHexDigit .hexDigit s3 with
        | .error e => .error e
        | .ok (d, s4) => .ok (((hexVal a * 16 + hexVal b) * 16 + hexVal c) * 16 + hexVal d, s4)

/-- `char::from_u32` -/
def charFromU32 (n : Nat) : Option Char :=
  if h : n.isValidChar then some (Char.ofNatAux n h) else none

def escapeExpected : List Char := ['"', '\\', '/', 'b', 'f', 'n', 'r', 't', 'u']

/-- one escape sequence after the backslash has been consumed; `s.pos` = `token_start` -/
def lexEscape (s : St) : Except LexErr (Char × St) :=
  match advance s with
  | .error e => .error e
  | .ok (e, s1) =>
    if e = '"' then .ok ('"', s1)
    else if e = '\\' then .ok ('\\', s1)
    else if e = '/' then .ok ('/', s1)
    else if e = 'b' then .ok (Char.ofNat 8, s1)
    else if e = 'f' then .ok (Char.ofNat 12, s1)
    else if e = 'n' then .ok ('\n', s1)
    else if e = 'r' then .ok ('\r', s1)
    else if e = 't' then .ok ('\t', s1)
    else if e = 'u' then
      match readUnit s1 with
      | .error err => .error err
      | .ok (unit, s2) =>
        let fin (code : Nat) (sEnd : St) : Except LexErr (Char × St) :=
          match charFromU32 code with
          | some ch => .ok (ch, sEnd)
          | none => .error ⟨.invalidUnicode code, ⟨s.pos, sEnd.pos⟩⟩
        if 0xD800 ≤ unit ∧ unit ≤ 0xDFFF then
          -- `if self.advance()? == '\\' && self.advance()? == 'u'`
          let missing : Except LexErr (Char × St) := .error ⟨.missingSurrogate unit, ⟨s.pos, s2.pos⟩⟩
          match advance s2 with
          | .error err => .error err
          | .ok (b, s3) =>
            if b = '\\' then
              match advance s3 with
              | .error err => .error err
              | .ok (u, s4) =>
                if u = 'u' then
                  match readUnit s4 with
                  | .error err => .error err
                  | .ok (unit2, s5) => fin (0x10000 + (unit - 0xD800) * 1024 + unit2 - 0xDC00) s5
                else missing
            else missing
        else fin unit s2
    else .error (unexpectedChar s.pos e (.oneOf escapeExpected))

/-- the `while self.peek()? != '"'` loop of `tokenize_string`: returns the decoded contents and the
state at the closing quote -/
def strLoop : List Char → Pos → Except LexErr (List Char × St)
  | [], p => .error (eofErr p)
  | c :: r, p =>
    if c = '"' then .ok ([], ⟨c :: r, p⟩)
    else
      let s1 : St := ⟨r, p.advance c⟩
      if c = '\\' then
        match lexEscape s1 with
        | .error e => .error e
        | .ok (ch, s2) =>
          if s2.rest.length < (c :: r).length then
            match strLoop s2.rest s2.pos with
            | .error e => .error e
            | .ok (cs, s3) => .ok (ch :: cs, s3)
          else .error ⟨.hang, ⟨p, p⟩⟩
      else
        match strLoop r (p.advance c) with
        | .error e => .error e
        | .ok (cs, s3) => .ok (c :: cs, s3)
termination_by rest => rest.length

/-- `Lexer::tokenize_string` (the state is at the opening quote) -/
def lexString (s0 : St) : Except LexErr (TokSpan × St) :=
  match advance s0 with
  | .error e => .error e
  | .ok (_, s1) =>
    match strLoop s1.rest s1.pos with
    | .error e => .error e
    | .ok (cs, s2) =>
      match advance s2 with
      | .error e => .error e
      | .ok (_, s3) => .ok (⟨.str cs, ⟨s0.pos, s3.pos⟩⟩, s3)

/-- the `while !self.is_eof()` loop of `tokenize_identifier` -/
def identLoop : List Char → Pos → List Char × St
  | [], p => ([], ⟨[], p⟩)
  | c :: r, p =>
    if isIdentChar c then
      let (cs, s) := identLoop r (p.advance c)
      (c :: cs, s)
    else ([], ⟨c :: r, p⟩)

/-- `Lexer::tokenize_identifier` -/
def lexIdent (s0 : St) : Except LexErr (TokSpan × St) :=
  match advance s0 with
  | .error e => .error e
  | .ok (c, s1) =>
    let (cs, s2) := identLoop s1.rest s1.pos
    let id := c :: cs
    let tok : Token :=
      if id = "true".toList then .bool true
      else if id = "false".toList then .bool false
      else .ident id
    .ok (⟨tok, ⟨s0.pos, s2.pos⟩⟩, s2)

def punctExpected : List Char := ['(', ')', '<', '>', ',', ';', '=']

/-- `Lexer::tokenize_punctuation` -/
def lexPunct (s0 : St) : Except LexErr (TokSpan × St) :=
  match advance s0 with
  | .error e => .error e
  | .ok (c, s1) =>
    let mk (t : Token) (s : St) : Except LexErr (TokSpan × St) := .ok (⟨t, ⟨s0.pos, s.pos⟩⟩, s)
    if c = '(' then mk .openParen s1
    else if c = ')' then mk .closeParen s1
    else if c = '<' then mk .lt s1
    else if c = '>' then mk .gt s1
    else if c = ',' then mk .comma s1
    else if c = ';' then mk .semi s1
    else if c = '=' then
      match advanceMatching (· = '>') (.exact '>') s1 with
      | .error e => .error e
      | .ok (_, s2) => mk .fatArrow s2
    else .error (unexpectedChar s0.pos c (.oneOf punctExpected))

def isPunctStart (c : Char) : Bool :=
  c = '{' ∨ c = '}' ∨ c = '(' ∨ c = ')' ∨ c = '<' ∨ c = '>' ∨ c = ',' ∨ c = ';' ∨ c = '&' ∨ c = '='

/-- `Lexer::next_token` -/
def nextToken (s : St) : Except LexErr (Option (TokSpan × St)) :=
  let s1 := skipWs s.rest s.pos false
  match s1.rest with
  | [] => .ok none
  | c :: _ =>
    let r : Except LexErr (TokSpan × St) :=
      if c = '-' ∨ isAsciiDigit c then lexNumber s1
      else if c = '"' then lexString s1
      else if isAsciiAlpha c then lexIdent s1
      else if isPunctStart c then lexPunct s1
      else .error (unexpectedChar s1.pos c .dlqp)
    match r with
    | .error e => .error e
    | .ok x => .ok (some x)

/-- the loop of `tokenize` -/
def tokenizeFrom (s : St) : Except LexErr (List TokSpan) :=
  match nextToken s with
  | .error e => .error e
  | .ok none => .ok []
  | .ok (some (t, s')) =>
    if s'.rest.length < s.rest.length then
      match tokenizeFrom s' with
      | .error e => .error e
      | .ok ts => .ok (t :: ts)
    else .error ⟨.hang, ⟨s.pos, s.pos⟩⟩
termination_by s.rest.length

/-- `lexer::tokenize` -/
def tokenize (text : List Char) : Except LexErr (List TokSpan) := tokenizeFrom ⟨text, Pos.zero⟩

/-! ## diagnostic_snippets.rs — index arithmetic of `create_snippet` -/

/-- `str::split_inclusive('\n')`: pieces end with `\n` except possibly the last; no empty piece -/
def splitInclusive : List Char → List (List Char)
  | [] => []
  | c :: r =>
    if c = '\n' then [c] :: splitInclusive r
    else
      match splitInclusive r with
      | [] => [[c]]
      | l :: ls => (c :: l) :: ls   -- `c` joins the piece that starts at `r`

/-- strip one trailing `\n`, and then one trailing `\r` (only if a `\n` was stripped): what
`str::lines()` does to each `split_inclusive('\n')` piece -/
def stripEnding (l : List Char) : List Char :=
  match l.reverse with
  | '\n' :: '\r' :: r => r.reverse
  | '\n' :: r => r.reverse
  | _ => l

/-- `str::lines()` -/
def lines (cs : List Char) : List (List Char) := (splitInclusive cs).map stripEnding

/-- UTF-8 length of the text (`s.len()`) -/
def utf8Len (cs : List Char) : Nat := cs.foldl (fun n c => n + c.utf8Size) 0

/-- what `create_snippet` hands to the renderer -/
inductive SnipOut
  /-- `annotation_*_index -= skipped_chars` underflows (panic with overflow checks) -/
  | underflow
  | ok (lineStart : Nat) (source : List Char) (range : Nat × Nat)
deriving DecidableEq, Repr

/-- the `for (i, line) in … .enumerate()` loop: `i1` = `i + 1`; returns `(skipped_chars, source)`.
`skip l` is the amount added for a skipped line, `emit l` what is appended for a shown one. -/
def snipLoop (skip : List Char → Nat) (emit : List Char → List Char) (lineStart lineEnd : Nat) :
    List (List Char) → Nat → Nat × List Char
  | [], _ => (0, [])
  | l :: ls, i1 =>
    if i1 < lineStart then
      let (k, src) := snipLoop skip emit lineStart lineEnd ls (i1 + 1)
      (skip l + k, src)
    else if i1 ≤ lineEnd then
      let (k, src) := snipLoop skip emit lineStart lineEnd ls (i1 + 1)
      (k, emit l ++ src)
    else (0, [])

def lineStartOf (sp : Span) : Nat := if sp.start.lineNumber > 5 then sp.start.lineNumber - 5 else 1

def finishSnippet (lineStart skipped : Nat) (source : List Char) (a0 b0 : Nat) : SnipOut :=
  let b1 := if a0 = b0 then b0 + 1 else b0
  if a0 < skipped ∨ b1 < skipped then .underflow
  else .ok lineStart source (a0 - skipped, b1 - skipped)

/-- `create_snippet` as in the unrepaired tree: lines from `str::lines()`, one char counted per
line ending, clamping with the *byte* length -/
def createSnippetOld (cs : List Char) (sp : Span) : SnipOut :=
  let ls := lines cs
  let lineStart := lineStartOf sp
  let lineEnd := Nat.min (sp.stop.lineNumber + 5) ls.length
  let (skipped, source) := snipLoop (fun l => l.length + 1) (fun l => l ++ ['\n']) lineStart lineEnd ls 1
  finishSnippet lineStart skipped source (Nat.min sp.start.full (utf8Len cs)) (Nat.min sp.stop.full (utf8Len cs))

/-- `create_snippet` after /verif/fixes/C31-create-snippet.patch: pieces of `split_inclusive('\n')`
keep their line endings, a final `\n` is added when the shown part is non-empty and unterminated,
clamping with the char count -/
def createSnippetNew (cs : List Char) (sp : Span) : SnipOut :=
  let ps := splitInclusive cs
  let lineStart := lineStartOf sp
  let lineEnd := Nat.min (sp.stop.lineNumber + 5) ps.length
  let (skipped, source0) := snipLoop (fun l => l.length) (fun l => l) lineStart lineEnd ps 1
  let source := if source0 ≠ [] ∧ source0.getLast? ≠ some '\n' then source0 ++ ['\n'] else source0
  finishSnippet lineStart skipped source (Nat.min sp.start.full cs.length) (Nat.min sp.stop.full cs.length)

/-- annotate-snippets 0.10.2 `format_body` panics when an annotation ends more than one past the
end of the slice source -/
def rangeAccepted (source : List Char) (range : Nat × Nat) : Bool := !(source.length + 1 < range.2)

/-- number of source lines the renderer displays (`CursorLines`: one per `\n`, plus an unterminated tail) -/
def shownLines (source : List Char) : Nat :=
  (source.filter (· = '\n')).length + (if source ≠ [] ∧ source.getLast? ≠ some '\n' then 1 else 0)

end Radix.Manifest
