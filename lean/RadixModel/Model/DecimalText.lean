/-
Model of the text forms of `Decimal` / `PreciseDecimal`:
  * `impl FromStr for Decimal`        radix-common/src/math/decimal.rs
  * `impl fmt::Display for Decimal`   radix-common/src/math/decimal.rs
  * the same two impls of             radix-common/src/math/precise_decimal.rs
  * `I192::from_str` / `I256::from_str` = bnum 0.11 `BInt::<N>::from_str_radix(_, 10)` wrapped by
    radix-common/src/math/bnum_integer/convert.rs (`impl_from_string!`).

Strings are modelled as the list of their UTF-8 bytes, each byte a `Nat` (the code only ever looks at
bytes: `str::split('.')`, `starts_with('-')`, `chars().all(is_ascii_digit)` and `str::len` are all
byte-level notions for the ASCII characters involved; a model "byte" ≥ 128 is simply a non-digit).
The two types differ only in `(bits, scale)` = (192, 18) / (256, 36), which are parameters here and are
instantiated with the constants dumped from the compiled tree (`Generated/DecimalText.lean`).

Core Lean only (no Mathlib): linked into `drv_c27`.
-/
import RadixModel.Generated.DecimalText

namespace Radix.DecimalText

/-! ## bnum: parsing a signed integer in radix 10 -/

/-- `core::num::IntErrorKind` values produced by bnum's `from_str_radix` -/
inductive IErr where
  | empty
  | invalidDigit
  | posOverflow
  | negOverflow
  deriving DecidableEq, Repr

/-- `byte_to_digit::<true>` followed by the test `d >= radix` (radix 10): letters map to 10‥35 and all
other bytes to `u8::MAX`, both rejected. -/
def digitOf (b : Nat) : Option Nat :=
  if 48 ≤ b ∧ b ≤ 57 then some (b - 48) else none

/-- `radix_base(10)` for 64-bit limbs: `(10^19, 19)` (10^19 ≤ u64::MAX < 10^20). -/
def POWER : Nat := 19
/-- irreducible only to keep `whnf` from unfolding `x * 10^19` structurally inside proofs (no effect on
compiled code; `BASE_def` in Lemmas restates the value) -/
@[irreducible] def BASE : Nat := 10 ^ 19

/-- the loop `first = first * 10 + d` over the first chunk; `none` = `InvalidDigit` -/
def parseChunk : Nat → List Nat → Option Nat
  | acc, [] => some acc
  | acc, b :: bs =>
    match digitOf b with
    | none => none
    | some d => parseChunk (acc * 10 + d) bs

/-- The `while start < buf.len()` loop of `from_buf_radix_internal` (default radix branch), one byte at
a time. State: `out` (the accumulator, already multiplied by `base` once the current chunk has been
entered), `n` (value of the digits of the current chunk read so far), `k` (how many of them).
Order of checks per chunk as in the code: multiply (`carrying_mul` of all limbs by `base`, a non-zero
final carry is `PosOverflow`), then the 19 digits (`InvalidDigit`), then `checked_add` (`PosOverflow`).
(Written with plain `if`s: a `match` on an `Except` scrutinee containing `out * BASE` makes `simp`'s
matcher reduction unfold the multiplication by the literal.) -/
def go (ubits : Nat) (out n k : Nat) : List Nat → Except IErr Nat
  | [] =>
    if k = 0 then .ok out
    else if out + n < 2 ^ ubits then .ok (out + n) else .error .posOverflow
  | b :: bs =>
    if k = 0 ∧ ¬ (out * BASE < 2 ^ ubits) then .error .posOverflow
    else
      match digitOf b with
      | none => .error .invalidDigit
      | some d =>
        if k + 1 = POWER then
          if (if k = 0 then out * BASE else out) + (n * 10 + d) < 2 ^ ubits then
            go ubits ((if k = 0 then out * BASE else out) + (n * 10 + d)) 0 0 bs
          else .error .posOverflow
        else go ubits (if k = 0 then out * BASE else out) (n * 10 + d) (k + 1) bs

/-- `BUint::<N>::from_buf_radix_internal::<true, true>(buf, 10, leading_sign)` on the bytes after the
sign (`ds` non-empty): first chunk of `len % 19` (or 19) digits, then full chunks of 19. -/
def parseU (ubits : Nat) (ds : List Nat) : Except IErr Nat :=
  let r := ds.length % POWER
  let split := if r = 0 then POWER else r
  match parseChunk 0 (ds.take split) with
  | none => .error .invalidDigit
  | some first => go ubits first 0 0 (ds.drop split)

/-- the tail of `BInt::<N>::from_str_radix`: range check of the magnitude `uint` against the sign
(`uint.bit(BITS - 1) && uint.trailing_zeros() != BITS - 1` ⇔ `2^(bits-1) ≤ u ∧ u ≠ 2^(bits-1)`), and
`PosOverflow` of the magnitude reported as `NegOverflow` for a negative text. -/
def finishInt (bits : Nat) (negative : Bool) : Except IErr Nat → Except IErr Int
  | .ok u =>
    if negative then
      if 2 ^ (bits - 1) ≤ u ∧ u ≠ 2 ^ (bits - 1) then .error .negOverflow else .ok (-(u : Int))
    else
      if 2 ^ (bits - 1) ≤ u then .error .posOverflow else .ok (u : Int)
  | .error e => if e = .posOverflow ∧ negative = true then .error .negOverflow else .error e

/-- `BInt::<N>::from_str_radix(src, 10)` with `N * 64 = bits`:
`buf[0] == b'-'` ⇒ `negative, leading_sign`; `buf[0] == b'+'` ⇒ `leading_sign`;
`leading_sign && buf.len() == 1` ⇒ `InvalidDigit`; the digits are the bytes after the sign. -/
def parseInt (bits : Nat) (s : List Nat) : Except IErr Int :=
  match s with
  | [] => .error .empty
  | c :: rest =>
    if c = 45 then
      if rest.isEmpty then .error .invalidDigit else finishInt bits true (parseU bits rest)
    else if c = 43 then
      if rest.isEmpty then .error .invalidDigit else finishInt bits false (parseU bits rest)
    else finishInt bits false (parseU bits (c :: rest))

/-! ## `FromStr for Decimal / PreciseDecimal` -/

/-- `ParseDecimalError` / `ParsePreciseDecimalError` (the `InvalidLength` variant belongs to the byte
conversion and is never produced here) -/
inductive PErr where
  | invalidDigit
  | overflow
  | emptyIntegralPart
  | emptyFractionalPart
  | tooManyPlaces          -- MoreThanEighteenDecimalPlaces / MoreThanThirtySixDecimalPlaces
  | moreThanOnePoint
  deriving DecidableEq, Repr

inductive Res where
  | ok (subunits : Int)
  | err (e : PErr)
  | panic                  -- `expect`, `unreachable!`, index out of bounds
  deriving DecidableEq, Repr

/-- `s.split('.').collect::<Vec<_>>()` on bytes (46 = '.') -/
def splitDot : List Nat → List (List Nat)
  | [] => [[]]
  | c :: cs =>
    match splitDot cs with
    | [] => [[]]
    | p :: ps => if c = 46 then [] :: p :: ps else (c :: p) :: ps

/-- result of a bnum `checked_*` on `I<bits>` whose exact value is `x` -/
def chkI (bits : Nat) (x : Int) : Option Int :=
  if -(2 : Int) ^ (bits - 1) ≤ x ∧ x < (2 : Int) ^ (bits - 1) then some x else none

def InRange (bits : Nat) (x : Int) : Prop := -(2 : Int) ^ (bits - 1) ≤ x ∧ x < (2 : Int) ^ (bits - 1)

instance (bits : Nat) (x : Int) : Decidable (InRange bits x) := by unfold InRange; exact inferInstance

def isDigitByte (b : Nat) : Bool := decide (48 ≤ b ∧ b ≤ 57)

/-- error mapping of the two `match I192::from_str(..)` blocks -/
def mapIErr (emptyCase : PErr) : IErr → PErr
  | .empty => emptyCase
  | .invalidDigit => .invalidDigit
  | .posOverflow => .overflow
  | .negOverflow => .overflow

def fromStr (bits scale : Nat) (s : List Nat) : Res :=
  match splitDot s with
  | [] => .panic                       -- `v[0]`: `split` never yields nothing (proved unreachable)
  | v0 :: tl =>
    if tl.length > 1 then .err .moreThanOnePoint
    else
      match parseInt bits v0 with
      | .error e => .err (mapIErr .emptyIntegralPart e)
      | .ok ip =>
        match chkI bits (ip * (10 : Int) ^ scale) with
        | none => .err .overflow
        | some su =>
          match tl with
          | [] => .ok su
          | v1 :: _ =>
            -- `Self::SCALE.checked_sub(v[1].len() as u32)`
            let len32 := v1.length % 2 ^ 32
            if scale < len32 then .err .tooManyPlaces
            else
              let sc := scale - len32
              if !(v1.all isDigitByte) then .err .invalidDigit
              else
                match parseInt bits v1 with
                | .error e => .err (mapIErr .emptyFractionalPart e)
                | .ok fp =>
                  -- `I192::TEN.pow(scale)` (panics on overflow), `.checked_mul(..).expect(..)`
                  match chkI bits ((10 : Int) ^ sc) with
                  | none => .panic
                  | some p =>
                    match chkI bits (fp * p) with
                    | none => .panic
                    | some fs =>
                      if ip < 0 ∨ v0.head? = some 45 then
                        match chkI bits (su - fs) with
                        | none => .err .overflow
                        | some r => .ok r
                      else
                        match chkI bits (su + fs) with
                        | none => .err .overflow
                        | some r => .ok r

/-! ## `Display for Decimal / PreciseDecimal` -/

/-- decimal digits of `n`, most significant first, as bytes (what `Display for BUint` prints);
`fuel` bounds the number of digits. -/
def natDigitsF : Nat → Nat → List Nat
  | 0, _ => []
  | f + 1, n => if n < 10 then [48 + n] else natDigitsF f (n / 10) ++ [48 + n % 10]

/-- `format!("{}", n)` for a natural number (fuel `n + 1` always suffices, see `Lemmas`) -/
def natDigits (n : Nat) : List Nat := natDigitsF (n + 1) n

/-- `format!("{}", q)` for a signed integer: `pad_integral(!is_negative, "", digits(unsigned_abs))` -/
def intDigits (q : Int) : List Nat :=
  if q < 0 then 45 :: natDigits q.natAbs else natDigits q.natAbs

/-- `format!("{:0w}", n)` for `n < 10^w`: exactly `w` digits, zero padded on the left.
(For `n ≥ 10^w` Rust would print more than `w` digits; callers guarantee `n < 10^w`.) -/
def padDigits : Nat → Nat → List Nat
  | 0, _ => []
  | w + 1, n => padDigits w (n / 10) ++ [48 + n % 10]

/-- `str::trim_end_matches('0')` -/
def trimEndZeros (l : List Nat) : List Nat :=
  (l.reverse.dropWhile (· == 48)).reverse

def toStr (scale : Nat) (v : Int) : List Nat :=
  let m : Int := (10 : Int) ^ scale
  let q := Int.tdiv v m
  let r := Int.tmod v m
  if r ≠ 0 then
    let sign : List Nat := if r < 0 ∧ q = 0 then [45] else []
    sign ++ intDigits q ++ [46] ++ trimEndZeros (padDigits scale r.natAbs)
  else intDigits q

/-! ## The two instances (constants from the compiled tree) -/

def DEC_BITS : Nat := Radix.Generated.DecimalText.DEC_BITS
def DEC_SCALE : Nat := Radix.Generated.DecimalText.DEC_SCALE
def PDEC_BITS : Nat := Radix.Generated.DecimalText.PDEC_BITS
def PDEC_SCALE : Nat := Radix.Generated.DecimalText.PDEC_SCALE

def decFromStr (s : List Nat) : Res := fromStr DEC_BITS DEC_SCALE s
def decToStr (v : Int) : List Nat := toStr DEC_SCALE v
def pdecFromStr (s : List Nat) : Res := fromStr PDEC_BITS PDEC_SCALE s
def pdecToStr (v : Int) : List Nat := toStr PDEC_SCALE v

/-- the model on real bytes -/
def fromStrBytes (bits scale : Nat) (bs : List UInt8) : Res := fromStr bits scale (bs.map UInt8.toNat)

end Radix.DecimalText
