/-
C17 / C18 — the three tiers (`entity_tier.rs`, `partition_tier.rs`, `substate_tier.rs`,
`tier_framework.rs::{generate,apply}_tier_update_batch`), `put_at_next_version`,
`list_substate_hashes_at_version` and the store `TypedInMemoryTreeStore` (with and without pruning).
See `Model/Jmt.lean` for the single-tier algorithm and the transcription notes.
-/
import RadixModel.Model.Jmt
namespace Radix.Jmt

/-- Byte-lexicographic order of `Vec<u8>` (the `BTreeMap<LeafKey, _>` order). -/
def keyLt : Key → Key → Bool
  | [], [] => false
  | [], _ :: _ => true
  | _ :: _, [] => false
  | a :: as, b :: bs => if a < b then true else if b < a then false else keyLt as bs

/-- position of a new key in the sorted map -/
def insertSorted {α : Type} (kv : KV α) : List (KV α) → List (KV α)
  | [] => [kv]
  | x :: rest => if keyLt kv.key x.key then kv :: x :: rest else x :: insertSorted kv rest

/-- `BTreeMap::insert`: an entry for an existing key replaces it, a new key goes to its sorted place. -/
def vsInsert {α : Type} (kv : KV α) (acc : List (KV α)) : List (KV α) :=
  if acc.any (fun x => x.key = kv.key) then acc.map (fun x => if x.key = kv.key then kv else x)
  else insertSorted kv acc

/-- `leaf_updates.collect::<BTreeMap<_, _>>()` -/
def valueSet {α : Type} (kvs : List (KV α)) : List (KV α) :=
  kvs.foldl (fun acc kv => vsInsert kv acc) []

/-- enough fuel for every recursion on the depth: each step consumes one nibble of every key. -/
def fuelFor {α : Type} (kvs : List (KV α)) : Nat :=
  2 * (kvs.foldl (fun m kv => max m kv.key.length) 0) + 2

/-- Events sent to the store, in the order the real code sends them. -/
inductive Ev where
  | put (k : NodeKey) (n : SNode)
  | staleNode (k : NodeKey)
  | staleSub (k : NodeKey)

def Batch.events (b : Batch) : List Ev :=
  b.puts.map (fun (k, n) => Ev.put k n) ++ b.stale.map Ev.staleNode

/-- `batch_put_value_set` up to the root node: how the recursion is entered.
`rv` = the tier's `root_version`, `t` = its root node (`null` when `rv = none` or the root is `Null`). -/
def putTierCore {α : Type} (H : List UInt8 → Hash) (version : Nat) (pfx : Path)
    (rv : Option Nat) (t : Tree α) (kvs : List (KV α)) : Except Err (R α) :=
  let fuel := fuelFor kvs
  match rv with
  | none => updateSubtree H version pfx fuel [] kvs
  | some pv =>
    match t with
    | .null =>
      -- `Node::Null` root: marked stale, then `batch_update_subtree` at depth 0
      match updateSubtree H version pfx fuel [] kvs with
      | .error e => .error e
      | .ok r => .ok ⟨r.t, ({ stale := [(pv, pfx)] } : Batch) ++ r.b⟩
    | _ => insertAt H version pfx fuel t [] kvs

/-- `generate_tier_update_batch` (`batch_put_value_set`) + `apply_tier_update_batch`.
Result: the new root (`none` = a `Null` root node was stored) and the events. -/
def putTier {α : Type} (H : List UInt8 → Hash) (version : Nat) (pfx : Path)
    (rv : Option Nat) (t : Tree α) (updates : List (KV α)) : Except Err (Option (Tree α) × List Ev) :=
  match putTierCore H version pfx rv t (valueSet updates) with
  | .error e => .error e
  | .ok r =>
    match r.t with
    | some root => .ok (some root, (r.b ++ { puts := [((version, pfx), summ H 0 root)] }).events)
    | none => .ok (none, (r.b ++ { puts := [((version, pfx), SNode.null)] }).events)

/-- `new_root_hash`: `None` when the tier became empty — the code tests
`root_hash == SPARSE_MERKLE_PLACEHOLDER_HASH`. -/
def tierRoot {α : Type} (H : List UInt8 → Hash) (root : Option (Tree α)) : Option (Hash × Tree α) :=
  match root with
  | none => none
  | some r => if hashOf H r = zeroHash then none else some (hashOf H r, r)

/-- `get_with_proof(key, root_version)` restricted to the value it returns. An internal node reached
with no nibble left is `StorageError::InconsistentState`, which the caller `unwrap`s. -/
def getLeaf {α : Type} : Tree α → Key → Nat → Except Err (Option (Hash × Nat × α))
  | .null, _, _ => .ok none
  | .leaf _ k vh p s, key, _ => .ok (if k = key then some (vh, p, s) else none)
  | .node _ _ c, key, d =>
    match nib key d with
    | none => .error (.panic "InconsistentState")
    | some n => getLeaf (c n) key (d + 1)

/-- `PartitionDatabaseUpdates` -/
inductive PUpd where
  | delta (ups : List (Key × Option (List UInt8)))   -- `Set(value)` / `Delete`
  | reset (vals : List (Key × List UInt8))

abbrev STree := Tree Unit
abbrev PTree := Tree STree
abbrev ETree := Tree PTree

def TIER_SEPARATOR : UInt8 := 0x5f

/-- root node of an optional tier view (`null` when the tier does not exist). -/
def tierTree {α : Type} : Option (Nat × Tree α) → Tree α
  | some p => p.2
  | none => .null

/-- `SubstateTier::apply_partition_updates`; `sub` = `(root_version, root)` of the tier if it exists. -/
def applyPartition (H : List UInt8 → Hash) (version : Nat) (pfx : Path)
    (sub : Option (Nat × STree)) (u : PUpd) : Except Err (Option (Hash × STree) × List Ev) :=
  match u with
  | .delta ups =>
    let kvs : List (KV Unit) := ups.map fun (k, v) => ⟨k, v.map fun bytes => (H bytes, version, ())⟩
    match putTier H version pfx (sub.map (·.1)) (tierTree sub) kvs with
    | .error e => .error e
    | .ok (root, evs) => .ok (tierRoot H root, evs)
  | .reset vals =>
    let pre : List Ev := match sub with
      | some (pv, _) => [Ev.staleSub (pv, pfx)]
      | none => []
    let kvs : List (KV Unit) := vals.map fun (k, bytes) => ⟨k, some (H bytes, version, ())⟩
    match putTier H version pfx none .null kvs with
    | .error e => .error e
    | .ok (root, evs) => .ok (tierRoot H root, pre ++ evs)

/-- `get_persisted_leaf_payload` + construction of the nested tier view. -/
def nestedTier {α β : Type} (rv : Option Nat) (t : Tree α) (key : Key) (proj : α → β) :
    Except Err (Option (Nat × β)) :=
  match rv with
  | none => .ok none
  | some _ =>
    match getLeaf t key 0 with
    | .error e => .error e
    | .ok none => .ok none
    | .ok (some (_, payload, s)) => .ok (some (payload, proj s))

/-- the per-leaf loop of `apply_entity_updates` (leaf updates of the partition tier). -/
def partitionLeafUpdates (H : List UInt8 → Hash) (version : Nat) (ek : Key)
    (rv : Option Nat) (t : PTree) : List (Nat × PUpd) → Except Err (List (KV STree) × List Ev)
  | [] => .ok ([], [])
  | (pn, pu) :: rest =>
    match nestedTier rv t [UInt8.ofNat pn] id with
    | .error e => .error e
    | .ok sub =>
      match applyPartition H version (nibbles (ek ++ [TIER_SEPARATOR, UInt8.ofNat pn, TIER_SEPARATOR])) sub pu with
      | .error e => .error e
      | .ok (newRoot, evs) =>
        match partitionLeafUpdates H version ek rv t rest with
        | .error e => .error e
        | .ok (kvs, evs') =>
          .ok (⟨[UInt8.ofNat pn], newRoot.map fun (h, s) => (h, version, s)⟩ :: kvs, evs ++ evs')

/-- `PartitionTier::apply_entity_updates` -/
def applyEntity (H : List UInt8 → Hash) (version : Nat) (ek : Key)
    (part : Option (Nat × PTree)) (pus : List (Nat × PUpd)) :
    Except Err (Option (Hash × PTree) × List Ev) :=
  let rv := part.map (·.1)
  let t : PTree := tierTree part
  match partitionLeafUpdates H version ek rv t pus with
  | .error e => .error e
  | .ok (kvs, evs) =>
    match putTier H version (nibbles (ek ++ [TIER_SEPARATOR])) rv t kvs with
    | .error e => .error e
    | .ok (root, evs') => .ok (tierRoot H root, evs ++ evs')

/-- the per-leaf loop of `put_entity_updates`. -/
def entityLeafUpdates (H : List UInt8 → Hash) (version : Nat)
    (rv : Option Nat) (t : ETree) : List (Key × List (Nat × PUpd)) → Except Err (List (KV PTree) × List Ev)
  | [] => .ok ([], [])
  | (ek, pus) :: rest =>
    match nestedTier rv t ek id with
    | .error e => .error e
    | .ok part =>
      match applyEntity H version ek part pus with
      | .error e => .error e
      | .ok (newRoot, evs) =>
        match entityLeafUpdates H version rv t rest with
        | .error e => .error e
        | .ok (kvs, evs') =>
          .ok (⟨ek, newRoot.map fun (h, p) => (h, version, p)⟩ :: kvs, evs ++ evs')

/-- `DatabaseUpdates` -/
abbrev DbUpdates := List (Key × List (Nat × PUpd))

/-- `TypedInMemoryTreeStore` (`tree_nodes`, `stale_part_buffer`, `pruning_enabled`). -/
structure Store where
  nodes : List (NodeKey × SNode) := []
  staleBuf : List Ev := []
  prune : Bool := false

def Store.remove (s : Store) (k : NodeKey) : Store :=
  { s with nodes := s.nodes.filter fun e => !(e.1 == k) }

/-- the BFS of `record_stale_tree_part(Subtree(key))`; every step pops one queue element. -/
def pruneSubtree : Nat → List NodeKey → List (NodeKey × SNode) → List (NodeKey × SNode)
  | 0, _, nodes => nodes
  | _ + 1, [], nodes => nodes
  | fuel + 1, k :: queue, nodes =>
    match nodes.lookup k with
    | none => pruneSubtree fuel queue nodes
    | some n =>
      let nodes' := nodes.filter fun e => !(e.1 == k)
      match n with
      | .internal cs => pruneSubtree fuel (queue ++ cs.map fun (nb, v, _, _) => (v, k.2 ++ [nb])) nodes'
      | _ => pruneSubtree fuel queue nodes'

/-- `insert_node` / `record_stale_tree_part` -/
def Store.apply (s : Store) : Ev → Store
  | .put k n => { s with nodes := (k, n) :: s.nodes.filter fun e => !(e.1 == k) }
  | .staleNode k => if s.prune then s.remove k else { s with staleBuf := s.staleBuf ++ [.staleNode k] }
  | .staleSub k =>
    if s.prune then { s with nodes := pruneSubtree (17 * s.nodes.length + 2) [k] s.nodes }
    else { s with staleBuf := s.staleBuf ++ [.staleSub k] }

/-- The whole modelled state: the current tree (all three tiers) and the store. -/
structure State where
  rootVersion : Option Nat := none
  tree : ETree := .null
  store : Store := {}

/-- `put_at_next_version(store, current_state_version, database_updates)`; returns the new state, the
root hash and the events of this commit. -/
def putAtNextVersion (H : List UInt8 → Hash) (st : State) (ups : DbUpdates) :
    Except Err (State × Hash × List Ev) :=
  let version := st.rootVersion.getD 0 + 1   -- `self.root_version.unwrap_or(0) + 1`
  match entityLeafUpdates H version st.rootVersion st.tree ups with
  | .error e => .error e
  | .ok (kvs, evs) =>
    match putTier H version [] st.rootVersion st.tree kvs with
    | .error e => .error e
    | .ok (root, evs') =>
      let all := evs ++ evs'
      -- `new_root_hash.unwrap_or(SPARSE_MERKLE_PLACEHOLDER_HASH)`
      let h := match root with
        | some r => hashOf H r
        | none => zeroHash
      .ok ({ rootVersion := some version,
             tree := (match root with | some r => r | none => .null),
             store := all.foldl Store.apply st.store }, h, all)

/-- in-order leaves of a tier (`iter_leaves_from(None)` / `recurse_until_leaves`). -/
def leaves {α : Type} : Tree α → List (Key × Hash × Nat × α)
  | .null => []
  | .leaf _ k vh p s => [(k, vh, p, s)]
  | .node _ _ c => (List.range 16).flatMap fun i => leaves (c i)

/-- `list_substate_hashes_at_version` at the current version. -/
def listSubstateHashes (t : ETree) : List (Key × Key × Key × Hash) :=
  (leaves t).flatMap fun (ek, _, _, p) =>
    (leaves p).flatMap fun (pk, _, _, s) =>
      (leaves s).map fun (sk, vh, _, _) => (ek, pk, sk, vh)

end Radix.Jmt
