/-
Model of `checked_powi`, `checked_sqrt`, `checked_cbrt`, `checked_nth_root` of `Decimal`
(radix-common/src/math/decimal.rs) and `PreciseDecimal` (radix-common/src/math/precise_decimal.rs).

Decimals are `Int` subunits (see Model/Decimal.lean, namespace `Radix.Dec`); the two types differ in
`Ty.bits / Ty.wide / Ty.scale` and in the integer type used by `checked_cbrt` (`I320` vs `BigInt`).
The integer root functions of the libraries (bnum `Roots for BInt`, num-bigint `Roots for BigInt`) are
modelled by the exact floor root `iroot` (a bisection, proved to satisfy `r^n ≤ x < (r+1)^n` in
Lemmas/DecimalPow.lean); that the libraries compute that value is checked by the correspondence run.

Core Lean only (no Mathlib): linked into `drv_c26`.
-/
import RadixModel.Model.Decimal

namespace Radix.DecimalPow
open Radix.Dec

/-! ## exact integer roots -/

/-- bisection: invariant `lo^n ≤ x < hi^n`, `hi - lo ≤ 2^fuel` -/
def irootAux (n x : Nat) : Nat → Nat → Nat → Nat
  | 0, lo, _ => lo
  | f + 1, lo, hi =>
    if hi ≤ lo + 1 then lo
    else
      let mid := (lo + hi) / 2
      if mid ^ n ≤ x then irootAux n x f mid hi else irootAux n x f lo mid

/-- `⌊x^(1/n)⌋` for `n ≥ 1`: start from `hi = 2^k` with `k = ⌊log2 x / n⌋ + 1` (so `x < hi^n`). -/
def iroot (n x : Nat) : Nat :=
  let k := Nat.log2 x / n + 1
  irootAux n x (k + 1) 0 (2 ^ k)

/-- root of a signed integer, truncated toward zero (bnum `cbrt`/`nth_root` for negative values with odd
degree: `-(|x|.root())`; num-bigint: `from_biguint(sign, |x|.root())`) -/
def sroot (n : Nat) (c : Int) : Int :=
  if c < 0 then -((iroot n c.natAbs : Nat) : Int) else ((iroot n c.natAbs : Nat) : Int)

/-! ## checked_powi -/

/-- the squaring step shared by the even and odd branches:
`I192::try_from(base_256.checked_mul(base_256)? / one_256).ok()?` -/
def square (t : Ty) (x : Int) : Option Int :=
  match chk t.wide (x * x) with
  | none => none
  | some sq => narrow true t.wide t.bits (Int.tdiv sq t.one)

/-- `checked_powi` for a non-negative exponent (the `i64` helper closures `div`, `sub` cannot fail for
`exp ≥ 2`; `exp / 2` and `(exp - 1) / 2` are exact on `Nat`) -/
def powiNat (t : Ty) (x : Int) (e : Nat) : Option Int :=
  if e = 0 then some t.one
  else if e = 1 then some x
  else
    match square t x with
    | none => none
    | some x2 =>
      if e % 2 = 0 then powiNat t x2 (e / 2)
      else
        match powiNat t x2 ((e - 1) / 2) with
        | none => none
        | some b => checkedMul t x b
termination_by e
decreasing_by all_goals omega

/-- `checked_powi(&self, exp: i64)`; `exp` is an `i64` (`-2^63 ≤ exp < 2^63`). -/
def checkedPowi (t : Ty) (x : Int) (exp : Int) : Outcome :=
  if exp < 0 then
    -- `one * one` is a panicking multiplication in the wide type
    match chk t.wide (t.one * t.one) with
    | none => .panic
    | some oo =>
      match iDiv t.wide oo x with
      | none => .none
      | some q =>
        match narrow true t.wide t.bits q with
        | none => .none
        | some r =>
          -- `mul(exp, -1)?` : `i64::MIN * -1` overflows
          if exp = -(2 : Int) ^ 63 then .none
          else
            match powiNat t r (-exp).toNat with
            | none => .none
            | some v => .val v
  else
    match powiNat t x exp.toNat with
    | none => .none
    | some v => .val v

/-! ## roots -/

/-- `checked_sqrt`: `I256::from(self.0) * I256::from(ONE)` (panicking `Mul`), `.sqrt()`, narrow. -/
def checkedSqrt (t : Ty) (x : Int) : Outcome :=
  if x < 0 then .none
  else if x = 0 then .val 0
  else
    match chk t.wide (x * t.one) with
    | none => .panic
    | some c =>
      -- bnum `sqrt` panics on negative input ("imaginary square root")
      if c < 0 then .panic
      else
        match narrow true t.wide t.bits (sroot 2 c) with
        | none => .none
        | some r => .val r

/-- width of the integer type used by `checked_cbrt`: `I320` for `Decimal`, `BigInt` for `PreciseDecimal` -/
def cbrtWide : Ty → Option Nat
  | .dec => some 320
  | .pdec => none

/-- `checked_cbrt` -/
def checkedCbrt (t : Ty) (x : Int) : Outcome :=
  if x = 0 then .val 0
  else
    match cbrtWide t with
    | some w =>
      -- `I320::from(ONE).pow(2)` and `self_320 * _` are panicking operations
      match chk w (t.one ^ 2) with
      | none => .panic
      | some o2 =>
        match chk w (x * o2) with
        | none => .panic
        | some c =>
          match narrow true w t.bits (sroot 3 c) with
          | none => .none
          | some r => .val r
    | none =>
      -- `I256::try_from(BigInt)` = `from_le_slice` of the two's-complement bytes: exactly the range check
      match chk t.bits (sroot 3 (x * t.one ^ 2)) with
      | none => .none
      | some r => .val r

/-- `checked_nth_root(&self, n: u32)` -/
def checkedNthRoot (t : Ty) (x : Int) (n : Nat) : Outcome :=
  if (x < 0 ∧ n % 2 = 0) ∨ n = 0 then .none
  else if n = 1 then .val x
  else if x = 0 then .val 0
  else
    -- `I192::try_from(correct_nb.nth_root(n)).unwrap()`
    match chk t.bits (sroot n (x * t.one ^ (n - 1))) with
    | none => .panic
    | some r => .val r

end Radix.DecimalPow
