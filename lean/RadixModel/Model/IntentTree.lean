/-
C35 — model of `radix-transactions/src/validation/transaction_structure_validator.rs`
(`TransactionValidator::validate_intents_and_structure` / `validate_intent_relationships`).

Transcription notes
* Hashes are abstract naturals. An `IntentHash` is `(isSubintent, n)`;
  `PLACEHOLDER_PARENT = IntentHash::Transaction(Hash([0;32]))` is `(false, 0)`.
  A `SubintentHash` converts to `(true, n)` and can therefore never equal the placeholder; the
  ROOT transaction-intent hash `(false, 0)` does (the harness's mock can produce it, a real
  intent would need a hash of 32 zero bytes). Theorems state `root ≠ PLACEHOLDER` explicitly.
* `non_root_subintent_details : IndexMap<SubintentHash, SubintentRelationshipDetails>` is the list
  `List Details` in insertion order; the key is stored in the entry (`hash`), `get_index(i)` is
  `m[i]?`, `get(&hash)` is `find?` on the key. Step 1 guarantees distinct keys, so "update the entry
  with key h" is written as a `map` over the list.
* `work_list : Vec<(SubintentIndex, usize)>` is a list whose head is the top of the stack
  (`push` of c₁…c_k then `pop` yields c_k first).
* Every `unwrap` is an explicit `.panic` outcome: `get_index(i).unwrap()` in step 3, the two
  `yield_summaries.get(..).unwrap()` and `child_yields.get(..).unwrap()` in the yield check, and the
  `usize` underflow of `max_subintent_depth - 1` when the root is a subintent and the configured
  depth is 0 (overflow checks are on in the harness build; a release build would wrap).
* The `loop` of step 3 runs on fuel; `.outOfFuel` is a separate outcome that
  `worklist_terminates` (Props/C35) proves unreachable for fuel = #subintents + 1.
* `validate_intent` of each intent is an input: its result (`Ok(yield summary)` or an error) is
  given per intent; `AcrossIntentAggregation::finalize` is not modelled (the mock intents never
  touch the aggregation, so it always succeeds) — it belongs to C34.
-/
namespace Radix.IntentTree

abbrev IHash := Bool × Nat

def PLACEHOLDER : IHash := (false, 0)

/-- `SubintentRelationshipDetails` together with its `IndexMap` key. -/
structure Details where
  hash : Nat
  index : Nat
  parent : IHash
  depth : Nat
  children : List Nat
  deriving DecidableEq, Repr

/-- What the validator reads from a non-root subintent: its hash and its declared children. -/
structure Sub where
  hash : Nat
  children : List Nat
  deriving DecidableEq, Repr

/-- `ManifestYieldSummary` as returned by `validate_intent` (`none` = it returned an error). -/
structure Yields where
  parentYields : Nat
  childYields : List (Nat × Nat)
  deriving DecidableEq, Repr

structure Tree where
  root : IHash
  rootChildren : List Nat
  subs : List Sub
  deriving DecidableEq, Repr

inductive Err where
  | duplicateSubintent (i h : Nat)
  | childNotIncluded (h : Nat)
  | multipleParents (i h : Nat)
  | exceedsMaxDepth (i h : Nat)
  | notReachable (i h : Nat)
  | yieldMismatch (i h : Nat)
  | intentError (loc : Option Nat)
  | panic
  | outOfFuel
  deriving DecidableEq, Repr

/-! ### Step 1 — uniqueness, index -/

def step1 : List Sub → List Details → Except Err (List Details)
  | [], acc => .ok acc
  | s :: rest, acc =>
    if acc.any (fun e => e.hash == s.hash) then .error (.duplicateSubintent acc.length s.hash)
    else step1 rest (acc ++ [{ hash := s.hash, index := acc.length, parent := PLACEHOLDER, depth := 0, children := [] }])

/-! ### Step 2 — every child exists and has no other parent -/

def setParent (m : List Details) (h : Nat) (p : IHash) : List Details :=
  m.map (fun e => if e.hash == h then { e with parent := p } else e)

def setChildren (m : List Details) (h : Nat) (cs : List Nat) : List Details :=
  m.map (fun e => if e.hash == h then { e with children := cs } else e)

/-- one iteration of the `for child_hash in …children()` loops -/
def claim (m : List Details) (parent : IHash) (h : Nat) : Except Err (List Details × Nat) :=
  match m.find? (fun e => e.hash == h) with
  | none => .error (.childNotIncluded h)
  | some d =>
    if d.parent == PLACEHOLDER then .ok (setParent m h parent, d.index)
    else .error (.multipleParents d.index h)

def claimAll (m : List Details) (parent : IHash) : List Nat → List Nat → Except Err (List Details × List Nat)
  | [], acc => .ok (m, acc)
  | h :: rest, acc =>
    match claim m parent h with
    | .error e => .error e
    | .ok (m', i) => claimAll m' parent rest (acc ++ [i])

/-- Step 2B -/
def step2b (m : List Details) : List Sub → Except Err (List Details)
  | [] => .ok m
  | s :: rest =>
    match claimAll m (true, s.hash) s.children [] with
    | .error e => .error e
    | .ok (m', cs) => step2b (setChildren m' s.hash cs) rest

/-! ### Step 3 — depth marking from the root with a work list -/

def pushChildren (cs : List Nat) (depth : Nat) (wl : List (Nat × Nat)) : List (Nat × Nat) :=
  (cs.map (fun c => (c, depth))).reverse ++ wl

def walk (maxDepth : Nat) : Nat → List Details → List (Nat × Nat) → Except Err (List Details)
  | 0, _, _ => .error .outOfFuel
  | _ + 1, m, [] => .ok m
  | fuel + 1, m, (i, d) :: wl =>
    match m[i]? with
    | none => .error .panic
    | some e =>
      if d > maxDepth then .error (.exceedsMaxDepth i e.hash)
      else walk maxDepth fuel (m.set i { e with depth := d }) (pushChildren e.children (d + 1) wl)

/-- `max_depth`: `none` = `usize` underflow of `max_subintent_depth - 1`. -/
def maxDepthFor (root : IHash) (maxSubintentDepth : Nat) : Option Nat :=
  if root.1 then (if maxSubintentDepth = 0 then none else some (maxSubintentDepth - 1))
  else some maxSubintentDepth

/-! ### Step 4 — every subintent got a depth -/

def step4 (m : List Details) : Except Err Unit :=
  match m.find? (fun e => e.depth == 0) with
  | some e => .error (.notReachable e.index e.hash)
  | none => .ok ()

/-- `validate_intent_relationships` with the step-3 loop running on `fuel`; returns the root's
children and the details map. -/
def validateRelationshipsFuel (fuel : Nat) (t : Tree) (maxSubintentDepth : Nat) : Except Err (List Nat × List Details) :=
  match step1 t.subs [] with
  | .error e => .error e
  | .ok m1 =>
    match claimAll m1 t.root t.rootChildren [] with
    | .error e => .error e
    | .ok (m2a, rootCs) =>
      match step2b m2a t.subs with
      | .error e => .error e
      | .ok m2 =>
        match maxDepthFor t.root maxSubintentDepth with
        | none => .error .panic
        | some maxDepth =>
          match walk maxDepth fuel m2 (pushChildren rootCs 1 []) with
          | .error e => .error e
          | .ok m3 =>
            match step4 m3 with
            | .error e => .error e
            | .ok () => .ok (rootCs, m3)

/-- The fuel that `worklist_terminates` (Props/C35) proves sufficient whenever the root hash is not
the placeholder. For the placeholder root (a transaction-intent hash of 32 zero bytes) step 2
cannot tell "claimed by the root" from "unclaimed", subintents can be visited repeatedly and the
number of iterations is only bounded through the depth limit; the model then runs on a large
constant so that the correspondence can still be observed on such inputs. -/
def defaultFuel (t : Tree) : Nat :=
  if t.root == PLACEHOLDER then 1000000 else t.subs.length + 1

def validateRelationships (t : Tree) (maxSubintentDepth : Nat) : Except Err (List Nat × List Details) :=
  validateRelationshipsFuel (defaultFuel t) t maxSubintentDepth

/-! ### Yield-count matching -/

/-- `IndexMap::get` on a map built by successive `insert`s (a later insert of the same key
replaces the value). -/
def lastLookup {κ β : Type} [BEq κ] (entries : List (κ × β)) (k : κ) : Option β :=
  (entries.reverse.find? (fun kv => kv.1 == k)).map (·.2)

/-- the first non-root subintent (with its index) whose `validate_intent` failed -/
def firstFailed : List (Option Yields) → Nat → Option Nat
  | [], _ => none
  | none :: _, i => some i
  | some _ :: rest, i => firstFailed rest (i + 1)

def checkYields (summaries : List (IHash × Yields)) : List Details → Except Err Unit
  | [] => .ok ()
  | d :: rest =>
    match lastLookup summaries d.parent with
    | none => .error .panic
    | some ps =>
      match lastLookup ps.childYields d.hash with
      | none => .error .panic
      | some parentYieldChildCalls =>
        match lastLookup summaries (true, d.hash) with
        | none => .error .panic
        | some cs =>
          if parentYieldChildCalls != cs.parentYields then .error (.yieldMismatch d.index d.hash)
          else checkYields summaries rest

/-- `validate_intents_and_structure`. `rootY`/`subYs` are the results of `validate_intent` of the
root and of each non-root subintent (`none` = `Err`). -/
def validate (t : Tree) (maxSubintentDepth : Nat) (rootY : Option Yields) (subYs : List (Option Yields)) :
    Except Err (List Nat × List Details) :=
  match validateRelationships t maxSubintentDepth with
  | .error e => .error e
  | .ok (rootCs, m) =>
    match rootY with
    | none => .error (.intentError none)
    | some ry =>
      match firstFailed subYs 0 with
      | some i => .error (.intentError (some i))
      | none =>
        let summaries : List (IHash × Yields) :=
          (t.root, ry) :: (t.subs.zip subYs).filterMap (fun sy => sy.2.map (fun y => ((true, sy.1.hash), y)))
        match checkYields summaries m with
        | .error e => .error e
        | .ok () => .ok (rootCs, m)

end Radix.IntentTree
