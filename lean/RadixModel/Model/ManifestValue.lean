/-
Manifest value sub-language: the decompiler's value printer (`radix-transactions/src/data/formatter.rs`:
`format_manifest_value`, `format_elements`, `format_kv_entries`, `format_value_kind`,
`ManifestCustomCharEscaper` + `radix_rust::unicode::format_custom_escaped` /
`format_json_utf16_escaped_char`) and the value generator (`generator.rs`: `generate_value`,
`generate_singletons`, `generate_kv_entries`; `ast.rs`: `value_kind`, `sbor_value_kind`) —
executable model, core Lean only.

Custom values (addresses, buckets, decimals, …) are leaves `custom w text`: `w` says which
`Name("…")` form is printed and `text` is the string inside the quotes, as the real formatter
produces it (bech32, decimal and id formats belong to C27/C28; object names to the name resolver).
A static address is a resource address iff its text has the HRP prefix `resource_` (checked against
the real `ResourceAddress::try_from` on every correspondence line).
`shouldEscape` stands for `rust_1_81_should_unicode_escape_in_debug_str` (a Unicode table): the
printer is parametric in it; the driver receives the printed text of every string from the real
code and only checks that some such predicate explains it (see Driver/C30).
-/
import RadixModel.Model.Manifest
import RadixModel.Model.ManifestParser
import RadixModel.Generated.C30
namespace Radix.Manifest

/-- `ManifestValueKind` -/
inductive MKind
  | bool | i8 | i16 | i32 | i64 | i128 | u8 | u16 | u32 | u64 | u128 | string
  | enum | array | tuple | map
  | address | bucket | proof | expression | blob | decimal | preciseDecimal | nonFungibleLocalId
  | addressReservation
deriving DecidableEq, Repr, Inhabited

def MKind.all : List MKind :=
  [.bool, .i8, .i16, .i32, .i64, .i128, .u8, .u16, .u32, .u64, .u128, .string, .enum, .array, .tuple, .map,
   .address, .bucket, .proof, .expression, .blob, .decimal, .preciseDecimal, .nonFungibleLocalId, .addressReservation]

/-- `format_value_kind` -/
def MKind.name : MKind → String
  | .bool => "Bool" | .i8 => "I8" | .i16 => "I16" | .i32 => "I32" | .i64 => "I64" | .i128 => "I128"
  | .u8 => "U8" | .u16 => "U16" | .u32 => "U32" | .u64 => "U64" | .u128 => "U128" | .string => "String"
  | .enum => "Enum" | .array => "Array" | .tuple => "Tuple" | .map => "Map"
  | .address => "Address" | .bucket => "Bucket" | .proof => "Proof" | .expression => "Expression"
  | .blob => "Blob" | .decimal => "Decimal" | .preciseDecimal => "PreciseDecimal"
  | .nonFungibleLocalId => "NonFungibleLocalId" | .addressReservation => "AddressReservation"

def MKind.ofIntTy : IntTy → MKind
  | .i8 => .i8 | .i16 => .i16 | .i32 => .i32 | .i64 => .i64 | .i128 => .i128
  | .u8 => .u8 | .u16 => .u16 | .u32 => .u32 | .u64 => .u64 | .u128 => .u128

mutual
/-- `ManifestValue` -/
inductive MValue
  | bool (b : Bool)
  | int (ty : IntTy) (v : Int)
  | str (s : List Char)
  | enum (d : Nat) (fields : MValues)
  | array (k : MKind) (xs : MValues)
  | tuple (xs : MValues)
  | map (k : MKind) (v : MKind) (es : MEntries)
  /-- a custom value, printed as `<w>("<text>")` -/
  | custom (w : Wrap) (text : List Char)
inductive MValues
  | nil
  | cons (v : MValue) (rest : MValues)
inductive MEntries
  | nil
  | cons (k : MValue) (v : MValue) (rest : MEntries)
end

instance : Inhabited MValue := ⟨.bool false⟩

mutual
def MValue.beq : MValue → MValue → Bool
  | .bool a, .bool b => a == b
  | .int t a, .int u b => t == u && a == b
  | .str a, .str b => a == b
  | .enum d xs, .enum e ys => d == e && xs.beq ys
  | .array k xs, .array l ys => k == l && xs.beq ys
  | .tuple xs, .tuple ys => xs.beq ys
  | .map k v es, .map l w fs => k == l && v == w && es.beq fs
  | .custom w a, .custom x b => w == x && a == b
  | _, _ => false
def MValues.beq : MValues → MValues → Bool
  | .nil, .nil => true
  | .cons a r, .cons b s => a.beq b && r.beq s
  | _, _ => false
def MEntries.beq : MEntries → MEntries → Bool
  | .nil, .nil => true
  | .cons k v r, .cons l w s => k.beq l && v.beq w && r.beq s
  | _, _ => false
end

def MValues.toList : MValues → List MValue
  | .nil => []
  | .cons v r => v :: r.toList

def MValues.ofList : List MValue → MValues
  | [] => .nil
  | v :: r => .cons v (MValues.ofList r)

/-! ## string escaping -/

def hexDigitLower (n : Nat) : Char :=
  if n < 10 then Char.ofNat ('0'.toNat + n) else Char.ofNat ('a'.toNat + (n - 10))

/-- `\uXXXX` with four lower-case hex digits (`write!(f, "\\u{:04x}", unit)`) -/
def unitEscape (u : Nat) : List Char :=
  ['\\', 'u', hexDigitLower (u / 4096 % 16), hexDigitLower (u / 256 % 16), hexDigitLower (u / 16 % 16), hexDigitLower (u % 16)]

/-- `format_json_utf16_escaped_char`: one or two UTF-16 units -/
def utf16Escape (c : Char) : List Char :=
  let n := c.toNat
  if n < 0x10000 then unitEscape n
  else unitEscape (0xD800 + (n - 0x10000) / 1024) ++ unitEscape (0xDC00 + (n - 0x10000) % 1024)

/-- `ManifestCustomCharEscaper::resolve_escape_behaviour` applied by `format_custom_escaped`
(printable ASCII other than `"` and `\` is never looked at) -/
def escapeChar (shouldEscape : Char → Bool) (c : Char) : List Char :=
  if c = '\\' then ['\\', '\\']
  else if c = '\n' then ['\\', 'n']
  else if c = '\r' then ['\\', 'r']
  else if c = '\t' then ['\\', 't']
  else if c = Char.ofNat 8 then ['\\', 'b']
  else if c = Char.ofNat 12 then ['\\', 'f']
  else if c = '"' then ['\\', '"']
  else if 0x20 ≤ c.toNat ∧ c.toNat ≤ 0x7E then [c]
  else if shouldEscape c then utf16Escape c
  else [c]

def escapeBody (shouldEscape : Char → Bool) (s : List Char) : List Char := s.flatMap (escapeChar shouldEscape)

/-- `ManifestCustomCharEscaper::escaped(s)` including the quotes -/
def escapeString (shouldEscape : Char → Bool) (s : List Char) : List Char :=
  ['"'] ++ escapeBody shouldEscape s ++ ['"']

/-! ## printer -/

def spaces (n : Nat) : List Char := List.replicate n ' '

/-- `context.get_indent(depth)` for `with_multi_line(4, 4)` -/
def indent (depth : Nat) : List Char := spaces (4 + 4 * depth)

def natDigits (n : Nat) : List Char := (toString n).toList

def intDigits (v : Int) : List Char := (toString v).toList

def isResourceText (t : List Char) : Bool := "resource_".toList.isPrefixOf t

def wrapName : Wrap → String
  | .some => "Some" | .ok => "Ok" | .err => "Err" | .bytes => "Bytes" | .nonFungibleGlobalId => "NonFungibleGlobalId"
  | .address => "Address" | .bucket => "Bucket" | .proof => "Proof" | .expression => "Expression" | .blob => "Blob"
  | .decimal => "Decimal" | .preciseDecimal => "PreciseDecimal" | .nonFungibleLocalId => "NonFungibleLocalId"
  | .addressReservation => "AddressReservation" | .namedAddress => "NamedAddress" | .intent => "Intent"
  | .namedIntent => "NamedIntent"

/-- all elements are `U8` values: their bytes (`None` = the `fmt::Error` of the real printer) -/
def u8Elements : MValues → Option (List Nat)
  | .nil => some []
  | .cons (.int .u8 v) r => (u8Elements r).map (v.toNat :: ·)
  | .cons _ _ => none

def hexByte (b : Nat) : List Char := [hexDigitLower (b / 16 % 16), hexDigitLower (b % 16)]

mutual
/-- `format_manifest_value(f, value, context, indent_start, depth)`; `none` = `fmt::Error` -/
def printValue (esc : Char → Bool) : MValue → Bool → Nat → Option (List Char)
  | v, indentStart, depth =>
    let pre : List Char := if indentStart then indent depth else []
    match v with
    | .bool b => some (pre ++ (if b then "true" else "false").toList)
    | .int ty n => some (pre ++ intDigits n ++ ty.name)
    | .str s => some (pre ++ escapeString esc s)
    | .tuple xs =>
      match xs with
      | .cons (.custom .address a) (.cons (.custom .nonFungibleLocalId i) .nil) =>
        if isResourceText a then
          some (pre ++ "NonFungibleGlobalId(\"".toList ++ a ++ [':'] ++ i ++ "\")".toList)
        else
          match printElements esc xs (depth + 1) with
          | none => none
          | some body => some (pre ++ "Tuple(\n".toList ++ body ++ indent depth ++ [')'])
      | .nil => some (pre ++ "Tuple()".toList)
      | _ =>
        match printElements esc xs (depth + 1) with
        | none => none
        | some body => some (pre ++ "Tuple(\n".toList ++ body ++ indent depth ++ [')'])
    | .enum d xs =>
      match xs with
      | .nil => some (pre ++ "Enum<".toList ++ natDigits d ++ "u8>()".toList)
      | _ =>
        match printElements esc xs (depth + 1) with
        | none => none
        | some body => some (pre ++ "Enum<".toList ++ natDigits d ++ "u8>(\n".toList ++ body ++ indent depth ++ [')'])
    | .array k xs =>
      if k = .u8 then
        match u8Elements xs with
        | none => none
        | some bs => some (pre ++ "Bytes(\"".toList ++ bs.flatMap hexByte ++ "\")".toList)
      else
        match xs with
        | .nil => some (pre ++ "Array<".toList ++ k.name.toList ++ ">()".toList)
        | _ =>
          match printElements esc xs (depth + 1) with
          | none => none
          | some body => some (pre ++ "Array<".toList ++ k.name.toList ++ ">(\n".toList ++ body ++ indent depth ++ [')'])
    | .map k w es =>
      match es with
      | .nil => some (pre ++ "Map<".toList ++ k.name.toList ++ ", ".toList ++ w.name.toList ++ ">()".toList)
      | _ =>
        match printEntries esc es (depth + 1) with
        | none => none
        | some body =>
          some (pre ++ "Map<".toList ++ k.name.toList ++ ", ".toList ++ w.name.toList ++ ">(\n".toList ++ body ++ indent depth ++ [')'])
    | .custom w t => some (pre ++ (wrapName w).toList ++ "(\"".toList ++ t ++ "\")".toList)

/-- `format_elements` -/
def printElements (esc : Char → Bool) : MValues → Nat → Option (List Char)
  | .nil, _ => some []
  | .cons v r, depth =>
    match printValue esc v true depth with
    | none => none
    | some s =>
      let sep : List Char := match r with | .nil => ['\n'] | _ => [',', '\n']
      match printElements esc r depth with
      | none => none
      | some rest => some (s ++ sep ++ rest)

/-- `format_kv_entries` -/
def printEntries (esc : Char → Bool) : MEntries → Nat → Option (List Char)
  | .nil, _ => some []
  | .cons k v r, depth =>
    match printValue esc k true depth, printValue esc v false depth with
    | some a, some b =>
      let sep : List Char := match r with | .nil => ['\n'] | _ => [',', '\n']
      match printEntries esc r depth with
      | none => none
      | some rest => some (a ++ " => ".toList ++ b ++ sep ++ rest)
    | _, _ => none
end

/-! ## generator -/

inductive GErr
  | invalidAstType | unexpectedValueKind | invalidBytesHex | invalidNonFungibleGlobalId
  | intentInValue | namedIntentInValue | intentAsKind | namedIntentAsKind
deriving DecidableEq, Repr

/-- `ValueKindWithSpan::sbor_value_kind` -/
def VKind.sbor : VKind → Except GErr MKind
  | .bool => .ok .bool | .i8 => .ok .i8 | .i16 => .ok .i16 | .i32 => .ok .i32 | .i64 => .ok .i64 | .i128 => .ok .i128
  | .u8 => .ok .u8 | .u16 => .ok .u16 | .u32 => .ok .u32 | .u64 => .ok .u64 | .u128 => .ok .u128 | .string => .ok .string
  | .enum => .ok .enum | .array => .ok .array | .tuple => .ok .tuple | .map => .ok .map
  | .bytes => .ok .array | .nonFungibleGlobalId => .ok .tuple
  | .address => .ok .address | .namedAddress => .ok .address | .bucket => .ok .bucket | .proof => .ok .proof
  | .expression => .ok .expression | .blob => .ok .blob | .decimal => .ok .decimal | .preciseDecimal => .ok .preciseDecimal
  | .nonFungibleLocalId => .ok .nonFungibleLocalId | .addressReservation => .ok .addressReservation
  | .namedIntent => .error .namedIntentAsKind
  | .intent => .error .intentAsKind

def Wrap.kind : Wrap → VKind
  | .some | .ok | .err => .enum
  | .bytes => .bytes | .nonFungibleGlobalId => .nonFungibleGlobalId
  | .address => .address | .bucket => .bucket | .proof => .proof | .expression => .expression | .blob => .blob
  | .decimal => .decimal | .preciseDecimal => .preciseDecimal | .nonFungibleLocalId => .nonFungibleLocalId
  | .addressReservation => .addressReservation | .namedAddress => .namedAddress | .intent => .intent
  | .namedIntent => .namedIntent

/-- `ast::Value::value_kind` -/
def Value.kind : Value → VKind
  | .bool _ => .bool
  | .int ty _ => match ty with
    | .i8 => .i8 | .i16 => .i16 | .i32 => .i32 | .i64 => .i64 | .i128 => .i128
    | .u8 => .u8 | .u16 => .u16 | .u32 => .u32 | .u64 => .u64 | .u128 => .u128
  | .str _ => .string
  | .enum _ _ => .enum
  | .array _ _ _ => .array
  | .tuple _ => .tuple
  | .map _ _ _ _ _ => .map
  | .none => .enum
  | .wrap w _ _ => w.kind

/-- `hex::decode` -/
def hexDecode : List Char → Option (List Nat)
  | [] => some []
  | [_] => none
  | a :: b :: r =>
    if isAsciiHexDigit a ∧ isAsciiHexDigit b then (hexDecode r).map ((hexVal a * 16 + hexVal b) :: ·) else none

def splitAtColon : List Char → Option (List Char × List Char)
  | [] => none
  | c :: r => if c = ':' then some ([], r) else (splitAtColon r).map (fun (a, b) => (c :: a, b))

def kindMismatch (expected : Option VKind) (v : Value) : Bool :=
  match expected with
  | none => false
  | some k =>
    match k.sbor, v.kind.sbor with
    | .ok a, .ok b => a ≠ b
    | _, _ => true

mutual
/-- `generate_value(value, expected_value_kind, …)` -/
def genValue : Value → Option VKind → Except GErr MValue
  | v, expected =>
    if kindMismatch expected v then .error .unexpectedValueKind else
    match v with
    | .bool b => .ok (.bool b)
    | .int ty n => .ok (.int ty n)
    | .str s => .ok (.str s)
    | .tuple xs =>
      match genValues xs none with
      | .error e => .error e
      | .ok ys => .ok (.tuple ys)
    | .enum d xs =>
      match genValues xs none with
      | .error e => .error e
      | .ok ys => .ok (.enum d ys)
    | .array k _ xs =>
      match k.sbor with
      | .error e => .error e
      | .ok mk =>
        match genValues xs (some k) with
        | .error e => .error e
        | .ok ys => .ok (.array mk ys)
    | .map k _ w _ es =>
      match k.sbor, w.sbor with
      | .ok mk, .ok mw =>
        match genEntries es k w with
        | .error e => .error e
        | .ok fs => .ok (.map mk mw fs)
      | .error e, _ => .error e
      | _, .error e => .error e
    | .none => .ok (.enum Radix.Generated.C30.OPTION_VARIANT_NONE .nil)
    | .wrap w inner _ =>
      match w with
      | .some =>
        match genValue inner none with
        | .error e => .error e
        | .ok y => .ok (.enum Radix.Generated.C30.OPTION_VARIANT_SOME (.cons y .nil))
      | .ok =>
        match genValue inner none with
        | .error e => .error e
        | .ok y => .ok (.enum Radix.Generated.C30.RESULT_VARIANT_OK (.cons y .nil))
      | .err =>
        match genValue inner none with
        | .error e => .error e
        | .ok y => .ok (.enum Radix.Generated.C30.RESULT_VARIANT_ERR (.cons y .nil))
      | .bytes =>
        match inner with
        | .str s =>
          match hexDecode s with
          | some bs => .ok (.array .u8 (MValues.ofList (bs.map (fun (b : Nat) => MValue.int .u8 (Int.ofNat b)))))
          | none => .error .invalidBytesHex
        | _ => .error .invalidAstType
      | .nonFungibleGlobalId =>
        match inner with
        | .str s =>
          match splitAtColon s with
          | some (a, i) => .ok (.tuple (.cons (.custom .address a) (.cons (.custom .nonFungibleLocalId i) .nil)))
          | none => .error .invalidNonFungibleGlobalId
        | _ => .error .invalidAstType
      | .intent => .error .intentInValue
      | .namedIntent => .error .namedIntentInValue
      | w =>
        match inner with
        | .str s => .ok (.custom w s)
        | _ => .error .invalidAstType

/-- `generate_singletons` -/
def genValues : Values → Option VKind → Except GErr MValues
  | .nil, _ => .ok .nil
  | .cons v _ r, expected =>
    match genValue v expected with
    | .error e => .error e
    | .ok y =>
      match genValues r expected with
      | .error e => .error e
      | .ok ys => .ok (.cons y ys)

/-- `generate_kv_entries` -/
def genEntries : Entries → VKind → VKind → Except GErr MEntries
  | .nil, _, _ => .ok .nil
  | .cons k _ v _ r, kk, vk =>
    match genValue k (some kk), genValue v (some vk) with
    | .ok a, .ok b =>
      match genEntries r kk vk with
      | .error e => .error e
      | .ok fs => .ok (.cons a b fs)
    | .error e, _ => .error e
    | _, .error e => .error e
end

/-- the value-level compile pipeline: `tokenize`, `Parser::parse_value` (whole input), `generate_value` -/
inductive CompileOut
  | lexErr | parseErr | genErr
  | ok (v : MValue)

def compileValue (text : List Char) : CompileOut :=
  match tokenize text with
  | .error _ => .lexErr
  | .ok toks =>
    match toks with
    | [] => .parseErr
    | _ =>
      match parseValue (parserFuel toks) ⟨toks, Pos.zero, 0⟩ with
      | .error _ => .parseErr
      | .ok ((v, _), s) =>
        match s.rest with
        | _ :: _ => .parseErr
        | [] =>
          match genValue v none with
          | .error _ => .genErr
          | .ok mv => .ok mv

end Radix.Manifest
