/-
C38 — model of the abstract domain of
`radix-transactions/src/manifest/static_resource_movements/types.rs` (`ResourceBounds`,
`ResourceTakeAmount`) and of the bound arithmetic it uses from
`radix-common/src/data/manifest/model/manifest_resource_assertion.rs`
(`LowerBound::{add_from, take_amount, constrain_to, cmp}`, `UpperBound::{…}`).
Builds on the C37 model of `GeneralResourceConstraint` (`Model/ResConstraint.lean`): a
`ResourceBounds` is a wrapped `GeneralResourceConstraint` (`Bounds := General`).

Transcription notes
* `Decimal` = `Int` attos; `checked_add` = explicit range test against `[DMIN, DMAX]`.
  `lower - take` / `upper - take` are only evaluated under `take ≤ bound` with both non-negative, so
  the panicking `Sub` cannot overflow there (for a negative bound it could: outcome modelled by the
  same range test, `decimalOverflow`, never observed — bounds of valid constraints are ≥ 0).
* `IndexSet` = insertion-ordered `List Nat` (ids are naturals, as in C37); `insert` of a present
  element keeps the list; `extend`, `difference`, `intersection` keep the order of the receiver.
  The harness prints id sets sorted (set equality is what `IndexSet: Eq` means).
* A mutation that returns `Err` leaves the Rust value half-updated; the analyser aborts on every
  error, so the model returns only the error.
* `Ord::max(a, b)` returns `b` unless `a > b`; `Ord::min(a, b)` returns `a` unless `a > b`.
-/
import RadixModel.Model.ResConstraint

namespace Radix.ResBounds
open Radix.ResConstraint

/-- `StaticResourceMovementsError` (the variants the domain operations produce) -/
inductive BErr where
  | decimalAmountIsNegative
  | boundsInvalidForResourceKind
  | constraintBoundsInvalid
  | assertionCannotBeSatisfied
  | takeCannotBeSatisfied
  | decimalOverflow
  | duplicateNonFungibleId
  deriving DecidableEq, Repr

abbrev Bounds := General

def checkedAdd (a b : Int) : Option Int :=
  let s := a + b
  if s < DMIN ∨ s > DMAX then none else some s

/-! ### `LowerBound` / `UpperBound` arithmetic -/

/-- `LowerBound::add_from` -/
def lowerAdd : LowerBound → LowerBound → Except BErr LowerBound
  | .inclusive a, .inclusive b =>
    (match checkedAdd a b with | some s => .ok (.inclusive s) | none => .error .decimalOverflow)
  | .inclusive a, .nonZero => .ok (if a = 0 then .nonZero else .inclusive a)
  | .nonZero, .inclusive a => .ok (if a = 0 then .nonZero else .inclusive a)
  | .nonZero, .nonZero => .ok .nonZero

/-- `UpperBound::add_from` -/
def upperAdd : UpperBound → UpperBound → Except BErr UpperBound
  | .inclusive a, .inclusive b =>
    (match checkedAdd a b with | some s => .ok (.inclusive s) | none => .error .decimalOverflow)
  | _, .unbounded => .ok .unbounded
  | .unbounded, _ => .ok .unbounded

/-- `LowerBound::take_amount` -/
def lowerTake : LowerBound → Int → LowerBound
  | .inclusive l, t => if t > l then .inclusive 0 else .inclusive (l - t)
  | .nonZero, t => if t = 0 then .nonZero else .inclusive 0

/-- `UpperBound::take_amount` -/
def upperTake : UpperBound → Int → Except BErr UpperBound
  | .inclusive u, t => if t > u then .error .takeCannotBeSatisfied else .ok (.inclusive (u - t))
  | .unbounded, _ => .ok .unbounded

/-- `LowerBound: Ord` — `true` iff `a > b` -/
def lowerGt : LowerBound → LowerBound → Bool
  | .inclusive a, .inclusive b => decide (a > b)
  | .inclusive a, .nonZero => decide (a > 0)
  | .nonZero, .inclusive b => !(decide (b > 0))
  | .nonZero, .nonZero => false

/-- `LowerBound::constrain_to` = `max` -/
def lowerMax (a b : LowerBound) : LowerBound := if lowerGt a b then a else b

/-- `UpperBound: Ord` — `true` iff `a > b` -/
def upperGt : UpperBound → UpperBound → Bool
  | .inclusive a, .inclusive b => decide (a > b)
  | .inclusive _, .unbounded => false
  | .unbounded, .inclusive _ => true
  | .unbounded, .unbounded => false

/-- `UpperBound::constrain_to` = `min` -/
def upperMin (a b : UpperBound) : UpperBound := if upperGt a b then b else a

/-! ### `IndexSet` helpers -/

def insertIfAbsent (l : List Nat) (x : Nat) : List Nat := if l.contains x then l else l ++ [x]
def extend (l other : List Nat) : List Nat := other.foldl insertIfAbsent l
def difference (l other : List Nat) : List Nat := l.filter (fun x => !other.contains x)
def intersection (l other : List Nat) : List Nat := l.filter (fun x => other.contains x)
def dedup (l : List Nat) : List Nat := extend [] l

/-- the `for id in other.required_ids { if !insert(id) { return Err(Duplicate…) } }` loop -/
def insertAllNew : List Nat → List Nat → Except BErr (List Nat)
  | l, [] => .ok l
  | l, x :: rest => if l.contains x then .error .duplicateNonFungibleId else insertAllNew (l ++ [x]) rest

/-! ### constructors -/

def zero : Bounds := ⟨[], .inclusive 0, .inclusive 0, .allowlist []⟩
def zeroOrMore : Bounds := ⟨[], .inclusive 0, .unbounded, .any⟩
def nonZero : Bounds := ⟨[], .nonZero, .unbounded, .any⟩

def exactAmount (d : Int) : Except BErr Bounds :=
  if d < 0 then .error .decimalAmountIsNegative else .ok ⟨[], .inclusive d, .inclusive d, .any⟩

def atLeastAmount (d : Int) : Except BErr Bounds :=
  if d < 0 then .error .decimalAmountIsNegative else .ok ⟨[], .inclusive d, .unbounded, .any⟩

def exactNF (ids : List Nat) : Bounds :=
  let s := dedup ids
  ⟨s, .inclusive (fromLen s.length), .inclusive (fromLen s.length), .allowlist s⟩

def atLeastNF (ids : List Nat) : Bounds :=
  let s := dedup ids
  ⟨s, .inclusive (fromLen s.length), .unbounded, .any⟩

/-- `ResourceBounds::new_for_manifest_constraint` -/
def ofConstraint : Constraint → Except BErr Bounds
  | .nonZeroAmount => .ok nonZero
  | .exactAmount d => exactAmount d
  | .atLeastAmount d => atLeastAmount d
  | .exactNF ids => .ok (exactNF ids)
  | .atLeastNF ids => .ok (atLeastNF ids)
  | .general g => if !g.validIndependent then .error .constraintBoundsInvalid else .ok g.normalize

/-- `ResourceBounds::is_valid_for(resource)` (only `is_fungible()` is read from the address) -/
def validFor (b : Bounds) (fungible : Bool) : Bool :=
  if fungible then b.validFungible else b.validNonFungible

/-- `is_zero` -/
def isZero (b : Bounds) : Bool := b.upper == .inclusive 0

/-! ### operations -/

/-- `ResourceBounds::mut_add` -/
def add (this other : Bounds) : Except BErr Bounds :=
  match lowerAdd this.lower other.lower with
  | .error e => .error e
  | .ok lo =>
    match upperAdd this.upper other.upper with
    | .error e => .error e
    | .ok up =>
      match insertAllNew this.required other.required with
      | .error e => .error e
      | .ok req =>
        let al : AllowedIds := match this.allowed, other.allowed with
          | .any, _ => .any
          | .allowlist _, .any => .any
          | .allowlist a, .allowlist b => .allowlist (extend a b)
        .ok (General.normalize ⟨req, lo, up, al⟩)

/-- `ResourceTakeAmount` -/
inductive TakeAmt where
  | amount (d : Int)
  | ids (l : List Nat)
  | all
  deriving DecidableEq, Repr

/-- `ResourceBounds::mut_take`: `(remaining, taken)` -/
def take (this : Bounds) : TakeAmt → Except BErr (Bounds × Bounds)
  | .amount t =>
    if t < 0 then .error .decimalAmountIsNegative
    else
      let lo := lowerTake this.lower t
      match upperTake this.upper t with
      | .error e => .error e
      | .ok up =>
        let req := if t > 0 then [] else this.required
        let rem := General.normalize ⟨req, lo, up, this.allowed⟩
        match exactAmount t with
        | .error e => .error e
        | .ok taken => .ok (rem, taken)
  | .ids raw =>
    let taken := dedup raw          -- `ResourceTakeAmount::exact_non_fungibles` collects into an `IndexSet`
    let t := fromLen taken.length
    let lo := lowerTake this.lower t
    match upperTake this.upper t with
    | .error e => .error e
    | .ok up =>
      let req := difference this.required taken
      let alr : Except BErr AllowedIds := match this.allowed with
        | .allowlist a =>
          if !(isSubset taken a) then .error .takeCannotBeSatisfied else .ok (.allowlist (difference a taken))
        | .any => .ok .any
      match alr with
      | .error e => .error e
      | .ok al =>
        if fromLen req.length > lo.equiv then .error .takeCannotBeSatisfied
        else .ok (General.normalize ⟨req, lo, up, al⟩, exactNF taken)
  | .all => .ok (zero, this)

/-- `ResourceBounds::mut_handle_assertion` -/
def handleAssertion (this a : Bounds) : Except BErr Bounds :=
  let lo := lowerMax this.lower a.lower
  let up := upperMin this.upper a.upper
  let alr : Except BErr AllowedIds := match a.allowed with
    | .allowlist al =>
      if !(isSubset this.required al) then .error .assertionCannotBeSatisfied
      else match this.allowed with
        | .any => .ok (.allowlist al)
        | .allowlist x => .ok (.allowlist (intersection x al))
    | .any => .ok this.allowed
  match alr with
  | .error e => .error e
  | .ok al =>
    let req := extend this.required a.required
    if lo.equiv > up.equiv then .error .assertionCannotBeSatisfied
    else
      let tooMany : Bool := match al with
        | .allowlist x => decide (up.equiv > fromLen x.length)
        | .any => false
      if tooMany then .error .assertionCannotBeSatisfied
      else .ok (General.normalize ⟨req, lo, up, al⟩)

/-! ### the per-resource wrappers of `TrackedResources` (kind checks) -/

/-- `TrackedResources::mut_add_resource` on the entry of one resource -/
def addResource (fungible : Bool) (this amount : Bounds) : Except BErr Bounds :=
  if !(validFor amount fungible) then .error .boundsInvalidForResourceKind else add this amount

/-- `TrackedResources::mut_take_resource` on the entry of one resource -/
def takeResource (fungible : Bool) (this : Bounds) (t : TakeAmt) : Except BErr (Bounds × Bounds) :=
  let aligns : Bool := match t with | .ids _ => false | _ => true
  if fungible && !aligns then .error .boundsInvalidForResourceKind else take this t

/-- `TrackedResources::handle_resource_assertion` on the entry of one resource -/
def assertResource (fungible : Bool) (this a : Bounds) : Except BErr Bounds :=
  if !(validFor a fungible) then .error .boundsInvalidForResourceKind else handleAssertion this a

end Radix.ResBounds
