/-
C23 — model of the schema comparison kernel.

Transcribed from
  sbor/src/schema/schema_comparison/schema_comparison_kernel.rs
      (`compare_using_fixed_type_roots`, `compare_using_named_type_roots`, `deep_compare_root_types`,
       `run_single_type_comparison`, `compare_types_internal`, `compare_type_kind_internal`,
       `compare_type_metadata_internal`, `compare_type_validation_internal`,
       `mark_root_reachable_*`, `check_for_completeness`, `visit_type_kind_children`)
  sbor/src/schema/schema_comparison/schema_comparison_settings.rs   (`SchemaComparisonSettings`)
  sbor/src/schema/schema_comparison/schema_comparison_result.rs     (`NameChange`, `ValidationChange::combine`,
                                                                      `SchemaComparisonResult::is_valid`)
  sbor/src/schema/type_data/type_validation.rs  (`NumericValidation::compare`, `LengthValidation::compare`)
  radix-common/src/data/scrypto/custom_schema.rs (`ReferenceValidation::compare`, `OwnValidation::compare`)

Transcription notes
* The kernel accumulates a list of errors and `is_valid` is `errors.is_empty()`; the model carries the
  single bit "no error so far". Error *locations* are not modelled.
* The kernel `panic!`s / `expect`s on schemas that are not valid (missing type data, missing enum
  variant metadata): outcome `.panic`.
* Work lists are LIFO vectors: head of the list = top of the stack. The loops take fuel; running out
  of fuel is the explicit outcome `.outOfFuel` (never a verdict). `pairFuel`/`reachFuel` are the
  amounts the driver uses.
* `variant_name_changes` is never read by the kernel (the variant name test uses `field_name_changes`);
  transcribed as is.
-/
import RadixModel.Model.SborSchema

namespace Radix.Schema
open Radix.Sbor

/-- `NameChangeRule` -/
inductive NameRule where
  | disallowAllChanges | allowAddingNames | allowAllChanges
  deriving DecidableEq, Repr

/-- `SchemaComparisonSettings` -/
structure Settings where
  allowRootUnreachableBase : Bool
  allowRootUnreachableCompared : Bool
  allowComparedMoreRoots : Bool
  allowNewEnumVariants : Bool
  allowReplacingWithAny : Bool
  typeNameChanges : NameRule
  fieldNameChanges : NameRule
  variantNameChanges : NameRule
  allowValidationWeakening : Bool
  deriving DecidableEq, Repr

/-- `SchemaComparisonSettings::require_equality()` -/
def Settings.requireEquality : Settings :=
  ⟨false, false, false, false, false, .disallowAllChanges, .disallowAllChanges, .disallowAllChanges, false⟩

/-- `SchemaComparisonSettings::allow_extension()` -/
def Settings.allowExtension : Settings :=
  ⟨false, false, true, true, true, .disallowAllChanges, .disallowAllChanges, .disallowAllChanges, true⟩

/-- `ValidationChange` -/
inductive VChange where
  | unchanged | strengthened | weakened | incomparable
  deriving DecidableEq, Repr

/-- `ValidationChange::combine` -/
def VChange.combine : VChange → VChange → VChange
  | .incomparable, _ => .incomparable
  | _, .incomparable => .incomparable
  | .unchanged, o => o
  | o, .unchanged => o
  | .strengthened, .strengthened => .strengthened
  | .strengthened, .weakened => .incomparable
  | .weakened, .strengthened => .incomparable
  | .weakened, .weakened => .weakened

/-- `NumericValidation::compare` on effective bounds. -/
def boundsCompare (bMin bMax cMin cMax : Int) : VChange :=
  let minChange : VChange :=
    if cMin < bMin then .weakened else if cMin = bMin then .unchanged else .strengthened
  let maxChange : VChange :=
    if cMax < bMax then .strengthened else if cMax = bMax then .unchanged else .weakened
  minChange.combine maxChange

def numCompare (k : IntK) (b c : Bounds) : VChange :=
  boundsCompare (effMin k b) (effMax k b) (effMin k c) (effMax k c)

/-- `LengthValidation::compare` (through `NumericValidation::<u32>`). -/
def lenCompare (b c : Bounds) : VChange :=
  boundsCompare (lenMin b) (lenMax b) (lenMin c) (lenMax c)

def RefV.requiresGlobal : RefV → Bool
  | .isGlobal | .isGlobalPackage | .isGlobalComponent | .isGlobalResourceManager | .isGlobalTyped _ _ => true
  | .isInternal | .isInternalTyped _ _ => false

def RefV.requiresInternal : RefV → Bool
  | .isInternal | .isInternalTyped _ _ => true
  | _ => false

/-- `ReferenceValidation::compare` -/
def refCompare (b c : RefV) : VChange :=
  if b = c then .unchanged
  else if b = .isGlobal ∧ c.requiresGlobal then .strengthened
  else if c = .isGlobal ∧ b.requiresGlobal then .weakened
  else if b = .isInternal ∧ c.requiresInternal then .strengthened
  else if c = .isInternal ∧ b.requiresInternal then .weakened
  else .incomparable

/-- `OwnValidation::compare` -/
def ownCompare (b c : OwnV) : VChange :=
  if b = c then .unchanged else .incomparable

/-- the `match` of `compare_type_validation_internal` -/
def validationChange (b c : TV) : VChange :=
  match b, c with
  | .none, .none => .unchanged
  | _, .none => .weakened
  | .none, _ => .strengthened
  | .num k x, .num k' y => if k = k' then numCompare k x y else .incomparable
  | .string x, .string y => lenCompare x y
  | .array x, .array y => lenCompare x y
  | .map x, .map y => lenCompare x y
  | .ref x, .ref y => refCompare x y
  | .ref _, .own _ => .incomparable
  | .own _, .ref _ => .incomparable
  | .own x, .own y => ownCompare x y
  | _, _ => .incomparable

/-- `compare_type_validation_internal`: `true` = no error. -/
def compareValidation (st : Settings) (b c : TV) : Bool :=
  match validationChange b c with
  | .unchanged => true
  | .strengthened => false
  | .weakened => st.allowValidationWeakening
  | .incomparable => false

/-- `NameChange::of_changed_option(from, to).validate(rule).is_ok()` -/
def nameChangeOk (rule : NameRule) (old new : Option Nat) : Bool :=
  match old, new with
  | some a, some b =>
    if a = b then true
    else (match rule with | .allowAllChanges => true | _ => false)
  | some _, none => (match rule with | .allowAllChanges => true | _ => false)
  | none, some _ => (match rule with | .disallowAllChanges => false | _ => true)
  | none, none => true

/-- `visit_type_kind_children` -/
def childrenOf : TypeKind → List TypeId
  | .array e => [e]
  | .tuple fs => fs
  | .enum vs => vs.flatMap (fun v => v.2)
  | .map k v => [k, v]
  | _ => []

/-- The loop over base variants of `compare_type_kind_internal`: (no field-count error, child pairs). -/
def enumPairs (cv : List (Nat × List TypeId)) : List (Nat × List TypeId) → Bool × List (TypeId × TypeId)
  | [] => (true, [])
  | (d, bf) :: rest =>
    let (okR, chR) := enumPairs cv rest
    match alookup d cv with
    | none => (okR, chR)
    | some cf =>
      if bf.length ≠ cf.length then (false, chR)
      else (okR, bf.zip cf ++ chR)

def hasKey {α : Type} (k : Nat) (l : List (Nat × α)) : Bool := (alookup k l).isSome

/-- `compare_type_kind_internal`: (no error, children needing checking). -/
def compareKind (env : Env) (st : Settings) (b c : TypeKind) : Bool × List (TypeId × TypeId) :=
  if c = .any ∧ b ≠ .any ∧ st.allowReplacingWithAny = true then
    (true, (childrenOf b).map (fun t => (t, anyTid env)))
  else
    match b with
    | .array be =>
      (match c with
       | .array ce => (true, [(be, ce)])
       | _ => (false, []))
    | .tuple bf =>
      (match c with
       | .tuple cf => if bf.length ≠ cf.length then (false, []) else (true, bf.zip cf)
       | _ => (false, []))
    | .enum bv =>
      (match c with
       | .enum cv =>
         let baseMissingInCompared := bv.filter (fun v => !hasKey v.1 cv)
         let comparedMissingInBase := cv.filter (fun v => !hasKey v.1 bv)
         let variantsOk :=
           !(!baseMissingInCompared.isEmpty || (!comparedMissingInBase.isEmpty && !st.allowNewEnumVariants))
         let (countsOk, ch) := enumPairs cv bv
         (variantsOk && countsOk, ch)
       | _ => (false, []))
    | .map bk bvl =>
      (match c with
       | .map ck cvl => (true, [(bk, ck), (bvl, cvl)])
       | _ => (false, []))
    | _ => (decide (c = b), [])

/-- `TypeMetadata::get_field_name` -/
def Meta.fieldName (m : Meta) (i : Nat) : Option Nat :=
  match m.children with
  | .fields ns => ns[i]?
  | _ => none

def VarMeta.fieldName (m : VarMeta) (i : Nat) : Option Nat :=
  match m.fields with
  | some ns => ns[i]?
  | none => none

/-- `TypeMetadata::get_enum_variant_data` -/
def Meta.variant (m : Meta) (d : Nat) : Option VarMeta :=
  match m.children with
  | .variants vs => alookup d vs
  | _ => none

/-- The variant loop of `compare_type_metadata_internal`; `none` = one of the two `expect`s panicked. -/
def metaVariants (st : Settings) (bm cm : Meta) : List (Nat × List TypeId) → Option Bool
  | [] => some true
  | (d, bts) :: rest =>
    match bm.variant d, cm.variant d with
    | some bvm, some cvm =>
      let nameOk := nameChangeOk st.fieldNameChanges bvm.name cvm.name
      let fieldsOk := (List.range bts.length).all
        (fun i => nameChangeOk st.fieldNameChanges (bvm.fieldName i) (cvm.fieldName i))
      (match metaVariants st bm cm rest with
       | none => none
       | some r => some (nameOk && fieldsOk && r))
    | _, _ => none

/-- `SchemaComparisonMetadataSettings::checks_required` -/
def Settings.metadataChecksRequired (st : Settings) : Bool :=
  !(st.typeNameChanges = .allowAllChanges ∧ st.fieldNameChanges = .allowAllChanges
      ∧ st.variantNameChanges = .allowAllChanges)

/-- `compare_type_metadata_internal`: `none` = panic, `some true` = no error. -/
def compareMeta (st : Settings) (bk : TypeKind) (bm cm : Meta) : Option Bool :=
  if !st.metadataChecksRequired then some true
  else
    let typeNameOk := nameChangeOk st.typeNameChanges bm.name cm.name
    match bk with
    | .tuple fts =>
      some (typeNameOk && (List.range fts.length).all
        (fun i => nameChangeOk st.fieldNameChanges (bm.fieldName i) (cm.fieldName i)))
    | .enum vs =>
      (match metaVariants st bm cm vs with
       | none => none
       | some r => some (typeNameOk && r))
    | _ => some typeNameOk

/-- Outcome of a kernel run. -/
inductive Outcome (α : Type) where
  | done (a : α)
  | panic
  | outOfFuel
  deriving Repr

/-- "Quick short-circuit when comparing equal well-known types" -/
def sameWk : TypeId → TypeId → Bool
  | .wk x, .wk y => decide (x = y)
  | _, _ => false

/-- `compare_types_internal`: shallow status (`true` = Pass) and the child checks required. -/
def shallow (env : Env) (B C : Schema) (st : Settings) (b c : TypeId) : Option (Bool × List (TypeId × TypeId)) :=
  if sameWk b c then some (true, [])
  else
    match resolveData env B b, resolveData env C c with
    | some bd, some cd =>
      let (kindOk, ch) := compareKind env st bd.kind cd.kind
      if !kindOk then some (false, ch)
      else
        (match compareMeta st bd.kind bd.md cd.md with
         | none => none
         | some metaOk => some (metaOk && compareValidation st bd.validation cd.validation, ch))
    | _, _ => none

abbrev Pair := TypeId × TypeId

/-- `while let Some(request) = work_list.pop() { run_single_type_comparison(request) }`
state: work list, cache keys, "no error so far". -/
def runPairs (env : Env) (B C : Schema) (st : Settings) :
    Nat → List Pair → List Pair → Bool → Outcome (List Pair × Bool)
  | 0, _, _, _ => .outOfFuel
  | _ + 1, [], cache, ok => .done (cache, ok)
  | fuel + 1, p :: wl, cache, ok =>
    if cache.contains p then runPairs env B C st fuel wl cache ok
    else
      match shallow env B C st p.1 p.2 with
      | none => .panic
      | some (pass, ch) =>
        let fresh := ch.filter (fun q => !cache.contains q)
        runPairs env B C st fuel (fresh.reverse ++ wl) (p :: cache) (ok && pass)

def localChildren (k : TypeKind) : List Nat :=
  (childrenOf k).filterMap (fun t => match t with | .loc i => some i | .wk _ => none)

/-- `mark_root_reachable_*_types` work loop. -/
def runReach (S : Schema) : Nat → List Nat → List Nat → Outcome (List Nat)
  | 0, _, _ => .outOfFuel
  | _ + 1, [], seen => .done seen
  | fuel + 1, i :: wl, seen =>
    if seen.contains i then runReach S fuel wl seen
    else
      match S.kinds[i]? with
      | none => .panic
      | some k => runReach S fuel ((localChildren k).reverse ++ wl) (i :: seen)

def maxLinks (S : Schema) : Nat := S.kinds.foldl (fun m k => max m (childrenOf k).length) 0

/-- Fuel for the pair loop: every pop either hits the cache or adds a new key to it; keys range
over (local or well-known ids of base) × (local or well-known ids of compared). -/
def pairFuel (B C : Schema) : Nat :=
  (B.kinds.length + 257) * (C.kinds.length + 257) * (maxLinks B + 2) + 2

def totalLinks (S : Schema) : Nat := S.kinds.foldl (fun m k => m + (childrenOf k).length) 0

def reachFuel (S : Schema) : Nat := totalLinks S + S.kinds.length + 2

def rootLocal : TypeId → List Nat
  | .loc i => [i]
  | .wk _ => []

structure KState where
  cache : List Pair
  ok : Bool
  reachB : List Nat
  reachC : List Nat

/-- One iteration of the loop of `compare_using_fixed_type_roots`. -/
def rootStep (env : Env) (B C : Schema) (st : Settings) (s : KState) (root : Pair) : Outcome KState :=
  match runPairs env B C st (pairFuel B C) [root] s.cache s.ok with
  | .panic => .panic
  | .outOfFuel => .outOfFuel
  | .done (cache, ok) =>
    match runReach B (reachFuel B) (rootLocal root.1) s.reachB with
    | .panic => .panic
    | .outOfFuel => .outOfFuel
    | .done rb =>
      match runReach C (reachFuel C) (rootLocal root.2) s.reachC with
      | .panic => .panic
      | .outOfFuel => .outOfFuel
      | .done rc => .done ⟨cache, ok, rb, rc⟩

def rootsLoop (env : Env) (B C : Schema) (st : Settings) : KState → List Pair → Outcome KState
  | s, [] => .done s
  | s, r :: rs =>
    match rootStep env B C st s r with
    | .panic => .panic
    | .outOfFuel => .outOfFuel
    | .done s' => rootsLoop env B C st s' rs

/-- `check_for_completeness` for one side: `true` = no error. -/
def completeSide (allow : Bool) (S : Schema) (reach : List Nat) : Bool :=
  if !allow && decide (reach.length < S.metas.length) then
    (List.range S.metas.length).all (fun i => reach.contains i)
  else true

/-- `compare_using_fixed_type_roots(..).is_valid()` -/
def compareFixedRoots (env : Env) (B C : Schema) (st : Settings) (roots : List Pair) : Outcome Bool :=
  match rootsLoop env B C st ⟨[], true, [], []⟩ roots with
  | .panic => .panic
  | .outOfFuel => .outOfFuel
  | .done s =>
    .done (s.ok && completeSide st.allowRootUnreachableBase B s.reachB
                && completeSide st.allowRootUnreachableCompared C s.reachC)

/-- `compare_single_type_schemas(settings, base, compared).is_valid()` -/
def compareSingle (env : Env) (B C : Schema) (st : Settings) (b c : TypeId) : Outcome Bool :=
  compareFixedRoots env B C st [(b, c)]

/-! ### Named roots (`TypeCollectionSchema`) -/

/-- First loop of `compare_using_named_type_roots` (over the base roots). -/
def namedBaseLoop (env : Env) (B C : Schema) (st : Settings) (croots : List (Nat × TypeId)) :
    KState → List (Nat × TypeId) → Outcome KState
  | s, [] => .done s
  | s, (name, bt) :: rest =>
    match alookup name croots with
    | some ct =>
      (match rootStep env B C st s (bt, ct) with
       | .panic => .panic
       | .outOfFuel => .outOfFuel
       | .done s' => namedBaseLoop env B C st croots s' rest)
    | none =>
      (match runReach B (reachFuel B) (rootLocal bt) s.reachB with
       | .panic => .panic
       | .outOfFuel => .outOfFuel
       | .done rb => namedBaseLoop env B C st croots { s with ok := false, reachB := rb } rest)

/-- Second loop (compared roots that have no base root of the same name). -/
def namedComparedLoop (C : Schema) (st : Settings) (broots : List (Nat × TypeId)) :
    KState → List (Nat × TypeId) → Outcome KState
  | s, [] => .done s
  | s, (name, ct) :: rest =>
    if hasKey name broots then namedComparedLoop C st broots s rest
    else
      match runReach C (reachFuel C) (rootLocal ct) s.reachC with
      | .panic => .panic
      | .outOfFuel => .outOfFuel
      | .done rc =>
        namedComparedLoop C st broots
          { s with ok := s.ok && st.allowComparedMoreRoots, reachC := rc } rest

/-- `compare_type_collection_schemas(settings, base, compared).is_valid()` -/
def compareNamedRoots (env : Env) (B C : Schema) (st : Settings)
    (broots croots : List (Nat × TypeId)) : Outcome Bool :=
  match namedBaseLoop env B C st croots ⟨[], true, [], []⟩ broots with
  | .panic => .panic
  | .outOfFuel => .outOfFuel
  | .done s =>
    match namedComparedLoop C st broots s croots with
    | .panic => .panic
    | .outOfFuel => .outOfFuel
    | .done s' =>
      .done (s'.ok && completeSide st.allowRootUnreachableBase B s'.reachB
                   && completeSide st.allowRootUnreachableCompared C s'.reachC)

end Radix.Schema
