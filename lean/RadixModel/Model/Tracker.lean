/-
C07 — model of the replay-protection store ("transaction tracker").

Transcribed code
* `radix-engine/src/blueprints/transaction_tracker/package.rs`
    `TransactionTrackerSubstateV1::partition_for_expiry_epoch`, `::advance`
* `radix-engine/src/system/system_callback.rs`
    `validate_epoch_range`, `validate_intent_hash_uncosted` (boot-time checks in `System::init`),
    `update_transaction_tracker` (called from `create_commit_receipt`)
* `radix-engine/src/transaction/transaction_receipt.rs`  `Nullification::of_intent`

Transcription notes
* `u8`/`u64` arithmetic is modelled on `Nat` with every operation that can overflow in the real
  code guarded by an explicit `panic` outcome (the harness, like debug/test builds of the engine,
  is compiled with overflow checks; `Props/C07` proves that no guard fires for well-formed trackers).
* `assert!`s and `.expect(..)`s are explicit `panic` outcomes.
* The per-partition key-value stores are a total function `partition → hash → Option Status`
  (an absent substate and a `KeyValueEntrySubstate { value: None }` are observationally the same for
  `validate_intent_hash_uncosted`).
* Hashes are abstract naturals (`IntentHash::as_hash`; transaction-intent and subintent hashes live
  in the same key space exactly as in the real store).
* The "simulated" nullifications used only by preview are not modelled (preview never commits).
* The deferred `CheckIntentValidity` cost applied between two nullification checks is not modelled
  (it cannot fail at boot: deferred costs are only recorded).
-/
namespace Radix.Tracker

def U64MAX : Nat := 18446744073709551615
def U8MAX : Nat := 255

/-- `TransactionTrackerSubstateV1` -/
structure Tracker where
  startEpoch : Nat
  startPartition : Nat
  /-- `partition_range_start_inclusive` -/
  rs : Nat
  /-- `partition_range_end_inclusive` -/
  re : Nat
  /-- `epochs_per_partition` -/
  epp : Nat
  deriving DecidableEq, Repr

/-- Outcome of `partition_for_expiry_epoch`: arithmetic overflow / failed `assert!` (`panic`),
`None`, `Some(p)`. -/
inductive PRes where
  | panic
  | none
  | some (p : Nat)
  deriving DecidableEq, Repr

/-- `TransactionTrackerSubstateV1::partition_for_expiry_epoch` -/
def partitionForExpiry (t : Tracker) (epoch : Nat) : PRes :=
  -- `let num_partitions = self.partition_range_end_inclusive - self.partition_range_start_inclusive + 1;` (u8)
  if t.re < t.rs then .panic
  else if t.re - t.rs + 1 > U8MAX then .panic
  else
    let n := t.re - t.rs + 1
    -- `self.start_epoch + num_partitions as u64 * self.epochs_per_partition` (u64)
    if n * t.epp > U64MAX then .panic
    else if t.startEpoch + n * t.epp > U64MAX then .panic
    else if epoch < t.startEpoch ∨ epoch ≥ t.startEpoch + n * t.epp then .none
    else
      -- here `epp > 0` (otherwise the window is empty), so the division cannot trap
      let pn0 := t.startPartition + (epoch - t.startEpoch) / t.epp
      -- `partition_number -= num_partitions` : `pn0 > re ≥ n - 1`, so this never underflows
      let pn := if pn0 > t.re then pn0 - n else pn0
      -- the two `assert!`s
      if pn < t.rs ∨ pn > t.re then .panic else .some pn

/-- `TransactionTrackerSubstateV1::advance`; `none` = overflow panic. Returns the new tracker and
the old start partition. -/
def advance (t : Tracker) : Option (Tracker × Nat) :=
  if t.startEpoch + t.epp > U64MAX then none
  else if t.startPartition = t.re then
    some ({ t with startEpoch := t.startEpoch + t.epp, startPartition := t.rs }, t.startPartition)
  else if t.startPartition + 1 > U8MAX then none
  else
    some ({ t with startEpoch := t.startEpoch + t.epp, startPartition := t.startPartition + 1 }, t.startPartition)

/-! ### The store and the engine-level transitions -/

/-- `TransactionStatusV1` -/
inductive Status where
  | success
  | failure
  | cancelled
  deriving DecidableEq, Repr

/-- partition number → intent hash → status -/
abbrev Store := Nat → Nat → Option Status

def Store.empty : Store := fun _ _ => none

def Store.set (st : Store) (p h : Nat) (s : Status) : Store :=
  fun p' h' => if p' = p ∧ h' = h then some s else st p' h'

/-- `track.delete_partition(TRANSACTION_TRACKER, p)` -/
def Store.deletePartition (st : Store) (p : Nat) : Store :=
  fun p' h' => if p' = p then none else st p' h'

structure Ledger where
  tracker : Tracker
  store : Store
  /-- the epoch held by the consensus manager -/
  epoch : Nat

/-- which kind of intent a nullification belongs to -/
inductive Kind where
  | tx
  | sub
  deriving DecidableEq, Repr

/-- `IntentHashNullification::{TransactionIntent, Subintent}` -/
structure Nullif where
  kind : Kind
  hash : Nat
  expiry : Nat
  deriving DecidableEq, Repr

/-- the part of an `ExecutableTransaction` the replay protection reads -/
structure Tx where
  /-- `overall_epoch_range()` : `(start_epoch_inclusive, end_epoch_exclusive)` -/
  range : Option (Nat × Nat)
  /-- `intent_hash_nullifications()` -/
  nulls : List Nullif
  deriving DecidableEq, Repr

inductive Reject where
  | notYetValid (validFrom cur : Nat)
  | noLongerValid (validUntil cur : Nat)
  | prevCommitted (h : Nat)
  | prevCancelled (h : Nat)
  deriving DecidableEq, Repr

inductive Boot where
  | ok
  | reject (r : Reject)
  | panic
  deriving DecidableEq, Repr

/-- `validate_epoch_range` -/
def validateEpochRange (cur s e : Nat) : Option Reject :=
  if cur < s then some (.notYetValid s cur)
  else if cur ≥ e then
    -- `end_epoch_exclusive.previous().unwrap_or(Epoch::zero())`
    some (.noLongerValid (if e = 0 then 0 else e - 1) cur)
  else none

/-- `validate_intent_hash_uncosted` -/
def validateIntentHash (l : Ledger) (h expiry : Nat) : Boot :=
  match partitionForExpiry l.tracker expiry with
  | .panic => .panic
  | .none => .panic -- `.expect("Transaction tracker should cover all valid epoch ranges")`
  | .some p =>
    match l.store p h with
    | some .success => .reject (.prevCommitted h)
    | some .failure => .reject (.prevCommitted h)
    | some .cancelled => .reject (.prevCancelled h)
    | none => .ok

/-- the loop over `executable.intent_hash_nullifications()` in `System::init` -/
def bootNulls (l : Ledger) : List Nullif → Boot
  | [] => .ok
  | n :: ns =>
    match validateIntentHash l n.hash n.expiry with
    | .ok => bootNulls l ns
    | r => r

/-- the runtime validation in `System::init` (epoch range, then nullifications in order) -/
def boot (l : Ledger) (tx : Tx) : Boot :=
  match tx.range with
  | some (s, e) =>
    match validateEpochRange l.epoch s e with
    | some r => .reject r
    | none => bootNulls l tx.nulls
  | none => bootNulls l tx.nulls

/-- the loop of `update_transaction_tracker` over the nullifications
(`Nullification::of_intent`: subintents are recorded only on success); `none` = panic -/
def writeNulls (t : Tracker) (succ : Bool) : Store → List Nullif → Option Store
  | st, [] => some st
  | st, n :: ns =>
    if n.kind = .sub ∧ succ = false then writeNulls t succ st ns
    else
      match partitionForExpiry t n.expiry with
      | .some p => writeNulls t succ (st.set p n.hash (if succ then .success else .failure)) ns
      | _ => none

/-- `update_transaction_tracker` (+ the epoch as read back at commit); `none` = panic -/
def commit (l : Ledger) (nextEpoch : Nat) (ns : List Nullif) (succ : Bool) : Option Ledger :=
  match writeNulls l.tracker succ l.store ns with
  | none => none
  | some st =>
    -- `transaction_tracker.start_epoch + transaction_tracker.epochs_per_partition`
    if l.tracker.startEpoch + l.tracker.epp > U64MAX then none
    else if nextEpoch ≥ l.tracker.startEpoch + l.tracker.epp then
      match advance l.tracker with
      | none => none
      | some (t', old) => some { tracker := t', store := st.deletePartition old, epoch := nextEpoch }
    else some { tracker := l.tracker, store := st, epoch := nextEpoch }

/-- One event of a ledger history. -/
inductive Step where
  /-- a user transaction; it commits as success (`true`) or failure (`false`) if it boots -/
  | user (tx : Tx) (succ : Bool)
  /-- a committed system transaction (round update): no epoch range, no nullifications; the
  epoch it leaves behind is `nextEpoch` -/
  | system (nextEpoch : Nat)
  /-- test-only: the epoch substate is overwritten without any commit (`set_current_epoch`) -/
  | jump (epoch : Nat)
  deriving DecidableEq, Repr

inductive StepRes where
  | rejected (r : Reject)
  | committed (l : Ledger)
  | panic

def step (l : Ledger) : Step → StepRes
  | .user tx succ =>
    match boot l tx with
    | .ok =>
      match commit l l.epoch tx.nulls succ with
      | some l' => .committed l'
      | none => .panic
    | .reject r => .rejected r
    | .panic => .panic
  | .system e' =>
    match commit l e' [] true with
    | some l' => .committed l'
    | none => .panic
  | .jump e' => .committed { l with epoch := e' }

/-- the ledger after a step (unchanged when the transaction is rejected; `none` on panic) -/
def next (l : Ledger) (s : Step) : Option Ledger :=
  match step l s with
  | .rejected _ => some l
  | .committed l' => some l'
  | .panic => none

def run (l : Ledger) : List Step → Option Ledger
  | [] => some l
  | s :: ss =>
    match next l s with
    | some l' => run l' ss
    | none => none

/-- `TransactionTrackerBlueprint::create` at epoch `e` with the package constants -/
def Tracker.create (e rs re epp : Nat) : Tracker :=
  { startEpoch := e, startPartition := rs, rs := rs, re := re, epp := epp }

end Radix.Tracker
