/-
C15 / C19 — model of the RocksDB-backed substate stores
(`radix-substate-store-impls/src/rocks_db.rs`, `rocks_db_with_merkle_tree/mod.rs`) and of the
in-memory store (`memory_db.rs`).

* RocksDB (one column family) is an ordered map from byte strings to byte strings with
  `put`, `delete`, `delete_range [lo, hi)` and forward iteration from a key — trusted.
  It is modelled as a write log (newest first) whose reads take the newest entry of a key
  and whose iteration sorts the live keys; this needs no sortedness invariant.
* Bytes are modelled as `Nat`s (only order and equality of bytes matter here).
* `encodeKey` / `decodeKey` transcribe `encode_to_rocksdb_bytes` / `decode_from_rocksdb_bytes`.
* The in-memory store (`BTreeMap<DbPartitionKey, BTreeMap<DbSortKey, _>>`) is the specification:
  a function `node → partition → sort key → Option value`.
-/
namespace Radix.Stores

abbrev Bytes := List Nat

/-- lexicographic `<` on byte strings (Rust `Vec<u8>` / RocksDB bytewise comparator order) -/
def ltB : Bytes → Bytes → Bool
  | [], [] => false
  | [], _ :: _ => true
  | _ :: _, [] => false
  | a :: as, b :: bs => decide (a < b) || (a == b && ltB as bs)

def leB (a b : Bytes) : Bool := !ltB b a

def be32 (n : Nat) : Bytes := [n / 16777216 % 256, n / 65536 % 256, n / 256 % 256, n % 256]

/-- `encode_to_rocksdb_bytes` -/
def encodeKey (node : Bytes) (pn : Nat) (sk : Bytes) : Bytes := be32 node.length ++ node ++ [pn] ++ sk

/-- `decode_from_rocksdb_bytes`; `none` = the slice indexing of the real code panics -/
def decodeKey : Bytes → Option (Bytes × Nat × Bytes)
  | a :: b :: c :: d :: rest =>
    -- literals first: `Nat.mul` recurses on its second argument, so `a * 16777216` would make `whnf` unfold 2^24 times
    let len := 16777216 * a + 65536 * b + 256 * c + d
    match rest.drop len with
    | pn :: sk => if len ≤ rest.length then some (rest.take len, pn, sk) else none
    | [] => none
  | _ => none

/-! ### the ordered byte-key map (one RocksDB column family) -/

/-- write log, newest first; `none` = tombstone -/
abbrev Flat := List (Bytes × Option Bytes)

def fget (m : Flat) (k : Bytes) : Option Bytes :=
  match m.find? (fun e => e.1 == k) with
  | some (_, v) => v
  | none => none

def fput (m : Flat) (k v : Bytes) : Flat := (k, some v) :: m
def fdel (m : Flat) (k : Bytes) : Flat := (k, none) :: m
def inRange (lo hi k : Bytes) : Bool := leB lo k && ltB k hi
def fdelRange (m : Flat) (lo hi : Bytes) : Flat := m.filter (fun e => !inRange lo hi e.1)

/-- live entries in key order (what a RocksDB iterator from the start yields) -/
def flive (m : Flat) : List (Bytes × Bytes) :=
  let keys := (m.map (·.1)).eraseDups
  let l := keys.filterMap (fun k => (fget m k).map (fun v => (k, v)))
  l.mergeSort (fun a b => leB a.1 b.1)

/-- iterator positioned at the first key `≥ start` -/
def fiterFrom (m : Flat) (start : Bytes) : List (Bytes × Bytes) :=
  (flive m).filter (fun e => leB start e.1)

/-! ### updates -/

inductive PartUpd where
  | delta (ups : List (Bytes × Option Bytes))     -- sort key ↦ Set v | Delete
  | reset (vals : List (Bytes × Bytes))
  deriving Repr

/-- one entry of `DatabaseUpdates`: (node key, partition number, partition updates) -/
abbrev Updates := List (Bytes × Nat × PartUpd)

def maxSubstateKeySize : Nat := 1024

def resetHi : Bytes := List.replicate (2 * maxSubstateKeySize) 255

/-- `RocksdbSubstateStore::commit` for one partition -/
def commitPart (m : Flat) (node : Bytes) (pn : Nat) : PartUpd → Flat
  | .delta ups => ups.foldl (fun m (e : Bytes × Option Bytes) =>
      match e.2 with
      | some v => fput m (encodeKey node pn e.1) v
      | none => fdel m (encodeKey node pn e.1)) m
  | .reset vals => vals.foldl (fun m (e : Bytes × Bytes) => fput m (encodeKey node pn e.1) e.2)
      (fdelRange m (encodeKey node pn []) (encodeKey node pn resetHi))

def commit (m : Flat) (u : Updates) : Flat :=
  u.foldl (fun m (e : Bytes × Nat × PartUpd) => commitPart m e.1 e.2.1 e.2.2) m

/-- `get_raw_substate_by_db_key` -/
def get (m : Flat) (node : Bytes) (pn : Nat) (sk : Bytes) : Option Bytes := fget m (encodeKey node pn sk)

/-- `list_raw_values_from_db_key`: iterate from the encoded cursor while the decoded partition matches -/
def list (m : Flat) (node : Bytes) (pn : Nat) (from? : Option Bytes) : List (Bytes × Bytes) :=
  let start := encodeKey node pn (from?.getD [])
  let it := (fiterFrom m start).takeWhile (fun e =>
    match decodeKey e.1 with
    | some (n, p, _) => n == node && p == pn
    | none => false)
  it.filterMap (fun e => (decodeKey e.1).map (fun d => (d.2.2, e.2)))

/-- `list_partition_keys`: decoded partition keys of all entries, consecutive duplicates removed -/
def partitions (m : Flat) : List (Bytes × Nat) :=
  let ps := (flive m).filterMap (fun e => (decodeKey e.1).map (fun d => (d.1, d.2.1)))
  ps.eraseDups

/-! ### the specification: the in-memory store as a function -/

abbrev Spec := Bytes → Nat → Bytes → Option Bytes

def specEmpty : Spec := fun _ _ _ => none

def specCommitPart (s : Spec) (node : Bytes) (pn : Nat) : PartUpd → Spec
  | .delta ups => ups.foldl (fun s (e : Bytes × Option Bytes) =>
      fun n p k => if n = node ∧ p = pn ∧ k = e.1 then e.2 else s n p k) s
  | .reset vals => vals.foldl (fun s (e : Bytes × Bytes) =>
      fun n p k => if n = node ∧ p = pn ∧ k = e.1 then some e.2 else s n p k)
      (fun n p k => if n = node ∧ p = pn then none else s n p k)

def specCommit (s : Spec) (u : Updates) : Spec :=
  u.foldl (fun s (e : Bytes × Nat × PartUpd) => specCommitPart s e.1 e.2.1 e.2.2) s

/-! ### C19: the writes of a Merkle-store commit and crash points -/

/-- The three column families that matter for consistency: substates (`Flat`), the recorded
metadata (state version and the commitment it claims), and Merkle nodes (abstract set of keys,
only deleted by pruning). The commitment is abstract: `commit? : Flat → γ`. -/
structure MStore (γ : Type) where
  sub : Flat
  version : Nat
  root : γ
  nodes : List Nat

inductive WOp (γ : Type) where
  | subPut (k v : Bytes)
  | subDel (k : Bytes)
  | subDelRange (lo hi : Bytes)
  | nodePut (n : Nat)
  | nodeDel (n : Nat)
  | setMeta (version : Nat) (root : γ)

def applyOp {γ : Type} (s : MStore γ) : WOp γ → MStore γ
  | .subPut k v => { s with sub := fput s.sub k v }
  | .subDel k => { s with sub := fdel s.sub k }
  | .subDelRange lo hi => { s with sub := fdelRange s.sub lo hi }
  | .nodePut n => { s with nodes := n :: s.nodes }
  | .nodeDel n => { s with nodes := s.nodes.filter (· != n) }
  | .setMeta v r => { s with version := v, root := r }

/-- one individual write = one atomic group of operations (a `WriteBatch`, or a single direct call) -/
abbrev Write (γ : Type) := List (WOp γ)

def applyWrite {γ : Type} (s : MStore γ) (w : Write γ) : MStore γ := w.foldl applyOp s

/-- the store a reopening process finds after the first `k` writes of the plan -/
def crashAt {γ : Type} (s : MStore γ) (plan : List (Write γ)) (k : Nat) : MStore γ :=
  (plan.take k).foldl applyWrite s

/-- substate operations of one partition update, as `RocksDBWithMerkleTreeSubstateStore::commit` issues them -/
def partOps {γ : Type} (node : Bytes) (pn : Nat) : PartUpd → List (WOp γ)
  | .delta ups => ups.map (fun e => match e.2 with
      | some v => .subPut (encodeKey node pn e.1) v
      | none => .subDel (encodeKey node pn e.1))
  | .reset vals => .subDelRange (encodeKey node pn []) (encodeKey node pn resetHi)
      :: vals.map (fun e => .subPut (encodeKey node pn e.1) e.2)

def subOps {γ : Type} (u : Updates) : List (WOp γ) := u.flatMap (fun e => partOps e.1 e.2.1 e.2.2)

/-- The write plan of the commit as the code is now: ONE batch with the substate operations, the
new tree nodes and the metadata, followed (when pruning) by one direct delete per stale node. -/
def commitPlan {γ : Type} (u : Updates) (newNodes stale : List Nat) (version : Nat) (root : γ) : List (Write γ) :=
  ((subOps u : List (WOp γ)) ++ newNodes.map WOp.nodePut ++ [WOp.setMeta version root]) :: stale.map (fun n => [WOp.nodeDel n])

/-- The plan of the code before commit 5eed5323e2: every substate operation was its own direct write. -/
def oldCommitPlan {γ : Type} (u : Updates) (newNodes stale : List Nat) (version : Nat) (root : γ) : List (Write γ) :=
  (subOps u : List (WOp γ)).map (fun o => [o]) ++ [newNodes.map WOp.nodePut ++ [WOp.setMeta version root]] ++ stale.map (fun n => [WOp.nodeDel n])

end Radix.Stores
