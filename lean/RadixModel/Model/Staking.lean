/-
Executable model of validator staking and epoch emissions
(radix-engine/src/blueprints/consensus_manager/{validator.rs, consensus_manager.rs}).

`Decimal` = `Int` attos in [-2^191, 2^191); Rust signed `/` = `Int.tdiv`. Every `checked_*` that can
return `None` is an explicit `none` / error outcome. Core Lean only.
-/
namespace Radix.Staking

def ONE : Int := 1000000000000000000
def inI192 (x : Int) : Bool := decide (-(2 ^ 191) ≤ x) && decide (x < 2 ^ 191)
def chk (x : Int) : Option Int := if inI192 x then some x else none

/-- `Decimal::checked_mul`: I256 product / 10^18 truncating, must fit I192 (subsumes the I256 check). -/
def dMul (a b : Int) : Option Int := chk ((a * b).tdiv ONE)
/-- `Decimal::checked_div` -/
def dDiv (a b : Int) : Option Int := if b = 0 then none else chk ((a * ONE).tdiv b)
def dAdd (a b : Int) : Option Int := chk (a + b)
def dSub (a b : Int) : Option Int := chk (a - b)

/-- `calculate_stake_unit_amount(xrd, total_stake_xrd, total_stake_unit_supply)` -/
def stakeUnits (x T S : Int) : Option Int :=
  if T = 0 then some x else (dDiv S T).bind (fun q => dMul x q)

/-- `calculate_redemption_value(units)` with stake vault `T` and unit supply `S` -/
def redemption (u T S : Int) : Option Int :=
  if S = 0 then some 0 else (dDiv T S).bind (fun q => dMul u q)

/-- `create_sort_prefix_from_stake`: the big-endian u16 `0xFFFF - min(floor(stake / 100000 XRD), 0xFFFF)`.
    `stake.checked_div(100000)` then `/ 10^18` (as a Decimal division by `10^18` = attos / 10^18). -/
def sortPrefix (stake : Int) : Option Nat :=
  match dDiv stake (100000 * ONE) with
  | none => none
  | some s100k =>
    -- dec!(10).checked_powi(18) = 10^18 (as Decimal: 10^36 attos, fits); s100k.checked_div(that)
    match dDiv s100k (ONE * ONE) with
    | none => none
    | some whole =>
      if whole > 65535 then some 0
      else if whole < 0 then none  -- `try_into::<u16>().unwrap()` would panic; stake ≥ 0 in the engine
      else some (65535 - whole.toNat)

/-- `ProposalStatistic::success_ratio` -/
def successRatio (made missed : Nat) : Option Int :=
  if made + missed = 0 then some ONE else dDiv ((made : Int) * ONE) (((made + missed : Nat) : Int) * ONE)

/-- `to_reliability_factor` -/
def reliabilityFactor (rel minRel : Int) : Option Int :=
  match dSub rel minRel with
  | none => none
  | some reserve =>
    if reserve < 0 then some 0 else
    match dSub ONE minRel with
    | none => none
    | some maxUnrel =>
      if maxUnrel = 0 then (if rel = ONE then some ONE else some 0)
      else dDiv reserve maxUnrel

/-- an entry of the concluded epoch's validator set with its proposal statistics -/
structure Member where
  label : Nat
  stake : Int
  made : Nat
  missed : Nat
  deriving Repr, DecidableEq

/-- `ValidatorInfo::create_if_applicable`: `none` = not applicable (stake ≤ 0), error = `none` outer -/
def effectiveStake (m : Member) (minRel : Int) : Option (Option Int) :=
  if m.stake > 0 then
    match successRatio m.made m.missed with
    | none => none
    | some rel =>
      match reliabilityFactor rel minRel with
      | none => none
      | some f =>
        match dMul m.stake f with
        | none => none
        | some e => some (some e)
  else some none

/-- the applicable members with their effective stake, and the stake sum (checked) -/
def infos (minRel : Int) : List Member → Option (List (Member × Int) × Int)
  | [] => some ([], 0)
  | m :: rest =>
    match effectiveStake m minRel, infos minRel rest with
    | some none, some r => some r
    | some (some e), some (l, sum) =>
      -- the code adds in list order (left fold); addition is commutative and the check is on every partial
      -- sum of non-negative terms, so checking the total is equivalent for non-negative stakes
      match dAdd m.stake sum with
      | none => none
      | some s => some ((m, e) :: l, s)
    | _, _ => none

/-- `effective_stake * per` for every applicable validator, in order; any overflow fails the whole call -/
def scaleEach (per : Int) : List (Member × Int) → Option (List (Member × Int × Int))
  | [] => some []
  | (m, e) :: rest =>
    match dMul e per, scaleEach per rest with
    | some x, some r => some ((m, e, x) :: r)
    | _, _ => none

/-- per-validator emission amounts `effective_stake * (E / stake_sum)` (in set order) -/
def emissions (E minRel : Int) (set : List Member) : Option (List (Member × Int × Int)) :=
  match infos minRel set with
  | none => none
  | some ([], _) => some []
  | some (l, sum) =>
    match dDiv E sum with
    | none => none
    | some perXrd => scaleEach perXrd l

def sumList : List Int → Int
  | [] => 0
  | x :: xs => x + sumList xs

/-- `as_proposer + effective_stake * per` for every applicable validator -/
def rewardEach (per : Int) : List (Member × Int × Int) → Option (List (Member × Int))
  | [] => some []
  | (m, e, p) :: rest =>
    match dMul e per, rewardEach per rest with
    | some asMember, some r =>
      match dAdd p asMember with
      | some t => some ((m, t) :: r)
      | none => none
    | _, _ => none

/-- reward split: `as_proposer + effective_stake * ((vault - Σ proposer) / Σ effective)`;
    input: (member, effective stake, proposer reward) for the applicable validators -/
def rewards (vault : Int) (l : List (Member × Int × Int)) : Option (List (Member × Int)) :=
  let totalEff := sumList (l.map (fun x => x.2.1))
  let totalProp := sumList (l.map (fun x => x.2.2))
  match dSub vault totalProp with
  | none => none
  | some claimable =>
    let per? : Option Int := if totalEff = 0 then some 0 else dDiv claimable totalEff
    match per? with
    | none => none
    | some per => rewardEach per l

/-! ### validator set selection -/

/-- an entry of the `RegisteredValidatorByStake` sorted index -/
structure Entry where
  pfx : Nat   -- u16 sort prefix
  label : Nat    -- stands for the validator address (labels are in address order)
  stake : Int
  deriving Repr, DecidableEq

def entryLe (a b : Entry) : Bool := a.pfx < b.pfx || (a.pfx == b.pfx && a.label ≤ b.label)

def insertBy (le : α → α → Bool) (x : α) : List α → List α
  | [] => [x]
  | y :: ys => if le x y then x :: y :: ys else y :: insertBy le x ys

/-- stable insertion sort (`sort_by` is stable) -/
def sortBy (le : α → α → Bool) : List α → List α
  | [] => []
  | x :: xs => insertBy le x (sortBy le xs)

/-- `epoch_change` selection: scan `max + max/10 + 10` entries of the index in key order, stable sort by
    stake descending, keep `max`. -/
def selectSet (maxV : Nat) (index : List Entry) : List Entry :=
  let scanned := (sortBy entryLe index).take (maxV + maxV / 10 + 10)
  (sortBy (fun a b => decide (a.stake ≥ b.stake)) scanned).take maxV

/-! ### one validator's staking state -/

structure Claim where
  amount : Int
  epoch : Nat
  deriving Repr, DecidableEq

structure Val where
  registered : Bool
  T : Int            -- stake XRD vault
  S : Int            -- stake unit total supply
  P : Int            -- pending withdraw vault
  L : Int            -- locked owner stake units
  fee : Int          -- validator fee factor
  claims : List Claim
  deriving Repr

inductive Err | decimal | mintCap | insufficient | notYet | noSuchClaim
  deriving Repr, DecidableEq

def MAX_MINT : Int := 2 ^ 152

/-- `stake`: returns minted units -/
def Val.stake (v : Val) (x : Int) : Except Err (Val × Int) :=
  match stakeUnits x v.T v.S with
  | none => .error .decimal
  | some u =>
    if u > MAX_MINT then .error .mintCap
    else .ok ({ v with T := v.T + x, S := v.S + u }, u)

/-- `unstake u` at epoch `e` with `n` unstake epochs: returns the claim amount -/
def Val.unstake (v : Val) (u : Int) (e n : Nat) : Except Err (Val × Int) :=
  match redemption u v.T v.S with
  | none => .error .decimal
  | some y =>
    if v.T < y then .error .insufficient
    else .ok ({ v with T := v.T - y, S := v.S - u, P := v.P + y, claims := v.claims ++ [{ amount := y, epoch := e + n }] }, y)

def removeAt : List α → Nat → List α
  | [], _ => []
  | _ :: xs, 0 => xs
  | x :: xs, n + 1 => x :: removeAt xs n

/-- `claim_xrd` of the i-th outstanding claim at epoch `e` -/
def Val.claim (v : Val) (i : Nat) (e : Nat) : Except Err (Val × Int) :=
  match v.claims[i]? with
  | none => .error .noSuchClaim
  | some c =>
    if e < c.epoch then .error .notYet
    else if v.P < c.amount then .error .insufficient
    else .ok ({ v with P := v.P - c.amount, claims := removeAt v.claims i }, c.amount)

/-- `apply_emission(em)` with effective fee factor `fee` -/
def Val.applyEmission (v : Val) (em : Int) : Except Err Val :=
  match dMul v.fee em with
  | none => .error .decimal
  | some feeXrd =>
    if em < feeXrd then .error .insufficient else
    match dSub em feeXrd with
    | none => .error .decimal
    | some added =>
      match dAdd v.T added with
      | none => .error .decimal
      | some post =>
        match stakeUnits feeXrd post v.S with
        | none => .error .decimal
        | some u =>
          if u > MAX_MINT then .error .mintCap
          else
            match dAdd v.T em with
            | none => .error .decimal
            | some newT => .ok { v with T := newT, S := v.S + u, L := v.L + u }

/-! ### the consensus manager with its validators -/

structure Cfg where
  E : Int
  minRel : Int
  maxV : Nat
  unstakeEpochs : Nat
  deriving Repr

structure Sys where
  cfg : Cfg
  epoch : Nat
  vals : List Val          -- by label (labels are in validator address order)
  set : List Member        -- active set (stake snapshot) with the running proposal statistics
  held : List Int          -- stake units of each validator held by the staker account
  deriving Repr

def setNth : List α → Nat → α → List α
  | [], _, _ => []
  | _ :: xs, 0, v => v :: xs
  | x :: xs, n + 1, v => x :: setNth xs n v

inductive SysErr
  | val (e : Err)
  | badIndex          -- ConsensusManagerError::InvalidValidatorIndex
  | decimal           -- ConsensusManagerError::UnexpectedDecimalComputationError
  deriving Repr

/-- the secondary index after an update of validator `v`: fails when the prefix cannot be computed -/
def indexOk (v : Val) : Bool :=
  if v.registered && v.T != 0 then (sortPrefix v.T).isSome else true

def Sys.stake (s : Sys) (i : Nat) (x : Int) : Except SysErr (Sys × Int) :=
  match s.vals[i]?, s.held[i]? with
  | some v, some h =>
    match v.stake x with
    | .error e => .error (.val e)
    | .ok (v', u) =>
      if !indexOk v' then .error (.val .decimal)
      else .ok ({ s with vals := setNth s.vals i v', held := setNth s.held i (h + u) }, u)
  | _, _ => .error .badIndex

def Sys.unstake (s : Sys) (i : Nat) (u : Int) : Except SysErr (Sys × Int) :=
  match s.vals[i]?, s.held[i]? with
  | some v, some h =>
    match v.unstake u s.epoch s.cfg.unstakeEpochs with
    | .error e => .error (.val e)
    | .ok (v', y) =>
      if !indexOk v' then .error (.val .decimal)
      else .ok ({ s with vals := setNth s.vals i v', held := setNth s.held i (h - u) }, y)
  | _, _ => .error .badIndex

def Sys.claim (s : Sys) (i j : Nat) : Except SysErr (Sys × Int) :=
  match s.vals[i]? with
  | some v =>
    match v.claim j s.epoch with
    | .error e => .error (.val e)
    | .ok (v', y) => .ok ({ s with vals := setNth s.vals i v' }, y)
  | none => .error .badIndex

def Sys.setRegistered (s : Sys) (i : Nat) (b : Bool) : Except SysErr Sys :=
  match s.vals[i]? with
  | some v =>
    let v' := { v with registered := b }
    if !indexOk v' then .error (.val .decimal) else .ok { s with vals := setNth s.vals i v' }
  | none => .error .badIndex

def bumpMissed : List Member → Nat → Option (List Member)
  | [], _ => none
  | m :: ms, 0 => some ({ m with missed := m.missed + 1 } :: ms)
  | m :: ms, n + 1 => (bumpMissed ms n).map (fun r => m :: r)

def bumpMade : List Member → Nat → Option (List Member)
  | [], _ => none
  | m :: ms, 0 => some ({ m with made := m.made + 1 } :: ms)
  | m :: ms, n + 1 => (bumpMade ms n).map (fun r => m :: r)

/-- `update_proposal_statistics` (never a fallback round) -/
def updateStats (set : List Member) (leader : Nat) : List Nat → Option (List Member)
  | [] => bumpMade set leader
  | g :: gs => (bumpMissed set g).bind (fun s => updateStats s leader gs)

def Sys.round (s : Sys) (leader : Nat) (gaps : List Nat) : Except SysErr Sys :=
  match updateStats s.set leader gaps with
  | none => .error .badIndex
  | some set => .ok { s with set := set }

def applyEmissions : List Val → List (Member × Int × Int) → Except SysErr (List Val)
  | vals, [] => .ok vals
  | vals, (m, _, em) :: rest =>
    match vals[m.label]? with
    | none => .error .badIndex
    | some v =>
      match v.applyEmission em with
      | .error e => .error (.val e)
      | .ok v' =>
        if !indexOk v' then .error (.val .decimal)
        else applyEmissions (setNth vals m.label v') rest

def indexOf (vals : List Val) : Nat → List Entry
  | 0 => []
  | n + 1 =>
    let rest := indexOf vals n
    match vals[n]? with
    | some v =>
      if v.registered && v.T != 0 then
        match sortPrefix v.T with
        | some p => rest ++ [{ pfx := p, label := n, stake := v.T }]
        | none => rest
      else rest
    | none => rest

/-- `next_round` that triggers the epoch change: statistics, emissions (rewards vault empty), selection.
    Returns the new state and the per-validator emissions (label, amount). -/
def Sys.epochChange (s : Sys) (leader : Nat) (gaps : List Nat) : Except SysErr (Sys × List (Nat × Int)) :=
  match updateStats s.set leader gaps with
  | none => .error .badIndex
  | some set =>
    match emissions s.cfg.E s.cfg.minRel set with
    | none => .error .decimal
    | some ems =>
      match applyEmissions s.vals ems with
      | .error e => .error e
      | .ok vals =>
        let sel := selectSet s.cfg.maxV (indexOf vals vals.length)
        .ok ({ s with vals := vals, epoch := s.epoch + 1,
                      set := sel.map (fun e => { label := e.label, stake := e.stake, made := 0, missed := 0 }) },
             ems.map (fun x => (x.1.label, x.2.2)))

end Radix.Staking
