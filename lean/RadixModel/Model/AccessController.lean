/-
C40 — executable model of the access-controller blueprint (v2; the v1 state machine is textually
identical): `radix-engine/src/blueprints/access_controller/v2/{state_machine.rs,blueprint.rs,package.rs}`.

* `transition` transcribes every `Transition`/`TransitionMut` impl of `state_machine.rs` (same match
  order, same error variants — including the quirk that a second recovery-role badge-withdraw attempt
  answers `RecoveryAlreadyExistsForProposer`), followed by what `blueprint.rs` does with the result
  (`update_role_assignment`, `take_all`, proof creation).
* `step` puts the auth layer in front: the method → role-list table is NOT written here, it is
  `Radix.Generated.C40.methodTable`, regenerated on every check run from the `methods { … }` block of
  `v2/package.rs`.
* time: the consensus manager's minute clock (`epoch_minute : i32`), `Instant::add_minutes`
  (checked i64) and the saturating instant→minute conversion of `compare_current_time`.

Core Lean only (linked into the driver executable).
-/
import RadixModel.Generated.C40

namespace Radix.AC

/-! ## Roles, access rules, proposals -/

inductive Role | primary | recovery | confirmation
  deriving DecidableEq, Repr

/-- role numbers used by the generated method table -/
def Role.code : Role → Nat
  | .primary => 0
  | .recovery => 1
  | .confirmation => 2

def Role.ofCode : Nat → Option Role
  | 0 => some .primary
  | 1 => some .recovery
  | 2 => some .confirmation
  | _ => none

/-- The fragment of `AccessRule` used by the harness; badges are numbered resources.
`require b` = `rule!(require(b))`, `anyOf`/`allOf` = `require_any_of`/`require_all_of`. -/
inductive Rule
  | allowAll | denyAll
  | require (b : Nat)
  | anyOf (bs : List Nat)
  | allOf (bs : List Nat)
  deriving DecidableEq, Repr

/-- `Authorization::verify_auth_rule` for this fragment; `held` = badges with a proof in the auth zone. -/
def Rule.sat (held : List Nat) : Rule → Bool
  | .allowAll => true
  | .denyAll => false
  | .require b => held.contains b
  | .anyOf bs => bs.any (fun b => held.contains b)
  | .allOf bs => bs.all (fun b => held.contains b)

structure RuleSet where
  primary : Rule
  recovery : Rule
  confirmation : Rule
  deriving DecidableEq, Repr

def RuleSet.get (rs : RuleSet) : Role → Rule
  | .primary => rs.primary
  | .recovery => rs.recovery
  | .confirmation => rs.confirmation

/-- `locked_role_assignment()` of blueprint.rs -/
def RuleSet.lockedAll : RuleSet := ⟨.denyAll, .denyAll, .denyAll⟩

structure Proposal where
  ruleSet : RuleSet
  delay : Option Nat
  deriving DecidableEq, Repr

/-! ## State -/

inductive RecRec
  | none
  | untimed (p : Proposal)
  | timed (p : Proposal) (allowedAfter : Int)   -- `timed_recovery_allowed_after` in seconds
  deriving DecidableEq, Repr

/-- the 5-tuple `AccessControllerV2Substate::state` -/
structure St where
  locked : Bool
  primRec : Option Proposal
  primWd : Bool
  recRec : RecRec
  recWd : Bool
  deriving DecidableEq, Repr

def St.default : St := ⟨false, none, false, .none, false⟩

structure Ctl where
  st : St
  /-- `timed_recovery_delay_in_minutes` (set at creation; no method writes it) -/
  delay : Option Nat
  /-- the role-assignment module entries primary/recovery/confirmation -/
  roles : RuleSet
  /-- the controlled asset is still in the vault -/
  hasAsset : Bool
  /-- `xrd_fee_vault.is_some()` -/
  feeVault : Bool
  deriving DecidableEq, Repr

/-! ## Methods, errors, effects -/

inductive Method
  | createProof
  | initRecPrimary (p : Proposal)
  | initRecRecovery (p : Proposal)
  | initWdPrimary
  | initWdRecovery
  | qcPrimaryRec (p : Proposal)
  | qcRecoveryRec (p : Proposal)
  | qcPrimaryWd
  | qcRecoveryWd
  | timedConfirm (p : Proposal)
  | cancelPrimaryRec
  | cancelRecoveryRec
  | cancelPrimaryWd
  | cancelRecoveryWd
  | lockPrimary
  | unlockPrimary
  | stopTimed (p : Proposal)
  | mintRecoveryBadges
  | lockRecoveryFee
  | withdrawRecoveryFee
  | contributeRecoveryFee
  deriving DecidableEq, Repr

/-- index into `Generated.C40.methodNames` -/
def Method.code : Method → Nat
  | .createProof => 0
  | .initRecPrimary _ => 1
  | .initRecRecovery _ => 2
  | .initWdPrimary => 3
  | .initWdRecovery => 4
  | .qcPrimaryRec _ => 5
  | .qcRecoveryRec _ => 6
  | .qcPrimaryWd => 7
  | .qcRecoveryWd => 8
  | .timedConfirm _ => 9
  | .cancelPrimaryRec => 10
  | .cancelRecoveryRec => 11
  | .cancelPrimaryWd => 12
  | .cancelRecoveryWd => 13
  | .lockPrimary => 14
  | .unlockPrimary => 15
  | .stopTimed _ => 16
  | .mintRecoveryBadges => 17
  | .lockRecoveryFee => 18
  | .withdrawRecoveryFee => 19
  | .contributeRecoveryFee => 20

inductive Err
  | unauthorized                 -- SystemModuleError::AuthError(Unauthorized)
  | missingAuthEntry             -- method absent from the static role definition
  | requiresUnlocked             -- OperationRequiresUnlockedPrimaryRole
  | timeOverflow
  | recAlreadyExists (r : Role)  -- RecoveryAlreadyExistsForProposer
  | noRecExists (r : Role)       -- NoRecoveryExistsForProposer
  | wdAlreadyExists (r : Role)   -- BadgeWithdrawAttemptAlreadyExistsForProposer
  | noWdExists (r : Role)        -- NoBadgeWithdrawAttemptExistsForProposer
  | noTimedFound                 -- NoTimedRecoveriesFound
  | delayNotElapsed              -- TimedRecoveryDelayHasNotElapsed
  | mismatch                     -- RecoveryProposalMismatch
  | noXrdFeeVault
  | emptyVault                   -- create_proof on an emptied vault (vault error)
  deriving DecidableEq, Repr

inductive Effect
  | none
  | ruleSetReplaced (rs : RuleSet)
  | assetWithdrawn
  | proofCreated
  | feeOp                        -- lock/withdraw on an existing fee vault (outcome not modelled)
  deriving DecidableEq, Repr

/-! ## Time -/

def i64Min : Int := -9223372036854775808
def i64Max : Int := 9223372036854775807
def i32Min : Int := -2147483648
def i32Max : Int := 2147483647

def inI64 (x : Int) : Bool := decide (i64Min ≤ x) && decide (x ≤ i64Max)

/-- `Instant::add_minutes` (checked_mul then checked_add) on seconds -/
def addMinutes (secs : Int) (mins : Int) : Option Int :=
  let toAdd := mins * 60
  if inI64 toAdd then
    let r := secs + toAdd
    if inI64 r then some r else none
  else none

/-- `compare_current_time_v2`, minute precision: instant → epoch minute, saturating to i32 -/
def instantToMinuteSat (secs : Int) : Int :=
  let ms := secs * 1000
  if inI64 ms then
    let m := Int.tdiv ms 60000
    if i32Min ≤ m ∧ m ≤ i32Max then m
    else if secs < 0 then i32Min else i32Max
  else if secs < 0 then i32Min else i32Max

/-- `Runtime::current_time(Minute)` in seconds, for the clock's `epoch_minute` -/
def currentInstant (nowMin : Int) : Int := nowMin * 60

/-- `compare_against_current_time(allowedAfter, Minute, Gte)`: current ≥ other, both rounded to minutes -/
def timeElapsed (nowMin : Int) (allowedAfter : Int) : Bool :=
  decide (instantToMinuteSat allowedAfter * 60 ≤ nowMin * 60)

/-! ## The state machine + blueprint glue -/

def Ctl.withSt (c : Ctl) (s : St) : Ctl := { c with st := s }

/-- confirmation of a recovery proposal: state reset, role assignment replaced -/
def Ctl.recovered (c : Ctl) (q : Proposal) : Ctl × Effect :=
  ({ c with st := St.default, roles := q.ruleSet }, .ruleSetReplaced q.ruleSet)

/-- confirmation of a badge withdraw: state reset, vault emptied, all roles DenyAll -/
def Ctl.withdrawn (c : Ctl) : Ctl × Effect :=
  ({ c with st := St.default, roles := RuleSet.lockedAll, hasAsset := false }, .assetWithdrawn)

def transition (c : Ctl) (nowMin : Int) : Method → Except Err (Ctl × Effect)
  | .createProof =>
    if c.st.locked then .error .requiresUnlocked
    else if c.hasAsset then .ok (c, .proofCreated) else .error .emptyVault
  | .initRecPrimary p =>
    match c.st.primRec with
    | none => .ok (c.withSt { c.st with primRec := some p }, .none)
    | some _ => .error (.recAlreadyExists .primary)
  | .initRecRecovery p =>
    match c.st.recRec with
    | .none =>
      match c.delay with
      | some d =>
        match addMinutes (currentInstant nowMin) (Int.ofNat d) with
        | some t => .ok (c.withSt { c.st with recRec := .timed p t }, .none)
        | none => .error .timeOverflow
      | none => .ok (c.withSt { c.st with recRec := .untimed p }, .none)
    | _ => .error (.recAlreadyExists .recovery)
  | .initWdPrimary =>
    if c.st.primWd then .error (.wdAlreadyExists .primary)
    else .ok (c.withSt { c.st with primWd := true }, .none)
  | .initWdRecovery =>
    if c.st.recWd then .error (.recAlreadyExists .recovery)
    else .ok (c.withSt { c.st with recWd := true }, .none)
  | .qcPrimaryRec p =>
    match c.st.primRec with
    | some q => if q = p then .ok (c.recovered q) else .error .mismatch
    | none => .error (.noRecExists .primary)
  | .qcRecoveryRec p =>
    match c.st.recRec with
    | .untimed q => if q = p then .ok (c.recovered q) else .error .mismatch
    | .timed q _ => if q = p then .ok (c.recovered q) else .error .mismatch
    | .none => .error (.noRecExists .recovery)
  | .qcPrimaryWd =>
    if c.st.primWd then .ok c.withdrawn else .error (.noWdExists .primary)
  | .qcRecoveryWd =>
    if c.st.recWd then .ok c.withdrawn else .error (.noWdExists .recovery)
  | .timedConfirm p =>
    match c.st.recRec with
    | .timed q t =>
      if q = p then
        if timeElapsed nowMin t then .ok (c.recovered q) else .error .delayNotElapsed
      else .error .mismatch
    | _ => .error .noTimedFound
  | .cancelPrimaryRec =>
    match c.st.primRec with
    | some _ => .ok (c.withSt { c.st with primRec := none }, .none)
    | none => .error (.noRecExists .primary)
  | .cancelRecoveryRec =>
    match c.st.recRec with
    | .none => .error (.noRecExists .recovery)
    | _ => .ok (c.withSt { c.st with recRec := .none }, .none)
  | .cancelPrimaryWd =>
    if c.st.primWd then .ok (c.withSt { c.st with primWd := false }, .none)
    else .error (.noWdExists .primary)
  | .cancelRecoveryWd =>
    if c.st.recWd then .ok (c.withSt { c.st with recWd := false }, .none)
    else .error (.noWdExists .recovery)
  | .lockPrimary => .ok (c.withSt { c.st with locked := true }, .none)
  | .unlockPrimary => .ok (c.withSt { c.st with locked := false }, .none)
  | .stopTimed p =>
    match c.st.recRec with
    | .timed q _ =>
      if q = p then .ok (c.withSt { c.st with recRec := .untimed q }, .none) else .error .mismatch
    | _ => .error .noTimedFound
  | .mintRecoveryBadges => .ok (c, .none)
  | .lockRecoveryFee => if c.feeVault then .ok (c, .feeOp) else .error .noXrdFeeVault
  | .withdrawRecoveryFee => if c.feeVault then .ok (c, .feeOp) else .error .noXrdFeeVault
  | .contributeRecoveryFee => .ok ({ c with feeVault := true }, .none)

/-! ## Auth layer (table from the source) -/

/-- `none` = no entry; `some none` = `MethodAccessibility::Public`; `some (some rs)` = role list -/
def accessOf (m : Method) : Option (Option (List Nat)) :=
  Radix.Generated.C40.methodTable.lookup m.code

/-- role number `k` of a method's list, if the caller's badges satisfy that role's current rule -/
def heldRole (roles : RuleSet) (held : List Nat) (k : Nat) : Option Role :=
  match Role.ofCode k with
  | some r => if (roles.get r).sat held then some r else none
  | none => none

/-- the roles of the method's list whose current rule is satisfied by the caller's badges -/
def authRoles (roles : RuleSet) (held : List Nat) (m : Method) : List Role :=
  match accessOf m with
  | some (some codes) => codes.filterMap (heldRole roles held)
  | _ => []

def step (c : Ctl) (held : List Nat) (nowMin : Int) (m : Method) : Except Err (Ctl × Effect) :=
  match accessOf m with
  | none => .error .missingAuthEntry
  | some none => transition c nowMin m
  | some (some _) =>
    if (authRoles c.roles held m).isEmpty then .error .unauthorized else transition c nowMin m

/-! ## Histories -/

structure Call where
  held : List Nat
  now : Int
  m : Method
  deriving Repr

structure Entry where
  call : Call
  before : Ctl
  result : Except Err (Ctl × Effect)

def Entry.ok (e : Entry) : Bool :=
  match e.result with
  | .ok _ => true
  | .error _ => false

def next (c : Ctl) : Except Err (Ctl × Effect) → Ctl
  | .ok (c', _) => c'
  | .error _ => c

def stepCall (c : Ctl) (k : Call) : Except Err (Ctl × Effect) := step c k.held k.now k.m

def entryOf (c : Ctl) (k : Call) : Entry := ⟨k, c, stepCall c k⟩

/-- the controller after a history of calls (failed calls are rolled back) -/
def final (c : Ctl) : List Call → Ctl
  | [] => c
  | k :: ks => final (next c (stepCall c k)) ks

/-- the log of a history: every call with the state it ran in and its result -/
def run (c : Ctl) : List Call → List Entry
  | [] => []
  | k :: ks => entryOf c k :: run (next c (stepCall c k)) ks

/-- a freshly created controller (`create`): default state, asset in the vault, no fee vault -/
def create (roles : RuleSet) (delay : Option Nat) : Ctl :=
  ⟨St.default, delay, roles, true, false⟩

end Radix.AC
