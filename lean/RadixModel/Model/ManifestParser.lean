/-
Manifest parser (`radix-transactions/src/manifest/parser.rs`, value part of `ast.rs`) — executable
model, core Lean only.

The Rust parser holds `tokens`, `current`, `stack_depth`; the model holds the unconsumed tokens
`rest`, the end position of the last consumed token (`prevEnd`, what `peek` uses for the
`UnexpectedEof` span: `self.tokens[self.current - 1].span.end`) and `depth`.
Errors carry the `stack_depth` at the moment they are raised (it is not decreased on the error
path, and `parse_instruction_arguments` inspects it).
Recursion is by fuel passed *down* the call chain (never threaded through results); running out is
the explicit error `hang`.  `Parser::new`/`parse_manifest` start with `3 * |tokens| + 64`, more than the
longest possible call chain (every link consumes a token or ends a loop).
The instruction table (ident ↦ number of fixed arguments, free argument list?) and the table of
known enum discriminators are regenerated from the compiled tree (Generated/C31.lean).
-/
import RadixModel.Model.Manifest
import RadixModel.Generated.C31
namespace Radix.Manifest

/-- `ast::ValueKind` -/
inductive VKind
  | bool | i8 | i16 | i32 | i64 | i128 | u8 | u16 | u32 | u64 | u128 | string
  | enum | array | tuple | map
  | bytes | nonFungibleGlobalId
  | address | bucket | proof | expression | blob | decimal | preciseDecimal | nonFungibleLocalId
  | addressReservation | namedAddress
  | intent | namedIntent
deriving DecidableEq, Repr, Inhabited

def VKind.table : List (String × VKind) :=
  [("Bool", .bool), ("I8", .i8), ("I16", .i16), ("I32", .i32), ("I64", .i64), ("I128", .i128),
   ("U8", .u8), ("U16", .u16), ("U32", .u32), ("U64", .u64), ("U128", .u128), ("String", .string),
   ("Enum", .enum), ("Array", .array), ("Tuple", .tuple), ("Map", .map),
   ("Bytes", .bytes), ("NonFungibleGlobalId", .nonFungibleGlobalId),
   ("Address", .address), ("Bucket", .bucket), ("Proof", .proof), ("Expression", .expression),
   ("Blob", .blob), ("Decimal", .decimal), ("PreciseDecimal", .preciseDecimal),
   ("NonFungibleLocalId", .nonFungibleLocalId), ("AddressReservation", .addressReservation),
   ("NamedAddress", .namedAddress), ("Intent", .intent), ("NamedIntent", .namedIntent)]

def lookupStr {α : Type} (tbl : List (String × α)) (id : List Char) : Option α :=
  match tbl with
  | [] => none
  | (k, v) :: r => if k.toList = id then some v else lookupStr r id

/-- `ValueKind::from_ident` -/
def VKind.fromIdent (id : List Char) : Option VKind := lookupStr VKind.table id

/-- `ManifestValueIdent` members that take exactly one parenthesised value (`parse_values_one`) -/
inductive Wrap
  | some | ok | err | bytes | nonFungibleGlobalId
  | address | bucket | proof | expression | blob | decimal | preciseDecimal | nonFungibleLocalId
  | addressReservation | namedAddress | intent | namedIntent
deriving DecidableEq, Repr, Inhabited

/-- `ManifestValueIdent` -/
inductive VIdent
  | enum | array | tuple | map | none
  | wrap (w : Wrap)
deriving DecidableEq, Repr

def VIdent.table : List (String × VIdent) :=
  [("Enum", .enum), ("Array", .array), ("Tuple", .tuple), ("Map", .map),
   ("Some", .wrap .some), ("None", .none), ("Ok", .wrap .ok), ("Err", .wrap .err), ("Bytes", .wrap .bytes),
   ("NonFungibleGlobalId", .wrap .nonFungibleGlobalId),
   ("Address", .wrap .address), ("Bucket", .wrap .bucket), ("Proof", .wrap .proof),
   ("Expression", .wrap .expression), ("Blob", .wrap .blob), ("Decimal", .wrap .decimal),
   ("PreciseDecimal", .wrap .preciseDecimal), ("NonFungibleLocalId", .wrap .nonFungibleLocalId),
   ("AddressReservation", .wrap .addressReservation), ("NamedAddress", .wrap .namedAddress),
   ("Intent", .wrap .intent), ("NamedIntent", .wrap .namedIntent)]

/-- `ManifestValueIdent::from_ident` -/
def VIdent.fromIdent (id : List Char) : Option VIdent := lookupStr VIdent.table id

mutual
/-- `ast::Value` (a `ValueWithSpan` is a value together with the span of its first token) -/
inductive Value
  | bool (b : Bool)
  | int (ty : IntTy) (v : Int)
  | str (s : List Char)
  | enum (d : Nat) (fields : Values)
  | array (k : VKind) (kSpan : Span) (xs : Values)
  | tuple (xs : Values)
  | map (k : VKind) (kSpan : Span) (v : VKind) (vSpan : Span) (es : Entries)
  | none
  | wrap (w : Wrap) (inner : Value) (innerSpan : Span)
inductive Values
  | nil
  | cons (v : Value) (sp : Span) (rest : Values)
inductive Entries
  | nil
  | cons (k : Value) (kSp : Span) (v : Value) (vSp : Span) (rest : Entries)
end

def Values.length : Values → Nat
  | .nil => 0
  | .cons _ _ r => r.length + 1

instance : Inhabited Value := ⟨.none⟩

inductive TokenType
  | instruction | value | valueKind | enumDiscriminator
  | exact (t : Token)
deriving DecidableEq, Repr

inductive PErrKind
  | eof
  | unexpectedToken (expected : TokenType) (actual : Token)
  | invalidArgument (expected : TokenType) (actual : Token)
  | invalidNumberOfValues (expected actual : Nat)
  | invalidNumberOfTypes (expected actual : Nat)
  | unknownEnumDiscriminator (actual : List Char)
  | maxDepthExceeded (actual max : Nat)
  | hang
deriving DecidableEq, Repr

structure PErr where
  kind : PErrKind
  span : Span
  /-- `stack_depth` of the parser when the error was raised -/
  depth : Nat
deriving DecidableEq, Repr

structure PSt where
  rest : List TokSpan
  prevEnd : Pos
  depth : Nat
deriving Repr

/-- `Parser::peek` -/
def ppeek (s : PSt) : Except PErr TokSpan :=
  match s.rest with
  | [] => .error ⟨.eof, ⟨s.prevEnd, s.prevEnd⟩, s.depth⟩
  | t :: _ => .ok t

/-- `Parser::advance` -/
def padvance (s : PSt) : Except PErr (TokSpan × PSt) :=
  match s.rest with
  | [] => .error ⟨.eof, ⟨s.prevEnd, s.prevEnd⟩, s.depth⟩
  | t :: r => .ok (t, { s with rest := r, prevEnd := t.span.stop })

/-- `Parser::advance_exact` -/
def advanceExact (expected : Token) (s : PSt) : Except PErr (TokSpan × PSt) :=
  match padvance s with
  | .error e => .error e
  | .ok (t, s') =>
    if t.tok ≠ expected then .error ⟨.unexpectedToken (.exact expected) t.tok, t.span, s'.depth⟩
    else .ok (t, s')

/-- `Parser::parse_value_kind` -/
def parseValueKind (s : PSt) : Except PErr ((VKind × Span) × PSt) :=
  match padvance s with
  | .error e => .error e
  | .ok (t, s') =>
    match t.tok with
    | .ident id =>
      match VKind.fromIdent id with
      | some k => .ok ((k, t.span), s')
      | none => .error ⟨.unexpectedToken .valueKind t.tok, t.span, s'.depth⟩
    | _ => .error ⟨.unexpectedToken .valueKind t.tok, t.span, s'.depth⟩

/-- the loop of `parse_generics` -/
def genericsLoop : Nat → PSt → Except PErr (List (VKind × Span) × PSt)
  | 0, s => .error ⟨.hang, ⟨s.prevEnd, s.prevEnd⟩, s.depth⟩
  | fuel + 1, s =>
    match ppeek s with
    | .error e => .error e
    | .ok t =>
      if t.tok = .gt then .ok ([], s)
      else
        match parseValueKind s with
        | .error e => .error e
        | .ok (k, s1) =>
          match ppeek s1 with
          | .error e => .error e
          | .ok t1 =>
            match (if t1.tok ≠ .gt then (advanceExact .comma s1).map (·.2) else .ok s1) with
            | .error e => .error e
            | .ok s2 =>
              match genericsLoop fuel s2 with
              | .error e => .error e
              | .ok (ks, s3) => .ok (k :: ks, s3)

/-- `Parser::parse_generics(n)` -/
def parseGenerics (fuel n : Nat) (s : PSt) : Except PErr (List (VKind × Span) × PSt) :=
  match advanceExact .lt s with
  | .error e => .error e
  | .ok (lt, s1) =>
    match genericsLoop fuel s1 with
    | .error e => .error e
    | .ok (ks, s2) =>
      match advanceExact .gt s2 with
      | .error e => .error e
      | .ok (gt, s3) =>
        let spanStart := match ks.head? with | some k => k.2.start | none => lt.span.start
        let spanEnd := match ks.getLast? with | some k => k.2.stop | none => gt.span.stop
        if ks.length ≠ n then .error ⟨.invalidNumberOfTypes n ks.length, ⟨spanStart, spanEnd⟩, s3.depth⟩
        else .ok (ks, s3)

/-- `KNOWN_ENUM_DISCRIMINATORS.get` -/
def knownDiscriminator (id : List Char) : Option Nat := lookupStr Radix.Generated.C31.knownEnumDiscriminators id

def maxDepth : Nat := Radix.Generated.C31.PARSER_MAX_DEPTH

mutual
/-- `Parser::parse_value` -/
def parseValue : Nat → PSt → Except PErr ((Value × Span) × PSt)
  | 0, s => .error ⟨.hang, ⟨s.prevEnd, s.prevEnd⟩, s.depth⟩
  | fuel + 1, s0 =>
    -- track_stack_depth_increase
    let s : PSt := { s0 with depth := s0.depth + 1 }
    if s.depth > maxDepth then
      match ppeek s with
      | .error e => .error e
      | .ok t => .error ⟨.maxDepthExceeded s.depth maxDepth, t.span, s.depth⟩
    else
    match padvance s with
    | .error e => .error e
    | .ok (t, s1) =>
      let done (v : Value) (s' : PSt) : Except PErr ((Value × Span) × PSt) :=
        .ok ((v, t.span), { s' with depth := s'.depth - 1 })
      match t.tok with
      | .bool b => done (.bool b) s1
      | .int ty v => done (.int ty v) s1
      | .str cs => done (.str cs) s1
      | .ident id =>
        match VIdent.fromIdent id with
        | Option.none => .error ⟨.unexpectedToken .value t.tok, t.span, s1.depth⟩
        | some .enum =>
          match parseEnumContent fuel s1 with
          | .error e => .error e
          | .ok (v, s2) => done v s2
        | some .array =>
          match parseGenerics fuel 1 s1 with
          | .error e => .error e
          | .ok (ks, s2) =>
            match ks with
            | [k] =>
              match parseValuesAny fuel s2 with
              | .error e => .error e
              | .ok ((xs, _, _), s3) => done (.array k.1 k.2 xs) s3
            | _ => .error ⟨.hang, t.span, s2.depth⟩
        | some .tuple =>
          match parseValuesAny fuel s1 with
          | .error e => .error e
          | .ok ((xs, _, _), s2) => done (.tuple xs) s2
        | some .map =>
          match parseGenerics fuel 2 s1 with
          | .error e => .error e
          | .ok (ks, s2) =>
            match ks with
            | [k, v] =>
              match advanceExact .openParen s2 with
              | .error e => .error e
              | .ok (_, s3) =>
                match mapLoop fuel s3 with
                | .error e => .error e
                | .ok (es, s4) =>
                  match advanceExact .closeParen s4 with
                  | .error e => .error e
                  | .ok (_, s5) => done (.map k.1 k.2 v.1 v.2 es) s5
            | _ => .error ⟨.hang, t.span, s2.depth⟩
        | some .none => done .none s1
        | some (.wrap w) =>
          match parseValuesOne fuel s1 with
          | .error e => .error e
          | .ok ((v, sp), s2) => done (.wrap w v sp) s2
      | _ => .error ⟨.unexpectedToken .value t.tok, t.span, s1.depth⟩

/-- `Parser::parse_enum_content` -/
def parseEnumContent : Nat → PSt → Except PErr (Value × PSt)
  | 0, s => .error ⟨.hang, ⟨s.prevEnd, s.prevEnd⟩, s.depth⟩
  | fuel + 1, s =>
    match advanceExact .lt s with
    | .error e => .error e
    | .ok (_, s1) =>
      match padvance s1 with
      | .error e => .error e
      | .ok (dt, s2) =>
        let disc : Except PErr Nat :=
          match dt.tok with
          | .int .u8 v => .ok v.toNat
          | .ident id =>
            match knownDiscriminator id with
            | some d => .ok d
            | Option.none => .error ⟨.unknownEnumDiscriminator id, dt.span, s2.depth⟩
          | _ => .error ⟨.unexpectedToken .enumDiscriminator dt.tok, dt.span, s2.depth⟩
        match disc with
        | .error e => .error e
        | .ok d =>
          match advanceExact .gt s2 with
          | .error e => .error e
          | .ok (_, s3) =>
            match parseValuesAny fuel s3 with
            | .error e => .error e
            | .ok ((xs, _, _), s4) => .ok (.enum d xs, s4)

/-- `Parser::parse_values_any_with_open_close_spans(OpenParenthesis, CloseParenthesis)` -/
def parseValuesAny : Nat → PSt → Except PErr ((Values × Span × Span) × PSt)
  | 0, s => .error ⟨.hang, ⟨s.prevEnd, s.prevEnd⟩, s.depth⟩
  | fuel + 1, s =>
    match advanceExact .openParen s with
    | .error e => .error e
    | .ok (o, s1) =>
      match valuesLoop fuel s1 with
      | .error e => .error e
      | .ok (xs, s2) =>
        match advanceExact .closeParen s2 with
        | .error e => .error e
        | .ok (c, s3) => .ok ((xs, o.span, c.span), s3)

/-- the `while self.peek()?.token != close` loop -/
def valuesLoop : Nat → PSt → Except PErr (Values × PSt)
  | 0, s => .error ⟨.hang, ⟨s.prevEnd, s.prevEnd⟩, s.depth⟩
  | fuel + 1, s =>
    match ppeek s with
    | .error e => .error e
    | .ok t =>
      if t.tok = .closeParen then .ok (.nil, s)
      else
        match parseValue fuel s with
        | .error e => .error e
        | .ok ((v, sp), s1) =>
          match ppeek s1 with
          | .error e => .error e
          | .ok t1 =>
            match (if t1.tok ≠ .closeParen then (advanceExact .comma s1).map (·.2) else .ok s1) with
            | .error e => .error e
            | .ok s2 =>
              match valuesLoop fuel s2 with
              | .error e => .error e
              | .ok (xs, s3) => .ok (.cons v sp xs, s3)

/-- the loop of `parse_map_content` -/
def mapLoop : Nat → PSt → Except PErr (Entries × PSt)
  | 0, s => .error ⟨.hang, ⟨s.prevEnd, s.prevEnd⟩, s.depth⟩
  | fuel + 1, s =>
    match ppeek s with
    | .error e => .error e
    | .ok t =>
      if t.tok = .closeParen then .ok (.nil, s)
      else
        match parseValue fuel s with
        | .error e => .error e
        | .ok ((k, ksp), s1) =>
          match advanceExact .fatArrow s1 with
          | .error e => .error e
          | .ok (_, s2) =>
            match parseValue fuel s2 with
            | .error e => .error e
            | .ok ((v, vsp), s3) =>
              match ppeek s3 with
              | .error e => .error e
              | .ok t3 =>
                match (if t3.tok ≠ .closeParen then (advanceExact .comma s3).map (·.2) else .ok s3) with
                | .error e => .error e
                | .ok s4 =>
                  match mapLoop fuel s4 with
                  | .error e => .error e
                  | .ok (es, s5) => .ok (.cons k ksp v vsp es, s5)

/-- `Parser::parse_values_one` -/
def parseValuesOne : Nat → PSt → Except PErr ((Value × Span) × PSt)
  | 0, s => .error ⟨.hang, ⟨s.prevEnd, s.prevEnd⟩, s.depth⟩
  | fuel + 1, s =>
    match parseValuesAny fuel s with
    | .error e => .error e
    | .ok ((xs, o, c), s1) =>
      match xs with
      | .cons v sp .nil => .ok ((v, sp), s1)
      | _ => .error ⟨.invalidNumberOfValues 1 xs.length, ⟨o.stop, c.start⟩, s1.depth⟩
end

/-- `n` consecutive `self.parse_value()?` -/
def parseFixed (fuel : Nat) : Nat → PSt → Except PErr (List (Value × Span) × PSt)
  | 0, s => .ok ([], s)
  | n + 1, s =>
    match parseValue fuel s with
    | .error e => .error e
    | .ok (v, s1) =>
      match parseFixed fuel n s1 with
      | .error e => .error e
      | .ok (vs, s2) => .ok (v :: vs, s2)

/-- `Parser::parse_instruction_arguments` -/
def parseArgs (fuel : Nat) : Nat → PSt → Except PErr (List (Value × Span) × PSt)
  | 0, s => .error ⟨.hang, ⟨s.prevEnd, s.prevEnd⟩, s.depth⟩
  | n + 1, s =>
    match ppeek s with
    | .error e => .error e
    | .ok t =>
      if t.tok = .semi then .ok ([], s)
      else
        match parseValue fuel s with
        | .error e =>
          match e.kind with
          | .unexpectedToken expected actual =>
            if expected = .value ∧ s.depth + 1 = e.depth then .error { e with kind := .invalidArgument expected actual }
            else .error e
          | _ => .error e
        | .ok (v, s1) =>
          match parseArgs fuel n s1 with
          | .error e => .error e
          | .ok (vs, s2) => .ok (v :: vs, s2)

structure Instr where
  name : List Char
  fixed : List (Value × Span)
  args : List (Value × Span)
  span : Span

/-- `InstructionIdent::from_ident` composed with the argument shape of `parse_instruction` -/
def instrShape (id : List Char) : Option (Nat × Bool) := lookupStr Radix.Generated.C31.instructionTable id

/-- `Parser::parse_instruction` -/
def parseInstruction (fuel : Nat) (s : PSt) : Except PErr (Instr × PSt) :=
  match padvance s with
  | .error e => .error e
  | .ok (t, s1) =>
    match t.tok with
    | .ident id =>
      match instrShape id with
      | none => .error ⟨.unexpectedToken .instruction t.tok, t.span, s1.depth⟩
      | some (n, hasArgs) =>
        match parseFixed fuel n s1 with
        | .error e => .error e
        | .ok (fixed, s2) =>
          match (if hasArgs then parseArgs fuel fuel s2 else .ok ([], s2)) with
          | .error e => .error e
          | .ok (args, s3) =>
            match advanceExact .semi s3 with
            | .error e => .error e
            | .ok (semi, s4) => .ok (⟨id, fixed, args, ⟨t.span.start, semi.span.stop⟩⟩, s4)
    | _ => .error ⟨.unexpectedToken .instruction t.tok, t.span, s1.depth⟩

/-- the loop of `Parser::parse_manifest` -/
def manifestLoop (fuel : Nat) : Nat → PSt → Except PErr (List Instr)
  | 0, s => .error ⟨.hang, ⟨s.prevEnd, s.prevEnd⟩, s.depth⟩
  | n + 1, s =>
    match s.rest with
    | [] => .ok []
    | _ :: _ =>
      match parseInstruction fuel s with
      | .error e => .error e
      | .ok (i, s1) =>
        match manifestLoop fuel n s1 with
        | .error e => .error e
        | .ok is => .ok (i :: is)

def parserFuel (toks : List TokSpan) : Nat := 3 * toks.length + 64

/-- `Parser::new(tokens, PARSER_MAX_DEPTH)?.parse_manifest()` -/
def parseManifest (toks : List TokSpan) : Except PErr (List Instr) :=
  match toks with
  | [] => .error ⟨.eof, ⟨Pos.zero, Pos.zero⟩, 0⟩
  | _ => manifestLoop (parserFuel toks) (toks.length + 1) ⟨toks, Pos.zero, 0⟩

end Radix.Manifest
