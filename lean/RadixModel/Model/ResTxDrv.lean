/-
Line-protocol front end of the `ResTx` model, shared by the drivers `drv_c09` and `drv_c10`
(core Lean only). A case is `reset`, op lines (answered `q`), `end` (answered with the outcome of
the whole transaction).
-/
import RadixModel.Util.Proto
import RadixModel.Model.ResTx
namespace Radix.Res
open Radix.Proto

def Who.tag : Who → String
  | .vault => "vault"
  | .bucket => "bucket"

def Err.show : Err → String
  | .insufficient w r a => s!"{w.tag}:insufficient:{r}:{a}"
  | .invalidAmount w a => s!"{w.tag}:invalid-amount:{a}"
  | .emptyProof w => s!"{w.tag}:empty-proof"
  | .missingId .vault i => s!"nfvault:missing-id:{i}"
  | .missingId .bucket i => s!"bucket:missing-id:{i}"
  | .unlockPanic => "panic:unlock"
  | .worktopInsufficient => "worktop:insufficient"
  | .worktopAssertion => "worktop:assertion"
  | .bucketNotFound b => s!"tp:bucket-not-found:{b}"
  | .proofNotFound p => s!"tp:proof-not-found:{p}"
  | .dropNonEmpty => "rm:drop-non-empty"
  | .nodeBorrowed => "kernel:node-borrowed"
  | .orphaned => "kernel:orphaned-nodes"
  | .unauthorized => "auth:unauthorized"
  | .noMethod => "auth:no-method"
  | .duplicateKey => "app:duplicate-key"
  | .dangling => "model:dangling"

def pNat (s : String) (bound : Nat) : Option Nat :=
  match s.toNat? with
  | some n => if toString n = s ∧ n < bound then some n else none
  | none => none

def pAmt (s : String) : Option Int :=
  match s.toInt? with
  | some a => if toString a = s ∧ a.natAbs < 2 ^ 100 then some a else none
  | none => none

def pIdsAux : List String → Option (List Nat)
  | [] => some []
  | t :: rest =>
    match pNat t 1001, pIdsAux rest with
    | some n, some l => some (n :: l)
    | _, _ => none

def pIds (s : String) : Option (List Nat) :=
  if s = "-" then some [] else pIdsAux (s.splitOn ",")

def parseOp (line : String) : Option Op :=
  match words line with
  | ["withdraw", r, a] => do some (.withdraw (← pNat r 3) (← pAmt a))
  | ["withdrawnf", ids] => do some (.withdrawNf (← pIds ids))
  | ["vburn", r, a] => do some (.vburn (← pNat r 3) (← pAmt a))
  | ["vburnnf", ids] => do some (.vburnNf (← pIds ids))
  | ["recall", r, a] => do some (.recall (← pNat r 3) (← pAmt a))
  | ["recallnf", ids] => do some (.recallNf (← pIds ids))
  | ["vproof", r, a] => do some (.vproof (← pNat r 3) (← pAmt a))
  | ["vproofnf", ids] => do some (.vproofNf (← pIds ids))
  | ["balance", r] => do some (.balance (← pNat r 4))
  | ["take", r, a] => do some (.take (← pNat r 4) (← pAmt a))
  | ["takeall", r] => do some (.takeAll (← pNat r 4))
  | ["takenf", ids] => do some (.takeNf (← pIds ids))
  | ["return", b] => do some (.ret (← pNat b 4294967296))
  | ["assertany", r] => do some (.assertAny (← pNat r 4))
  | ["assert", r, a] => do some (.assertAmt (← pNat r 4) (← pAmt a))
  | ["assertnf", ids] => do some (.assertNf (← pIds ids))
  | ["burn", b] => do some (.burn (← pNat b 4294967296))
  | ["deposit", b] => do some (.deposit (← pNat b 4294967296))
  | ["depositall"] => some .depositAll
  | ["bproof", b, a] => do some (.bproof (← pNat b 4294967296) (← pAmt a))
  | ["bproofnf", b, ids] => do some (.bproofNf (← pNat b 4294967296) (← pIds ids))
  | ["bproofall", b] => do some (.bproofAll (← pNat b 4294967296))
  | ["clone", p] => do some (.clone (← pNat p 4294967296))
  | ["drop", p] => do some (.drop (← pNat p 4294967296))
  | ["dropall"] => some .dropAll
  | ["dropnamed"] => some .dropNamed
  | _ => none

def insertSorted (x : Nat) : List Nat → List Nat
  | [] => [x]
  | y :: t => if x ≤ y then x :: y :: t else y :: insertSorted x t

def sortNat (l : List Nat) : List Nat := l.foldr insertSorted []

def showIds (l : List Nat) : String :=
  if l.isEmpty then "-" else ",".intercalate ((sortNat l).map toString)

def showInts (l : List Int) : String :=
  if l.isEmpty then "-" else " ".intercalate (l.map toString)

def showOk (s : St) : String :=
  let bals := [(s.vaultF 0).amount, (s.vaultF 1).amount, (s.vaultF 2).amount, s.vaultN.amount]
  let sups := [100 * unitA - s.burnedF 0, 100 * unitA - s.burnedF 1, 100 * unitA - s.burnedF 2,
               ((8 - s.burnedN.length : Nat) : Int) * unitA]
  s!"ok {showInts s.outs} | {showInts bals} {showIds s.vaultN.ids} | {showInts sups}"

/-- driver state: ops of the current case (reversed) and whether an unparseable line was seen -/
structure Drv where
  ops : List Op
  bad : Bool

def Drv.init : Drv := { ops := [], bad := false }

def stepLine (d : Drv) (line : String) : Drv × String :=
  match words line with
  | ["reset"] => (Drv.init, "ok")
  | ["end"] =>
    if d.bad then (Drv.init, "bad-op") else
    match runTx d.ops.reverse with
    | .ok s => (Drv.init, showOk s)
    | .error e => (Drv.init, s!"err {e.show}")
  | _ =>
    match parseOp line with
    | some op => ({ d with ops := op :: d.ops }, "q")
    | none => ({ d with bad := true }, "bad-op")

end Radix.Res
