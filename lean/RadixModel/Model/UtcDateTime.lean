/-
C29 — model of `radix-common/src/time/utc_date_time.rs` (`UtcDateTime`) and the `add_*`
functions of `radix-common/src/time/instant.rs`.

Transcription notes
* `i64` values are `Int`; `u32`/`u8` fields are `Nat`. Rust `/`, `%` on `i64` are `Int.tdiv` /
  `Int.tmod` (truncation toward zero) — the code's own "if negative, add the modulus and subtract
  one" fix-ups are transcribed as written.
* Every place where the real code can panic is an explicit outcome `Err.panic`:
  the six `try_from(..).expect(..)` at the end of `from_instant`, the array index inside the month
  `while` loop, `u8`/`u32` subtraction underflow in `to_instant` (`self.month - 1`,
  `self.day_of_month - 1`, `23 - self.hour`, `year - 1` …; overflow checks are on in the harness
  build, as in every debug/test build of the repo), table indexing with `month - 1 ≥ 12`, and
  `&s[a..b]` in `from_str` (out of range or not on a UTF-8 character boundary).
  Intermediate `i64` additions/multiplications of `from_instant`/`to_instant` stay below 2^58 in
  absolute value for `u32` years (theorem `toInstant_gregorian`: the result lies in the supported
  range, hence in `i64`; `from_instant` only runs inside that range), so they
  are computed in `Int`; the `checked_mul`/`checked_add` of `Instant::add_*` are modelled explicitly.
* Strings are lists of byte values (`List Nat`, each < 256; the driver converts). `s.chars()` is
  modelled by an explicit UTF-8 decoder (`decodeUtf8`), `s.is_ascii()` by `isAscii`,
  `str::parse::<u32/u8>()` by `parseUnsigned` (optional leading `+`, then one or more ASCII
  digits, overflow = error) — Rust's integer parser is trusted to behave like that (DESIGN §3) and
  is exercised by the correspondence stream.
-/
namespace Radix.Utc

/-! ### constants (literal copies; `Props/C29.lean` proves they equal the regenerated ones) -/

def SECONDS_IN_A_MINUTE : Int := 60
def SECONDS_IN_AN_HOUR : Int := 3600
def SECONDS_IN_A_DAY : Int := 86400
def UNIX_EPOCH_YEAR : Nat := 1970
def SECONDS_IN_A_NON_LEAP_YEAR : Int := 365 * 24 * 60 * 60
def SECONDS_IN_A_LEAP_YEAR : Int := 366 * 24 * 60 * 60
def DAYS_PER_4Y : Int := 365 * 4 + 1
def DAYS_PER_100Y : Int := 365 * 100 + 24
def DAYS_PER_400Y : Int := 365 * 400 + 97
def LEAP_YEAR_DAYS_IN_MONTHS : List Nat := [31, 29, 31, 30, 31, 30, 31, 31, 30, 31, 30, 31]
def SHIFT_FROM_UNIX_TIME_TO_MARCH_Y2K : Int := 946684800 + 86400 * (31 + 29)
def MIN_SUPPORTED_TIMESTAMP : Int := -62135596800
def MAX_SUPPORTED_TIMESTAMP : Int := 135536014634284799
def U32_MAX : Nat := 4294967295
def I64_MIN : Int := -9223372036854775808
def I64_MAX : Int := 9223372036854775807

inductive Err where
  | invalidYear | invalidMonth | invalidDayOfMonth | invalidHour | invalidMinute | invalidSecond
  | instantIsOutOfRange
  | panic
  deriving DecidableEq, Repr

structure DT where
  year : Nat
  month : Nat
  day : Nat
  hour : Nat
  minute : Nat
  second : Nat
  deriving DecidableEq, Repr

/-- `UtcDateTime::is_leap_year` -/
def isLeapYear (year : Nat) : Bool :=
  year % 4 == 0 && (!(year % 100 == 0) || year % 400 == 0)

/-- `UtcDateTime::new` (arguments are `u32`/`u8` values). The index `LEAP_YEAR_DAYS_IN_MONTHS[month-1]`
is only evaluated after the month check, the `none` branch is unreachable but kept explicit. -/
def new (year month day hour minute second : Nat) : Except Err DT :=
  if year = 0 then .error .invalidYear
  else if ¬ (1 ≤ month ∧ month ≤ 12) then .error .invalidMonth
  else match LEAP_YEAR_DAYS_IN_MONTHS[month - 1]? with
    | none => .error .panic
    | some dim =>
      if day < 1 || day > dim || (!isLeapYear year && month == 2 && day > 28) then
        .error .invalidDayOfMonth
      else if hour > 23 then .error .invalidHour
      else if minute > 59 then .error .invalidMinute
      else if second > 59 then .error .invalidSecond
      else .ok ⟨year, month, day, hour, minute, second⟩

/-- `LEAP_YEAR_DAYS_IN_MONTHS.rotate_left(2)` -/
def daysInMonthsStartingOnMarch : List Nat := LEAP_YEAR_DAYS_IN_MONTHS.rotateLeft 2

/-- The `while days_in_months_starting_on_march[month] as i64 <= remaining_days` loop.
`none` = index out of bounds (panic). -/
def monthLoop : List Nat → Nat → Int → Option (Nat × Int)
  | [], _, _ => none
  | d :: ds, m, rem => if (d : Int) ≤ rem then monthLoop ds (m + 1) (rem - d) else some (m, rem)

/-- `u32::try_from(x).expect(..)` / `u8::try_from(x).expect(..)` -/
def tryFrom (max : Nat) (x : Int) : Except Err Nat :=
  if 0 ≤ x ∧ x ≤ max then .ok x.toNat else .error .panic

/-- The idiom used twice in `from_instant`:
`let mut q = a / b; let mut r = a % b; if r < 0 { r += b; q -= 1; }` (Rust `/`, `%` truncate). -/
def divModFix (a b : Int) : Int × Int :=
  let q := a.tdiv b
  let r := a.tmod b
  if r < 0 then (q - 1, r + b) else (q, r)

/-- The idiom used three times in `from_instant` (100-year, 4-year and 1-year cycles):
`let mut c = rd / per; if c == cap { c -= 1; } rd -= c * per;` -/
def capDiv (rd per cap : Int) : Int × Int :=
  let c₀ := rd.tdiv per
  let c := if c₀ = cap then c₀ - 1 else c₀
  (c, rd - c * per)

/-- The 400/100/4/1-year decomposition of `from_instant`: from days since 2000-03-01 to
(`year` of the March-based year, `remaining_days` within it). -/
def marchYear (days : Int) : Int × Int :=
  let (c400, rd1) := divModFix days DAYS_PER_400Y
  let (c100, rd2) := capDiv rd1 DAYS_PER_100Y 4
  let (c4, rd3) := capDiv rd2 DAYS_PER_4Y 25
  let (ry, rd4) := capDiv rd3 365 4
  (ry + 4 * c4 + 100 * c100 + 400 * c400 + 2000, rd4)

/-- `UtcDateTime::from_instant` -/
def fromInstant (t : Int) : Except Err DT :=
  if t < MIN_SUPPORTED_TIMESTAMP ∨ t > MAX_SUPPORTED_TIMESTAMP then .error .instantIsOutOfRange else
  let secs := t - SHIFT_FROM_UNIX_TIME_TO_MARCH_Y2K
  let (days, remSecs) := divModFix secs SECONDS_IN_A_DAY
  let (year₀, rd4) := marchYear days
  match monthLoop daysInMonthsStartingOnMarch 0 rd4 with
  | none => .error .panic
  | some (m, rd5) =>
    let m2 := m + 2
    let month := (if m2 ≥ 12 then m2 - 12 else m2) + 1
    let year := if m2 ≥ 12 then year₀ + 1 else year₀
    let dom := rd5 + 1
    let hour := remSecs.tdiv SECONDS_IN_AN_HOUR
    let minute := (remSecs.tdiv SECONDS_IN_A_MINUTE).tmod SECONDS_IN_A_MINUTE
    let second := remSecs.tmod SECONDS_IN_A_MINUTE
    match tryFrom U32_MAX year, tryFrom 255 (month : Int), tryFrom 255 dom,
          tryFrom 255 hour, tryFrom 255 minute, tryFrom 255 second with
    | .ok y, .ok mo, .ok d, .ok h, .ok mi, .ok s => .ok ⟨y, mo, d, h, mi, s⟩
    | _, _, _, _, _, _ => .error .panic

/-- `UtcDateTime::num_leap_years_up_to_exclusive` (`none` = `year - 1` underflows). -/
def numLeapYearsUpToExclusive (year : Nat) : Option Nat :=
  if year = 0 then none else
  let prev := year - 1
  -- `prev/100 ≤ prev/4`, so the `u32` subtraction never underflows (lemma `numLeap_no_underflow`)
  some (prev / 4 - prev / 100 + prev / 400)

/-- `for n in 0..self.month - 1 { … }` of the post-1970 branch, as a recursion on the counter.
`none` = table index out of bounds. -/
def endedMonthsLoop (leap : Bool) (stop : Nat) : Nat → Nat → Int → Option Int
  | 0, _, acc => some acc
  | fuel + 1, n, acc =>
    if n < stop then
      match LEAP_YEAR_DAYS_IN_MONTHS[n]? with
      | none => none
      | some d =>
        let acc := acc + (d : Int) * SECONDS_IN_A_DAY
        let acc := if !leap && n == 1 then acc - SECONDS_IN_A_DAY else acc
        endedMonthsLoop leap stop fuel (n + 1) acc
    else some acc

/-- `while curr_month > self.month - 1 { … curr_month -= 1 }` of the pre-1970 branch.
Returns the final `curr_month` and the sum; `none` = table index out of bounds. -/
def nonStartedLoop (leap : Bool) (target : Nat) : Nat → Nat → Int → Option (Nat × Int)
  | 0, cur, acc => some (cur, acc)
  | fuel + 1, cur, acc =>
    if cur > target then
      match LEAP_YEAR_DAYS_IN_MONTHS[cur]? with
      | none => none
      | some d =>
        let acc := acc + (d : Int) * SECONDS_IN_A_DAY
        let acc := if !leap && cur == 1 then acc - SECONDS_IN_A_DAY else acc
        nonStartedLoop leap target fuel (cur - 1) acc
    else some (cur, acc)

/-- `UtcDateTime::to_instant` on arbitrary field values (a `UtcDateTime` can be SBOR-decoded
without validation). `.error .panic` = arithmetic overflow / index out of bounds. -/
def toInstant (dt : DT) : Except Err Int :=
  let leap := isLeapYear dt.year
  if dt.year ≥ UNIX_EPOCH_YEAR then
    match numLeapYearsUpToExclusive dt.year, numLeapYearsUpToExclusive (UNIX_EPOCH_YEAR + 1) with
    | some a, some b =>
      if a < b then .error .panic else
      let numLeap : Int := ((a - b : Nat) : Int)
      let numNonLeap : Int := ((dt.year - UNIX_EPOCH_YEAR : Nat) : Int) - numLeap
      let upToYear := numNonLeap * SECONDS_IN_A_NON_LEAP_YEAR + numLeap * SECONDS_IN_A_LEAP_YEAR
      if dt.month = 0 then .error .panic else
      -- the range `0..month-1` has `month - 1 ≤ 254` elements
      match endedMonthsLoop leap (dt.month - 1) 255 0 0 with
      | none => .error .panic
      | some endedMonths =>
        if dt.day = 0 then .error .panic else
        .ok (upToYear + endedMonths
          + ((dt.day - 1 : Nat) : Int) * SECONDS_IN_A_DAY
          + (dt.hour : Int) * SECONDS_IN_AN_HOUR
          + (dt.minute : Int) * SECONDS_IN_A_MINUTE
          + (dt.second : Int))
    | _, _ => .error .panic
  else
    match numLeapYearsUpToExclusive UNIX_EPOCH_YEAR, numLeapYearsUpToExclusive (dt.year + 1) with
    | some a, some b =>
      if a < b then .error .panic else
      let numLeap : Int := ((a - b : Nat) : Int)
      -- `UNIX_EPOCH_YEAR - self.year - 1` : year < 1970 here, no underflow
      let numNonLeap : Int := ((UNIX_EPOCH_YEAR - dt.year - 1 : Nat) : Int) - numLeap
      let upToEnd := numNonLeap * SECONDS_IN_A_NON_LEAP_YEAR + numLeap * SECONDS_IN_A_LEAP_YEAR
      if dt.month = 0 then .error .panic else
      match nonStartedLoop leap (dt.month - 1) 12 11 0 with
      | none => .error .panic
      | some (curMonth, nonStarted) =>
        match LEAP_YEAR_DAYS_IN_MONTHS[dt.month - 1]? with
        | none => .error .panic
        | some dim₀ =>
          let dim : Int := if !leap && curMonth == 1 then (dim₀ : Int) - 1 else dim₀
          let remainingDays := dim - (dt.day : Int)
          if dt.hour > 23 ∨ dt.minute > 59 ∨ dt.second > 59 then .error .panic else
          let total := upToEnd + nonStarted + remainingDays * SECONDS_IN_A_DAY
            + ((23 - dt.hour : Nat) : Int) * SECONDS_IN_AN_HOUR
            + ((59 - dt.minute : Nat) : Int) * SECONDS_IN_A_MINUTE
            + ((59 - dt.second : Nat) : Int)
          .ok (-total - 1)
    | _, _ => .error .panic

/-! ### `Instant::add_*` and `UtcDateTime::add_*` -/

def inI64 (x : Int) : Bool := I64_MIN ≤ x && x ≤ I64_MAX

def checkedMul (a b : Int) : Option Int := if inI64 (a * b) then some (a * b) else none
def checkedAdd (a b : Int) : Option Int := if inI64 (a + b) then some (a + b) else none

/-- `Instant::add_days/hours/minutes` with unit `k`; `add_seconds` has no multiplication
(identical to `k = 1`, since `n * 1` never overflows). -/
def instantAdd (k : Int) (t n : Int) : Option Int :=
  match checkedMul n k with
  | none => none
  | some toAdd => checkedAdd t toAdd

/-- `UtcDateTime::add_*` : `self.to_instant().add_x(n).and_then(|i| Self::from_instant(&i).ok())`.
Outer `Except` carries a panic of `to_instant`/`from_instant`. -/
def addUnits (k : Int) (dt : DT) (n : Int) : Except Err (Option DT) :=
  match toInstant dt with
  | .error e => .error e
  | .ok t =>
    match instantAdd k t n with
    | none => .ok none
    | some t' =>
      match fromInstant t' with
      | .ok dt' => .ok (some dt')
      | .error .panic => .error .panic
      | .error _ => .ok none

/-- derived `Ord` on the struct: lexicographic in field order. -/
def cmpDT (a b : DT) : Ordering :=
  (compare a.year b.year).then <| (compare a.month b.month).then <| (compare a.day b.day).then <|
  (compare a.hour b.hour).then <| (compare a.minute b.minute).then (compare a.second b.second)

/-! ### Display -/

def digitChar (n : Nat) : Nat := 48 + n % 10

/-- decimal digits of `n`, most significant first (what `{}` prints for an unsigned integer) -/
def natDigits (n : Nat) : List Nat :=
  if _h : n < 10 then [digitChar n] else natDigits (n / 10) ++ [digitChar n]
termination_by n
decreasing_by omega

/-- `{:0w}` : pad with `'0'` on the left up to width `w` (never truncates). -/
def padZero (w n : Nat) : List Nat :=
  let ds := natDigits n
  List.replicate (w - ds.length) 48 ++ ds

/-- `Display for UtcDateTime`: `"{:04}-{:02}-{:02}T{:02}:{:02}:{:02}Z"` -/
def display (dt : DT) : List Nat :=
  padZero 4 dt.year ++ [45] ++ padZero 2 dt.month ++ [45] ++ padZero 2 dt.day ++ [84]
    ++ padZero 2 dt.hour ++ [58] ++ padZero 2 dt.minute ++ [58] ++ padZero 2 dt.second ++ [90]

/-! ### FromStr -/

inductive PErr where
  | invalidFormat
  | dateTime (e : Err)
  | panic
  | notUtf8          -- the byte string is not a `&str` at all (outside the function's domain)
  deriving DecidableEq, Repr

def isCont (b : Nat) : Bool := 128 ≤ b && b ≤ 191

/-- UTF-8 decoder with exactly the well-formedness rules of `core::str::from_utf8`
(Unicode Table 3-7): returns the code points, `none` if malformed. -/
def decodeUtf8 : List Nat → Option (List Nat)
  | [] => some []
  | b0 :: rest =>
    if b0 < 128 then (decodeUtf8 rest).map (b0 :: ·)
    else if 194 ≤ b0 ∧ b0 ≤ 223 then
      match rest with
      | b1 :: r => if isCont b1 then (decodeUtf8 r).map (((b0 - 192) * 64 + (b1 - 128)) :: ·) else none
      | _ => none
    else if 224 ≤ b0 ∧ b0 ≤ 239 then
      match rest with
      | b1 :: b2 :: r =>
        let lo := if b0 = 224 then 160 else 128
        let hi := if b0 = 237 then 159 else 191
        if lo ≤ b1 ∧ b1 ≤ hi ∧ isCont b2 then
          (decodeUtf8 r).map (((b0 - 224) * 4096 + (b1 - 128) * 64 + (b2 - 128)) :: ·)
        else none
      | _ => none
    else if 240 ≤ b0 ∧ b0 ≤ 244 then
      match rest with
      | b1 :: b2 :: b3 :: r =>
        let lo := if b0 = 240 then 144 else 128
        let hi := if b0 = 244 then 143 else 191
        if lo ≤ b1 ∧ b1 ≤ hi ∧ isCont b2 ∧ isCont b3 then
          (decodeUtf8 r).map (((b0 - 240) * 262144 + (b1 - 128) * 4096 + (b2 - 128) * 64 + (b3 - 128)) :: ·)
        else none
      | _ => none
    else none

/-- `str::is_ascii` -/
def isAscii (s : List Nat) : Bool := s.all (· < 128)

/-- `str::is_char_boundary(i)`: `i == 0`, `i == len`, or the byte at `i` is not a continuation
byte; `false` if `i > len`. -/
def isCharBoundary (s : List Nat) (i : Nat) : Bool :=
  if i = 0 then true else
  match s[i]? with
  | none => i == s.length
  | some b => !isCont b

/-- `&s[a..b]` : `none` = panic (`a > b`, out of range, or not on a character boundary). -/
def sliceStr (s : List Nat) (a b : Nat) : Option (List Nat) :=
  if a ≤ b ∧ isCharBoundary s a ∧ isCharBoundary s b then some ((s.drop a).take (b - a)) else none

def isDigit (b : Nat) : Bool := 48 ≤ b && b ≤ 57

/-- digit loop of `from_str_radix` for an unsigned type with maximum `max` (checked mul/add). -/
def parseDigits (max : Nat) : List Nat → Nat → Option Nat
  | [], acc => some acc
  | b :: bs, acc =>
    if isDigit b then
      let v := acc * 10 + (b - 48)
      if v > max then none else parseDigits max bs v
    else none

/-- `str::parse::<uN>()`: empty → error; a lone sign → error; one optional leading `+`; digits. -/
def parseUnsigned (max : Nat) (s : List Nat) : Option Nat :=
  match s with
  | [] => none
  | [43] => none
  | [45] => none
  | 43 :: rest => parseDigits max rest 0
  | _ => parseDigits max s 0

/-- The six `s[a..b].parse::<_>()?` in argument order followed by `UtcDateTime::new(..)?`. -/
def fromStrBody (s : List Nat) : Except PErr DT :=
  match sliceStr s 0 4 with
  | none => .error .panic
  | some ys =>
  match parseUnsigned U32_MAX ys with
  | none => .error .invalidFormat
  | some y =>
  match sliceStr s 5 7 with
  | none => .error .panic
  | some ms =>
  match parseUnsigned 255 ms with
  | none => .error .invalidFormat
  | some mo =>
  match sliceStr s 8 10 with
  | none => .error .panic
  | some ds =>
  match parseUnsigned 255 ds with
  | none => .error .invalidFormat
  | some d =>
  match sliceStr s 11 13 with
  | none => .error .panic
  | some hs =>
  match parseUnsigned 255 hs with
  | none => .error .invalidFormat
  | some h =>
  match sliceStr s 14 16 with
  | none => .error .panic
  | some mis =>
  match parseUnsigned 255 mis with
  | none => .error .invalidFormat
  | some mi =>
  match sliceStr s 17 19 with
  | none => .error .panic
  | some ss =>
  match parseUnsigned 255 ss with
  | none => .error .invalidFormat
  | some sec =>
  match new y mo d h mi sec with
  | .ok dt => .ok dt
  | .error .panic => .error .panic
  | .error e => .error (.dateTime e)

/-- the format test on `chars: Vec<char>` (short-circuit `&&`, so the indexings are guarded by the
length test) -/
def shapeOk (chars : List Nat) : Bool :=
  chars.length == 20
    && chars[4]? == some 45 && chars[7]? == some 45 && chars[10]? == some 84
    && chars[13]? == some 58 && chars[16]? == some 58 && chars[19]? == some 90

/-- `impl FromStr for UtcDateTime` -/
def fromStr (s : List Nat) : Except PErr DT :=
  match decodeUtf8 s with
  | none => .error .notUtf8
  | some chars =>
    if isAscii s && shapeOk chars then fromStrBody s else .error .invalidFormat

/-- `from_str` as it was before the `s.is_ascii()` repair (for the record only, see
`old_fromStr_panics` in `Props/C29.lean`). -/
def fromStrOld (s : List Nat) : Except PErr DT :=
  match decodeUtf8 s with
  | none => .error .notUtf8
  | some chars =>
    if shapeOk chars then fromStrBody s else .error .invalidFormat

end Radix.Utc
