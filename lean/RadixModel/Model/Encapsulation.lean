/-
C50 — model of the system-layer encapsulation checks of `radix-engine/src/system/system.rs`
(`new_object` / `new_object_internal`, `drop_object`, `allocate_global_address`, `globalize` /
`globalize_with_address_internal`, `actor_open_field` via `get_actor_object_id`) and
`system/actor.rs` (`Actor::{blueprint_id, package_address, instance_context, get_object_id}`), plus
the byte-coded script interpreter of the native test package of harness/src/bin/c50.rs.

Transcription notes
* Blueprints are `(package, name)` pairs of small numbers.  Test packages 0 and 1 contain the
  blueprints 0 = "A" (outer), 1 = "B" (outer), 2 = "I" (inner blueprint of "A"); name 3 = "Z" does not
  exist.  Package 9 stands for RESOURCE_PACKAGE with 5 = FungibleBucket (inner of the resource
  manager, transient), 7 = FungibleProof (inner, transient).  `resOuter` is the XRD resource manager.
* `Actor.func` = `Actor::Function`, `Actor.meth` = `Actor::Method` with `MethodType::Main` (module
  methods, direct access, hooks and `Root` are not exercised by the harness; `Root`/hooks have no
  instance context and are covered by the `none` branches).
* The kernel's visibility / ownership rules underneath are NOT modelled: the interpreter only uses
  nodes held in the registers of the running frame (owned by it), so the kernel never refuses.
* Order of checks inside every call is the order of the real code (e.g. `globalize` drops the address
  reservation before it compares packages, and compares PACKAGES, not blueprints).
-/
namespace Radix.Encap

structure Bp where
  pkg : Nat
  name : Nat
  deriving DecidableEq, Repr

def resPkg : Nat := 9
def bucketBp : Bp := ⟨resPkg, 5⟩
def proofBp : Bp := ⟨resPkg, 7⟩
/-- global index standing for the XRD resource manager (outer object of buckets and proofs) -/
def resOuter : Nat := 1000

/-- `BlueprintType` of the blueprints of the test packages: `some o` = `Inner { outer_blueprint: o }` -/
def innerOf (name : Nat) : Option Nat := if name = 2 then some 0 else none

def bpExists (name : Nat) : Bool := decide (name < 3)

/-- what `TypeInfoSubstate` says about a node -/
inductive Kind where
  | obj (bp : Bp) (outer : Option Nat)          -- `ObjectInfo` (blueprint id, `OuterObjectInfo`)
  | resv (bp : Bp)                              -- `GlobalAddressReservation` (+ phantom's blueprint)
  deriving DecidableEq, Repr

inductive Actor where
  | func (bp : Bp)
  /-- method of an object: blueprint, `Some(i)` if the receiver is global #i, receiver's outer object -/
  | meth (bp : Bp) (selfGlobal : Option Nat) (outer : Option Nat)
  deriving DecidableEq, Repr

def Actor.bp : Actor → Bp
  | .func b => b
  | .meth b _ _ => b

/-- `Actor::instance_context` -/
def Actor.ctx : Actor → Option Nat
  | .func _ => none
  | .meth _ (some g) _ => some g
  | .meth _ none outer => outer

inductive Res where
  | ok
  | invalidChildObjectCreation | blueprintDoesNotExist
  | invalidDropAccess | notAnObject
  | notAnAddressReservation | invalidGlobalizeAccess | invalidBlueprintId | transientBlueprint
  | invalidActorStateHandle | outerObjectDoesNotExist
  | noreg | refused
  deriving DecidableEq, Repr

/-- global components: index ↦ blueprint.  #0 = A of package 0, #1 = A of package 1, #2 = B of
package 0 exist before every script. -/
def initGlobals : List Bp := [⟨0, 0⟩, ⟨1, 0⟩, ⟨0, 1⟩]

def globalBp (gs : List Bp) (g : Nat) : Option Bp := gs[g]?

/-- `new_object(blueprint_ident, ..)`: the object's package is the ACTOR's package; an inner blueprint
needs an instance context whose object has the declared outer blueprint name. -/
def newObject (gs : List Bp) (a : Actor) (name : Nat) : Res × Option Kind :=
  if !bpExists name then (.blueprintDoesNotExist, none)
  else match innerOf name with
    | none => (.ok, some (.obj ⟨a.bp.pkg, name⟩ none))
    | some outerName =>
      match a.ctx with
      | none => (.invalidChildObjectCreation, none)
      | some g =>
        match globalBp gs g with
        | some b => if b.name = outerName then (.ok, some (.obj ⟨a.bp.pkg, name⟩ (some g)))
                    else (.invalidChildObjectCreation, none)
        | none => (.invalidChildObjectCreation, none)

/-- `drop_object(node)`: the access check before `kernel_drop_node` -/
def dropObject (a : Actor) : Kind → Res
  | .resv _ => .notAnObject
  | .obj bp outer =>
    let check : Option Nat := if bp = proofBp then none else outer
    match check with
    | some o => if a.ctx = some o then .ok else .invalidDropAccess
    | none => if bp = a.bp then .ok else .invalidDropAccess

/-- `globalize(node, modules, reservation)`; `res = none` ⇒ a reservation for the node's own blueprint
is allocated first. -/
def globalize (a : Actor) (node : Kind) (res : Option Kind) : Res :=
  let reserved : Except Res Bp := match res with
    | some (.resv b) => .ok b
    | some (.obj _ _) => .error .notAnAddressReservation
    | none => match node with
      | .obj b _ => .ok b
      | .resv _ => .error .notAnObject
  match reserved with
  | .error e => e
  | .ok rb =>
    if rb.pkg ≠ a.bp.pkg then .invalidGlobalizeAccess
    else match node with
      | .resv _ => .notAnObject
      | .obj b _ =>
        if b ≠ rb then .invalidBlueprintId
        else if b.pkg = resPkg then .transientBlueprint
        else .ok

/-- `actor_open_field(handle, 0, ..)`: which node's field is opened. `self` is an abstract name of the
receiver; the result names the opened node: `inl ()` = the receiver itself, `inr g` = global #g. -/
def actorOpenField (a : Actor) (handle : Nat) : Res × Option (Unit ⊕ Nat) :=
  if handle ≠ 0 ∧ handle ≠ 1 then (.invalidActorStateHandle, none)
  else match a with
    | .func _ => (.notAnObject, none)
    | .meth _ _ outer =>
      if handle = 0 then (.ok, some (.inl ()))
      else match outer with
        | some g => (.ok, some (.inr g))
        | none => (.outerObjectDoesNotExist, none)

/-! ### the script interpreter of the native test package -/

/-- kinds of effects recorded in the effect log -/
inductive Eff where
  | new | drop | globalize
  deriving DecidableEq, Repr

structure St where
  globals : List Bp
  /-- the faucet's `free` was already called in this transaction (a second call aborts it) -/
  faucetUsed : Bool
  /-- effect log: (actor, effect) in execution order -/
  log : List (Actor × Eff × Kind)

abbrev Regs := List (Option Kind)

def getReg (r : Regs) (i : Nat) : Option Kind := (r[i]?).join

def clearReg (r : Regs) (i : Nat) : Regs := r.set i none

/-- take the registers named in `idx` (all must be present, pairwise distinct and no proofs) -/
def takeArgs (r : Regs) (idx : List Nat) : Option (List Kind × Regs) :=
  idx.foldl (fun acc i => match acc with
    | none => none
    | some (ks, r') => match getReg r' i with
      | some k => if k = .obj proofBp (some resOuter) then none else some (ks ++ [k], clearReg r' i)
      | none => none) (some ([], r))

def isTestObj : Kind → Bool
  | .obj bp _ => decide (bp.pkg < 2)
  | _ => false

structure Out where
  st : St
  regs : Regs
  trace : List Res
  fatal : Bool

/-- One frame of the interpreter: runs `script` as `actor` with registers `regs`.
Ops: `1 bp` NEW · `2 r` DROP · `3 pkg bp` ALLOC · `4 r res` GLOBALIZE (`res = 255`: none) ·
`5 handle mode` FIELD · `6 kind idx n args.. len script..` CALL METHOD (kind 0: object in register
idx, 1: global #idx) · `7 pkg bp n args.. len script..` CALL FUNCTION `run` · `8` BUCKET (from the
faucet, which serves one request per transaction: a second one aborts) · `9 r` PROOF of the bucket in r · `11 r` Proof::drop.  Returns the remaining registers
(proofs are dropped at frame exit).  `fatal` = the transaction aborted. -/
def exec : Nat → Actor → Regs → List Nat → St → Out
  | 0, _, regs, _, st => ⟨st, regs, [.refused], true⟩
  | fuel + 1, a, regs, script, st =>
    match script with
    | [] => ⟨st, regs, [], false⟩
    | 1 :: name :: rest =>
      let (r, k) := newObject st.globals a name
      let regs' := match k with | some k => regs ++ [some k] | none => regs
      let st' := match k with | some k => { st with log := st.log ++ [(a, Eff.new, k)] } | none => st
      let o := exec fuel a regs' rest st'
      { o with trace := r :: o.trace }
    | 2 :: i :: rest =>
      match getReg regs i with
      | none => let o := exec fuel a regs rest st; { o with trace := .noreg :: o.trace }
      | some k =>
        let r := dropObject a k
        if r = .ok then
          let o := exec fuel a (clearReg regs i) rest { st with log := st.log ++ [(a, Eff.drop, k)] }
          { o with trace := r :: o.trace }
        else
          let o := exec fuel a regs rest st
          { o with trace := r :: o.trace }
    | 3 :: pkg :: name :: rest =>
      let o := exec fuel a (regs ++ [some (.resv ⟨pkg, name⟩)]) rest st
      { o with trace := .ok :: o.trace }
    | 4 :: i :: j :: rest =>
      match getReg regs i, (if j = 255 then some none else (getReg regs j).map some) with
      | some k, some res =>
        if i = j then let o := exec fuel a regs rest st; { o with trace := .refused :: o.trace }
        else
          let r := globalize a k res
          if r = .ok then
            match k with
            | .obj b _ =>
              let regs' := if j = 255 then clearReg regs i else clearReg (clearReg regs i) j
              let o := exec fuel a regs' rest
                { st with globals := st.globals ++ [b], log := st.log ++ [(a, Eff.globalize, k)] }
              { o with trace := r :: o.trace }
            | _ => ⟨st, regs, [.refused], true⟩
          else ⟨st, regs, [r], true⟩
      | _, _ => let o := exec fuel a regs rest st; { o with trace := .noreg :: o.trace }
    | 5 :: handle :: _mode :: rest =>
      let (r, _) := actorOpenField a handle
      let o := exec fuel a regs rest st
      { o with trace := r :: o.trace }
    | 6 :: kind :: idx :: n :: rest =>
      let args := rest.take n
      let rest1 := rest.drop n
      match rest1 with
      | [] => ⟨st, regs, [.refused], true⟩
      | len :: rest2 =>
        let sub := rest2.take len
        let rest3 := rest2.drop len
        let target : Option Actor :=
          if kind = 0 then
            match getReg regs idx with
            | some (.obj bp outer) => if decide (bp.pkg < 2) then some (.meth bp none outer) else none
            | _ => none
          else match globalBp st.globals idx with
            | some bp => some (.meth bp (some idx) none)
            | none => none
        match target with
        | none => let o := exec fuel a regs rest3 st; { o with trace := .noreg :: o.trace }
        | some callee =>
          if kind = 0 ∧ args.contains idx then
            let o := exec fuel a regs rest3 st; { o with trace := .refused :: o.trace }
          else match takeArgs regs args with
            | none => let o := exec fuel a regs rest3 st; { o with trace := .noreg :: o.trace }
            | some (ks, regs') =>
              let c := exec fuel callee (ks.map some) sub st
              if c.fatal then ⟨c.st, regs', c.trace, true⟩
              else
                let back := c.regs.filter (fun k => k.isSome && k != some (.obj proofBp (some resOuter)))
                let o := exec fuel a (regs' ++ back) rest3 c.st
                { o with trace := c.trace ++ .ok :: o.trace }
    | 7 :: pkg :: name :: n :: rest =>
      let args := rest.take n
      let rest1 := rest.drop n
      match rest1 with
      | [] => ⟨st, regs, [.refused], true⟩
      | len :: rest2 =>
        let sub := rest2.take len
        let rest3 := rest2.drop len
        if !(decide (pkg < 2) && decide (name < 2)) then
          let o := exec fuel a regs rest3 st; { o with trace := .refused :: o.trace }
        else match takeArgs regs args with
          | none => let o := exec fuel a regs rest3 st; { o with trace := .noreg :: o.trace }
          | some (ks, regs') =>
            let c := exec fuel (.func ⟨pkg, name⟩) (ks.map some) sub st
            if c.fatal then ⟨c.st, regs', c.trace, true⟩
            else
              let back := c.regs.filter (fun k => k.isSome && k != some (.obj proofBp (some resOuter)))
              let o := exec fuel a (regs' ++ back) rest3 c.st
              { o with trace := c.trace ++ .ok :: o.trace }
    | 8 :: rest =>
      if st.faucetUsed then ⟨st, regs, [], true⟩
      else
        let o := exec fuel a (regs ++ [some (.obj bucketBp (some resOuter))]) rest
          { st with faucetUsed := true }
        { o with trace := .ok :: o.trace }
    | 9 :: i :: rest =>
      match getReg regs i with
      | some (.obj bp _) =>
        if bp = bucketBp then
          let o := exec fuel a (regs ++ [some (.obj proofBp (some resOuter))]) rest st
          { o with trace := .ok :: o.trace }
        else let o := exec fuel a regs rest st; { o with trace := .noreg :: o.trace }
      | _ => let o := exec fuel a regs rest st; { o with trace := .noreg :: o.trace }
    | 11 :: i :: rest =>
      match getReg regs i with
      | some (.obj bp outer) =>
        if bp = proofBp then
          -- `Proof::drop` is a FUNCTION of the proof blueprint: the dropping actor is the proof blueprint
          let r := dropObject (.func proofBp) (.obj bp outer)
          let o := exec fuel a (clearReg regs i) rest
            { st with log := st.log ++ [(.func proofBp, Eff.drop, .obj bp outer)] }
          { o with trace := r :: o.trace }
        else let o := exec fuel a regs rest st; { o with trace := .noreg :: o.trace }
      | _ => let o := exec fuel a regs rest st; { o with trace := .noreg :: o.trace }
    | _ => ⟨st, regs, [.refused], true⟩

def runScript (pkg name : Nat) (script : List Nat) : Out :=
  exec (script.length + 1) (.func ⟨pkg, name⟩) [] script { globals := initGlobals, faucetUsed := false, log := [] }

end Radix.Encap
