/-
C16 — model of `radix-substate-store-interface/src/db_key_mapper.rs` (`SpreadPrefixKeyMapper`).

Transcription notes
* The hash (`radix_common::crypto::hash`, BLAKE2b-256) is the parameter `H`; the theorems assume
  only `|H x| = HASH_LENGTH`.  The driver instantiates it with `Radix.Blake2b.blake2b256`.
* `HASHED_PREFIX_LENGTH`, `NodeId::LENGTH` and `Hash::LENGTH` come from `Generated/C16.lean`
  (observed on the compiled code on every run).
* Every slice/index/`copy_u8_array` that can panic is an explicit `none` outcome:
  `&hash(..).0[..HPL]` (panics when `HPL > 32`), `&bytes[HPL..]`, `db_sort_key.0[0]`,
  `&db_sort_key.0[..2]`, `&db_sort_key.0[2..]`, `copy_u8_array::<N>` (length must be exactly `N`).
* `NodeId` is `[u8; 30]`, `SortedKey.0` is `[u8; 2]`: the fixed lengths are side conditions
  (`Bytes` of that length), checked by the driver before the model is called.
-/
import RadixModel.Generated.C16
namespace Radix.KeyMapper

abbrev Bytes := List UInt8

def HPL : Nat := Radix.Generated.C16.HASHED_PREFIX_LENGTH
def NODE_LEN : Nat := Radix.Generated.C16.NODE_ID_LENGTH
def HASH_LEN : Nat := Radix.Generated.C16.HASH_LENGTH

/-- `&b[..n]` — panics when `n > len`. -/
def sliceTo (b : Bytes) (n : Nat) : Option Bytes := if n ≤ b.length then some (b.take n) else none
/-- `&b[n..]` — panics when `n > len`. -/
def sliceFrom (b : Bytes) (n : Nat) : Option Bytes := if n ≤ b.length then some (b.drop n) else none
/-- `copy_u8_array::<N>` — panics unless the slice has exactly `N` bytes. -/
def copyArray (n : Nat) (b : Bytes) : Option Bytes := if b.length = n then some b else none

/-- `SpreadPrefixKeyMapper::to_hash_prefixed` -/
def toHashPrefixed (H : Bytes → Bytes) (plain : Bytes) : Option Bytes :=
  match sliceTo (H plain) HPL with
  | some pre => some (pre ++ plain)
  | none => none

/-- `SpreadPrefixKeyMapper::from_hash_prefixed` -/
def fromHashPrefixed (prefixed : Bytes) : Option Bytes := sliceFrom prefixed HPL

/-- `to_db_node_key` -/
def toDbNodeKey (H : Bytes → Bytes) (node : Bytes) : Option Bytes := toHashPrefixed H node

/-- `from_db_node_key` -/
def fromDbNodeKey (k : Bytes) : Option Bytes :=
  match fromHashPrefixed k with
  | some plain => copyArray NODE_LEN plain
  | none => none

/-- `to_db_partition_num` / `from_db_partition_num` -/
def toDbPartitionNum (p : UInt8) : UInt8 := p
def fromDbPartitionNum (p : UInt8) : UInt8 := p

/-- `field_to_db_sort_key` -/
def fieldToDbSortKey (f : UInt8) : Bytes := [f]

/-- `field_from_db_sort_key`: `db_sort_key.0[0]` -/
def fieldFromDbSortKey : Bytes → Option UInt8
  | [] => none
  | b :: _ => some b

/-- `map_to_db_sort_key` -/
def mapToDbSortKey (H : Bytes → Bytes) (m : Bytes) : Option Bytes := toHashPrefixed H m

/-- `map_from_db_sort_key` -/
def mapFromDbSortKey (k : Bytes) : Option Bytes := fromHashPrefixed k

/-- `sorted_to_db_sort_key` -/
def sortedToDbSortKey (H : Bytes → Bytes) (p : Bytes) (k : Bytes) : Option Bytes :=
  match toHashPrefixed H k with
  | some hk => some (p ++ hk)
  | none => none

/-- `sorted_from_db_sort_key` -/
def sortedFromDbSortKey (k : Bytes) : Option (Bytes × Bytes) :=
  match sliceTo k 2 with
  | none => none
  | some p2 =>
    match copyArray 2 p2 with
    | none => none
    | some p =>
      match sliceFrom k 2 with
      | none => none
      | some rest =>
        match fromHashPrefixed rest with
        | none => none
        | some plain => some (p, plain)

/-- `SubstateKey` -/
inductive SKey where
  | field (f : UInt8)
  | map (m : Bytes)
  | sorted (p : Bytes) (k : Bytes)
  deriving DecidableEq, Repr

/-- well-formedness of the Rust type: the sort prefix is `[u8; 2]`. -/
def SKey.wf : SKey → Prop
  | .sorted p _ => p.length = 2
  | _ => True

/-- `to_db_sort_key` -/
def toDbSortKey (H : Bytes → Bytes) : SKey → Option Bytes
  | .field f => some (fieldToDbSortKey f)
  | .map m => mapToDbSortKey H m
  | .sorted p k => sortedToDbSortKey H p k

inductive Kind where | field | map | sorted
  deriving DecidableEq, Repr

def SKey.kind : SKey → Kind
  | .field _ => .field
  | .map _ => .map
  | .sorted _ _ => .sorted

/-- `from_db_sort_key::<K>` -/
def fromDbSortKey (kd : Kind) (k : Bytes) : Option SKey :=
  match kd with
  | .field => (fieldFromDbSortKey k).map .field
  | .map => (mapFromDbSortKey k).map .map
  | .sorted => (sortedFromDbSortKey k).map (fun pk => .sorted pk.1 pk.2)

/-- `(to_db_partition_key(node, pn), to_db_sort_key(key))` — the full database key of a substate. -/
def toDbKey (H : Bytes → Bytes) (node : Bytes) (pn : UInt8) (key : SKey) : Option (Bytes × UInt8 × Bytes) :=
  match toDbNodeKey H node, toDbSortKey H key with
  | some nk, some sk => some (nk, toDbPartitionNum pn, sk)
  | _, _ => none

/-- `(from_db_partition_key(pk), from_db_sort_key::<K>(sk))` -/
def fromDbKey (kd : Kind) (dk : Bytes × UInt8 × Bytes) : Option (Bytes × UInt8 × SKey) :=
  match fromDbNodeKey dk.1, fromDbSortKey kd dk.2.2 with
  | some n, some k => some (n, fromDbPartitionNum dk.2.1, k)
  | _, _ => none

/-- Byte-lexicographic order (`Ord for Vec<u8>` / RocksDB default comparator / `BTreeMap<Vec<u8>,_>`). -/
def lexLt : Bytes → Bytes → Bool
  | [], [] => false
  | [], _ :: _ => true
  | _ :: _, [] => false
  | a :: as, b :: bs => if a < b then true else if b < a then false else lexLt as bs

/-- `u16::to_be_bytes` -/
def be16 (v : Nat) : Bytes := [UInt8.ofNat (v / 256), UInt8.ofNat (v % 256)]

end Radix.KeyMapper
