/-
C28 — model of the Radix text layer for addresses and non-fungible ids:

* `radix-common/src/address/{encoder,decoder,hrpset}.rs` — `AddressBech32Encoder::encode`,
  `AddressBech32Decoder::validate_and_decode`, `HrpSet::get_entity_hrp`, `bech32_check_hrp`
  (= `Radix.Bech32.checkHrp`), and the typed `XAddress::try_from_bech32` of
  `radix-common/src/types/addresses/*.rs`;
* `radix-common/src/data/scrypto/model/non_fungible_local_id.rs` — `FromStr`, `Display`,
  `is_canonically_formatted_integer`, the validated constructors, `encode_body_common` /
  `decode_body_common`;
* `radix-common/src/types/non_fungible_global_id.rs` — `to_canonical_string`,
  `try_from_canonical_string`.

Bech32m itself (the `bech32` crate) is the parameter `Codec`.  The EntityType table, the HRP prefixes,
the typed-address classes, `NodeId::LENGTH` and `NON_FUNGIBLE_LOCAL_ID_MAX_LENGTH` come from
`Generated/C28.lean`.

Transcription notes
* a Rust `&str` is a `List Char`; `str::len` is `utf8Len`; `&s[a..b]` is `strSlice` (explicit `none` =
  panic when out of range or not on a char boundary); `usize` subtraction below zero, `Vec` index out of
  range and `try_into().unwrap()` of a wrong-length vector are explicit `panic` outcomes.
* `StringNonFungibleLocalId::validate_slice` runs over bytes: a non-ASCII char contributes only bytes
  ≥ 0x80, all rejected, so "every byte allowed" = "every char allowed"; the length tests use `utf8Len`.
* `hex::decode` works on bytes and fails on odd length or any non-hex byte; on `List Char` the accept
  set and result are the same (a non-ASCII char is a non-hex byte; all failures map to one error).
* `u64::from_str` is only reached on strings accepted by `is_canonically_formatted_integer` (ASCII
  digits, no sign): it then fails exactly on overflow; modelled as `parseNat` + range test.
* `decode_body_common` for strings: `from_utf8` then `Self::string` — both failures give
  `InvalidCustomValue`, and success needs every byte in the ASCII id alphabet, so `from_utf8` is not
  modelled separately.
-/
import RadixModel.Generated.C28
import RadixModel.Model.Bech32
namespace Radix.AddrText
open Radix.Bech32 (Str Bytes Variant Case checkHrp lowerStr utf8Len u8len)

/-! ## Bech32m as a parameter -/

structure Codec where
  /-- `Bech32Writer::new(hrp, Bech32m, &mut String)`, `write(data.to_base32())`, `finalize()` -/
  write : Str → Bytes → Str
  /-- `bech32::decode` -/
  decode : Str → Option (Str × List Nat × Variant)
  /-- `Vec::<u8>::from_base32` -/
  fromBase32 : List Nat → Option Bytes

/-- the concrete codec used by the driver -/
def bech32Codec : Codec where
  write := fun h d => Radix.Bech32.write5 h (Radix.Bech32.toBase32 d) .bech32m
  decode := Radix.Bech32.decode
  fromBase32 := Radix.Bech32.fromBase32

/-! ## Addresses -/

def NODE_LEN : Nat := Radix.Generated.C28.NODE_ID_LENGTH
def MAXLEN : Nat := Radix.Generated.C28.NON_FUNGIBLE_LOCAL_ID_MAX_LENGTH

/-- `EntityType::from_repr(b)` followed by `HrpSet::get_entity_hrp` for the empty suffix. -/
def entityPrefix (b : UInt8) : Option Str :=
  (Radix.Generated.C28.ENTITY_TABLE.find? (fun r => r.1 == b.toNat)).map (·.2)

/-- `HrpSet::from(&network).get_entity_hrp(entity)` = `format!("{prefix}{suffix}")` -/
def hrpFor (pre sfx : Str) : Str := pre ++ sfx

inductive EncErr where
  | missing | entity (b : UInt8) | bech32 | fmt
  deriving DecidableEq, Repr

inductive DecErr where
  | bech32 | variant | missing | entity (b : UInt8) | hrp
  deriving DecidableEq, Repr

/-- `AddressBech32Encoder::new(network).encode(full_data)` (`encode_to_fmt` + `bech32_encode_to_fmt`) -/
def encodeAddr (B : Codec) (sfx : Str) (data : Bytes) : Except EncErr Str :=
  match data with
  | [] => .error .missing
  | b :: _ =>
    match entityPrefix b with
    | none => .error (.entity b)
    | some pre =>
      let hrp := hrpFor pre sfx
      match checkHrp hrp with
      | none => .error .bech32
      | some .upper => .ok (B.write (lowerStr hrp) data)
      | some _ => .ok (B.write hrp data)

/-- `AddressBech32Decoder::new(network).validate_and_decode(address)` -/
def decodeAddr (B : Codec) (sfx : Str) (text : Str) : Except DecErr (UInt8 × Bytes) :=
  match B.decode text with
  | none => .error .bech32
  | some (hrp, d5, v) =>
    if v ≠ .bech32m then .error .variant
    else
      match B.fromBase32 d5 with
      | none => .error .bech32
      | some data =>
        match data with
        | [] => .error .missing
        | b :: _ =>
          match entityPrefix b with
          | none => .error (.entity b)
          | some pre => if hrp ≠ hrpFor pre sfx then .error .hrp else .ok (b, data)

/-- `XAddress::try_from(&[u8])`: length, then the entity class of the first byte -/
def typedFromBytes (cls : List Nat) (data : Bytes) : Option Bytes :=
  if data.length = NODE_LEN then
    match data with
    | [] => none
    | b :: _ => if cls.contains b.toNat then some data else none
  else none

/-- `XAddress::try_from_bech32(decoder, s)` -/
def typedFromBech32 (cls : List Nat) (B : Codec) (sfx : Str) (text : Str) : Option Bytes :=
  match decodeAddr B sfx text with
  | .ok (_, data) => typedFromBytes cls data
  | .error _ => none

/-! ## Text primitives -/

/-- `&s[n..]` for a prefix of `n` bytes: `none` when `n` is past the end or inside a char. -/
def dropBytes : Str → Nat → Option Str
  | s, 0 => some s
  | [], _ + 1 => none
  | c :: cs, n + 1 => if u8len c ≤ n + 1 then dropBytes cs (n + 1 - u8len c) else none

/-- `&s[..n]` -/
def takeBytes : Str → Nat → Option Str
  | _, 0 => some []
  | [], _ + 1 => none
  | c :: cs, n + 1 =>
    if u8len c ≤ n + 1 then (takeBytes cs (n + 1 - u8len c)).map (c :: ·) else none

/-- `&s[a..b]` -/
def strSlice (s : Str) (a b : Nat) : Option Str :=
  if a ≤ b then
    match dropBytes s a with
    | some t => takeBytes t (b - a)
    | none => none
  else none

/-- `&s[1..s.len() - 1]` (the subtraction is on `usize`) -/
def inner (s : Str) : Option Str :=
  if utf8Len s ≥ 1 then strSlice s 1 (utf8Len s - 1) else none

def hexNib (n : Nat) : Char := if n < 10 then Char.ofNat (48 + n) else Char.ofNat (87 + n)

/-- `hex::encode` (lower case) -/
def hexEncode : Bytes → Str
  | [] => []
  | b :: bs => hexNib (b.toNat / 16) :: hexNib (b.toNat % 16) :: hexEncode bs

def hexVal (c : Char) : Option Nat :=
  let n := c.toNat
  if 48 ≤ n ∧ n ≤ 57 then some (n - 48)
  else if 97 ≤ n ∧ n ≤ 102 then some (n - 87)
  else if 65 ≤ n ∧ n ≤ 70 then some (n - 55)
  else none

/-- `hex::decode` -/
def hexDecode : Str → Option Bytes
  | [] => some []
  | [_] => none
  | a :: b :: rest =>
    match hexVal a, hexVal b, hexDecode rest with
    | some x, some y, some r => some (UInt8.ofNat (x * 16 + y) :: r)
    | _, _, _ => none

def digitChar (d : Nat) : Char := Char.ofNat (48 + d)

/-- `Display for u64` -/
def printNat (n : Nat) : Str :=
  if _h : n < 10 then [digitChar n] else printNat (n / 10) ++ [digitChar (n % 10)]
decreasing_by omega

def isDigit (c : Char) : Bool := 48 ≤ c.toNat && c.toNat ≤ 57

def parseNat (cs : Str) : Nat := cs.foldl (fun acc c => acc * 10 + (c.toNat - 48)) 0

/-- `str::parse::<u64>` on a string of ASCII digits -/
def parseU64 (cs : Str) : Option Nat :=
  if parseNat cs < 2 ^ 64 then some (parseNat cs) else none

/-- `is_canonically_formatted_integer` -/
def isCanonicalInt (digits : Str) : Bool :=
  if digits = ['0'] then true
  else
    match digits with
    | [] => false
    | c :: rest => (49 ≤ c.toNat && c.toNat ≤ 57) && rest.all isDigit

/-! ## Non-fungible local ids -/

inductive LocalId where
  | str (cs : Str)
  | int (n : Nat)
  | bytes (b : Bytes)
  | ruid (b : Bytes)
  deriving DecidableEq, Repr

inductive ContentErr where | empty | long | badChar
  deriving DecidableEq, Repr

inductive ParseErr where
  | unknown | int | bytes | ruid | content (e : ContentErr)
  deriving DecidableEq, Repr

/-- outcome of a parser: a value, a reported error, or a Rust panic -/
inductive PR (α : Type) where
  | ok (a : α) | err (e : ParseErr) | panic
  deriving DecidableEq, Repr

def isIdChar (c : Char) : Bool :=
  let n := c.toNat
  (97 ≤ n && n ≤ 122) || (65 ≤ n && n ≤ 90) || (48 ≤ n && n ≤ 57) || n == 95

/-- `StringNonFungibleLocalId::validate_slice` -/
def validateString (s : Str) : Option ContentErr :=
  if utf8Len s = 0 then some .empty
  else if utf8Len s > MAXLEN then some .long
  else if s.all isIdChar then none else some .badChar

/-- `BytesNonFungibleLocalId::validate` -/
def validateBytes (b : Bytes) : Option ContentErr :=
  if b.length = 0 then some .empty else if b.length > MAXLEN then some .long else none

/-- `NonFungibleLocalId::string` -/
def mkString (s : Str) : Except ContentErr LocalId :=
  match validateString s with
  | some e => .error e
  | none => .ok (.str s)

/-- `NonFungibleLocalId::bytes` -/
def mkBytes (b : Bytes) : Except ContentErr LocalId :=
  match validateBytes b with
  | some e => .error e
  | none => .ok (.bytes b)

/-- the values the Rust type can hold (constructors validate; `u64`; `[u8; 32]`) -/
def LocalId.Valid : LocalId → Prop
  | .str cs => 1 ≤ cs.length ∧ cs.length ≤ MAXLEN ∧ cs.all isIdChar = true
  | .int n => n < 2 ^ 64
  | .bytes b => 1 ≤ b.length ∧ b.length ≤ MAXLEN
  | .ruid b => b.length = 32

def startsWith (s : Str) (c : Char) : Bool := s.head? == some c
def endsWith (s : Str) (c : Char) : Bool := s.getLast? == some c

/-- the RUID branch of `from_str` on `chars = s[1..len-1].chars().collect::<Vec<char>>()` -/
def parseRuidChars (chars : Str) : PR LocalId :=
  if chars.length = 32 * 2 + 3 then
    match chars[16]?, chars[33]?, chars[50]? with
    | some a, some b, some c =>
      if a = '-' ∧ b = '-' ∧ c = '-' then
        let stripped := chars.filter (· ≠ '-')
        if utf8Len stripped = 64 then
          match hexDecode stripped with
          | none => .err .ruid
          | some bs => if bs.length = 32 then .ok (.ruid bs) else .panic
        else .err .ruid
      else .err .ruid
    | _, _, _ => .panic
  else .err .ruid

/-- `impl FromStr for NonFungibleLocalId` -/
def parseLocalId (s : Str) : PR LocalId :=
  if startsWith s '<' && endsWith s '>' then
    match inner s with
    | none => .panic
    | some body =>
      match mkString body with
      | .error e => .err (.content e)
      | .ok id => .ok id
  else if decide (utf8Len s > 1) && startsWith s '#' && endsWith s '#' then
    match inner s with
    | none => .panic
    | some digits =>
      if !isCanonicalInt digits then .err .int
      else
        match parseU64 digits with
        | none => .err .int
        | some n => .ok (.int n)
  else if startsWith s '[' && endsWith s ']' then
    match inner s with
    | none => .panic
    | some body =>
      match hexDecode body with
      | none => .err .bytes
      | some b =>
        match mkBytes b with
        | .error e => .err (.content e)
        | .ok id => .ok id
  else if startsWith s '{' && endsWith s '}' then
    match inner s with
    | none => .panic
    | some chars => parseRuidChars chars
  else .err .unknown

/-- the four 16-digit groups of a RUID separated by hyphens (`&hex[0..16]` … `&hex[48..64]`; `hex` has
64 chars because the value is `[u8; 32]`) -/
def ruidBody (h : Str) : Str :=
  h.take 16 ++ '-' :: ((h.drop 16).take 16 ++ '-' :: ((h.drop 32).take 16 ++ '-' :: (h.drop 48).take 16))

/-- `impl Display for NonFungibleLocalId` -/
def printLocalId : LocalId → Str
  | .str cs => '<' :: (cs ++ ['>'])
  | .int n => '#' :: (printNat n ++ ['#'])
  | .bytes b => '[' :: (hexEncode b ++ [']'])
  | .ruid b => '{' :: (ruidBody (hexEncode b) ++ ['}'])

/-! ### binary form (`encode_body_common` / `decode_body_common`) -/

inductive BinErr where | underflow | size | custom
  deriving DecidableEq, Repr

/-- `Encoder::write_size` (LEB128, at most 4 bytes); `none` = `SizeTooLarge` -/
def writeSizeGo : Nat → Nat → Bytes
  | 0, _ => []
  | fuel + 1, n =>
    if n >>> 7 = 0 then [UInt8.ofNat (n &&& 0x7f)]
    else UInt8.ofNat ((n &&& 0x7f) ||| 0x80) :: writeSizeGo fuel (n >>> 7)

def writeSize (n : Nat) : Option Bytes :=
  if n > 0x0FFFFFFF then none else some (writeSizeGo 5 n)

def asciiBytes (cs : Str) : Bytes := cs.map (fun c => UInt8.ofNat c.toNat)
def asciiChars (bs : Bytes) : Str := bs.map (fun b => Char.ofNat b.toNat)

def beBytes8 (n : Nat) : Bytes := (List.range 8).map (fun i => UInt8.ofNat (n >>> (8 * (7 - i))))
def beNat (bs : Bytes) : Nat := bs.foldl (fun acc b => acc * 256 + b.toNat) 0

/-- `encode_body_common`; `none` = the `unwrap` in `to_vec` panics (size too large) -/
def encodeBody : LocalId → Option Bytes
  | .str cs => (writeSize (utf8Len cs)).map (fun sz => 0 :: sz ++ asciiBytes cs)
  | .int n => some (1 :: beBytes8 n)
  | .bytes b => (writeSize b.length).map (fun sz => 2 :: sz ++ b)
  | .ruid b => some (3 :: b)

/-- `Decoder::read_size` -/
def readSizeGo : Nat → Bytes → Nat → Nat → Except BinErr (Nat × Bytes)
  | 0, _, _, _ => .error .size
  | _ + 1, [], _, _ => .error .underflow
  | fuel + 1, b :: rest, size, shift =>
    let size := size ||| ((b.toNat &&& 0x7f) <<< shift)
    if b.toNat < 0x80 then
      if b.toNat = 0 ∧ shift ≠ 0 then .error .size else .ok (size, rest)
    else
      if shift + 7 ≥ 28 then .error .size else readSizeGo fuel rest size (shift + 7)

def readSize (bs : Bytes) : Except BinErr (Nat × Bytes) := readSizeGo 5 bs 0 0

/-- `Decoder::read_slice(n)` -/
def readSlice (bs : Bytes) (n : Nat) : Except BinErr (Bytes × Bytes) :=
  if n ≤ bs.length then .ok (bs.take n, bs.drop n) else .error .underflow

def isIdByte (b : UInt8) : Bool := isIdChar (Char.ofNat b.toNat)

/-- `decode_body_common`: the decoded id and the unread rest -/
def decodeBody (bs : Bytes) : Except BinErr (LocalId × Bytes) :=
  match bs with
  | [] => .error .underflow
  | d :: rest =>
    if d = 0 then
      match readSize rest with
      | .error e => .error e
      | .ok (n, rest) =>
        match readSlice rest n with
        | .error e => .error e
        | .ok (sl, rest) =>
          if sl.length = 0 ∨ sl.length > MAXLEN ∨ !sl.all isIdByte then .error .custom
          else .ok (.str (asciiChars sl), rest)
    else if d = 1 then
      match readSlice rest 8 with
      | .error e => .error e
      | .ok (sl, rest) => .ok (.int (beNat sl), rest)
    else if d = 2 then
      match readSize rest with
      | .error e => .error e
      | .ok (n, rest) =>
        match readSlice rest n with
        | .error e => .error e
        | .ok (sl, rest) =>
          match validateBytes sl with
          | some _ => .error .custom
          | none => .ok (.bytes sl, rest)
    else if d = 3 then
      match readSlice rest 32 with
      | .error e => .error e
      | .ok (sl, rest) => .ok (.ruid sl, rest)
    else .error .custom

/-! ## Non-fungible global ids -/

/-- `s.split(':')` -/
def splitColon : Str → List Str
  | [] => [[]]
  | c :: cs =>
    if c = ':' then [] :: splitColon cs
    else
      match splitColon cs with
      | p :: ps => (c :: p) :: ps
      | [] => [[c]]

/-- `NonFungibleGlobalId::to_canonical_string`; `none` = `format!` panics because the address
`Display` failed (the network's HRP is not encodable). `node` is a `ResourceAddress`. -/
def printGlobalId (B : Codec) (sfx : Str) (node : Bytes) (id : LocalId) : Option Str :=
  match encodeAddr B sfx node with
  | .ok t => some (t ++ ':' :: printLocalId id)
  | .error _ => none

inductive GidErr where | parts | addr | id (e : ParseErr)
  deriving DecidableEq, Repr

inductive GR where
  | ok (node : Bytes) (id : LocalId) | err (e : GidErr) | panic
  deriving DecidableEq, Repr

/-- `NonFungibleGlobalId::try_from_canonical_string` -/
def parseGlobalId (B : Codec) (sfx : Str) (s : Str) : GR :=
  match splitColon s with
  | [p0, p1] =>
    match typedFromBech32 Radix.Generated.C28.RESOURCE_BYTES B sfx p0 with
    | none => .err .addr
    | some node =>
      match parseLocalId p1 with
      | .ok id => .ok node id
      | .err e => .err (.id e)
      | .panic => .panic
  | _ => .err .parts

end Radix.AddrText
