/-
Model of `Decimal` / `PreciseDecimal` (radix-common/src/math/{decimal,precise_decimal,rounding_mode}.rs
and the narrowing conversions of bnum_integer/convert.rs).

Conventions (DESIGN §3): a `Decimal` is its `I192` number of attos, a `PreciseDecimal` its `I256` number
of 10^-36 subunits; both are Lean `Int`s with an explicit range predicate. bnum's fixed-width integers
are modelled by `Int` plus range checks (`chk`), Rust signed `/`,`%` are `Int.tdiv`/`Int.tmod`.
Every `Option`/`Result`/panic branch of the code is an explicit outcome.

Core Lean only (no Mathlib): this file is linked into the model drivers.
Used by C24, C25 (this builder) and imported by Model/DecimalText.lean, Model/DecimalPow.lean (C26/C27).
-/
namespace Radix.Dec

/-! ## Fixed-width signed integers (bnum `BInt<N>`) -/

/-- `2^(bits-1)`: magnitude of the most negative value of a signed `bits`-bit integer. -/
def half (bits : Nat) : Int := (2 : Int) ^ (bits - 1)

def minOf (bits : Nat) : Int := -half bits
def maxOf (bits : Nat) : Int := half bits - 1

/-- `x` is representable as a signed two's-complement integer of `bits` bits. -/
def InBits (bits : Nat) (x : Int) : Prop := minOf bits ≤ x ∧ x ≤ maxOf bits

instance (bits : Nat) (x : Int) : Decidable (InBits bits x) := by
  unfold InBits; exact inferInstance

/-- `x` is representable as an unsigned integer of `bits` bits (bnum `BUint<N>`). -/
def InUBits (bits : Nat) (x : Int) : Prop := 0 ≤ x ∧ x < (2 : Int) ^ bits

instance (bits : Nat) (x : Int) : Decidable (InUBits bits x) := by
  unfold InUBits; exact inferInstance

/-- result of a bnum `checked_*` operation whose exact value is `x` -/
def chk (bits : Nat) (x : Int) : Option Int := if InBits bits x then some x else none

/-- bnum `checked_div` (signed): `None` on a zero divisor or on overflow (`MIN / -1`). -/
def iDiv (bits : Nat) (a b : Int) : Option Int := if b = 0 then none else chk bits (Int.tdiv a b)

/-- two's-complement wrap to `bits` bits (what `<<` does with the bits shifted out) -/
def wrap (bits : Nat) (v : Int) : Int := (v + half bits) % ((2 : Int) ^ bits) - half bits

/-- number of significant bits of a natural number (`0` for `0`) -/
def bitLen (n : Nat) : Nat := if n = 0 then 0 else Nat.log2 n + 1

/-- Narrowing conversion `TryFrom<$from> for $to` of convert.rs (`impl_try_from_bnum`), target signed.
`srcSigned` tells whether the source type is `I*` or `U*`; `v` is a value of the source type.
Transcribed: take the absolute value unless `v` is the source minimum, reject when
`leading_zeros(other) ≤ FROM_BITS − TO_BITS` (as `i32`), otherwise `cast(other) * sign`. -/
def narrow (srcSigned : Bool) (fromB toB : Nat) (v : Int) : Option Int :=
  let neg : Bool := srcSigned && decide (v < 0) && decide (v ≠ minOf fromB)
  let other : Int := if neg then 0 - v else v
  -- `other` is still negative only for the source minimum, whose bit pattern has no leading zero
  let lz : Int := if other < 0 then 0 else (fromB : Int) - (bitLen other.toNat : Int)
  if lz ≤ (fromB : Int) - (toB : Int) then none
  else
    -- `Self(cast_from(other.0)) * sign` (panicking `Mul`; cannot overflow here, checked in Props/C24)
    chk toB (if neg then other * (0 - 1) else other * 1)

/-! ## The two decimal types -/

inductive Ty where
  | dec   -- `Decimal`:        I192, scale 18, I256 intermediates
  | pdec  -- `PreciseDecimal`: I256, scale 36, I384 intermediates
  deriving DecidableEq, Repr

def Ty.bits : Ty → Nat
  | .dec => 192
  | .pdec => 256

/-- width of the intermediate integer used by `checked_mul` / `checked_div` -/
def Ty.wide : Ty → Nat
  | .dec => 256
  | .pdec => 384

def Ty.scale : Ty → Nat
  | .dec => 18
  | .pdec => 36

/-- `Self::ONE.0` -/
def Ty.one (t : Ty) : Int := (10 : Int) ^ t.scale

def Ty.min (t : Ty) : Int := minOf t.bits
def Ty.max (t : Ty) : Int := maxOf t.bits

/-- the value range of the type (in subunits) -/
def Ty.InRange (t : Ty) (x : Int) : Prop := InBits t.bits x

instance (t : Ty) (x : Int) : Decidable (t.InRange x) := by
  unfold Ty.InRange; exact inferInstance

-- stable short names for the other decimal model files
def SCALE18 : Nat := 18
def SCALE36 : Nat := 36
def ONE18 : Int := (10 : Int) ^ 18
def ONE36 : Int := (10 : Int) ^ 36
def MIN192 : Int := minOf 192
def MAX192 : Int := maxOf 192
def MIN256 : Int := minOf 256
def MAX256 : Int := maxOf 256
def InRange192 (x : Int) : Prop := InBits 192 x
def InRange256 (x : Int) : Prop := InBits 256 x
instance (x : Int) : Decidable (InRange192 x) := by unfold InRange192; exact inferInstance
instance (x : Int) : Decidable (InRange256 x) := by unfold InRange256; exact inferInstance

/-- truncation toward zero of `num / den` (Rust signed `/`) -/
def truncDiv (num den : Int) : Int := Int.tdiv num den

/-! ## Checked arithmetic (decimal.rs / precise_decimal.rs) -/

/-- `checked_add`: `self.0.checked_add(other.0)` -/
def checkedAdd (t : Ty) (a b : Int) : Option Int := chk t.bits (a + b)

/-- `checked_sub` -/
def checkedSub (t : Ty) (a b : Int) : Option Int := chk t.bits (a - b)

/-- `checked_neg` -/
def checkedNeg (t : Ty) (a : Int) : Option Int := chk t.bits (-a)

/-- `checked_abs`: `if *self != MIN { Some(self.0.abs()) } else { None }` (`abs` panics on MIN: guarded) -/
def checkedAbs (t : Ty) (a : Int) : Option Int :=
  if a ≠ t.min then chk t.bits (if a < 0 then -a else a) else none

/-- `checked_mul`: widen, `checked_mul`, `checked_div(ONE)`, narrow. -/
def checkedMul (t : Ty) (a b : Int) : Option Int :=
  match chk t.wide (a * b) with
  | none => none
  | some c =>
    match iDiv t.wide c t.one with
    | none => none
    | some c => narrow true t.wide t.bits c

/-- `checked_div`: widen, `checked_mul(ONE)`, `checked_div(other)`, narrow. -/
def checkedDiv (t : Ty) (a b : Int) : Option Int :=
  match chk t.wide (a * t.one) with
  | none => none
  | some c =>
    match iDiv t.wide c b with
    | none => none
    | some c => narrow true t.wide t.bits c

/-! ## Rounding (rounding_mode.rs, `checked_round`) -/

inductive Mode where
  | toPositiveInfinity
  | toNegativeInfinity
  | toZero
  | awayFromZero
  | toNearestMidpointTowardZero
  | toNearestMidpointAwayFromZero
  | toNearestMidpointToEven
  deriving DecidableEq, Repr

def Mode.all : List Mode :=
  [.toPositiveInfinity, .toNegativeInfinity, .toZero, .awayFromZero,
   .toNearestMidpointTowardZero, .toNearestMidpointAwayFromZero, .toNearestMidpointToEven]

/-- `ResolvedRoundingStrategy` -/
inductive Strategy where
  | roundUp
  | roundDown
  | roundToEven
  deriving DecidableEq, Repr

def Strategy.towardsZero (isPositive : Bool) : Strategy :=
  if isPositive then .roundDown else .roundUp

def Strategy.awayFromZero (isPositive : Bool) : Strategy :=
  if isPositive then .roundUp else .roundDown

def Strategy.fromMidpointOrdering (o : Ordering) (equalStrategy : Strategy) : Strategy :=
  match o with
  | .lt => .roundDown
  | .eq => equalStrategy
  | .gt => .roundUp

/-- `ResolvedRoundingStrategy::from_mode` (the closure has no effects, so its value is passed) -/
def Strategy.fromMode (mode : Mode) (isPositive : Bool) (cmpToMidpoint : Ordering) : Strategy :=
  match mode with
  | .toPositiveInfinity => .roundUp
  | .toNegativeInfinity => .roundDown
  | .toZero => Strategy.towardsZero isPositive
  | .awayFromZero => Strategy.awayFromZero isPositive
  | .toNearestMidpointTowardZero =>
    Strategy.fromMidpointOrdering cmpToMidpoint (Strategy.towardsZero isPositive)
  | .toNearestMidpointAwayFromZero =>
    Strategy.fromMidpointOrdering cmpToMidpoint (Strategy.awayFromZero isPositive)
  | .toNearestMidpointToEven =>
    Strategy.fromMidpointOrdering cmpToMidpoint .roundToEven

/-- Outcome of an operation that may return a value, `None`/an error, or panic. -/
inductive Outcome where
  | val (v : Int)
  | none            -- `None`
  | overflow        -- `Err(Overflow)`
  | invalidDigit    -- `Err(InvalidDigit)`
  | panic
  deriving DecidableEq, Repr

def Outcome.ofOption : Option Int → Outcome
  | some v => .val v
  | Option.none => .none

def intCmp (a b : Int) : Ordering := if a < b then .lt else if a = b then .eq else .gt

/-- `10^n` (the value `I192::TEN.pow(n)` has when it does not overflow) -/
def pow10 (n : Nat) : Int := (10 : Int) ^ n

/-- `checked_round(decimal_places, mode)`; `places` is the `i32` after `.into()`. -/
def checkedRound (t : Ty) (places : Int) (mode : Mode) (x : Int) : Outcome :=
  -- assert!(decimal_places <= SCALE); assert!(decimal_places >= 0);
  if places > (t.scale : Int) ∨ places < 0 then .panic else
  let n : Nat := t.scale - places.toNat
  -- `TEN.pow(n)` = `checked_pow(n).expect("Overflow")`
  match chk t.bits (pow10 n) with
  | Option.none => .panic
  | some divisor =>
    if divisor = 0 then .panic else  -- `%` by zero panics
    let remainder := Int.tmod x divisor
    if remainder = 0 then .val x else
    -- `Ordering::Less => divisor + remainder` (panicking `Add`)
    match (if remainder < 0 then chk t.bits (divisor + remainder) else some remainder) with
    | Option.none => .panic
    | some positiveRemainder =>
      let isPositive : Bool := decide (x > 0)
      let midpoint := divisor / 2          -- `divisor >> 1` (arithmetic shift = floor)
      let strategy := Strategy.fromMode mode isPositive (intCmp positiveRemainder midpoint)
      match strategy with
      | .roundUp =>
        match chk t.bits (divisor - positiveRemainder) with
        | Option.none => .panic             -- `.expect("Always safe")`
        | some toAdd => Outcome.ofOption (chk t.bits (x + toAdd))
      | .roundDown => Outcome.ofOption (chk t.bits (x - positiveRemainder))
      | .roundToEven =>
        let doubleDivisor := wrap t.bits (divisor * 2)   -- `divisor << 1`
        if doubleDivisor = 0 then .panic else
        if isPositive then
          match chk t.bits (x - positiveRemainder) with
          | Option.none => .none
          | some roundedDown =>
            if Int.tmod roundedDown doubleDivisor = 0 then .val roundedDown
            else Outcome.ofOption (chk t.bits (roundedDown + divisor))
        else
          match chk t.bits (divisor - positiveRemainder) with
          | Option.none => .panic
          | some toAdd =>
            match chk t.bits (x + toAdd) with
            | Option.none => .none
            | some roundedUp =>
              if Int.tmod roundedUp doubleDivisor = 0 then .val roundedUp
              else Outcome.ofOption (chk t.bits (roundedUp - divisor))

/-- `checked_floor` -/
def checkedFloor (t : Ty) (x : Int) : Outcome := checkedRound t 0 .toNegativeInfinity x

/-- `checked_ceiling` -/
def checkedCeiling (t : Ty) (x : Int) : Outcome := checkedRound t 0 .toPositiveInfinity x

/-- `ForWithdrawal::for_withdrawal` (radix-engine-interface, `Decimal` only); `strategy = none` is `Exact`. -/
def forWithdrawal (x : Int) (divisibility : Nat) (strategy : Option Mode) : Outcome :=
  match strategy with
  | Option.none => .val x
  | some mode => checkedRound .dec (divisibility : Int) mode x

/-! ## Conversions -/

/-- `From<Decimal> for PreciseDecimal`: `I256::from(attos) * I256::TEN.pow(36 - 18)` (panicking `Mul`). -/
def decToPdec (a : Int) : Outcome :=
  match chk 256 ((10 : Int) ^ (Ty.pdec.scale - Ty.dec.scale)) with
  | Option.none => .panic
  | some m =>
    match chk 256 (a * m) with
    | Option.none => .panic
    | some r => .val r

/-- `CheckedTruncate<Decimal> for PreciseDecimal`: round to 18 places, divide, narrow. -/
def checkedTruncate (mode : Mode) (p : Int) : Outcome :=
  match checkedRound .pdec (Ty.dec.scale : Int) mode p with
  | .val rounded =>
    match chk 256 ((10 : Int) ^ (Ty.pdec.scale - Ty.dec.scale)) with
    | Option.none => .panic
    | some m =>
      match iDiv 256 rounded m with
      | Option.none => .none
      | some a256 => Outcome.ofOption (narrow true 256 192 a256)
  | o => o

/-- `TryFrom<PreciseDecimal> for Decimal`: `checked_truncate(ToZero).ok_or(Overflow)` -/
def pdecToDec (p : Int) : Outcome :=
  match checkedTruncate .toZero p with
  | .none => .overflow
  | o => o

/-- An integer source type: signedness and width. Primitive types are `(s, 8..128)`
(`isize`/`usize` are 64-bit), bnum types `(s, 192..512)`. -/
structure IntTy where
  signed : Bool
  bits : Nat
  deriving DecidableEq, Repr

def IntTy.Holds (s : IntTy) (v : Int) : Prop := if s.signed then InBits s.bits v else InUBits s.bits v

instance (s : IntTy) (v : Int) : Decidable (s.Holds v) := by
  unfold IntTy.Holds; exact inferInstance

/-- `From<$prim> for Decimal/PreciseDecimal`: `Self(I::from(val) * Self::ONE.0)` (panicking `Mul`). -/
def fromPrim (t : Ty) (v : Int) : Outcome :=
  match chk t.bits (v * t.one) with
  | Option.none => .panic
  | some r => .val r

/-- `I192/I256::try_from(val)` for a bnum source type: identity / widening `From` when the source fits
(`impl_from_bnum`), otherwise the narrowing macro. -/
def toInner (t : Ty) (s : IntTy) (v : Int) : Option Int :=
  if (s.signed && decide (s.bits ≤ t.bits)) || (!s.signed && decide (s.bits < t.bits)) then some v
  else narrow s.signed s.bits t.bits v

/-- `TryFrom<$bnum> for Decimal/PreciseDecimal` (`try_from_integer!`) -/
def tryFromInt (t : Ty) (s : IntTy) (v : Int) : Outcome :=
  match toInner t s v with
  | Option.none => .overflow
  | some i =>
    match chk t.bits (i * t.one) with
    | Option.none => .overflow
    | some r => .val r

/-- `TryFrom<Decimal/PreciseDecimal> for $prim` (`to_primitive_type!`); result is the integer. -/
def toPrim (t : Ty) (s : IntTy) (a : Int) : Outcome :=
  match checkedRound t 0 .toZero a with
  | .val rounded =>
    match checkedSub t a rounded with
    | Option.none => .overflow
    | some fraction =>
      if fraction ≠ 0 then .invalidDigit
      else
        match chk t.bits ((10 : Int) ^ t.scale) with
        | Option.none => .panic
        | some m =>
          match iDiv t.bits rounded m with   -- `/` = `checked_div(..).expect("Overflow")`
          | Option.none => .panic
          | some i => if s.Holds i then .val i else .overflow
  | .panic => .panic
  | _ => .overflow

/-- `CheckedAdd/Sub/Mul/Div<$type> for Decimal` with an integer right operand (`impl_arith_ops!`):
`self.checked_op(Self::try_from(other).ok()?)`. `op` is 0 add, 1 sub, 2 mul, 3 div. -/
def checkedOpInt (t : Ty) (op : Nat) (a : Int) (s : IntTy) (v : Int) : Option Int :=
  match tryFromInt t s v with
  | .val b =>
    match op with
    | 0 => checkedAdd t a b
    | 1 => checkedSub t a b
    | 2 => checkedMul t a b
    | _ => checkedDiv t a b
  | _ => none

end Radix.Dec
