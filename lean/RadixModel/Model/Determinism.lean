/-
C01 — three logic kernels on which the byte-identity of receipts rests.

(a) `IdAllocator` — transcription of `radix-engine/src/kernel/id_allocator.rs`:
    `next()` fails with `OutOfID` when the `u32` counter is `u32::MAX`, otherwise returns the counter and
    increments it; `next_node_id` hashes `transaction_hash ++ counter.to_le_bytes()`, keeps the lower
    `NodeId::LENGTH` bytes (`Hash::lower_bytes`: the LAST 30 of the 32 bytes) and overwrites byte 0 with
    the entity type. The hash is a parameter `H`.
(b) the emission order of `Track::to_state_updates` is in `Model/Track.lean` (C12's model; imported by
    `Props/C01.lean`, not duplicated here).
(c) `resolveModules` — transcription of `System::resolve_modules` (`system/system_callback.rs`) together
    with `SystemSelfInit::new` (how the `ExecutionConfig` reaches it) and of the module dispatch
    `internal_call_dispatch!` of `system_modules/module_mixer.rs` (which modules see a kernel event, in
    which order, with `?` short-circuit).

Transcription notes
* `EnabledModules` is a `bitflags` set over six single-bit flags. The model keeps one `Bool` per flag
  (`insert` = set, `remove` = clear) and `toBits` maps back to the `u32` using the bit values dumped
  from the compiled tree (`Generated/C01.lean`); that the six flags are distinct single bits — which is
  what makes the `Bool`-record reading of `|=` / `remove` exact — is a side condition re-checked on
  every run (`Props/C01.lean: module_bits_are_distinct_single_bits`).
* `NetworkDefinition`, `CostingParameters`, `LimitParameters`, `SystemVersion`, `CostingModuleConfig`
  are opaque values (`Nat`s): `resolve_modules` only moves them around.
* `create_auth_module(executable)` may reject the transaction; it reads the executable and the system
  version only, never the configuration. It is represented by the parameter `authOk`.
* `executable.costing_parameters()`, `payload_size()`, `num_of_signature_validations()`,
  `unique_hash()` are copied into the modules unchanged and are not represented.
-/
import RadixModel.Generated.C01
namespace Radix.C01
open Radix.Generated

/-! ## (a) IdAllocator -/

structure IdAllocator where
  transactionHash : List UInt8
  nextId : Nat
  deriving Repr, DecidableEq

def IdAllocator.new (h : List UInt8) : IdAllocator := { transactionHash := h, nextId := 0 }

inductive IdErr where
  | outOfId
  /-- `node_id[0] = …` on an empty array: impossible for a 32-byte hash, kept as an explicit outcome -/
  | emptyHash
  deriving Repr, DecidableEq

/-- `u32::to_le_bytes` -/
def le32 (n : Nat) : List UInt8 :=
  [UInt8.ofNat (n % 256), UInt8.ofNat (n / 256 % 256), UInt8.ofNat (n / 65536 % 256), UInt8.ofNat (n / 16777216 % 256)]

/-- `IdAllocator::next` -/
def IdAllocator.next (a : IdAllocator) : Except IdErr (Nat × IdAllocator) :=
  if a.nextId = C01.ID_COUNTER_MAX then .error .outOfId
  else .ok (a.nextId, { a with nextId := a.nextId + 1 })

/-- `Hash::lower_bytes::<{NodeId::LENGTH}>()`: `self.0[(Hash::LENGTH - N)..Hash::LENGTH]` -/
def lowerBytes (h : List UInt8) : List UInt8 := h.drop (C01.HASH_LENGTH - C01.NODE_ID_LENGTH)

/-- the id made from counter value `c`: hash, lower bytes, entity byte installed -/
def mkId (H : List UInt8 → List UInt8) (txHash : List UInt8) (c : Nat) (entity : UInt8) : Except IdErr (List UInt8) :=
  match lowerBytes (H (txHash ++ le32 c)) with
  | [] => .error .emptyHash
  | _ :: rest => .ok (entity :: rest)

/-- `IdAllocator::next_node_id` (= `allocate_node_id` up to the error wrapper). The counter is
consumed before hashing (`self.next()?` is evaluated first). -/
def IdAllocator.nextNodeId (H : List UInt8 → List UInt8) (a : IdAllocator) (entity : UInt8) :
    Except IdErr (List UInt8 × IdAllocator) :=
  match a.next with
  | .error e => .error e
  | .ok (c, a') =>
    match mkId H a.transactionHash c entity with
    | .error e => .error e
    | .ok id => .ok (id, a')

/-- allocate for a whole list of entity types; stops at the first error (the transaction fails there) -/
def IdAllocator.allocAll (H : List UInt8 → List UInt8) : IdAllocator → List UInt8 → Except IdErr (List (List UInt8) × IdAllocator)
  | a, [] => .ok ([], a)
  | a, e :: es =>
    match a.nextNodeId H e with
    | .error err => .error err
    | .ok (id, a') =>
      match IdAllocator.allocAll H a' es with
      | .error err => .error err
      | .ok (ids, a'') => .ok (id :: ids, a'')

/-! ## (c) configuration → modules -/

/-- fields of `ExecutionConfig` (codes as emitted by the harness into `Generated/C01.lean`) -/
inductive CfgField where
  | enableKernelTrace | enableCostBreakdown | executionTrace | enableDebugInformation | systemOverrides
  deriving Repr, DecidableEq

def CfgField.code : CfgField → Nat
  | .enableKernelTrace => 0 | .enableCostBreakdown => 1 | .executionTrace => 2
  | .enableDebugInformation => 3 | .systemOverrides => 4

def CfgField.all : List CfgField :=
  [.enableKernelTrace, .enableCostBreakdown, .executionTrace, .enableDebugInformation, .systemOverrides]

/-- the four settings documented as "do not affect state execution but only affect side effects" -/
def CfgField.isDiagnostic : CfgField → Bool
  | .systemOverrides => false
  | _ => true

/-- fields of `SystemOverrides` -/
inductive OvField where
  | disableCosting | disableLimits | disableAuth | abortWhenLoanRepaid
  | networkDefinition | costingParameters | limitParameters
  deriving Repr, DecidableEq

def OvField.code : OvField → Nat
  | .disableCosting => 0 | .disableLimits => 1 | .disableAuth => 2 | .abortWhenLoanRepaid => 3
  | .networkDefinition => 4 | .costingParameters => 5 | .limitParameters => 6

def OvField.all : List OvField :=
  [.disableCosting, .disableLimits, .disableAuth, .abortWhenLoanRepaid, .networkDefinition,
   .costingParameters, .limitParameters]

/-- fields of `SystemSelfInit` -/
inductive InitField where
  | enableKernelTrace | enableCostBreakdown | executionTrace | enableDebugInformation
  | systemParameters | systemLogicVersion | systemOverrides
  deriving Repr, DecidableEq

def InitField.code : InitField → Nat
  | .enableKernelTrace => 0 | .enableCostBreakdown => 1 | .executionTrace => 2
  | .enableDebugInformation => 3 | .systemParameters => 4 | .systemLogicVersion => 5
  | .systemOverrides => 6

def InitField.all : List InitField :=
  [.enableKernelTrace, .enableCostBreakdown, .executionTrace, .enableDebugInformation,
   .systemParameters, .systemLogicVersion, .systemOverrides]

/-- the `x: execution_config.y` lines of `SystemSelfInit::new` as the model has them -/
def selfInitFromConfig : List (Nat × Nat) :=
  [(InitField.enableKernelTrace.code, CfgField.enableKernelTrace.code),
   (InitField.enableCostBreakdown.code, CfgField.enableCostBreakdown.code),
   (InitField.executionTrace.code, CfgField.executionTrace.code),
   (InitField.enableDebugInformation.code, CfgField.enableDebugInformation.code),
   (InitField.systemOverrides.code, CfgField.systemOverrides.code)]

structure SystemOverrides where
  disableCosting : Bool
  disableLimits : Bool
  disableAuth : Bool
  abortWhenLoanRepaid : Bool
  networkDefinition : Option Nat
  costingParameters : Option Nat
  limitParameters : Option Nat
  deriving Repr, DecidableEq

structure ExecutionConfig where
  enableKernelTrace : Bool
  enableCostBreakdown : Bool
  executionTrace : Option Nat
  enableDebugInformation : Bool
  systemOverrides : Option SystemOverrides
  deriving Repr, DecidableEq

structure SystemParameters where
  networkDefinition : Nat
  costingModuleConfig : Nat
  costingParameters : Nat
  limitParameters : Nat
  deriving Repr, DecidableEq

structure SystemSelfInit where
  enableKernelTrace : Bool
  enableCostBreakdown : Bool
  executionTrace : Option Nat
  enableDebugInformation : Bool
  systemParameters : SystemParameters
  systemLogicVersion : Nat
  systemOverrides : Option SystemOverrides
  deriving Repr, DecidableEq

/-- `SystemSelfInit::new` -/
def SystemSelfInit.new (c : ExecutionConfig) (version : Nat) (params : SystemParameters) : SystemSelfInit :=
  { enableKernelTrace := c.enableKernelTrace
    enableCostBreakdown := c.enableCostBreakdown
    enableDebugInformation := c.enableDebugInformation
    executionTrace := c.executionTrace
    systemOverrides := c.systemOverrides
    systemLogicVersion := version
    systemParameters := params }

/-- `EnabledModules` -/
structure EnabledModules where
  kernelTrace : Bool
  limits : Bool
  costing : Bool
  auth : Bool
  transactionRuntime : Bool
  executionTrace : Bool
  deriving Repr, DecidableEq

def bit (b : Bool) (v : Nat) : Nat := if b then v else 0

/-- `EnabledModules::bits()` -/
def EnabledModules.toBits (m : EnabledModules) : Nat :=
  bit m.kernelTrace C01.KERNEL_TRACE + bit m.limits C01.LIMITS + bit m.costing C01.COSTING +
  bit m.auth C01.AUTH + bit m.transactionRuntime C01.TRANSACTION_RUNTIME +
  bit m.executionTrace C01.EXECUTION_TRACE

/-- what `resolve_modules` builds (the parts of `SystemModuleMixer` that depend on its inputs) -/
structure Resolved where
  enabled : EnabledModules
  /-- `TransactionRuntimeModule.network_definition` -/
  network : Nat
  /-- `SystemLoanFeeReserve::new(costing_parameters, …, abort_when_loan_repaid)` -/
  costingParameters : Nat
  abortWhenLoanRepaid : Bool
  /-- `FeeTable::new(system_logic_version)` -/
  feeTableVersion : Nat
  /-- `CostingModule.config` -/
  costingModuleConfig : Nat
  /-- `LimitsModule::from_params` -/
  limitParameters : Nat
  /-- `CostingModule.cost_breakdown.is_some()` -/
  costBreakdown : Bool
  /-- `CostingModule.detailed_cost_breakdown.is_some()` -/
  detailedCostBreakdown : Bool
  /-- `ExecutionTraceModule::new(execution_trace.unwrap_or(0))` -/
  executionTraceDepth : Nat
  deriving Repr, DecidableEq

inductive ResolveErr where
  /-- `create_auth_module` rejected the executable (receipt: `Reject`) -/
  | authModuleRejected
  deriving Repr, DecidableEq

/-- `System::resolve_modules`. `disableLimitsAndCosting` = `executable.disable_limits_and_costing_modules()`,
`authOk` = `create_auth_module(executable).is_ok()`. -/
def resolveModules (disableLimitsAndCosting : Bool) (authOk : Bool) (i : SystemSelfInit) :
    Except ResolveErr Resolved :=
  let params := i.systemParameters
  -- let mut enabled_modules = AUTH | TRANSACTION_RUNTIME; …
  let en : EnabledModules :=
    { kernelTrace := false, limits := false, costing := false, auth := true,
      transactionRuntime := true, executionTrace := false }
  let en := if !disableLimitsAndCosting then { en with limits := true, costing := true } else en
  let en := if i.enableKernelTrace then { en with kernelTrace := true } else en
  let en := if i.executionTrace.isSome then { en with executionTrace := true } else en
  -- overrides
  let (params, en, abort) :=
    match i.systemOverrides with
    | none => (params, en, false)
    | some o =>
      let params := match o.costingParameters with
        | some c => { params with costingParameters := c } | none => params
      let params := match o.limitParameters with
        | some l => { params with limitParameters := l } | none => params
      let params := match o.networkDefinition with
        | some n => { params with networkDefinition := n } | none => params
      let en := if o.disableAuth then { en with auth := false } else en
      let en := if o.disableCosting then { en with costing := false } else en
      let en := if o.disableLimits then { en with limits := false } else en
      (params, en, o.abortWhenLoanRepaid)
  if !authOk then .error .authModuleRejected
  else
    .ok { enabled := en
          network := params.networkDefinition
          costingParameters := params.costingParameters
          abortWhenLoanRepaid := abort
          feeTableVersion := i.systemLogicVersion
          costingModuleConfig := params.costingModuleConfig
          limitParameters := params.limitParameters
          costBreakdown := i.enableCostBreakdown
          detailedCostBreakdown := i.enableDebugInformation
          executionTraceDepth := (match i.executionTrace with | some d => d | none => 0) }

/-- which `init_input.*` fields the model's `resolveModules` reads (all of them) -/
def resolveReadsInit : List Nat := InitField.all.map InitField.code
/-- which `system_overrides.*` fields it reads (all of them) -/
def resolveReadsOverrides : List Nat := OvField.all.map OvField.code

/-- the state-affecting part of a resolution: everything except the two trace flags, the two
breakdown switches and the trace depth -/
structure StateAffecting where
  limits : Bool
  costing : Bool
  auth : Bool
  transactionRuntime : Bool
  network : Nat
  costingParameters : Nat
  abortWhenLoanRepaid : Bool
  feeTableVersion : Nat
  costingModuleConfig : Nat
  limitParameters : Nat
  deriving Repr, DecidableEq

def Resolved.stateAffecting (r : Resolved) : StateAffecting :=
  { limits := r.enabled.limits, costing := r.enabled.costing, auth := r.enabled.auth
    transactionRuntime := r.enabled.transactionRuntime, network := r.network
    costingParameters := r.costingParameters, abortWhenLoanRepaid := r.abortWhenLoanRepaid
    feeTableVersion := r.feeTableVersion, costingModuleConfig := r.costingModuleConfig
    limitParameters := r.limitParameters }

/-! ### module dispatch (`internal_call_dispatch!`) -/

inductive Module where
  | kernelTrace | limits | costing | auth | transactionRuntime | executionTrace
  deriving Repr, DecidableEq

/-- the order in which `internal_call_dispatch!` offers an event to the modules -/
def dispatchOrder : List Module :=
  [.kernelTrace, .limits, .costing, .auth, .transactionRuntime, .executionTrace]

def EnabledModules.has (en : EnabledModules) : Module → Bool
  | .kernelTrace => en.kernelTrace
  | .limits => en.limits
  | .costing => en.costing
  | .auth => en.auth
  | .transactionRuntime => en.transactionRuntime
  | .executionTrace => en.executionTrace

def Module.isDiagnostic : Module → Bool
  | .kernelTrace => true
  | .executionTrace => true
  | _ => false

/-- offer one event to the listed modules, in order, stopping at the first error (`?`) -/
def dispatchTo {σ ε : Type} (en : EnabledModules) (hook : Module → σ → Except ε σ) :
    List Module → σ → Except ε σ
  | [], s => .ok s
  | m :: ms, s =>
    if en.has m then
      match hook m s with
      | .error e => .error e
      | .ok s' => dispatchTo en hook ms s'
    else dispatchTo en hook ms s

/-- `internal_call_dispatch!(system, fn(args))` -/
def dispatch {σ ε : Type} (en : EnabledModules) (hook : Module → σ → Except ε σ) (s : σ) : Except ε σ :=
  dispatchTo en hook dispatchOrder s

/-- a run of the engine seen from the module mixer: a sequence of kernel events, each first offered
to the modules (`hooks ev`) and then acted upon by the kernel / system (`act ev`) -/
def runEvents {σ ε Ev : Type} (en : EnabledModules) (hooks : Ev → Module → σ → Except ε σ)
    (act : Ev → σ → Except ε σ) : List Ev → σ → Except ε σ
  | [], s => .ok s
  | ev :: evs, s =>
    match dispatch en (hooks ev) s with
    | .error e => .error e
    | .ok s' =>
      match act ev s' with
      | .error e => .error e
      | .ok s'' => runEvents en hooks act evs s''

end Radix.C01
