/-
C02 — model of what happens to a transaction's state changes and events when it does not succeed.

Transcribed code
* `radix-engine/src/system/system_callback.rs`: `create_receipt` (dispatch on the result type),
  `create_commit_receipt` (`if !is_success { revert_royalty; track.revert_non_force_write_changes() }`,
  then `finalize_fees_for_commit`, `update_transaction_tracker`, `runtime_module.finalize(is_success)`,
  `to_state_updates`), the *order and targets of the substate writes* of `finalize_fees_for_commit`
  and `update_transaction_tracker`; `determine_result_type` is `Radix.Fee.determineResultType`
  (Model/FeeReserve.lean, on the real fee-reserve model).
* `radix-engine/src/track/track.rs`: `get_tracked_substate_info`; `force_write` /
  `revert_non_force_write_changes` are `Radix.Track.forceWrite` / `Radix.Track.revert` (Model/Track.lean).
* `radix-engine/src/kernel/substate_io.rs`: `open_substate` with `LockFlags::UNMODIFIED_BASE`
  (refused for `New` / `Updated` substates), `close_substate` (`force_write` iff the lock carries
  `FORCE_WRITE`).
* `radix-engine/src/blueprints/resource/fungible/fungible_vault.rs` `lock_fee`: open the balance
  field with `MUTABLE | UNMODIFIED_BASE | FORCE_WRITE`, read, `take_by_amount`, write, close, then
  `api.lock_fee` (credit + `LockFeeEvent` with `EventFlags::FORCE_WRITE`).
* `radix-engine/src/system/system.rs`: the two guards — `actor_open_field` refuses
  `UNMODIFIED_BASE`/`FORCE_WRITE` unless the actor's blueprint is the fungible vault
  (`InvalidLockFlags`; the key-value entry variants refuse them always), `actor_emit_event` refuses
  `EventFlags::FORCE_WRITE` unless the actor's blueprint is the fungible vault
  (`ForceWriteEventFlagsNotAllowed`).
* `radix-engine/src/system/system_modules/transaction_runtime/module.rs` `finalize`: on failure
  only events carrying `FORCE_WRITE` survive.

Substate values are `Nat`s (as in Model/Track.lean); a vault balance is the value itself.
`none` results are panics (`unwrap`/`expect` in the code).
Core Lean only (linked into the driver).
-/
import RadixModel.Model.Track
import RadixModel.Model.FeeReserve
namespace Radix.FailureCommit
open Radix.KV Radix.SubstateDb Radix.Track

/-- a substate address at database level: node, partition, sort key -/
abbrev Key := Nat × Nat × Nat

/-- `TrackedSubstateInfo` -/
inductive Info where
  | new
  | updated
  | unmodified
  deriving DecidableEq, Repr

/-- `get_tracked_substate_info` -/
def trackedInfo (t : Track) (n p k : Nat) : Info :=
  match lookupTV t n p k with
  | some (.new _) => .new
  | some .garbage => .new
  | some (.writeOnly _) => .updated
  | some (.readExistAndWrite _ _) => .updated
  | some (.readNonExistAndWrite _) => .updated
  | some (.readOnly _) => .unmodified
  | none => .unmodified

/-- application-visible outcome of the balance part of `FungibleVaultBlueprint::lock_fee` -/
inductive LockRes where
  | ok (newBalance : Nat)
  /-- `OpenSubstateError::LockUnmodifiedBaseOnNewSubstate` -/
  | newSubstate
  /-- `OpenSubstateError::LockUnmodifiedBaseOnOnUpdatedSubstate` -/
  | updatedSubstate
  /-- `OpenSubstateError::SubstateFault` (no such substate) -/
  | fault
  /-- `VaultError::LockFeeInsufficientBalance` -/
  | insufficient (balance : Nat)
  deriving DecidableEq, Repr

/-- The store-level effect of `lock_fee` on the vault balance substate `(n,p,k)`:
`open_substate(UNMODIFIED_BASE | FORCE_WRITE | MUTABLE)` → `get_tracked_substate_info` check, load;
`take_by_amount`; `write_substate` → `set_substate`; `close_substate` → `force_write`.
An error leaves the substate loaded but unwritten (the handle is never closed normally, so no
`force_write`). Outer `none` = the `expect` of `force_write` panics. -/
def lockFeeWrite (t : Track) (n p k amount : Nat) : Option (Track × LockRes) :=
  match trackedInfo t n p k with
  | .new => some (t, .newSubstate)
  | .updated => some (t, .updatedSubstate)
  | .unmodified =>
    match getSubstate t n p k with
    | (t1, none) => some (t1, .fault)
    | (t1, some bal) =>
      if bal < amount then some (t1, .insufficient bal)
      else
        match forceWrite (setSubstate t1 n p k (bal - amount)) n p k with
        | none => none
        | some t3 => some (t3, .ok (bal - amount))

/-- `Event` of the transaction runtime module: flag `FORCE_WRITE`, emitter node, event name
(a number; see the constants below), payload -/
structure Event where
  force : Bool
  emitter : Nat
  name : Nat
  payload : Nat
  deriving DecidableEq, Repr

def EV_LOCK_FEE : Nat := 0
def EV_PAY_FEE : Nat := 1
def EV_DEPOSIT : Nat := 2
def EV_BURN : Nat := 3

/-- a fee lock recorded by the fee reserve: the vault balance substate and the locked amount -/
structure Lock where
  n : Nat
  p : Nat
  k : Nat
  amount : Nat
  deriving DecidableEq, Repr

def Lock.key (l : Lock) : Key := (l.n, l.p, l.k)

/-- the part of the transaction state C02 is about -/
structure Tx where
  track : Track
  /-- `TransactionRuntimeModule.events`, in emission order -/
  events : List Event
  /-- `fee_reserve.locked_fees`, in push order -/
  locked : List Lock

def Tx.new (db : Db) : Tx := { track := Track.new db, events := [], locked := [] }

/-- operations of the execution phase that touch the store, the event list or the fee locks -/
inductive TxOp where
  /-- a kernel store call (`CommitableSubstateStore`) -/
  | store (op : Track.Op)
  /-- `FungibleVault::lock_fee` on the vault whose balance substate is `(n,p,k)` -/
  | lockFee (n p k amount : Nat)
  /-- `actor_emit_event` by an actor whose blueprint is / is not the fungible vault -/
  | emit (force : Bool) (actorIsFungibleVault : Bool) (emitter name payload : Nat)
  deriving Repr

inductive TxRes where
  | store (r : Track.Res)
  | lock (r : LockRes)
  | emitted
  /-- `SystemError::ForceWriteEventFlagsNotAllowed` -/
  | forceFlagRefused
  | panic
  deriving Repr

/-- the guard of `actor_open_field`: special lock flags only for the fungible vault blueprint -/
def openFieldFlagsAllowed (unmodifiedBase forceWrite actorIsFungibleVault : Bool) : Bool :=
  !(unmodifiedBase || forceWrite) || actorIsFungibleVault

/-- the guard of `actor_emit_event` -/
def emitFlagsAllowed (force actorIsFungibleVault : Bool) : Bool :=
  !force || actorIsFungibleVault

/-- one step of the execution phase. A panicking call leaves the state unchanged. -/
def txStep (s : Tx) : TxOp → Tx × TxRes
  | .store op => let (t', r) := Track.step s.track op; ({ s with track := t' }, .store r)
  | .lockFee n p k amount =>
    match lockFeeWrite s.track n p k amount with
    | none => (s, .panic)
    | some (t', .ok nb) =>
      -- `api.lock_fee`: credit the reserve, then the `LockFeeEvent` with `EventFlags::FORCE_WRITE`
      ({ track := t'
         events := s.events ++ [{ force := true, emitter := n, name := EV_LOCK_FEE, payload := amount }]
         locked := s.locked ++ [{ n := n, p := p, k := k, amount := amount }] }, .lock (.ok nb))
    | some (t', r) => ({ s with track := t' }, .lock r)
  | .emit force isVault emitter name payload =>
    if emitFlagsAllowed force isVault then
      ({ s with events := s.events ++ [{ force := force, emitter := emitter, name := name, payload := payload }] }, .emitted)
    else (s, .forceFlagRefused)

/-- the execution phase up to the point where it stops (normally, or at a failure: every prefix of
an op list is an op list) -/
def runTx (db : Db) (ops : List TxOp) : Tx := ops.foldl (fun s op => (txStep s op).1) (Tx.new db)

/-! ### finalization -/

/-- substate writes performed by `finalize_fees_for_commit` and `update_transaction_tracker` -/
inductive FinOp where
  /-- `track.read_substate(..).unwrap()` (no write) -/
  | read (n p k : Nat)
  /-- `read_substate(..).unwrap()`, `vault_balance.put(amount)`, `set_substate` -/
  | credit (n p k amount : Nat)
  /-- `set_substate` of a freshly computed value -/
  | put (n p k v : Nat)
  /-- `delete_partition` -/
  | delPart (n p : Nat)
  deriving DecidableEq, Repr

/-- the substate a finalization op writes, if any -/
def FinOp.written : FinOp → Option Key
  | .read _ _ _ => none
  | .credit n p k _ => some (n, p, k)
  | .put n p k _ => some (n, p, k)
  | .delPart _ _ => none

def FinOp.deleted : FinOp → Option (Nat × Nat)
  | .delPart n p => some (n, p)
  | _ => none

/-- `none` = panic (`unwrap` of an absent substate) -/
def finStep (t : Track) : FinOp → Option Track
  | .read n p k =>
    match getSubstate t n p k with
    | (t', some _) => some t'
    | (_, none) => none
  | .credit n p k amount =>
    match getSubstate t n p k with
    | (t', some bal) => some (setSubstate t' n p k (bal + amount))
    | (_, none) => none
  | .put n p k v => some (setSubstate t n p k v)
  | .delPart n p => some (deletePartition t n p)

def finRun (t : Track) : List FinOp → Option Track
  | [] => some t
  | op :: rest =>
    match finStep t op with
    | none => none
    | some t' => finRun t' rest

/-- where the system keeps the fee-related book-keeping -/
structure Sys where
  /-- `CONSENSUS_MANAGER`, `MAIN_BASE_PARTITION` -/
  cmNode : Nat
  cmPart : Nat
  /-- `ConsensusManagerField::State` / `ValidatorRewards` sort keys -/
  cmStateKey : Nat
  cmRewardsKey : Nat
  /-- balance substate of `rewards.rewards_vault` -/
  rewardsVault : Key
  /-- `TRANSACTION_TRACKER`, its `MAIN_BASE_PARTITION` and field key -/
  trNode : Nat
  trPart : Nat
  trFieldKey : Nat
  deriving Repr

/-- numbers computed by the fee reserve finalization (C06) and the tracker (C07) -/
structure FinInput where
  /-- amount taken from each fee lock, in iteration order (`locked_fees.iter().rev()`) -/
  payments : List Nat
  toProposer : Nat
  toValidatorSet : Nat
  toBurn : Nat
  /-- new value of the `ValidatorRewards` field -/
  newRewards : Nat
  /-- intent statuses to record: tracker partition number and sort key of the hash -/
  nullifications : List (Nat × Nat)
  /-- value written as `CommittedFailure` / `CommittedSuccess` -/
  statusValue : Nat
  /-- `Some(discarded_partition)` when the tracker advances -/
  advance : Option Nat
  /-- new value of the tracker field -/
  newTracker : Nat
  /-- `read_epoch_uncosted` found the consensus manager (otherwise no tracker update) -/
  hasEpoch : Bool
  deriving Repr

/-- the "Take fee payments" loop: locks in reverse push order zipped with the amounts taken;
`none` = `take_by_amount(amount).unwrap()` panics, or the lists do not line up -/
def refundOps : List Lock → List Nat → Option (List FinOp × List Event)
  | [], [] => some ([], [])
  | l :: ls, a :: as =>
    if l.amount < a then none else
    match refundOps ls as with
    | none => none
    | some (ops, evs) =>
      some (.credit l.n l.p l.k (l.amount - a) :: ops,
            { force := false, emitter := l.n, name := EV_PAY_FEE, payload := a } :: evs)
  | _, _ => none

/-- `finalize_fees_for_commit` after `revert_royalty` (no royalty distribution on failure; on
success royalties are left to C06/C03): writes and events -/
def feeFinOps (sys : Sys) (locked : List Lock) (fi : FinInput) : Option (List FinOp × List Event) :=
  match refundOps locked.reverse fi.payments with
  | none => none
  | some (ops, evs) =>
    let rewards : List FinOp × List Event :=
      if fi.toProposer ≠ 0 ∨ fi.toValidatorSet ≠ 0 then
        ([.read sys.cmNode sys.cmPart sys.cmStateKey,
          .read sys.cmNode sys.cmPart sys.cmRewardsKey,
          .put sys.cmNode sys.cmPart sys.cmRewardsKey fi.newRewards,
          .credit sys.rewardsVault.1 sys.rewardsVault.2.1 sys.rewardsVault.2.2 (fi.toProposer + fi.toValidatorSet)],
         [{ force := false, emitter := sys.rewardsVault.1, name := EV_DEPOSIT, payload := fi.toProposer + fi.toValidatorSet }])
      else ([], [])
    let burn : List Event :=
      if fi.toBurn > 0 then [{ force := false, emitter := 0, name := EV_BURN, payload := fi.toBurn }] else []
    some (ops ++ rewards.1, evs ++ rewards.2 ++ burn)

/-- `update_transaction_tracker` -/
def trackerFinOps (sys : Sys) (fi : FinInput) : List FinOp :=
  if fi.hasEpoch then
    [.read sys.trNode sys.trPart sys.trFieldKey]
      ++ fi.nullifications.map (fun ph => .put sys.trNode ph.1 ph.2 fi.statusValue)
      ++ (match fi.advance with | some old => [.delPart sys.trNode old] | none => [])
      ++ [.put sys.trNode sys.trPart sys.trFieldKey fi.newTracker]
  else []

/-- `TransactionRuntimeModule::finalize(is_success)` (event replacements are the identity here) -/
def filterEvents (isSuccess : Bool) (evs : List Event) : List Event :=
  evs.filter (fun e => e.force || isSuccess)

inductive Receipt where
  /-- `TransactionResult::Commit`: outcome, new node ids, state updates, application events -/
  | commit (success : Bool) (newNodes : List Nat) (updates : DbUpdates) (events : List Event)
  | reject
  | abort
  | panic
  deriving Repr

/-- `create_commit_receipt` -/
def commitReceipt (isSuccess : Bool) (s : Tx) (sys : Sys) (fi : FinInput) : Receipt :=
  let reverted : Option Track := if isSuccess then some s.track else revert s.track
  match reverted with
  | none => .panic
  | some t1 =>
    match feeFinOps sys s.locked fi with
    | none => .panic
    | some (fops, fevs) =>
      match finRun t1 (fops ++ trackerFinOps sys fi) with
      | none => .panic
      | some t2 =>
        let su := toStateUpdates t2
        .commit isSuccess su.1 su.2 (filterEvents isSuccess s.events ++ fevs)

/-- `create_receipt` after `determine_result_type` -/
def createReceipt (cls : Radix.Fee.ResultType) (s : Tx) (sys : Sys) (fi : FinInput) : Receipt :=
  match cls with
  | .reject => .reject
  | .abort => .abort
  | .panic => .panic
  | .commitSuccess => commitReceipt true s sys fi
  | .commitFailure => commitReceipt false s sys fi

/-- what the ledger does with a receipt (`if let TransactionResult::Commit(c) = .. { db.commit(..) }`) -/
def applyReceipt (db : Db) : Receipt → Db
  | .commit _ _ su _ => db.commit su
  | _ => db

end Radix.FailureCommit
