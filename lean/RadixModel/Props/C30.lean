import RadixModel.Model.ManifestValue
namespace Radix.Manifest
end Radix.Manifest
