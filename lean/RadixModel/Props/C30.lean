/-
C30 — Decompiled manifests compile back to the same manifest (partial).

Full statement: for every transaction, subintent or system manifest `m`,
`compile(decompile(m)) = m` (instructions, argument values, blobs, address reservations, named
objects, child subintents).  At the level of one argument value the planned theorem is

    compile_decompile_value :  WellFormed v → depth v ≤ PARSER_MAX_DEPTH →
        compileValue (printValue esc v true 0) = .ok v

It is NOT proved here.  What is proved are the pieces of it that carry the arithmetic / text-level
risk (for all inputs), over the executable model of printer, lexer, parser and generator that the
correspondence run compares with the real code on every check (printed text byte-for-byte, and the
outcome of tokenize → parse_value → generate_value):

* `string_escape_roundtrip_partial` — the lexer's string loop decodes the escaper's output back to
  the original string, for every string and every escaping predicate (the Unicode table is a
  parameter), for characters escaped through a single `\uXXXX` unit; the surrogate-pair branch is
  covered by `surrogate_pair_arithmetic` (the two code-unit formulas are mutually inverse) and by
  correspondence (the kernel check of the full lexer term for that branch exceeds the recursion
  limit, see the report);
* `unicode_unit_roundtrip`, `bytes_hex_roundtrip`, `non_fungible_global_id_split`;
* `kind_names_agree` — the value-kind spelling table of the model is the one of the compiled tree.
Instructions, names, blobs, children, all four manifest kinds: oracle on the real
`decompile`/`compile_manifest` (area c30m).
-/
import RadixModel.Model.ManifestValue
import RadixModel.Lemmas.ManifestValue
namespace Radix.Manifest

/-- The spelling of every `ManifestValueKind` in the model is `format_value_kind` of the compiled tree. -/
theorem value_kind_names_agree : MKind.all.map MKind.name = Radix.Generated.C30.kindNames := kind_names_agree

/-- **Escaper round trip** (partial: characters that the predicate escapes must be in the BMP).
Lexing `escape(s)"rest` inside a string literal yields exactly `s` and stops at the closing quote,
whatever the escaping predicate is. -/
theorem string_escape_roundtrip_partial (esc : Char → Bool) (s : List Char)
    (hs : ∀ c ∈ s, c.toNat < 0x10000 ∨ esc c = false) (rest : List Char) (p : Pos) :
    strLoop (escapeBody esc s ++ '"' :: rest) p = .ok (s, ⟨'"' :: rest, advanceBy p (escapeBody esc s)⟩) :=
  strLoop_escapeBody_partial esc s hs rest p

/-- non-vacuity: quotes, backslashes, control characters, a non-ASCII char escaped as `\u00e9` -/
example : ∀ c ∈ ['a', '"', '\\', '\n', 'é'], c.toNat < 0x10000 ∨ (fun _ => true) c = false := by decide

/-- Whole string literal: `tokenize_string` on `"` ++ escape(s) ++ `"` gives the token `s`. -/
theorem lexString_escapeString_partial (esc : Char → Bool) (s : List Char)
    (hs : ∀ c ∈ s, c.toNat < 0x10000 ∨ esc c = false) (rest : List Char) (p : Pos) :
    ∃ q, lexString ⟨escapeString esc s ++ rest, p⟩ = .ok (⟨.str s, ⟨p, q⟩⟩, ⟨rest, q⟩) := by
  have h := strLoop_escapeBody_partial esc s hs rest (p.advance '"')
  refine ⟨(advanceBy (p.advance '"') (escapeBody esc s)).advance '"', ?_⟩
  simp only [escapeString, List.cons_append, List.nil_append, List.append_assoc, lexString, advance]
  rw [h]

/-- The four hex digits printed for a UTF-16 unit are read back as that unit. -/
theorem unicode_unit_roundtrip (u : Nat) (hu : u < 65536) (rest : List Char) (p : Pos) :
    ∃ q, readUnit ⟨(unitEscape u).drop 2 ++ rest, p⟩ = .ok (u, ⟨rest, q⟩) :=
  ⟨_, readUnit_unitEscape u hu rest p⟩

/-- The surrogate-pair formulas of `format_json_utf16_escaped_char` and of the lexer are inverse. -/
theorem surrogate_pair_arithmetic (n : Nat) (h1 : 0x10000 ≤ n) (h2 : n ≤ 0x10FFFF) :
    let hi := 0xD800 + (n - 0x10000) / 1024
    let lo := 0xDC00 + (n - 0x10000) % 1024
    hi < 65536 ∧ lo < 65536 ∧ (0xD800 ≤ hi ∧ hi ≤ 0xDFFF) ∧ 0x10000 + (hi - 0xD800) * 1024 + lo - 0xDC00 = n :=
  surrogate_pair_roundtrip n h1 h2

/-- `Bytes("…")`: `hex::decode` of the printed hex digits gives the bytes back. -/
theorem bytes_hex_roundtrip (bs : List Nat) (h : ∀ b ∈ bs, b < 256) : hexDecode (bs.flatMap hexByte) = some bs :=
  hexDecode_hexBytes bs h

example : ∀ b ∈ [0, 255, 16], b < 256 := by decide

/-- `NonFungibleGlobalId("<address>:<id>")`: the generator's split at the first colon recovers the
two parts when the address text has no colon (bech32 has none). -/
theorem non_fungible_global_id_split (a i : List Char) (h : ':' ∉ a) : splitAtColon (a ++ ':' :: i) = some (a, i) :=
  splitAtColon_append a i h

example : ':' ∉ "resource_sim1qq".toList := by decide

end Radix.Manifest
