/-
C05 — The stored ledger is always well-formed (PARTIAL).

Full statement (properties.jsonl): after any history of committed transactions every stored internal
object is owned by exactly one stored parent, stored values reference only global entities, every
stored entity has state, every stored value conforms to its schema, every address's entity type
matches the blueprint of the object stored there, and role assignments are valid.

What is a theorem here (about `Model/Ownership.lean`, the transcription of the kernel's call-frame /
substate-IO ownership rules, for ALL states, queues, fuels and diffs — no bounds):

* `move_to_store_spec` / `move_subtree_closed`: one `move_node_from_heap_to_store` moves a whole
  subtree or fails: afterwards the root is in the store, every node that changed device went
  heap → store, has only global references, and all nodes it owns are in the store too; no substate
  value, no other node and not the frame's owned set is touched (so no owner is gained or lost).
* `take_nodes_exact`: a value's added owns are taken from the frame exactly once each (an owned node
  cannot be put under two parents, nor under a parent while a substate of it is open).
* `store_diff_checks`: a diff applied to a *store* substate succeeds only if it removes no owned node
  (`CantDropNodeInStore`) and adds only global references, and then every added own is in the store.
* `create_global_refs_global`, `write_store_refs_global`: the references written into a store
  substate by `create_node` of a global node / `write_substate` on a store substate are all global.
* `entity_class_matches_allocation`, `dedicated_global_type_identifies_blueprint`,
  `dedicated_internal_type_identifies_blueprint`, `entity_type_matches_blueprint`: the blueprint →
  entity-type table of `system/id_allocation.rs`, regenerated from the compiled tree on every run.

What is NOT a theorem (explored on the implementation only):

* the global invariant `forest_inv` over arbitrary op lists:
    ∀ ops s, run ops init = .ok s →
      (∀ n, Stored s n → ¬ isGlobal n → ∃! (p,k), p stored ∧ n ∈ owns (sub p k)) ∧
      (∀ p k v, stored p → sub p k = v → ∀ r ∈ v.refs, isGlobal r) ∧ (every owned node exists).
  It is FALSE for the kernel alone: `kernel_alone_not_sufficient` below is a machine-checked
  counter-example on the model (reproduced on the real kernel by corpus/C05/c05-ghost.ops): the queue
  loop of `move_node_from_heap_to_store` does not check for open substates of the moved descendants
  (the code's own `TODO: Add locked substate checks … the system layer currently maintains the
  invariant`), so a descendant that was opened through a since-removed non-global reference keeps a
  heap-device handle after it was persisted.  The invariant therefore needs the side condition "no
  node with an open substate is moved" (plus: an open handle mirrors its substate, which follows from
  lock exclusivity, C13); proving the step lemmas under that discipline is not done here.  The
  kernel-level oracle of harness area `c05` evaluates the full forest invariant on the real heap/track
  after every call of every generated sequence (whose generator keeps that discipline), and area
  `c05e` runs the repo's Kernel/System/RoleAssignment database checkers after every commit
  of generated engine histories.
* payload-vs-schema conformance and role validity: not modelled at all (checkers only, area `c05e`).
-/
import RadixModel.Lemmas.Ownership
import RadixModel.Generated.C05

namespace Radix.Own

open Radix.Locks (upd)
open Radix.Generated.C05

/-! ### moving a subtree into the store -/

/-- `move_node_from_heap_to_store(n)` (for every state): on success the frame's owned set, the set of
existing nodes and every substate value are unchanged; node `n` is in the store; every node either
keeps its device or went heap → store, and then all its references are global and all its owned
nodes are in the store. -/
theorem move_to_store_spec (s s' : St) (n : Nat) (h : moveToStore s n = .ok s') :
    s'.owned = s.owned ∧
    (∀ p, s.node p = none → s'.node p = none) ∧
    (∀ p nd, s.node p = some nd →
      s'.node p = some nd ∨
      (nd.dev = .heap ∧ s'.node p = some ⟨.store, nd.subs⟩ ∧ AllRefsGlobal nd.subs ∧
        ChildrenStored s' nd.subs)) ∧
    Stored s' n := by
  obtain ⟨a, _, _, _, b, c, d⟩ := moveLoop_spec _ _ _ _ h
  exact ⟨a, b, c, d n (by simp)⟩

/-- Closure: if before the move every store node's owned nodes were in the store, the same holds
after it — a persisted node never keeps a child on the heap. -/
theorem move_subtree_closed (s s' : St) (n : Nat) (h : moveToStore s n = .ok s')
    (hc : ∀ p subs, s.node p = some ⟨.store, subs⟩ → ChildrenStored s subs) :
    ∀ p subs, s'.node p = some ⟨.store, subs⟩ → ChildrenStored s' subs := by
  obtain ⟨_, hnone, hsome, _⟩ := move_to_store_spec s s' n h
  -- stored nodes stay stored
  have mono : ∀ o, Stored s o → Stored s' o := by
    rintro o ⟨subs, ho⟩
    rcases hsome o _ ho with h1 | ⟨h1, _⟩
    · exact ⟨subs, h1⟩
    · cases h1
  intro p subs hp
  cases hs : s.node p with
  | none => rw [hnone p hs] at hp; cases hp
  | some nd =>
    rcases hsome p nd hs with h1 | ⟨_, h2, _, h4⟩
    · rw [h1] at hp
      cases hp
      intro kv hkv o ho
      exact mono o (hc p subs hs kv hkv o ho)
    · rw [h2] at hp
      cases hp
      exact h4

example : ∃ s s', moveToStore s 2 = .ok s' ∧ Stored s' 1 ∧ Stored s' 2 :=
  ⟨{ init with node := fun p => if p = 1 then some ⟨.heap, [(0, ⟨[], [100]⟩)]⟩
                                 else if p = 2 then some ⟨.heap, [(0, ⟨[1], []⟩)]⟩ else none,
               created := [2, 1] }, _, rfl, ⟨_, rfl⟩, ⟨_, rfl⟩⟩

/-! ### taking owned nodes -/

/-- `take_node_internal` for all added owns of a diff: success iff-direction facts — every taken node
was owned by the frame and had no open substate, no node is taken twice, and afterwards the frame
owns exactly the nodes it owned before minus the taken ones (nothing else changes). -/
theorem take_nodes_exact (xs : List Nat) (s s' : St) (h : takeAll xs s = .ok s') :
    s'.node = s.node ∧ xs.Nodup ∧ (∀ x ∈ xs, x ∈ s.owned ∧ nodeIsLocked s x = false) ∧
    (∀ y, y ∈ s'.owned ↔ (y ∈ s.owned ∧ y ∉ xs)) := by
  obtain ⟨a, _, _, _, e, f, g⟩ := takeAll_spec xs s s' h
  exact ⟨a, e, f, g⟩

example : takeAll [1, 1] { init with owned := [1] } = .error .ownNotFound := rfl

/-! ### diffs on store substates -/

theorem moveAll_mono : ∀ (xs : List Nat) (s s' : St), moveAll xs s = .ok s' →
    ∀ x, Stored s x → Stored s' x := by
  intro xs
  induction xs with
  | nil => intro s s' h x hx; simp only [moveAll, Except.ok.injEq] at h; subst h; exact hx
  | cons a r ih =>
    intro s s' h x hx
    simp only [moveAll] at h
    split at h
    · cases h
    next s1 h1 =>
      apply ih _ _ h
      obtain ⟨subs, hx⟩ := hx
      rcases (move_to_store_spec _ _ _ h1).2.2.1 x _ hx with h3 | ⟨h3, _⟩
      · exact ⟨subs, h3⟩
      · cases h3

theorem moveAll_stored : ∀ (xs : List Nat) (s s' : St), moveAll xs s = .ok s' →
    ∀ x ∈ xs, Stored s' x := by
  intro xs
  induction xs with
  | nil => intro s s' _ x hx; cases hx
  | cons a r ih =>
    intro s s' h x hx
    simp only [moveAll] at h
    split at h
    · cases h
    next s1 h1 =>
      rcases List.mem_cons.mp hx with e | hx'
      · subst e
        exact moveAll_mono _ _ _ h x (move_to_store_spec _ _ _ h1).2.2.2
      · exact ih _ _ h x hx'

/-- `process_substate_diff` on a STORE substate succeeds only if no owned node is removed, every added
reference is global, and then every added owned node is in the store. -/
theorem store_diff_checks (ao ro ar rr : List Nat) (s s' : St)
    (h : processDiff .store ao ro ar rr s = .ok s') :
    ro = [] ∧ (∀ r ∈ ar, isGlobal r = true) ∧ (∀ o ∈ ao, Stored s' o) := by
  simp only [processDiff] at h
  split at h
  · cases h
  next s1 _ =>
    split at h
    · cases h
    · split at h
      · cases h
      next s4 h4 =>
        split at h
        · cases h
        next hro =>
          split at h
          · cases h
          next har =>
            split at h
            · cases h
            · simp only [Except.ok.injEq] at h
              subst h
              refine ⟨?_, ?_, moveAll_stored _ _ _ h4⟩
              · cases ro with
                | nil => rfl
                | cons a b => simp at hro
              · intro r hr
                have : (ar.any fun r => !isGlobal r) = false := by simpa using har
                rw [List.any_eq_false] at this
                simpa using this r hr

example : processDiff .store [] [] [100] [] { init with stable := fun n => n == 100 } =
    .ok (stableGlobals { init with stable := fun n => n == 100 } []) := rfl

theorem mem_dedup (x : Nat) : ∀ l : List Nat, x ∈ dedup l ↔ x ∈ l := by
  intro l
  induction l with
  | nil => simp [dedup]
  | cons a r ih =>
    simp only [dedup, List.mem_cons, List.mem_filter, bne_iff_ne, ne_eq, ih]
    constructor
    · rintro (h | ⟨h, _⟩)
      · exact Or.inl h
      · exact Or.inr h
    · rintro (h | h)
      · exact Or.inl h
      · by_cases e : x = a
        · exact Or.inl e
        · exact Or.inr ⟨h, e⟩

theorem processNew_store_refs : ∀ (vals : List (Nat × Val)) (s s' : St),
    processNew .store vals s = .ok s' → AllRefsGlobal vals := by
  intro vals
  induction vals with
  | nil => intro _ _ _ kv hkv; cases hkv
  | cons a r ih =>
    intro s s' h
    obtain ⟨k, v⟩ := a
    simp only [processNew] at h
    split at h
    · cases h
    · split at h
      · cases h
      next s1 h1 =>
        have hg := (store_diff_checks _ _ _ _ _ _ h1).2.1
        intro kv hkv
        rcases List.mem_cons.mp hkv with e | hkv'
        · subst e
          intro x hx
          exact hg x ((mem_dedup x v.refs).mpr hx)
        · exact ih _ _ h kv hkv'

/-- `create_node` of a GLOBAL node: on success the node is in the store with exactly the given
substates and none of them references a non-global node. -/
theorem create_global_refs_global (s s' : St) (n : Nat) (vals : List (Nat × Val))
    (hg : isGlobal n = true) (h : create s n vals = .ok s') :
    s'.node n = some ⟨.store, vals⟩ ∧ AllRefsGlobal vals := by
  simp only [create, hg, if_true] at h
  split at h
  · cases h
  · split at h
    · cases h
    · split at h
      · cases h
      next s1 h1 =>
        simp only [Except.ok.injEq] at h
        subst h
        exact ⟨by simp [upd], processNew_store_refs _ _ _ h1⟩

example : ∃ s', create { init with stable := fun n => n == 101 } 100 [(0, ⟨[], [101]⟩)] = .ok s' :=
  ⟨_, rfl⟩

/-- `write_substate` through a handle on a STORE substate: on success every reference of the written
value that the handle did not already hold is global, and no owned node was dropped from it. -/
theorem write_store_refs_global (s s' : St) (h : Nat) (v : Val) (o : Open)
    (ho : findOpen h s.opens = some o) (hd : o.dev = .store) (hw : writeSub s h v = .ok s') :
    (∀ r ∈ v.refs, r ∈ o.refs ∨ isGlobal r = true) ∧ (∀ x ∈ o.owns, x ∈ v.owns) := by
  simp only [writeSub, ho] at hw
  split at hw
  · cases hw
  · split at hw
    · cases hw
    · split at hw
      · cases hw
      next s1 h1 =>
        rw [hd] at h1
        obtain ⟨hro, har, _⟩ := store_diff_checks _ _ _ _ _ _ h1
        constructor
        · intro r hr
          by_cases hc : r ∈ o.refs
          · exact Or.inl hc
          · right
            apply har
            simp only [List.mem_filter, Bool.not_eq_eq_eq_not, Bool.not_true]
            exact ⟨(mem_dedup r v.refs).mpr hr, by simpa using hc⟩
        · intro x hx
          by_cases hc : x ∈ v.owns
          · exact hc
          · exfalso
            have : x ∈ o.owns.filter (fun x => !v.owns.contains x) := by
              simp only [List.mem_filter, Bool.not_eq_eq_eq_not, Bool.not_true]
              exact ⟨hx, by simpa using hc⟩
            rw [hro] at this
            cases this

/-! ### the kernel alone does not maintain the forest -/

/-- A store node that owns a heap node (checked over the given node ids). -/
def storeOwnsHeap (s : St) (ids : List Nat) : Bool :=
  ids.any fun p => match s.node p with
    | some ⟨.store, subs⟩ => subs.any fun kv => kv.2.owns.any fun o =>
        match s.node o with
        | some ⟨.heap, _⟩ => true
        | _ => false
    | _ => false

/-- the call sequence of corpus/C05/c05-ghost.ops -/
def ghostOps : List Op :=
  [ .create 5 [(0, ⟨[], []⟩)], .create 6 [(0, ⟨[], [5]⟩)], .create 7 [(0, ⟨[5], []⟩)],
    .openSub 6 0 true, .openSub 5 0 true, .write 0 ⟨[], []⟩, .close 0,
    .create 100 [(0, ⟨[7], []⟩)], .write 1 ⟨[6], []⟩, .close 1 ]

/-- Machine-checked counter-example: ten successful kernel calls after which a node that is already
persisted (5, under global 100) owns a heap node (6) that no frame owns.  So the forest invariant is
not a theorem about the kernel calls alone; it needs the system-layer discipline that no node with an
open substate is moved to the store. -/
theorem kernel_alone_not_sufficient :
    (match run ghostOps init with
      | .ok s => storeOwnsHeap s [5, 6, 7, 100] && s.owned.isEmpty
      | .error _ => false) = true := by
  decide

/-! ### blueprint → entity type (system/id_allocation.rs, regenerated table) -/

/-- Every blueprint is given a *global* entity type when allocated as a global object and an
*internal* one when allocated as an owned object (`EntityType::is_global/is_internal` as compiled). -/
theorem entity_class_matches_allocation :
    ∀ row ∈ entityTable, row.2.2.1 ∈ globalEntityBytes ∧ row.2.2.2 ∈ internalEntityBytes := by
  decide +kernel

def dedicatedGlobalInjective : Bool :=
  entityTable.all fun a => entityTable.all fun b =>
    a.2.2.1 == etGlobalGenericComponent || a.2.2.1 != b.2.2.1 || (a.1 == b.1 && a.2.1 == b.2.1)

def dedicatedInternalInjective : Bool :=
  entityTable.all fun a => entityTable.all fun b =>
    a.2.2.2 == etInternalGenericComponent || a.2.2.2 != b.2.2.2 || (a.1 == b.1 && a.2.1 == b.2.1)

theorem dedicatedGlobalInjective_true : dedicatedGlobalInjective = true := by decide +kernel
theorem dedicatedInternalInjective_true : dedicatedInternalInjective = true := by decide +kernel

/-- A dedicated (non-generic) global entity type is given to exactly one (package, blueprint): the
entity-type byte of a global address identifies the native blueprint stored there. -/
theorem dedicated_global_type_identifies_blueprint :
    ∀ a ∈ entityTable, ∀ b ∈ entityTable, a.2.2.1 = b.2.2.1 → a.2.2.1 ≠ etGlobalGenericComponent →
      a.1 = b.1 ∧ a.2.1 = b.2.1 := by
  intro a ha b hb e hne
  have h := dedicatedGlobalInjective_true
  simp only [dedicatedGlobalInjective, List.all_eq_true] at h
  have := h a ha b hb
  simp only [Bool.or_eq_true, bne_iff_ne, ne_eq, beq_iff_eq, Bool.and_eq_true] at this
  rcases this with (h1 | h1) | h1
  · exact absurd h1 hne
  · exact absurd e h1
  · exact h1

/-- The same for internal entity types (the two vault types). -/
theorem dedicated_internal_type_identifies_blueprint :
    ∀ a ∈ entityTable, ∀ b ∈ entityTable, a.2.2.2 = b.2.2.2 → a.2.2.2 ≠ etInternalGenericComponent →
      a.1 = b.1 ∧ a.2.1 = b.2.1 := by
  intro a ha b hb e hne
  have h := dedicatedInternalInjective_true
  simp only [dedicatedInternalInjective, List.all_eq_true] at h
  have := h a ha b hb
  simp only [Bool.or_eq_true, bne_iff_ne, ne_eq, beq_iff_eq, Bool.and_eq_true] at this
  rcases this with (h1 | h1) | h1
  · exact absurd h1 hne
  · exact absurd e h1
  · exact h1

/-- The specification of the table: the thirteen native global blueprints and the two vault blueprints
have their dedicated entity types, everything else is a generic component (package index, blueprint
index as in `Generated.C05.packageNames` / `blueprintNames`). -/
def expectedGlobal (pkg bp : Nat) : Nat :=
  match pkg, bp with
  | 0, 0 => etGlobalPackage
  | 1, 1 => etGlobalFungibleResourceManager
  | 1, 2 => etGlobalNonFungibleResourceManager
  | 4, 11 => etGlobalConsensusManager
  | 4, 12 => etGlobalValidator
  | 5, 13 => etGlobalAccessController
  | 2, 14 => etGlobalAccount
  | 3, 15 => etGlobalIdentity
  | 6, 16 => etGlobalOneResourcePool
  | 6, 17 => etGlobalTwoResourcePool
  | 6, 18 => etGlobalMultiResourcePool
  | 14, 19 => etGlobalAccountLocker
  | _, _ => etGlobalGenericComponent

def expectedInternal (pkg bp : Nat) : Nat :=
  match pkg, bp with
  | 1, 3 => etInternalFungibleVault
  | 1, 4 => etInternalNonFungibleVault
  | _, _ => etInternalGenericComponent

theorem entity_type_matches_blueprint :
    ∀ row ∈ entityTable,
      row.2.2.1 = expectedGlobal row.1 row.2.1 ∧ row.2.2.2 = expectedInternal row.1 row.2.1 := by
  decide +kernel

theorem table_is_complete : entityTable.length = nPackages * nBlueprints := by decide +kernel

end Radix.Own
