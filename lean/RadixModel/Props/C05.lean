import RadixModel.Model.Ownership
namespace Radix.Own
theorem placeholder_c05 : init.owned = [] := rfl
end Radix.Own
