/-
C16 — Database key mapping is reversible and preserves sorted-index order.

Property theorems only.  Model: `RadixModel/Model/KeyMapper.lean` (transcription of
`SpreadPrefixKeyMapper`), lemmas: `RadixModel/Lemmas/KeyMapper.lean`.

The hash is an arbitrary function `H` with `HashLen H` (`|H x| = Hash::LENGTH`); nothing else is
assumed about it (in particular no collision freeness).  `HASHED_PREFIX_LENGTH`, `NodeId::LENGTH`
and `Hash::LENGTH` are the regenerated constants of `Generated/C16.lean`; the side conditions
`HPL ≤ HASH_LEN` and `2 ≤ HPL` are decided against them on every build.
-/
import RadixModel.Model.KeyMapper
import RadixModel.Lemmas.KeyMapper

namespace Radix.KeyMapper

/-! ## Round trips (to-functions never panic, from ∘ to = id) -/

/-- Node ids: `from_db_node_key (to_db_node_key n) = n` for every 30-byte node id. -/
theorem node_roundtrip {H} (hH : HashLen H) (node : Bytes) (hn : node.length = NODE_LEN) :
    ∃ k, toDbNodeKey H node = some k ∧ k.length = HPL + NODE_LEN ∧ fromDbNodeKey k = some node := by
  refine ⟨hp H node ++ node, toHashPrefixed_eq hH node, by simp [hp_length hH, hn], ?_⟩
  simp [fromDbNodeKey, fromHashPrefixed_append _ _ (hp_length hH node), copyArray, hn]

example : ∃ H : Bytes → Bytes, HashLen H := ⟨fun _ => List.replicate HASH_LEN 7, by intro x; simp⟩

theorem partition_roundtrip (p : UInt8) : fromDbPartitionNum (toDbPartitionNum p) = p := rfl

theorem field_roundtrip (f : UInt8) : fieldFromDbSortKey (fieldToDbSortKey f) = some f := rfl

theorem map_roundtrip {H} (hH : HashLen H) (m : Bytes) :
    ∃ k, mapToDbSortKey H m = some k ∧ k.length = HPL + m.length ∧ mapFromDbSortKey k = some m :=
  ⟨hp H m ++ m, toHashPrefixed_eq hH m, by simp [hp_length hH],
    fromHashPrefixed_append _ _ (hp_length hH m)⟩

theorem sorted_roundtrip {H} (hH : HashLen H) (p m : Bytes) (hp2 : p.length = 2) :
    ∃ k, sortedToDbSortKey H p m = some k ∧ k.length = 2 + HPL + m.length ∧
      k.take 2 = p ∧ sortedFromDbSortKey k = some (p, m) := by
  refine ⟨p ++ (hp H m ++ m), by simp [sortedToDbSortKey, toHashPrefixed_eq hH m],
    by simp [hp_length hH, hp2]; omega, List.take_left' hp2, ?_⟩
  simp [sortedFromDbSortKey, sliceTo, sliceFrom, List.take_left' hp2, List.drop_left' hp2,
    copyArray, hp2, fromHashPrefixed_append _ _ (hp_length hH m)]

/-- `to_db_sort_key` never panics and `from_db_sort_key::<K>` inverts it, for every substate key. -/
theorem sort_key_roundtrip {H} (hH : HashLen H) (key : SKey) (hw : key.wf) :
    ∃ k, toDbSortKey H key = some k ∧ fromDbSortKey key.kind k = some key := by
  cases key with
  | field f => exact ⟨_, rfl, rfl⟩
  | map m =>
    obtain ⟨k, h1, _, h2⟩ := map_roundtrip hH m
    exact ⟨k, h1, by simp [fromDbSortKey, SKey.kind, h2]⟩
  | sorted p m =>
    obtain ⟨k, h1, _, _, h2⟩ := sorted_roundtrip hH p m hw
    exact ⟨k, h1, by simp [fromDbSortKey, SKey.kind, h2]⟩

/-- The full database key `(node key, partition number, sort key)` maps back to the logical key. -/
theorem db_key_roundtrip {H} (hH : HashLen H) (node : Bytes) (pn : UInt8) (key : SKey)
    (hn : node.length = NODE_LEN) (hw : key.wf) :
    ∃ dk, toDbKey H node pn key = some dk ∧ fromDbKey key.kind dk = some (node, pn, key) := by
  obtain ⟨nk, h1, _, h2⟩ := node_roundtrip hH node hn
  obtain ⟨sk, h3, h4⟩ := sort_key_roundtrip hH key hw
  exact ⟨(nk, pn, sk), by simp [toDbKey, h1, h3, toDbPartitionNum],
    by simp [fromDbKey, h2, h4, fromDbPartitionNum]⟩

example : (SKey.sorted [0, 1] [9, 9]).wf := rfl

/-! ## Exactly when the from-functions panic (they are partial on arbitrary database bytes) -/

theorem from_node_spec (k : Bytes) :
    fromDbNodeKey k = if k.length = HPL + NODE_LEN then some (k.drop HPL) else none := by
  simp only [fromDbNodeKey, fromHashPrefixed_eq, copyArray]
  by_cases h : HPL ≤ k.length
  · simp only [h, if_true, List.length_drop]
    by_cases h2 : k.length = HPL + NODE_LEN
    · simp [h2]
    · have : ¬ (k.length - HPL = NODE_LEN) := by omega
      simp [h2, this]
  · have : ¬ (k.length = HPL + NODE_LEN) := by omega
    simp [h, this]

theorem from_field_spec (k : Bytes) : fieldFromDbSortKey k = k.head? := by
  cases k <;> rfl

theorem from_map_spec (k : Bytes) :
    mapFromDbSortKey k = if HPL ≤ k.length then some (k.drop HPL) else none :=
  fromHashPrefixed_eq k

theorem from_sorted_spec (k : Bytes) :
    sortedFromDbSortKey k =
      if 2 + HPL ≤ k.length then some (k.take 2, k.drop (2 + HPL)) else none := by
  simp only [sortedFromDbSortKey, sliceTo, sliceFrom, fromHashPrefixed_eq, copyArray]
  by_cases h2 : 2 ≤ k.length
  · have ht : (k.take 2).length = 2 := by simp [List.length_take]; omega
    simp only [h2, if_true, ht, List.length_drop]
    by_cases h3 : 2 + HPL ≤ k.length
    · have : HPL ≤ k.length - 2 := by omega
      have h4 : HPL + 2 ≤ k.length := by omega
      simp [h4, this, List.drop_drop, Nat.add_comm]
    · have : ¬ HPL ≤ k.length - 2 := by omega
      simp [h3, this]
  · have : ¬ 2 + HPL ≤ k.length := by omega
    simp [h2, this]

/-! ## Injectivity -/

theorem node_key_injective {H} (hH : HashLen H) (n₁ n₂ : Bytes)
    (h₁ : n₁.length = NODE_LEN) (h₂ : n₂.length = NODE_LEN)
    (h : toDbNodeKey H n₁ = toDbNodeKey H n₂) : n₁ = n₂ := by
  obtain ⟨k₁, e₁, _, r₁⟩ := node_roundtrip hH n₁ h₁
  obtain ⟨k₂, e₂, _, r₂⟩ := node_roundtrip hH n₂ h₂
  rw [e₁, e₂] at h
  cases h
  rw [r₁] at r₂
  exact Option.some.inj r₂

/-- Sort keys of the same kind: distinct logical keys have distinct database sort keys
(no assumption on the hash beyond its length). -/
theorem sort_key_injective_same_kind {H} (hH : HashLen H) (k₁ k₂ : SKey) (hw₁ : k₁.wf) (hw₂ : k₂.wf)
    (hk : k₁.kind = k₂.kind) (h : toDbSortKey H k₁ = toDbSortKey H k₂) : k₁ = k₂ := by
  obtain ⟨d₁, e₁, r₁⟩ := sort_key_roundtrip hH k₁ hw₁
  obtain ⟨d₂, e₂, r₂⟩ := sort_key_roundtrip hH k₂ hw₂
  rw [e₁, e₂] at h
  cases h
  rw [hk, r₂] at r₁
  exact (Option.some.inj r₁).symm

/-- The explicit hash coincidence that a Map key `m` and a Sorted key `(p, k)` with the same database
sort key would exhibit: `m` is `k` preceded by the last two bytes of `k`'s hashed prefix, and the hashed
prefix of `m` is `p` followed by the first `HPL - 2` bytes of the hashed prefix of `k`. -/
def MapSortedCoincidence (H : Bytes → Bytes) (m p k : Bytes) : Prop :=
  m = (hp H k).drop (HPL - 2) ++ k ∧ hp H m = p ++ (hp H k).take (HPL - 2)

/-- Collision extraction for the only possible cross-kind overlap (Map vs Sorted). -/
theorem map_sorted_overlap_extract {H} (hH : HashLen H) (m p k : Bytes) (hp2 : p.length = 2)
    (h : mapToDbSortKey H m = sortedToDbSortKey H p k) : MapSortedCoincidence H m p k := by
  simp only [mapToDbSortKey, sortedToDbSortKey, toHashPrefixed_eq hH, Option.some.injEq] at h
  have lm := hp_length hH m
  have lk := hp_length hH k
  have h2 := two_le_HPL
  -- split the hashed prefix of k into its first HPL-2 bytes and last 2 bytes
  have hsplit : hp H k = (hp H k).take (HPL - 2) ++ (hp H k).drop (HPL - 2) :=
    (List.take_append_drop _ _).symm
  have h' : hp H m ++ m = (p ++ (hp H k).take (HPL - 2)) ++ ((hp H k).drop (HPL - 2) ++ k) := by
    rw [h, List.append_assoc, ← List.append_assoc (List.take _ _), ← hsplit]
  have hl : (hp H m).length = (p ++ (hp H k).take (HPL - 2)).length := by
    simp [lm, hp2, List.length_take, lk]; omega
  have := List.append_inj h' hl
  exact ⟨this.2, this.1⟩

/-- Distinct logical substate keys never share a database sort key — except for the Map/Sorted
overlap, which requires the explicit hash coincidence above (in the engine a partition holds keys of a
single kind, so the same-kind theorem is the operative one). -/
theorem sort_key_injective {H} (hH : HashLen H) (k₁ k₂ : SKey) (hw₁ : k₁.wf) (hw₂ : k₂.wf)
    (h : toDbSortKey H k₁ = toDbSortKey H k₂) :
    k₁ = k₂ ∨
    (∃ m p k, ((k₁ = .map m ∧ k₂ = .sorted p k) ∨ (k₂ = .map m ∧ k₁ = .sorted p k)) ∧
      MapSortedCoincidence H m p k) := by
  have h1 := one_lt_HPL
  cases k₁ with
  | field f₁ =>
    cases k₂ with
    | field f₂ => exact Or.inl (sort_key_injective_same_kind hH _ _ hw₁ hw₂ rfl h)
    | map m =>
      exfalso
      simp only [toDbSortKey, fieldToDbSortKey, mapToDbSortKey, toHashPrefixed_eq hH, Option.some.injEq] at h
      have := congrArg List.length h
      simp [hp_length hH] at this; omega
    | sorted p k =>
      exfalso
      simp only [toDbSortKey, fieldToDbSortKey, sortedToDbSortKey, toHashPrefixed_eq hH, Option.some.injEq] at h
      have := congrArg List.length h
      simp [hp_length hH] at this; omega
  | map m₁ =>
    cases k₂ with
    | field f =>
      exfalso
      simp only [toDbSortKey, fieldToDbSortKey, mapToDbSortKey, toHashPrefixed_eq hH, Option.some.injEq] at h
      have := congrArg List.length h
      simp [hp_length hH] at this; omega
    | map m₂ => exact Or.inl (sort_key_injective_same_kind hH _ _ hw₁ hw₂ rfl h)
    | sorted p k =>
      exact Or.inr ⟨m₁, p, k, Or.inl ⟨rfl, rfl⟩, map_sorted_overlap_extract hH m₁ p k hw₂ h⟩
  | sorted p₁ k₁ =>
    cases k₂ with
    | field f =>
      exfalso
      simp only [toDbSortKey, fieldToDbSortKey, sortedToDbSortKey, toHashPrefixed_eq hH, Option.some.injEq] at h
      have := congrArg List.length h
      simp [hp_length hH] at this; omega
    | map m =>
      exact Or.inr ⟨m, p₁, k₁, Or.inr ⟨rfl, rfl⟩, map_sorted_overlap_extract hH m p₁ k₁ hw₁ h.symm⟩
    | sorted p₂ k₂ => exact Or.inl (sort_key_injective_same_kind hH _ _ hw₁ hw₂ rfl h)

/-- Full database keys: same database key ⇒ same node, same partition, and same substate key (keys of
one kind, as within a partition). -/
theorem db_key_injective {H} (hH : HashLen H) (n₁ n₂ : Bytes) (p₁ p₂ : UInt8) (k₁ k₂ : SKey)
    (hn₁ : n₁.length = NODE_LEN) (hn₂ : n₂.length = NODE_LEN) (hw₁ : k₁.wf) (hw₂ : k₂.wf)
    (hk : k₁.kind = k₂.kind)
    (h : toDbKey H n₁ p₁ k₁ = toDbKey H n₂ p₂ k₂) : n₁ = n₂ ∧ p₁ = p₂ ∧ k₁ = k₂ := by
  obtain ⟨d₁, e₁, r₁⟩ := db_key_roundtrip hH n₁ p₁ k₁ hn₁ hw₁
  obtain ⟨d₂, e₂, r₂⟩ := db_key_roundtrip hH n₂ p₂ k₂ hn₂ hw₂
  rw [e₁, e₂] at h
  cases h
  rw [hk, r₂] at r₁
  have := Option.some.inj r₁
  simp only [Prod.mk.injEq] at this
  exact ⟨this.1.symm, this.2.1.symm, this.2.2.symm⟩

/-! ## Order of sorted keys -/

/-- `sorted_order`: the database orders sorted substates first by their 2-byte sort prefix —
whatever the rest of the keys and whatever the hash. -/
theorem sorted_order {H} (hH : HashLen H) (p₁ p₂ k₁ k₂ : Bytes)
    (h₁ : p₁.length = 2) (h₂ : p₂.length = 2) (hlt : lexLt p₁ p₂ = true) :
    ∃ a b, sortedToDbSortKey H p₁ k₁ = some a ∧ sortedToDbSortKey H p₂ k₂ = some b ∧
      lexLt a b = true ∧ a < b := by
  refine ⟨p₁ ++ (hp H k₁ ++ k₁), p₂ ++ (hp H k₂ ++ k₂),
    by simp [sortedToDbSortKey, toHashPrefixed_eq hH], by simp [sortedToDbSortKey, toHashPrefixed_eq hH], ?_⟩
  have := lexLt_append_of_lt p₁ p₂ (by omega) hlt (hp H k₁ ++ k₁) (hp H k₂ ++ k₂)
  exact ⟨this, (lexLt_iff_lt _ _).1 this⟩

/-- The same for `u16` sort prefixes written big-endian (`u16::to_be_bytes`, as the validator-set
index does): a numerically smaller prefix always comes first in the database. -/
theorem sorted_order_u16 {H} (hH : HashLen H) (a b : Nat) (k₁ k₂ : Bytes) (hb : b < 65536) (hab : a < b) :
    ∃ x y, sortedToDbSortKey H (be16 a) k₁ = some x ∧ sortedToDbSortKey H (be16 b) k₂ = some y ∧ x < y := by
  obtain ⟨x, y, hx, hy, _, hlt⟩ := sorted_order hH (be16 a) (be16 b) k₁ k₂ rfl rfl (be16_lt hb hab)
  exact ⟨x, y, hx, hy, hlt⟩

/-- Conversely, database order never inverts prefix order: if `dbkey(p₁,k₁) < dbkey(p₂,k₂)` then `p₁ ≤ p₂`. -/
theorem sorted_order_reflects {H} (hH : HashLen H) (p₁ p₂ k₁ k₂ a b : Bytes)
    (h₁ : p₁.length = 2) (h₂ : p₂.length = 2)
    (ha : sortedToDbSortKey H p₁ k₁ = some a) (hb : sortedToDbSortKey H p₂ k₂ = some b)
    (hlt : lexLt a b = true) : lexLt p₂ p₁ = false := by
  cases hc : lexLt p₂ p₁ with
  | false => rfl
  | true =>
    obtain ⟨b', a', hb', ha', hlt', _⟩ := sorted_order hH p₂ p₁ k₂ k₁ h₂ h₁ hc
    rw [ha] at ha'; rw [hb] at hb'
    cases ha'; cases hb'
    rw [lexLt_asymm _ _ hlt'] at hlt
    exact absurd hlt (by simp)

/-- With equal prefixes the order is that of the hash-prefixed remainders (no claim relative to the
plain keys — that is the point of the spreading). -/
theorem sorted_same_prefix {H} (hH : HashLen H) (p k₁ k₂ : Bytes) :
    ∃ a b, sortedToDbSortKey H p k₁ = some a ∧ sortedToDbSortKey H p k₂ = some b ∧
      lexLt a b = lexLt (hp H k₁ ++ k₁) (hp H k₂ ++ k₂) :=
  ⟨p ++ (hp H k₁ ++ k₁), p ++ (hp H k₂ ++ k₂), by simp [sortedToDbSortKey, toHashPrefixed_eq hH],
    by simp [sortedToDbSortKey, toHashPrefixed_eq hH], lexLt_append_same _ _ _⟩

/-- `lexLt` is a strict total order (so "the database order" is well defined). -/
theorem lexLt_strict_total (a b c : Bytes) :
    lexLt a a = false ∧ (lexLt a b = true → lexLt b c = true → lexLt a c = true) ∧
    (lexLt a b = true ∨ a = b ∨ lexLt b a = true) :=
  ⟨lexLt_irrefl a, lexLt_trans a b c, lexLt_total a b⟩

example : lexLt (be16 255) (be16 256) = true := by decide

end Radix.KeyMapper
