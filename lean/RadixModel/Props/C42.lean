/-
C42 — Validator staking and emissions never create value.

Property theorems only. Model: `RadixModel/Model/Staking.lean`; helper lemmas: `RadixModel/Lemmas/Staking.lean`.
All amounts are `Int` attos; `T` = XRD in the validator's stake vault, `S` = stake unit total supply.
-/
import RadixModel.Model.Staking
import RadixModel.Lemmas.Staking
import RadixModel.Lemmas.StakingEmission

namespace Radix.Staking

/-! ## 1. Stake units are minted in proportion, claims are at most the proportional share -/

/-- `calculate_stake_unit_amount`: with a non-empty stake vault the minted units `u` satisfy
`u / S ≤ x / T` (cross-multiplied, exact). -/
theorem units_le_proportional {x T S u : Int} (h : stakeUnits x T S = some u) (hx : 0 ≤ x) (hT : 0 < T)
    (hS : 0 ≤ S) : 0 ≤ u ∧ u * T ≤ x * S :=
  stakeUnits_spec h hx hT hS

example : stakeUnits 1000 3000 1000 = some 333 := by decide

/-- `calculate_redemption_value`: the XRD `y` for `u` units satisfies `y / T ≤ u / S`. -/
theorem claim_le_share {u T S y : Int} (h : redemption u T S = some y) (hu : 0 ≤ u) (hT : 0 ≤ T) (hS : 0 < S) :
    0 ≤ y ∧ y * S ≤ u * T :=
  redemption_spec h hu hT hS

example : redemption 333 4000 1333 = some 999 := by decide

/-- Staking `x` XRD and immediately unstaking the minted units never yields more than `x`
(in every state of the validator: empty vault, empty supply, or both non-empty). -/
theorem stake_unstake_no_gain {x T S u y : Int} (hs : stakeUnits x T S = some u)
    (hr : redemption u (T + x) (S + u) = some y) (hx : 0 ≤ x) (hT : 0 ≤ T) (hS : 0 ≤ S) : y ≤ x := by
  rcases lt_or_eq_of_le hT with hTpos | hT0
  · -- non-empty stake vault
    obtain ⟨hu0, hprop⟩ := stakeUnits_spec hs hx hTpos hS
    rcases lt_or_eq_of_le (add_nonneg hS hu0) with hpos | hzero
    · obtain ⟨_, hshare⟩ := redemption_spec hr hu0 (by linarith) hpos
      have key : y * (S + u) ≤ x * (S + u) := by nlinarith
      exact le_of_mul_le_mul_right key hpos
    · rw [← hzero] at hr
      rw [redemption_zero_supply hr]; exact hx
  · -- empty stake vault: units = xrd
    subst hT0
    have hux : u = x := by
      unfold stakeUnits at hs; simp only [ite_true] at hs; cases hs; rfl
    subst hux
    rcases lt_or_eq_of_le (add_nonneg hS hx) with hpos | hzero
    · obtain ⟨_, hshare⟩ := redemption_spec hr hx (by linarith) hpos
      have h0 : y * (S + u) ≤ u * (0 + u) := hshare
      have hSu : 0 ≤ S * u := mul_nonneg hS hx
      have key : y * (S + u) ≤ u * (S + u) := by nlinarith
      exact le_of_mul_le_mul_right key hpos
    · rw [← hzero] at hr
      rw [redemption_zero_supply hr]; exact hx

/-- The state machine version: a successful `stake x` followed at once by `unstake` of the minted
units creates a claim of at most `x`. -/
theorem val_stake_unstake_no_gain {v v1 v2 : Val} {x u y : Int} {e n : Nat}
    (h1 : v.stake x = .ok (v1, u)) (h2 : v1.unstake u e n = .ok (v2, y))
    (hx : 0 ≤ x) (hT : 0 ≤ v.T) (hS : 0 ≤ v.S) : y ≤ x := by
  unfold Val.stake at h1
  cases hs : stakeUnits x v.T v.S with
  | none => rw [hs] at h1; cases h1
  | some u' =>
    rw [hs] at h1
    simp only at h1
    split at h1
    · cases h1
    · cases h1
      unfold Val.unstake at h2
      simp only at h2
      cases hr : redemption u (v.T + x) (v.S + u) with
      | none => rw [hr] at h2; cases h2
      | some y' =>
        rw [hr] at h2
        simp only at h2
        split at h2
        · cases h2
        · cases h2
          exact stake_unstake_no_gain hs hr hx hT hS

/-- A claim pays exactly the amount recorded at unstake time and only from the pending vault, which
the unstake filled with that amount: `claim` never takes more than is pending. -/
theorem claim_pays_recorded {v v' : Val} {i e : Nat} {y : Int} (h : v.claim i e = .ok (v', y)) :
    (∃ c, v.claims[i]? = some c ∧ c.amount = y ∧ c.epoch ≤ e) ∧ v'.P = v.P - y ∧ y ≤ v.P ∧ v'.T = v.T := by
  unfold Val.claim at h
  split at h
  · cases h
  · rename_i c hc
    split at h
    · cases h
    · rename_i hne
      split at h
      · cases h
      · rename_i hlt
        cases h
        exact ⟨⟨c, hc, rfl, Nat.le_of_not_lt hne⟩, rfl, not_lt.mp hlt, rfl⟩

/-! ## 2. The sort prefix orders validators by stake (higher stake, smaller-or-equal prefix) -/

theorem prefix_antitone {a b : Int} {pa pb : Nat} (ha : 0 ≤ a) (hab : a ≤ b)
    (h1 : sortPrefix a = some pa) (h2 : sortPrefix b = some pb) : pb ≤ pa := by
  have hone := ONE_pos
  have h100k : (0 : Int) < 100000 * ONE := by positivity
  have hoo : (0 : Int) < ONE * ONE := by positivity
  unfold sortPrefix at h1 h2
  cases hda : dDiv a (100000 * ONE) with
  | none => rw [hda] at h1; cases h1
  | some sa =>
    cases hdb : dDiv b (100000 * ONE) with
    | none => rw [hdb] at h2; cases h2
    | some sb =>
      rw [hda] at h1; rw [hdb] at h2
      simp only at h1 h2
      cases hwa : dDiv sa (ONE * ONE) with
      | none => rw [hwa] at h1; cases h1
      | some wa =>
        cases hwb : dDiv sb (ONE * ONE) with
        | none => rw [hwb] at h2; cases h2
        | some wb =>
          rw [hwa] at h1; rw [hwb] at h2
          simp only at h1 h2
          -- monotonicity of the two truncating divisions
          have sa_eq : sa = (a * ONE) / (100000 * ONE) := by
            unfold dDiv at hda; simp only [ne_of_gt h100k, ite_false] at hda
            rw [chk_eq hda, Int.tdiv_eq_ediv_of_nonneg (mul_nonneg ha (le_of_lt hone))]
          have sb_eq : sb = (b * ONE) / (100000 * ONE) := by
            unfold dDiv at hdb; simp only [ne_of_gt h100k, ite_false] at hdb
            rw [chk_eq hdb, Int.tdiv_eq_ediv_of_nonneg (mul_nonneg (le_trans ha hab) (le_of_lt hone))]
          have hsab : sa ≤ sb := by
            rw [sa_eq, sb_eq]
            exact Int.ediv_le_ediv h100k (mul_le_mul_of_nonneg_right hab (le_of_lt hone))
          have hsa0 : 0 ≤ sa := by rw [sa_eq]; exact Int.ediv_nonneg (mul_nonneg ha (le_of_lt hone)) (le_of_lt h100k)
          have wa_eq : wa = (sa * ONE) / (ONE * ONE) := by
            unfold dDiv at hwa; simp only [ne_of_gt hoo, ite_false] at hwa
            rw [chk_eq hwa, Int.tdiv_eq_ediv_of_nonneg (mul_nonneg hsa0 (le_of_lt hone))]
          have wb_eq : wb = (sb * ONE) / (ONE * ONE) := by
            unfold dDiv at hwb; simp only [ne_of_gt hoo, ite_false] at hwb
            rw [chk_eq hwb, Int.tdiv_eq_ediv_of_nonneg (mul_nonneg (le_trans hsa0 hsab) (le_of_lt hone))]
          have hwab : wa ≤ wb := by
            rw [wa_eq, wb_eq]
            exact Int.ediv_le_ediv hoo (mul_le_mul_of_nonneg_right hsab (le_of_lt hone))
          have hwa0 : 0 ≤ wa := by rw [wa_eq]; exact Int.ediv_nonneg (mul_nonneg hsa0 (le_of_lt hone)) (le_of_lt hoo)
          split at h2
          · cases h2; exact Nat.zero_le _
          · rename_i hb65
            split at h2
            · cases h2
            · cases h2
              split at h1
              · rename_i ha65; exfalso; linarith
              · split at h1
                · cases h1
                · cases h1
                  omega

example : sortPrefix (250000 * ONE) = some 65533 := by decide
example : sortPrefix (99999 * ONE) = some 65535 := by decide

/-! ## 3. Emissions and rewards -/

/-- The emissions computed for a concluded epoch (every validator's
`effective_stake * (E / Σ stake)`, all truncations as in the code) are non-negative and sum to at
most the configured `total_emission_xrd_per_epoch`; this sum is exactly what `epoch_change` mints. -/
theorem emission_total_le_config {E minRel : Int} {set : List Member} {r : List (Member × Int × Int)}
    (h : emissions E minRel set = some r) (hE : 0 ≤ E) :
    sumList (r.map (fun x => x.2.2)) ≤ E ∧ ∀ x ∈ r, 0 ≤ x.2.2 :=
  emissions_le_config h hE

example : emissions 10000000000000000000 200000000000000000
    [{ label := 0, stake := 500 * ONE, made := 1, missed := 3 }, { label := 1, stake := 500 * ONE, made := 4, missed := 0 }]
    = some [({ label := 0, stake := 500 * ONE, made := 1, missed := 3 }, 31250000000000000000, 312500000000000000),
            ({ label := 1, stake := 500 * ONE, made := 4, missed := 0 }, 500 * ONE, 5000000000000000000)] := by decide

/-- The same at the level of the epoch change of the state machine: the reported emissions sum to at
most the configured amount. -/
theorem epoch_emissions_le_config {s s' : Sys} {l : Nat} {gaps : List Nat} {ems : List (Nat × Int)}
    (h : s.epochChange l gaps = .ok (s', ems)) (hE : 0 ≤ s.cfg.E) :
    sumList (ems.map (fun x => x.2)) ≤ s.cfg.E := by
  unfold Sys.epochChange at h
  split at h
  · cases h
  · split at h
    · cases h
    · rename_i r hr
      split at h
      · cases h
      · cases h
        have := (emissions_le_config hr hE).1
        rw [List.map_map]
        exact this

/-- Reward split (`as_proposer + effective_stake * ((vault - Σ proposer) / Σ effective)`): the total
handed out is at most the rewards vault, when the recorded proposer rewards are covered by the vault.
(The engine takes every reward out of the vault, so a violation would fail the transaction; the
theorem shows the split itself never asks for more.) -/
theorem rewards_total_le_vault {vault : Int} {l : List (Member × Int × Int)} {r : List (Member × Int)}
    (h : rewards vault l = some r) (hl : ∀ x ∈ l, 0 ≤ x.2.1)
    (hcov : sumList (l.map (fun x => x.2.2)) ≤ vault) :
    sumList (r.map (fun x => x.2)) ≤ vault :=
  rewards_le_vault h hl hcov

example : rewards 1000 [({ label := 0, stake := 5, made := 0, missed := 0 }, 3 * ONE, 100),
                        ({ label := 1, stake := 5, made := 0, missed := 0 }, 4 * ONE, 50)]
    = some [({ label := 0, stake := 5, made := 0, missed := 0 }, 463), ({ label := 1, stake := 5, made := 0, missed := 0 }, 534)] := by decide

/-! ## 4. The next validator set: registered validators with non-zero stake, by stake, bounded -/

/-- `selectSet` keeps at most `maxV` entries, only entries of the index, ordered by stake descending. -/
theorem select_bounded_subset_sorted (maxV : Nat) (index : List Entry) :
    (selectSet maxV index).length ≤ maxV ∧
    (∀ e ∈ selectSet maxV index, e ∈ index) ∧
    Sorted (fun a b => decide (a.stake ≥ b.stake)) (selectSet maxV index) := by
  unfold selectSet
  refine ⟨by simp [List.length_take], ?_, ?_⟩
  · intro e he
    have h1 := List.mem_of_mem_take he
    rw [mem_sortBy] at h1
    have h2 := List.mem_of_mem_take h1
    rwa [mem_sortBy] at h2
  · apply sorted_take
    apply sorted_sortBy
    · intro a b
      simp only [decide_eq_true_eq]
      exact le_total b.stake a.stake
    · intro a b c hab hbc
      simp only [decide_eq_true_eq, ge_iff_le] at *
      exact le_trans hbc hab

/-- every entry of the index built from the validator states is a registered validator with
non-zero stake, recorded with its current stake -/
theorem index_entries_registered_nonzero (vals : List Val) : ∀ (n : Nat) (e : Entry), e ∈ indexOf vals n →
    ∃ v, vals[e.label]? = some v ∧ v.registered = true ∧ v.T ≠ 0 ∧ e.stake = v.T
  | 0, e, h => by simp [indexOf] at h
  | n + 1, e, h => by
    simp only [indexOf] at h
    split at h
    · rename_i v hv
      split at h
      · rename_i hreg
        split at h
        · rename_i p hp
          rcases List.mem_append.mp h with h | h
          · exact index_entries_registered_nonzero vals n e h
          · simp only [List.mem_singleton] at h
            subst h
            simp only [Bool.and_eq_true, bne_iff_ne, ne_eq] at hreg
            exact ⟨v, hv, hreg.1, hreg.2, rfl⟩
        · exact index_entries_registered_nonzero vals n e h
      · exact index_entries_registered_nonzero vals n e h
    · exact index_entries_registered_nonzero vals n e h

/-- The active set chosen by an epoch change consists of registered validators with non-zero stake
(in the post-emission state), ordered by stake descending, at most `max_validators` of them. -/
theorem active_set_registered_nonzero_sorted_bounded {s s' : Sys} {l : Nat} {gaps : List Nat}
    {ems : List (Nat × Int)} (h : s.epochChange l gaps = .ok (s', ems)) :
    s'.set.length ≤ s.cfg.maxV ∧
    (∀ m ∈ s'.set, ∃ v, s'.vals[m.label]? = some v ∧ v.registered = true ∧ v.T ≠ 0 ∧ m.stake = v.T) ∧
    Sorted (fun a b => decide (a.stake ≥ b.stake)) (s'.set.map (fun m => ({ pfx := 0, label := m.label, stake := m.stake } : Entry))) := by
  unfold Sys.epochChange at h
  split at h
  · cases h
  · split at h
    · cases h
    · split at h
      · cases h
      · rename_i vals hv
        cases h
        have sel := select_bounded_subset_sorted s.cfg.maxV (indexOf vals vals.length)
        refine ⟨by simp only [List.length_map]; exact sel.1, ?_, ?_⟩
        · intro m hm
          simp only [List.mem_map] at hm
          obtain ⟨e, he, rfl⟩ := hm
          exact index_entries_registered_nonzero vals vals.length e (sel.2.1 e he)
        · simp only [List.map_map]
          exact sorted_map_stake _ sel.2.2

end Radix.Staking
